FIX_COMMITS = []
import subprocess
for l in subprocess.run(["git", "-C", "/repo", "log", "--format=%h %s", "f2dae16..HEAD"], capture_output=True, text=True).stdout.splitlines():
    if l.split(" ", 1)[1].startswith("fix:"):
        FIX_COMMITS.append(l)

claim("C06",
      "Lean theorem C06.predicate: the mirrored should_emit_entry equals the documented predicate for every four lists and every option map "
      "(plus call-site and no-trace theorems in Props/C06.lean). Tie to the code: byte-equal outputs of model and implementation on the exhaustive "
      "truth-table lattice over all six entry kinds and on random documents; the predicate is also monitored on the implementation alone: its outputs "
      "for a document must equal (up to blank lines) those for the document with every excluded entry deleted and every included entry made "
      "unconditional (pruning computed by the Lean spec), and an unmentioned option must change nothing.",
      "Lean 4 proof of the predicate + differential correspondence + metamorphic pruning monitor", "DESIGN.md §8 C06")
claim("C12",
      "Lean theorems (Props/C12.lean): the dependency text of the ordinary, main-partial and per-segment partial writers is depsText of the expanded "
      "target and the duplicate-free list of exactly the paths of the script's input statements; shape of the text. Tie to the code: byte-equal outputs on "
      "random documents, the Lean predicate C12.holds evaluated on the implementation's own .d text versus its own script, and the files written by "
      "save_other_files (per-segment .d files of partial mode) compared with the model's file system.",
      "Lean 4 proof over the writer model + differential correspondence incl. file exports", "DESIGN.md §8 C12")
