FIX_COMMITS = []
import subprocess
for l in subprocess.run(["git", "-C", "/repo", "log", "--format=%h %s", "f2dae16..HEAD"], capture_output=True, text=True).stdout.splitlines():
    if l.split(" ", 1)[1].startswith("fix:"):
        FIX_COMMITS.append(l)

claim("C06",
      "Lean theorems: C06.predicate (the mirrored should_emit_entry equals the documented predicate for every four lists and option map); "
      "no_trace / no_trace_partial (Props/C06Trace.lean): the script generated from the document with every excluded entry deleted - excluded "
      "segments, file entries at every nesting depth, gp_info, symbol assignments, required symbols, asserts - equals, up to empty lines, the "
      "script generated from the document, in ordinary (multi-segment) and partial mode, errors included, and with it the header and the "
      "dependency file (same_header_and_deps); the proof needs that more fuel never changes a result of the emitter (emitEntry_fuel_succ) and "
      "that the real bound always suffices (C19); unmentioned_options_change_nothing: two option maps that agree on every key named by a "
      "condition list or a {key} marker of the document generate identical outputs in both modes. Single-segment mode is outside no_trace (the "
      "sole segment's condition is not evaluated there). Tie to the code: byte-equal outputs of model and implementation on the exhaustive "
      "truth-table lattice over all six entry kinds and on random documents; the property is also monitored on the implementation alone: its "
      "outputs for a document must equal (up to blank lines) those for the document with every excluded entry deleted and every included entry "
      "made unconditional (pruning computed by the Lean spec), and an unmentioned option must change nothing. Props/C06Src.lean (translator tie): shouldEmit_src - the model's predicate equals the statement-by-statement translation of the body of RuntimeSettings::should_emit_entry that tools/extract_logic.py regenerates from /repo's current runtime_settings.rs on every run; source_is_documented - that translation is the documented predicate. The check also follows generation errors: a document whose generation fails must fail in the same way with its excluded entries deleted.",
      "Lean 4 proofs of the predicate, of no-trace (deletion) and of unmentioned options + differential correspondence + metamorphic pruning monitor",
      "DESIGN.md §8 C06")
claim("C12",
      "Lean theorems (Props/C12.lean): the dependency text of the ordinary, main-partial and per-segment partial writers is depsText of the expanded "
      "target and the duplicate-free list of exactly the paths of the script's input statements; shape of the text. Tie to the code: byte-equal outputs on "
      "random documents, the Lean predicate C12.holds evaluated on the implementation's own .d text versus its own script, and the files written by "
      "save_other_files (per-segment .d files of partial mode) compared with the model's file system.",
      "Lean 4 proof over the writer model + differential correspondence incl. file exports", "DESIGN.md §8 C12")

claim("C08",
      "Lean theorems (Props/C08.lean): segment_resolution and settings_resolution prove that each of the twelve overridable options of a parsed "
      "segment / of the parsed settings is given by one declarative table (own value; null disables the six nullable ones and is rejected for the "
      "others; absent inherits the level above, the top level being the documented defaults); other_defaults covers every non-overridable "
      "setting; explicit_shields proves that explicitly restated values resolve to themselves whatever the level above says (restating is the "
      "identity, global changes never reach an overriding segment). Props/C08Src.lean: defaults_are_the_sources - the model's default Settings record "
      "equals, field by field, the record lean/Src/Tables.lean holds, which tools/extract_tables.py regenerates from the settings_default_* "
      "functions and `impl Default for Settings` of /repo's current settings.rs on every run (translator tie). Tie to the code: byte-equal outputs on the full 12 x 4 x 4 lattice and on random "
      "documents; on the implementation alone every case is re-run with all effective values restated on every segment and all global values "
      "replaced, and must give identical outputs.",
      "Lean 4 proof of the resolution table + differential correspondence + restate/shield metamorphic monitor", "DESIGN.md §8 C08")
claim("C13",
      "Lean theorems (Props/C13.lean): the header is headerText of the two header settings and the recorded linker symbols (both modes); the "
      "recorded list is duplicate-free and a name is in it iff the script holds an unconditional plain assignment written as a linker symbol "
      "(so every declared name is defined); user assignments, ENTRY/EXTERN/ASSERT, _gp and __romPos are never recorded. Tie to the code: byte-equal "
      "outputs on random documents and the Lean predicate C13.holds on the implementation's own header versus its own script (declared names = "
      "symbols generated inside SECTIONS, type and [] suffix as configured, include guard intact). Image theorem image_declared_are_defined "
      "(over the Lean linker semantics): every declared name is in the symbol table of the image - an assignment in front of /DISCARD/ always "
      "defines its symbol and nothing removes one.",
      "Lean 4 proof over the writer model + differential correspondence + predicate on implementation outputs", "DESIGN.md §8 C13")
claim("C14",
      "Lean theorem C14.passes_refine / parse_eq_specParse (Props/C14.lean, by mutual structural induction on the nested entry type): parsing with the "
      "three keep_sections push-down passes of the code equals parsing the explicitly written values only and then giving every entry the nearest "
      "explicit value among itself, its enclosing groups innermost-first, its segment and the segment's class. Tie to the code: byte-equal outputs "
      "on the {absent,true,false,list}^5 lattice and random nested documents; the KEEP flag of every input statement the implementation emits is "
      "compared with the one generated from the top-down resolved document (ordinary and per-segment partial scripts).",
      "Lean 4 proof (mutual induction) of pass-down = nearest ancestor + differential correspondence", "DESIGN.md §8 C14")

claim("C07",
      "Lean theorems (Props/C07.lean): escapePath_spec proves that the mirrored escape_path (fast path, no-brace path and character scanner) "
      "equals the declarative expansion — tokenise each component into literal characters, {key} markers and an unterminated tail; replace every "
      "marker — for every path text and option map; source_tokLit (tokenisation loses no character), expand_value (a successful result is exactly "
      "the concatenation of every literal, every value and every unterminated tail: never truncated or partially expanded), expand_error_iff "
      "(failure iff some referenced key is missing: never rejects a fully provided path); generate_spec lifts this to every output. Tie to the code: "
      "byte-equal outputs and equal accept/reject on a 22-pattern x 9-field brace lattice and random documents, paths of the implementation's scripts "
      "and .d files compared with a generation that uses the declarative expansion, and the locations/targets written by the file exports compared "
      "with the model's file system. std::path joining (components/push/Display) is a hand model validated only differentially.",
      "Lean 4 proof scanner = declarative expansion + differential correspondence incl. file exports", "DESIGN.md §8 C07")
claim("C17",
      "Lean theorems (Props/C17.lean): top_statements — what add_whole_document writes after SECTIONS is, as text, exactly ENTRY, one wrapped "
      "assignment per included symbol assignment in document order, EXTERN+ASSERT(DEFINED) per included required symbol, one ASSERT per included "
      "assert; gp_position — a gp_info _gp sits after both start alignments and directly before the group's start symbol iff included and naming "
      "that section; hardcoded_gp; no_gp_in_partial_scripts. Tie to the code: byte-equal outputs, and the Lean predicate C17.holds evaluated on the "
      "implementation's own script text (top-level statements, number/form/position of _gp definitions, none in partial sub-scripts). Image theorem "
      "image_gp_value (over the Lean linker semantics Slinkyv.Ld, validated against GNU ld on every linked case): behind the group's statements "
      "_gp holds the group start (after both start alignments) plus offset, 32-bit. The link-time meaning of EXTERN/ASSERT/PROVIDE is GNU ld's and "
      "is exercised only by the ld-lab runs (partial). Props/C17Final.lean, final_gp_value / final_gp_value_partial: in the image of the whole ordinary script and of the main script of partial mode, `_gp` is the value of the start symbol of the group of the gp_info section plus the offset (32-bit), for `_gp` and that symbol assigned once. Props/C17Src.lean: ENTRY / EXTERN / ASSERT / the required-symbol texts / both `_gp` forms are format! of the templates in /repo's current sources.",
      "Lean 4 proof over the writer model + differential correspondence + text predicate on implementation outputs", "DESIGN.md §8 C17")
claim("C18",
      "Lean theorem C18.tail (Props/C18.lean): end_sections — shared by multi-segment, single-segment and partial sub-scripts — writes, "
      "ignoring blank lines, the class sizes, one single-entry section per sections_allowlist element, one per sections_allowlist_extra element, "
      "then a /DISCARD/ block iff wildcard or non-empty denylist (denylist patterns, then *(*) iff wildcard), then the closing brace; so the "
      "discard block is last. Tie to the code: byte-equal outputs on the full lattice of the four settings x script kinds and random documents, and "
      "the Lean predicate C18.holds on the implementation's script texts (prescribed tail present, nothing tail-like earlier). Image theorems (over "
      "the Lean linker semantics Slinkyv.Ld, validated against GNU ld on every linked case): image_allowlisted_survive (a single-entry section "
      "places every still-free input section of that name in an output section of that name and takes nothing a segment placed) and "
      "image_discard_only_unplaced (a /DISCARD/ pattern takes exactly the matching free input sections, all free ones for *(*), never a placed "
      "one); survival/discard on the real ELF is checked by ld-lab on the linked cases.",
      "Lean 4 proof over the writer model + differential correspondence + text predicate on implementation outputs", "DESIGN.md §8 C18")

claim("C15",
      "Lean theorems (Props/C15.lean): the sort key (position, name) of sections_to_emit_here is a total order (strLt trichotomy/asymmetry/"
      "transitivity), sortBy_perm and sectionsToEmitHere_perm show that the sections a file contributes to a group do not depend on the order in "
      "which its section_order map is visited, emitEntry_perm lifts this through the recursive emitter for every nesting of groups (the model "
      "has no other iteration over a hash-based field: all others are only looked up); optsOfList_perm / generate_option_order: distinct options "
      "in any order build the same map, hence the same outputs; generate_section_order_independent lifts this to whole documents: two parsed "
      "documents that differ only in the visiting order of any section_order map generate identical outputs in both modes. "
      "Tie to the code and the run-time part a theorem cannot exhibit: every case is generated 3x in one process, once in each of two fresh "
      "processes (fresh hash seeds), with the options in two other orders, and from one parsed Document reused for generations with other option "
      "values in between; all outputs must be byte-identical.",
      "Lean 4 proof of order independence (total order + permutation) + multi-process re-generation", "DESIGN.md §8 C15")
claim("C16",
      "Lean theorem accept_iff_valid (Props/C16.lean): for every canonical value tree, parsing succeeds iff the tree is well typed for the nine "
      "record levels and satisfies the declarative predicate validDoc — required/optional/forbidden table of kind x field for file entries at "
      "every nesting depth (file_ok, files_ok), condition lists, gp_info, segments (segment_ok: name, non-empty files, at most one address field, "
      "non-null fields, gp_info section rules, acyclic sub-groups over the resolved lists), vram classes (exactly one placement), settings "
      "(settings_ok: d_path needs target_path, null only on the nullable six), top-level lists and a non-empty segments list (document_ok); "
      "unknown_key_rejected for all nine record levels. The same validDoc is the run-time oracle: implementation accept/reject is compared with "
      "it on the presence lattices in full (4608 file entries, 2^4 address subsets, 2^3 class placements, unknown key x 9 levels, every field x "
      "{absent,null,value}, empty condition lists x 6 record kinds) and on mutated random documents. Props/C16Src.lean: the key tables of the "
      "model's decoder name exactly the fields of the *Serial structs of /repo's current sources, each with deny_unknown_fields "
      "(lean/Src/Tables.lean, regenerated by tools/extract_tables.py on every run: translator tie). The bytes -> value tree step is "
      "serde_yaml's (not modelled). Props/C16Logic.lean: kindFromPath_src - the kind guessed from a path is the table of arms of FileKind::from_path in /repo's current file_kind.rs (translated on every run).",
      "Lean 4 proof of accept = declarative validity predicate for the whole document + exhaustive lattices against the same predicate",
      "DESIGN.md §8 C16")

claim("C19",
      "The model consists of total Lean functions (termination checked by Lean) whose only non-value outcome is the exhausted recursion bound "
      "of the emitter. Lean theorems (Props/C19.lean): single_segment_count, cycle_is_reported, excluded_returns, cyclic_subgroups_rejected — the "
      "former panic / stack-overflow sites are error values; never_diverges proves, for every document, option map, mode and class list, that "
      "the bound is never exhausted (chain invariant: the parents chain is duplicate-free inside the finite set of sub-group values, so "
      "depth x (values + 2) + 1 steps suffice) — generation always returns a script or one of the enumerated errors. Run-time part (sampled, cannot be a theorem): valid, "
      "structurally mutated and raw-byte inputs (truncations, byte flips, deep nesting, alias bombs, huge numbers, non-ASCII names, cyclic tables) "
      "through the real library under catch_unwind in a child process with address-space limit and timeout — outcome must be a value; successful "
      "generations with identifier-safe names are handed to GNU ld -m elf_i386 (also ld -r for partial scripts) and ld.lld with every referenced "
      "file present, and only syntax diagnostics count.",
      "Lean 4 totality + error-value theorems; sandboxed robustness runs and real-linker syntax acceptance (sampled)", "DESIGN.md §8 C19")
claim("C20",
      "Lean theorems (Props/C20.lean) about the model cliRun/fileRun over an abstract file system: write_replaces (a written location holds exactly "
      "the new content, whatever and however long the old one; all other locations unchanged), options_last_wins, bad_option_fails, exit_zero_iff, "
      "version_comment_script / version_comment_side_files (the flag removes only the leading comment), stdout_is_script. Tie to the code: the real "
      "slinky-cli binary built from /repo is run in scratch directories with prior states {absent, sibling files, existing much longer files}, all "
      "option spellings, -o with {key}, both modes; the resulting tree, stdout and exit class are compared with cliRun. clap's grammar and the OS "
      "file system are outside the model (partial).",
      "Lean 4 proof over an abstract file-system model + differential runs of the real CLI binary", "DESIGN.md §8 C20")

IMG = (" Image clauses: stated and proved over Slinkyv.Ld, an executable Lean semantics of GNU ld for exactly the statements slinky writes "
       "(location counter, symbols, output sections with explicit/implicit address, SUBALIGN, NOLOAD, first-match input placement, pads, ALIGN, "
       "MAX, SIZEOF, forward ADDR, single-entry sections, /DISCARD/, repeated evaluation); the semantics is a model of the linker and is tied to "
       "the real one on every run: each linked case (a third of the cases, and every case once a correspondence breaks) is linked with GNU ld 2.40 "
       "(-m elf_i386) over synthetic objects with one marker symbol per (file, member, input section) and random sizes/alignments, the clause is "
       "evaluated on the real ELF (nm, readelf, link map), and every symbol value, output-section address/size and input-section address of the "
       "real link is compared with what the Lean semantics computes for the same script and objects (ldsem_fidelity in the evidence). Outside the "
       "semantics (reported as such): segments without allocatable sections, orphan placement, output sections that end up empty without a symbol.")
claim("C01",
      "Lean theorems (Props/C01.lean, by induction on the recursion bound of the emitter): object_placed_once / archive_placed_once (an included "
      "plain entry contributes exactly one statement per section: its own path under the current base, that section, KEEP per its effective "
      "value), pad_only_in_its_section, group_is_concatenation (depth-first, list order, group dir appended), object_names_only_itself (whatever "
      "section_order and sub-groups do, an entry only ever names its own path); with section_order in segments without sub-groups "
      "(Props/C01Order.lean): object_with_section_order (one statement per section whose destination is the group, in (position, name) order), "
      "mem_sectionsToEmitHere and section_once_in_destination_group (with pairwise different keys every section is contributed exactly once to "
      "the group of its destination and to no other group); the general case, section_order and nested sub-groups together "
      "(Props/C01Sub.lean): emitEntry_eq_secsE (an object / archive entry writes exactly one statement per section of the walk secsE), "
      "leaf_once_per_group and leaf_once_over_groups (no section of an entry is placed twice, in one group or in two groups that are nobody's "
      "sub-group), leaf_placed_iff (placed in g iff a chain 'sent to / sub-group of' leads from g to the section), expected_is_placed and "
      "placed_is_expected (what an entry contributes to a listed group is exactly what the evaluated specification C01.expected / locOf names), "
      "mark_placed (pads and linker offsets: once, where their section is placed). Hypotheses: section_order keys pairwise different, no section "
      "listed as a sub-group twice, (for placed_is_expected) no listed section is a sub-group. The lift from one entry to the whole segment "
      "(Props/C01Seg.lean): emitEntry_flatten / emitSection_flatten (what emit_section writes for a group is the concatenation, in order, of what "
      "each leaf - an included entry that is not a plain group, with its base directory - writes for it), group_inputs_nodup (no group with a "
      "section_order of its own, leaves named differently: the input statements of a group are pairwise different) and segment_inputs_once (no "
      "input statement occurs in two groups that are nobody's sub-group); two entries with one path and member, and groups carrying a "
      "section_order, stay with the declarative specification C01.expected, evaluated as a multiset equality on the implementation's "
      "ordinary, single-segment and partial scripts on every case. Image theorem image_placed_inside_segment: everything the statements of an output section of a segment place lies inside that section's address range and in no other section, for every object table and link state." + IMG,
      "Lean 4 proofs about the emitter (per entry complete; whole-segment lift evaluated) + declarative placement specification evaluated on implementation scripts + real links", "DESIGN.md §8 C01")
claim("C02",
      "Lean theorems (Props/C02.lean): segments_in_document_order, groups_follow_the_list, entries_in_file_order, subgroups_follow_lead, "
      "moved_sections_sorted (with C15.sectionsToEmitHere_perm), plus C01.group_is_concatenation for depth-first order and "
      "C03.segment_statements for allocatable-before-noload. The ordering rules are also evaluated as invariants (C02.holds) on the "
      "implementation's scripts: groups in list order, statements along the depth-first file list, pads/offsets present exactly in their "
      "section's group, per-slot (position, name) order, sub-group sections after their lead. Image theorem image_addresses_follow_statements: along the statements of an output section each placed input section ends before the next one starts." + IMG,
      "Lean 4 proofs about the emitter + ordering invariants evaluated on implementation scripts + real links", "DESIGN.md §8 C02")
claim("C03",
      "Lean theorems (Props/C03.lean): header_address (priority fixed_vram / fixed_symbol / follows_segment end / class start / none), "
      "address_fields_exclusive for parsed segments, section_headers (allocatable part with the address request and AT(ROM start), noload part "
      "without address), segment_statements (VRAM start symbol = ADDR(.seg) written before, VRAM end after both end alignments), "
      "single_segment_start. Image theorems image_segment_start / image_noload_follows / image_segment_vram: the allocatable output section is recorded "
      "at the value of the requested address expression, or at the location counter rounded up to the start alignment and the alignment of its "
      "contents; the noload part lies behind it; the VRAM end symbol is the location counter behind the noload part rounded up to the end alignment. "
      "Props/C03Hex.lean: parseHex_toHex8 / operand_fixed_vram / fixed_vram_request (the 0x%08X literal of fixed_vram evaluates to the value it was "
      "printed from, for every number). Props/C03Final.lean, final_fixed_vram: in the image Ld.link returns for the whole ordinary script of a "
      "document (multi-segment mode, emitted segments with an allocatable section, any options, object table and --defsym table) every emitted "
      "segment with fixed_vram v has an output section .<segment> at address v - provided neither the script nor the --defsym table defines a "
      "symbol spelled like the literal (assignCount = 0, decidable; passes_none / carry_none carry 'nobody has assigned it' through every "
      "evaluation of the script). Props/C03Vram.lean: segments_vram_end, final_vram_end (for every emitted segment the image has numbers "
      "aS <= aE <= dN with the output section .<segment> recorded at [aS, aE) and - for a name the script assigns once - the VRAM end symbol "
      "equal to dN rounded up to the segment end alignment) and final_vram_end_aligned (the VRAM end lies behind the allocatable output "
      "section and is a multiple of the requested end alignment: the C09 clause for the VRAM end). Props/C03Follows.lean: final_follows_segment "
      "(an emitted segment whose follows_segment names an emitted segment listed before it has .<segment> recorded at the value of that "
      "segment's VRAM end symbol in the image, for a symbol the script assigns once) and final_fixed_symbol (fixed_symbol s given to the linker "
      "with --defsym s=x and never assigned by the script: .<segment> is recorded at x). Props/C03Default.lean: final_default_placement (a "
      "segment with none of the four fields is recorded at the VRAM end symbol of the segment emitted last before it - 0 for the first - rounded "
      "up to its start alignment and to the alignment of the output section). Props/FinalSecs.lean + Props/C03Start.lean: execK_secCount (a script "
      "records at most as many output sections of a name as it has headers of it), addr_symbol_image, final_vram_start (the VRAM start symbol "
      "of an emitted segment is the address of its output section in the image, and start <= start + size <= VRAM end, for symbols assigned "
      "once and a header that occurs once - decidable hypotheses on the text, evaluated on every linked case: evidence final_hypothesis). "
      "Props/C03Src.lean (translator tie): the header line the model prints is assembled from the literals of write_segment_start in "
      "/repo's current linker_writer.rs under the conditions of the code (header_src)." + IMG,
      "Lean 4 proofs of the emitted address statements + real-link oracle for their meaning", "DESIGN.md §8 C03")
claim("C04",
      "Lean theorems (Props/C04.lean): sections_rom — in every multi-segment script the statements touching __romPos together with all output "
      "section headers are exactly `__romPos = 0` followed, per emitted segment in document order, by [start alignment], ROM_START = __romPos, "
      "header with AT(ROM_START), (NOLOAD) header without AT, __romPos += SIZEOF(allocatable part), [end alignment], ROM_END = __romPos (nothing "
      "inside an output section, no class statement, no tail statement touches it; noload sizes are never added); run_chain — executing these "
      "statements yields, for every size the link may give SIZEOF, exactly the documented recurrence (start = previous end rounded up, end = "
      "start + size rounded up) and loads each allocatable part at its ROM start. Image theorem image_rom_recurrence: linking `__romPos = 0` and what add_segment writes for all "
      "segments leaves the ROM counter at the documented recurrence over the emitted segments, with the sizes of the `.seg` output sections the "
      "link recorded; noload parts never enter. Props/C04Final.lean, final_rom_symbols: in the image Ld.link returns for the whole ordinary "
      "script of a document (multi-segment mode, every emitted segment with an allocatable section, any options, object table and --defsym "
      "table) each emitted segment's ROM start symbol is the previous emitted segment's ROM end (0 for the first) rounded up to its start "
      "alignment and its ROM end symbol is that plus the size of its allocatable output section only, rounded up to its end alignment - for "
      "every ROM symbol the script assigns once (Ld.assignCount <= 1, decidable, evaluated on every linked case: evidence final_hypothesis); "
      "the bridge (Props/Final.lean: step_keeps, execK_keeps, imageOf_sym, link_eq) holds for every statement and state. Props/C04Partial.lean: "
      "partialSegments_main (the segment part of the main script of partial mode is add_segment of the emitted segments, each with the one "
      "partial object as its file list) and final_rom_symbols_partial (the same recurrence for the ROM symbols in the image of the main "
      "script of partial mode, over the sizes the final link gives the partial objects' contents)." + IMG,
      "Lean 4 proof: ROM view of the generated script + recurrence over a ROM machine; real-link validation", "DESIGN.md §8 C04")
claim("C05",
      "Lean theorems (Props/C05.lean): section_symbols_defined, kind_symbols_defined, segment_symbols_defined (every family has start, end and "
      "size = ABSOLUTE(end - start), named by the style table; C10.class_sizes for classes; C13 for the header), kind_start_precedes_header "
      "(the known finding, proved), and the naming table checked on concrete names. Props/C05Src.lean: the 13 naming functions of the model "
      "equal, for every style and name, the functions lean/Src/Tables.lean holds, which tools/extract_tables.py regenerates from the format! "
      "strings of /repo's current linker_symbols_style.rs on every run (translator tie; the section-name conversion is fingerprinted). Image theorem image_group_symbols: for every object table and link state, a group's "
      "start symbol <= end symbol, size = end - start (32-bit), and the input sections its statements placed lie between them in the open output "
      "section. Props/C05Final.lean, final_group_symbols: in the image Ld.link returns for the whole ordinary script (and, Props/C05Partial.lean, "
      "for the main script of partial mode) the start, end and size symbol of the group of any section of an emitted segment are numbers "
      "s <= e and e - s, for symbols the script assigns once; the way to the group (group_in_segment: header, `{`, the groups in front lead to a "
      "state inside the output section) is proved for every document. Props/C05Fmt.lean: the assignment forms, ABSOLUTE(a - b) and the "
      "<segment>_alloc/_noload names are format! of the templates in /repo's current sources (translator tie). "
      "The known finding KF-C05-kind-start-before-header is reported as such." + IMG,
      "Lean 4 proofs of completeness/naming/size statements + real-link oracle for values", "DESIGN.md §8 C05")
claim("C09",
      "Lean theorems (Props/C09.lean): arithmetic of ALIGN (alignUp_dvd, alignUp_ge, align_both: after two successive alignments by a | b or "
      "b | a — in particular powers of two — both hold), group_start / group_end (both alignments precede the start / end symbol when both are "
      "given), absent_adds_nothing (no ALIGN and no SUBALIGN when the options are absent or null), with C04.sections_rom and "
      "C03.segment_statements for the segment-level alignments. Image theorems image_group_alignment (group start / end, measured from the start of the output section, are multiples "
      "of the section's alignment entry, and of the segment-wide one when one divides the other) and image_subalign (every placed input section "
      "starts at a multiple of subalign)." + IMG,
      "Lean 4 proofs of placement and arithmetic of alignment statements + real-link oracle", "DESIGN.md §8 C09")
claim("C10",
      "Lean theorems (Props/C10.lean): missing_class_is_an_error / excluded_segment_is_silent, first_member_opens (start = literal | symbol | 0 "
      "then one MAX per followed class; end = 0), later_member_is_silent, emitted_grows (a class is opened iff an emitted segment names it), "
      "member_statements (header address = class start; END = MAX(END, seg end) after the member), class_sizes (one SIZE = END - START per opened "
      "class, none for the others). Image theorems: image_class_prologue (start symbol = fixed_vram | value of fixed_symbol | largest end symbol among "
      "the followed classes, end symbol = 0), image_member_starts_at_class_start, image_class_end_accumulates (END = max(END, member VRAM end)). Known "
      "finding KF-C10-followed-member-listed-later: a member of a followed class listed after the follower's first member is not seen by the follower. Props/C10Final.lean, final_class_fixed_vram: in the image Ld.link returns for the whole ordinary script (Props/C10Partial.lean: and for the main script of partial mode) every emitted member of a class with fixed_vram v is recorded at v and the class start symbol is v, first member or later (class_start_kept carries the value through the fold over the segments; the symbol must be assigned once). Props/C10Symbol.lean, final_class_fixed_symbol: the same for a class with fixed_symbol S (every emitted member starts at the value the image holds for S). Props/C10End.lean, final_class_end: in the image of the whole script the class end symbol holds a number E, every emitted member's VRAM end v satisfies v <= E, and E is 0 or one of these v (the class ends where its last-ending member ends), for every class with an emitted member, when the script assigns the class end symbol as often as the writer does (once in the prologue, once per emitted member: endAssigns / class_end_lower). Props/C10EndCore.lean / C10SymbolCore.lean: both also for the main script of partial mode. Props/C10Size.lean, final_class_size: for a class with fixed_vram v and an emitted member the image holds v in the start symbol, E in the end symbol and E - v (32-bit) in the size symbol. Props/C10Src.lean: MAX(s, s, other), the class literals and `end - start` are format! of the source's templates." + IMG,
      "Lean 4 proofs of the class statements + real-link oracle for values", "DESIGN.md §8 C10")
claim("C11",
      "Lean theorems (Props/C11.lean): one_script_per_emitted_segment, same_statements (the emitter does not read the two flags that distinguish a "
      "partial sub-script writer, so the statements per section are identical), main_places_partial_object, main_same_rom, "
      "missing_folder_is_error. The Lean predicate C11.holds compares the implementation's ordinary and partial generations of every case "
      "(statements per group, main-script skeleton, one partial object per group, symbol union). Two-step clause (Props/C11TwoStep.lean over "
      "Slinkyv.Ld2): exec_takes (Ld.exec places exactly the list `takes` computes, for every script / object table / state), "
      "two_step_segment_order and two_step_same_order (partial script with the groups as output sections + main script placing the partial "
      "object once per group => the order of the one-step link of the same statements, when group names are pairwise different and no group's "
      "pattern matches a later group's name), two_step_document_order / two_step_document_same_order (any number of segments with their own "
      "partial objects, when in addition no input section is selectable by the statements of two segments), generated_two_step (Props/C11Gen.lean: the same for the scripts the writer model generates - partialSegments against addSegments - so "
      "that only the three conditions on the document remain as hypotheses), grab_breaks_order (the clause is false otherwise: known finding KF-C11-prefix-group, replayed "
      "against slinky and GNU ld on every run). A quarter of the cases is linked both ways with GNU ld (ld -r per partial script, then the main "
      "script): members per output section (from the symbol table) and relative order of all markers are compared, and the order is compared "
      "with what Ld2.twoStep predicts (twostep_model_fidelity). ld -r facts Ld2 encodes (one section per output section, empty ones absent, "
      "moved as a block) are validated, not proved.",
      "Lean 4 proofs relating the two writers + predicate on both generations + two-step real links", "DESIGN.md §8 C11")
