#!/usr/bin/env python3
"""applies every seeded change in /verif/seeded to /repo (undoing it afterwards), runs the quick check of the property it
breaks (and optionally others), and records the verdicts in seeded/<id>/meta.json and seeded/MATRIX.md"""
import glob, json, os, re, subprocess, sys
V = "/verif"
extra = {"C03-1": ["C06", "C10"], "C05-2": ["C06", "C10"], "C06-2": ["C10", "C05"], "C09-2": ["C03", "C04"], "C03-2": ["C09"],
         "C12-2": ["C07"], "C07-2": ["C12"], "C13-1": ["C17"], "C17-1": ["C09"], "C19-2": ["C09"], "C09-1": ["C19"], "C20-1": ["C12"]}
# round 2: neighbouring properties that the described breakage also touches
extra.update({"C01-4": ["C08"], "C02-4": ["C08", "C11"], "C03-3": ["C08", "C09"], "C03-4": ["C10", "C05"], "C04-3": ["C08", "C09"], "C04-4": ["C09"],
              "C05-3": ["C02", "C13"], "C05-4": ["C13"], "C06-3": ["C11"], "C06-4": ["C10", "C13"], "C07-4": ["C12", "C20"], "C08-3": ["C16", "C17"],
              "C08-4": ["C09", "C11"], "C09-3": ["C08"], "C09-4": ["C08", "C11"], "C10-3": ["C05", "C13"], "C10-4": ["C05", "C13"], "C11-3": ["C06"],
              "C11-4": ["C02", "C15"], "C12-4": ["C07"], "C13-3": ["C17"], "C13-4": ["C05"], "C14-4": ["C11"], "C15-3": ["C02"], "C16-3": ["C08", "C17"],
              "C17-3": ["C09"], "C17-4": ["C06", "C16"], "C18-3": ["C11"], "C18-4": ["C08"], "C19-3": ["C05"], "C19-4": ["C14"], "C20-4": ["C11"]})
# round 4
extra.update({"C01-7": ["C02"], "C02-7": ["C08"], "C02-8": ["C01", "C05"], "C03-8": ["C08", "C09"], "C04-8": ["C09"], "C05-8": ["C10"], "C06-8": ["C17"],
              "C07-7": ["C12"], "C08-7": ["C11"], "C08-8": ["C17"], "C09-7": ["C08", "C11"], "C10-7": ["C03", "C05"], "C11-8": ["C08", "C01"],
              "C12-8": ["C07"], "C13-8": ["C20"], "C17-8": ["C06"], "C19-8": ["C11"]})
# round 5
extra.update({"C20-9": ["C11", "C07"], "C13-9": ["C15"], "C16-9": ["C08", "C17"], "C16-10": ["C12"], "C08-10": ["C18"], "C11-10": ["C07", "C12"],
              "C12-10": ["C07"], "C07-9": ["C12", "C13"], "C03-9": ["C09", "C08"], "C04-9": ["C09"], "C09-10": ["C03", "C08"], "C03-10": ["C05", "C10"],
              "C05-9": ["C13"], "C10-9": ["C05"], "C10-10": ["C16"], "C19-10": ["C10", "C16"], "C01-10": ["C08"], "C02-10": ["C01"], "C18-9": ["C08"],
              "C06-9": ["C11"], "C01-9": ["C11"], "C02-9": ["C11"], "C04-10": ["C11"], "C12-9": ["C11"], "C09-9": ["C11"], "C14-9": ["C11"]})
# round 6
extra.update({"C03-11": ["C10", "C06"], "C03-12": ["C06"], "C06-11": ["C10", "C03"], "C06-12": ["C07"], "C07-11": ["C12"], "C07-12": ["C20", "C06"],
              "C08-11": ["C18"], "C08-12": ["C01"], "C09-11": ["C05"], "C10-11": ["C03", "C06"], "C10-12": ["C11"], "C11-11": ["C19"], "C11-12": ["C05"],
              "C12-11": ["C07"], "C13-12": ["C05"], "C14-11": ["C02"], "C15-11": ["C07"], "C15-12": ["C13"], "C16-11": ["C17"], "C16-12": ["C10"],
              "C17-11": ["C06"], "C17-12": ["C09"], "C18-11": ["C08"], "C18-12": ["C11"], "C19-12": ["C17"], "C20-11": ["C06"], "C20-12": ["C15"],
              "C05-24": ["C08"], "C01-11": ["C02"], "C02-11": ["C15"], "C02-12": ["C05"], "C04-11": ["C09"], "C04-12": ["C09"], "C05-11": ["C13"], "C05-12": ["C02"]})
only = sys.argv[1:]
rows = []
# the checks rewrite evidence/<id>.json on every run: what they write while a seeded change is applied must not stay
import shutil, tempfile, atexit
_ev_backup = tempfile.mkdtemp(prefix="evidence-backup-", dir=os.path.join(V, ".build") if os.path.isdir(os.path.join(V, ".build")) else None)
shutil.copytree(os.path.join(V, "evidence"), os.path.join(_ev_backup, "evidence"))
def _restore_evidence():
    shutil.rmtree(os.path.join(V, "evidence"), ignore_errors=True)
    shutil.copytree(os.path.join(_ev_backup, "evidence"), os.path.join(V, "evidence"))
    shutil.rmtree(_ev_backup, ignore_errors=True)
atexit.register(_restore_evidence)
for d in sorted(glob.glob(V + "/seeded/C*-*")):
    mid = os.path.basename(d)
    if only and mid not in only:
        continue
    pid = mid.split("-")[0]
    patch = os.path.join(d, "patch.diff")
    r = subprocess.run("git -C /repo apply --check %s" % patch, shell=True, capture_output=True, text=True)
    if r.returncode != 0:
        rows.append((mid, pid, "patch does not apply to HEAD", ""))
        continue
    subprocess.run("git -C /repo apply %s" % patch, shell=True, check=True)
    try:
        verdicts = {}
        for p in [pid] + extra.get(mid, []):
            out = subprocess.run("cd %s && ./check %s quick" % (V, p), shell=True, capture_output=True, text=True).stdout
            m = re.search(r"VIOLATION property=(\S+) replay=(\S+)( no-failing-input-found)?", out)
            why = re.search(r"(violating cases: .*|correspondence broken .*|BUILD-FAILED.*)", out)
            verdicts[p] = {"detected": bool(m), "with_failing_input": bool(m) and not m.group(3),
                           "first": (why.group(1)[:240] if why else "")}
    finally:
        subprocess.run("git -C /repo reset -q --hard HEAD", shell=True)
    meta = json.load(open(os.path.join(d, "meta.json")))
    meta["checks"] = verdicts
    json.dump(meta, open(os.path.join(d, "meta.json"), "w"), indent=1)
    for p, v in verdicts.items():
        rows.append((mid, p, "failing input" if v["with_failing_input"] else ("no-failing-input-found" if v["detected"] else "NOT DETECTED"), v["first"]))
        print(rows[-1][:3]); sys.stdout.flush()
# MATRIX.md is always rebuilt from the `checks` fields of all meta.json files
with open(V + "/seeded/MATRIX.md", "w") as f:
    f.write("# seeded changes x checks (quick tier, default seed)\n\n| seeded change | check | verdict | first report |\n|---|---|---|---|\n")
    for d in sorted(glob.glob(V + "/seeded/C*-*")):
        meta = json.load(open(os.path.join(d, "meta.json")))
        for p, v in (meta.get("checks") or {}).items():
            verdict = "failing input" if v["with_failing_input"] else ("no-failing-input-found" if v["detected"] else "NOT DETECTED")
            f.write("| %s | %s | %s | %s |\n" % (os.path.basename(d), p, verdict, v["first"].replace("|", "/")))
