#!/usr/bin/env python3
"""Translator for two pieces of decision logic (part of the second tie between model and code):

  * `RuntimeSettings::should_emit_entry` (runtime_settings.rs) - the inclusion predicate of C06. The body is parsed (a
    recursive-descent parser for the statement and expression forms it uses: `if C { .. }` without else, `return E;`,
    `let mut x = E;`, `x = E;`, a trailing expression; `!`, `&&`, `||`, parentheses, `L.is_empty()`,
    `L.iter().any(P)` / `.all(P)` with P exactly `|(key, value)| self.custom_options.get(key) == Some(value)`) and
    re-emitted as a Lean function `Src.should_emit_entry : Opts -> four lists -> Bool` with the same control flow
    (early returns become the else-branches, a mutable variable becomes nested `let`s);
  * `FileKind::from_path` (file_kind.rs) - the kind guessed from a path's extension: the `Some("x") => Self::K` arms become
    `Src.kindByExtension : List (Str x FileKind)`, the other three arms `Src.kindNoExtension`, `Src.kindNotUtf8`,
    `Src.kindOtherExtension`.

Props/C06Src.lean and Props/C16Logic.lean prove that the model's `shouldEmit` and `kindFromPath` are these, for all inputs.
Anything outside the forms listed above becomes an ill-typed marker term (`untranslated_...`), i.e. a broken obligation.

usage: extract_logic.py [repo] [out]; prints `changed` or `same`."""
import os, re, sys

REPO = sys.argv[1] if len(sys.argv) > 1 else "/repo"
OUT = sys.argv[2] if len(sys.argv) > 2 else os.path.join(os.path.dirname(os.path.dirname(os.path.abspath(__file__))), "lean", "Src", "Logic.lean")


def src(name):
    try:
        return open(os.path.join(REPO, "slinky", "src", name), encoding="utf-8").read()
    except OSError:
        return ""


def strip_comments(s):
    s = re.sub(r"/\*.*?\*/", "", s, flags=re.S)
    return re.sub(r"//[^\n]*", "", s)


def fn_body(text, name):
    """(parameter text, body text) of `fn name`"""
    m = re.search(r"\bfn\s+" + name + r"\s*\(", text)
    if not m:
        return None, None
    i = m.end()
    depth = 1
    while i < len(text) and depth:
        depth += {"(": 1, ")": -1}.get(text[i], 0)
        i += 1
    params = text[m.end():i - 1]
    j = text.find("{", i)
    k = j + 1
    depth = 1
    while k < len(text) and depth:
        depth += {"{": 1, "}": -1}.get(text[k], 0)
        k += 1
    return params, text[j + 1:k - 1]


TOK = re.compile(r"\s*(&&|\|\||==|[A-Za-z_][A-Za-z_0-9]*|[(){}!.;,=|&])")


def tokens(s):
    out = []
    i = 0
    s = s.strip()
    while i < len(s):
        m = TOK.match(s, i)
        if not m:
            return None
        out.append(m.group(1))
        i = m.end()
    return out


class Bad(Exception):
    pass


PRED = ["|", "(", "key", ",", "value", ")", "|", "self", ".", "custom_options", ".", "get", "(", "key", ")", "==", "Some", "(", "value", ")"]


class P:
    def __init__(self, toks):
        self.t = toks
        self.i = 0

    def peek(self, k=0):
        return self.t[self.i + k] if self.i + k < len(self.t) else None

    def eat(self, x):
        if self.peek() != x:
            raise Bad("expected %s, found %s" % (x, self.peek()))
        self.i += 1

    # expressions -> Lean text
    def expr(self):
        a = self.conj()
        while self.peek() == "||":
            self.i += 1
            a = "(%s || %s)" % (a, self.conj())
        return a

    def conj(self):
        a = self.unary()
        while self.peek() == "&&":
            self.i += 1
            a = "(%s && %s)" % (a, self.unary())
        return a

    def unary(self):
        if self.peek() == "!":
            self.i += 1
            return "(!%s)" % self.unary()
        return self.postfix()

    def postfix(self):
        if self.peek() == "(":
            self.i += 1
            a = self.expr()
            self.eat(")")
        else:
            a = self.peek()
            if a in ("true", "false"):
                self.i += 1
            elif a and re.match(r"[A-Za-z_]\w*$", a) and a not in ("if", "let", "return", "self"):
                self.i += 1
                self.vars.add(a)
            else:
                raise Bad("primary %s" % a)
        while self.peek() == ".":
            self.i += 1
            m = self.peek()
            self.i += 1
            self.eat("(")
            if m == "is_empty":
                self.eat(")")
                a = "(List.isEmpty %s)" % a
            elif m == "iter":
                self.eat(")")
            elif m in ("any", "all"):
                if self.t[self.i:self.i + len(PRED)] != PRED:
                    raise Bad("closure")
                self.i += len(PRED)
                self.eat(")")
                a = "(List.%s %s (pairMatches o))" % (m, a)
            else:
                raise Bad("method %s" % m)
        return a

    vars = set()

    # statements: a list of ("if", cond, block) | ("ret", e) | ("let", x, e) | ("set", x, e) | ("tail", e)
    def block(self):
        out = []
        while self.peek() is not None and self.peek() != "}":
            if self.peek() == "if":
                self.i += 1
                c = self.expr()
                self.eat("{")
                b = self.block()
                self.eat("}")
                if self.peek() == "else":
                    raise Bad("else")
                out.append(("if", c, b))
            elif self.peek() == "return":
                self.i += 1
                e = self.expr()
                self.eat(";")
                out.append(("ret", e))
            elif self.peek() == "let":
                self.i += 1
                if self.peek() == "mut":
                    self.i += 1
                x = self.peek()
                self.i += 1
                self.eat("=")
                e = self.expr()
                self.eat(";")
                out.append(("let", x, e))
            elif self.peek(1) == "=":
                x = self.peek()
                self.i += 2
                e = self.expr()
                self.eat(";")
                out.append(("set", x, e))
            else:
                e = self.expr()
                out.append(("tail", e))
        return out


def declared(b):
    out = set()
    for s in b:
        if s[0] == "let":
            out.add(s[1])
        elif s[0] == "if":
            out |= declared(s[2])
    return out


def used(b):
    txt = repr(b)
    return set(re.findall(r"[A-Za-z_]\w*", txt))


def gen(stmts, ind):
    """the value of the function when these statements are what remains to be executed"""
    pad = "  " * ind
    if not stmts:
        raise Bad("falls off the end")
    s = stmts[0]
    rest = stmts[1:]
    if s[0] == "tail":
        if rest:
            raise Bad("statement after the final expression")
        return pad + s[1]
    if s[0] == "ret":
        return pad + s[1]
    if s[0] in ("let", "set"):
        return pad + "let %s := %s\n" % (s[1], s[2]) + gen(rest, ind)
    if s[0] == "if":
        if declared(s[2]) & used(rest):
            raise Bad("a variable of an inner block is named after it")
        return (pad + "if %s then\n" % s[1] + gen(list(s[2]) + list(rest), ind + 1) + "\n" + pad + "else\n" + gen(rest, ind + 1))
    raise Bad(s[0])


def gen_should_emit():
    text = strip_comments(src("runtime_settings.rs"))
    params, body = fn_body(text, "should_emit_entry")
    head = "def should_emit_entry (o : Opts) (exclude_if_any exclude_if_all include_if_any include_if_all : List (Str × Str)) : Bool :=\n"
    if body is None:
        return head + "  (untranslated_missing_function : Bool)\n"
    names = re.findall(r"(\w+)\s*:\s*&\[\(String,\s*String\)\]", params)
    if names != ["exclude_if_any", "exclude_if_all", "include_if_any", "include_if_all"]:
        return head + "  (untranslated_parameters : Bool)\n"
    toks = tokens(body)
    if toks is None:
        return head + "  (untranslated_token : Bool)\n"
    try:
        p = P(toks)
        b = p.block()
        if p.peek() is not None:
            raise Bad("trailing tokens")
        return head + gen(b, 1) + "\n"
    except Bad as e:
        return head + "  (untranslated_%s : Bool)\n" % re.sub(r"\W+", "_", str(e))


def gen_from_path():
    text = strip_comments(src("file_kind.rs"))
    _, body = fn_body(text, "from_path")
    kinds = {"Object": ".object", "Archive": ".archive", "Pad": ".pad", "LinkerOffset": ".linkerOffset", "Group": ".group"}
    bad = "def kindByExtension : List (Str × FileKind) := (untranslated_from_path : List (Str × FileKind))\n"
    if body is None:
        return bad
    flat = " ".join(body.split())
    m = re.fullmatch(r"match path\.extension\(\) \{ None => Self::(\w+), Some\(ext\) => match ext\.to_str\(\) \{ None => Self::(\w+), (.*?)Some\(&_\) => Self::(\w+), \}, \}", flat)
    if not m:
        return bad
    arms = re.findall(r'Some\("([^"\\]*)"\) => Self::(\w+), ', m.group(3))
    if "".join('Some("%s") => Self::%s, ' % a for a in arms) != m.group(3):
        return bad
    ks = [m.group(1), m.group(2), m.group(4)] + [k for _, k in arms]
    if any(k not in kinds for k in ks):
        return bad
    return ("def kindNoExtension : FileKind := %s\ndef kindNotUtf8 : FileKind := %s\ndef kindOtherExtension : FileKind := %s\n"
            "def kindByExtension : List (Str × FileKind) := [%s]\n"
            % (kinds[m.group(1)], kinds[m.group(2)], kinds[m.group(4)], ", ".join('(c!"%s", %s)' % (e, kinds[k]) for e, k in arms)))


def main():
    text = ("/-\n  GENERATED by tools/extract_logic.py from the current sources of /repo/slinky/src - do not edit.\n"
            "  `should_emit_entry` of runtime_settings.rs and `FileKind::from_path` of file_kind.rs, translated.\n-/\n"
            "import Slinkyv.Types\nnamespace Slinky.Src\n\n" + gen_should_emit() + "\n" + gen_from_path() + "\nend Slinky.Src\n")
    os.makedirs(os.path.dirname(OUT), exist_ok=True)
    old = open(OUT).read() if os.path.exists(OUT) else None
    if old == text:
        print("same")
    else:
        open(OUT, "w").write(text)
        print("changed")


main()
