#!/usr/bin/env python3
"""Confirms each candidate seeded change in a scratch worktree of /repo at HEAD:
 (1) the patch applies, compiles and the 62 pinned tests pass with it,
 (2) the demonstration fails with the patch, (3) and passes without it.
Writes /tmp/mut/verify_report.json; copies confirmed ones to /verif/seeded/<id>/."""
import glob, json, os, shutil, subprocess, sys
WT = "/tmp/mut/verify"
ROUND = int(os.environ.get("ROUND", "1"))
OUT = "/tmp/mut/out" + ("" if ROUND == 1 else str(ROUND))
REPORT = "/tmp/mut/verify_report%s.json" % ("" if ROUND == 1 else str(ROUND))
ENV = dict(os.environ, CARGO_NET_OFFLINE="true")

def sh(cmd, cwd=WT, timeout=1200):
    p = subprocess.run(cmd, cwd=cwd, shell=True, executable="/bin/bash", capture_output=True, text=True, env=ENV, timeout=timeout)
    return p.returncode, p.stdout + p.stderr

def clean():
    sh("git reset -q --hard HEAD && git clean -fdq -e target")

def run_demo(files):
    """returns (ran, all_passed, log)"""
    rs = [f for f in files if f.endswith(".rs")]
    shs = [f for f in files if f.endswith(".sh")]
    log = ""
    ok = True
    ran = False
    runmd = ""
    for f in glob.glob(os.path.dirname(files[0]) + "/RUN.md") if files else []:
        runmd = open(f).read()
    cli = "slinky-cli/tests" in runmd
    crate = "slinky-cli" if cli else "slinky"
    os.makedirs(os.path.join(WT, crate, "tests"), exist_ok=True)
    for f in files:
        if f.endswith((".rs", ".yaml")):
            shutil.copy(f, os.path.join(WT, crate, "tests", os.path.basename(f)))
        if f.endswith(".yaml") and os.path.isdir(os.path.join(WT, "tests")):
            shutil.copy(f, os.path.join(WT, "tests", os.path.basename(f)))      # some demonstrations read their input from tests/
    for f in rs:
        ran = True
        name = os.path.basename(f)[:-3]
        rc, out = sh("cargo test --offline -p %s --test %s 2>&1 | tail -25" % (crate, name))
        passed = "test result: ok" in out and "FAILED" not in out
        log += out[-1500:]
        ok = ok and passed
    if not rs:
        for f in shs:
            ran = True
            shutil.copy(f, os.path.join(WT, os.path.basename(f)))
            for y in files:
                if y.endswith(".yaml"):
                    shutil.copy(y, os.path.join(WT, os.path.basename(y)))
            rc, out = sh("set -o pipefail; bash %s 2>&1 | tail -25" % os.path.basename(f))
            log += out[-1500:]
            ok = ok and rc == 0
    return ran, ok, log

def main():
    only = sys.argv[1:]
    if not os.path.exists(WT):
        subprocess.run("git -C /repo worktree add -q --detach %s HEAD" % WT, shell=True, check=True)
    else:
        subprocess.run("git -C %s checkout -q --detach $(git -C /repo rev-parse HEAD)" % WT, shell=True)
    report = {}
    for d in sorted(glob.glob(OUT + "/C*/[12]")):
        mid = d.split("/")[-2] + "-" + str(int(d.split("/")[-1]) + 2 * (ROUND - 1))
        if only and mid not in only:
            continue
        patch = os.path.join(d, "patch.diff")
        if not os.path.exists(patch):
            continue
        files = [f for f in glob.glob(d + "/*") if not f.endswith(("patch.diff", "meta.json", "RUN.md")) and os.path.isfile(f)]
        # some agents put link scripts in sub-directories; keep only top-level demo files
        r = {"applies": False}
        clean()
        rc, out = sh("git apply --check %s" % patch)
        if rc != 0:
            rc, out = sh("git apply -3 %s" % patch)
            r["applied_3way"] = rc == 0
            if rc != 0 or "conflict" in out.lower():
                r["apply_log"] = out[-600:]
                report[mid] = r
                print(mid, "DOES NOT APPLY"); sys.stdout.flush()
                continue
            sh("git reset -q")
        else:
            sh("git apply %s" % patch)
        r["applies"] = True
        rc, out = sh("cargo test --workspace --offline 2>&1 | grep -E 'test result|error' | head -5")
        r["suite_with_patch"] = out.strip()[:300]
        r["suite_ok"] = "62 passed; 0 failed" in out
        ran, ok, log = run_demo(files)
        r["demo_ran"] = ran
        r["demo_fails_with_patch"] = ran and not ok
        r["demo_log_with_patch"] = log[-800:]
        clean()
        ran2, ok2, log2 = run_demo(files)
        r["demo_passes_without_patch"] = ran2 and ok2
        if not ok2:
            r["demo_log_without_patch"] = log2[-800:]
        clean()
        r["confirmed"] = bool(r["suite_ok"] and r["demo_fails_with_patch"] and r["demo_passes_without_patch"])
        report[mid] = r
        print(mid, "CONFIRMED" if r["confirmed"] else "NOT-CONFIRMED", {k: r[k] for k in ("suite_ok", "demo_fails_with_patch", "demo_passes_without_patch")}); sys.stdout.flush()
        json.dump(report, open(REPORT, "w"), indent=1)
    json.dump(report, open(REPORT, "w"), indent=1)

main()
