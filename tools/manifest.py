#!/usr/bin/env python3
"""regenerates MANIFEST.json from the table below (properties without an entry go to not_applicable)"""
import json, os
V = os.path.dirname(os.path.dirname(os.path.abspath(__file__)))
NOTE = ("Trusted: Lean 4.33 kernel; axioms subset of {propext, Classical.choice, Quot.sound} (printed per theorem each run); "
        "the hand-written model lean/Slinkyv/*.lean is tied to /repo by the correspondence run of this check (all outputs byte-equal on every case) "
        "and by evaluating the property predicate on the implementation's own outputs; the table-like and text-producing parts of the source "
        "(settings defaults, naming functions, serde field lists, every string literal of script_buffer.rs / linker_writer.rs / "
        "partial_linker_writer.rs, version constants) are translated into lean/Src/*.lean on every run and the Props/*Src.lean / *Fmt.lean theorems "
        "re-checked against them; std::path, serde derive behaviour, HashMap order, "
        "number formatting are modelled by hand; serde_yaml's scanner, clap, the OS and the linkers are outside the model (DESIGN.md §10).")
CLAIMS = {}
def claim(pid, text, technique, design_ref):
    CLAIMS[pid] = dict(text=text, technique=technique, design_ref=design_ref)

exec(open(os.path.join(V, "tools", "claims.py")).read())

props = [json.loads(l) for l in open(os.path.join(V, "properties.jsonl"))]
checks, na = [], []
for p in props:
    pid = p["id"]
    if pid in CLAIMS:
        c = CLAIMS[pid]
        checks.append({
            "property_id": pid,
            "quick_cmd": "./check %s quick" % pid,
            "thorough_cmd": "./check %s thorough" % pid,
            "evidence_file": "/verif/evidence/%s.json" % pid,
            "replay_cmd_template": "./check --replay {path}",
            "engine": "lean-model+correspondence",
            "level_claimed": {"category": "proof", "text": c["text"], "design_ref": c["design_ref"]},
            "level_note": NOTE,
            "technique": c["technique"],
        })
    else:
        na.append({"property_id": pid, "reason": "check under construction in this round; not claimed until its theorem and correspondence run exist"})
m = {
    "version": 1,
    "setup_cmd": "./check setup",
    "hooks": {"guard": "slinky_verif",
              "enable": "no hooks are needed: every observation point is public API, the CLI binary or an output file (guard name reserved, unused)",
              "baseline_off_cmd": "cd /repo && cargo test --workspace --no-fail-fast --offline",
              "source_commits": FIX_COMMITS, "add_only": True},
    "engines": [{"name": "lean-model+correspondence", "path": "/verif/lean, /verif/harness, /verif/check",
                 "serves_properties": sorted(CLAIMS), "kind_free_text": "Lean 4 theorems about a hand-written executable model; Rust harness runs the real library; Lean driver runs the model and the property predicates on both outputs"}],
    "checks": checks,
    "notes": "see DESIGN.md; fix: commits in /repo are listed in hooks.source_commits and known_findings.json",
    "not_applicable": na,
}
json.dump(m, open(os.path.join(V, "MANIFEST.json"), "w"), indent=1)
print("claimed:", sorted(CLAIMS), "not claimed:", [x["property_id"] for x in na])
