#!/usr/bin/env python3
"""builds Props/C03Core.lean, C05Core.lean, C10Core.lean from the proofs of the whole-script theorems: the same proofs with
the writer context, the segment list and what follows the segments left open, so that they apply to the main script of
partial mode as well"""
import re, sys
L='/tmp/leanwork/Props/'
def grab(fname, name):
    src=open(L+fname).read()
    i=src.index("theorem "+name+" ")
    seg=src[i:]
    m=re.search(r"\n(/--|/-!|def |end Slinky|theorem |example )", seg[10:])
    return seg[:m.start()+10].rstrip()+"\n"

HEAD_RE=re.compile(r"  unfold generateNormal at h\n.*?      have hsy : cx\.emitSecSyms = true := by rw \[← hcx\]\n", re.S)
NEWHEAD="""  generalize hd : cx.d = d at *
  generalize ho' : cx.o = o at *
"""
SIG_OLD_RE=re.compile(r"\(d : Document\) \(o : Opts\) \(vc : Bool\) \(script : List Line\)\s*\(hmulti : d\.settings\.singleSegmentMode = false\)\s*\(h : generateNormal d o vc = \.ok script\)\s*\(hall : ∀ s ∈ d\.segments, shouldEmit o s\.cond = true → s\.allocSections ≠ \[\]\)")
SIG_NEW="(cx : Ctx) (hsy : cx.emitSecSyms = true) (vc : Bool)\n    (segs : List Segment) (ls : List Line) (emitted : List Str) (T : List Line)\n    (hsegs : addSegments cx [] segs = .ok (ls, emitted))\n    (hall : ∀ s ∈ segs, shouldEmit cx.o s.cond = true → s.allocSections ≠ [])"
SCRIPT="(versionComment vc ++ (beginSections cx ++ ls ++ T))"

def dedent(body, n):
    out=[]
    for l in body.split("\n"):
        out.append(l[n:] if l.startswith(" "*n) else l)
    return "\n".join(out)

def core(fname, name, newname, doc, extra=lambda s: s):
    t=grab(fname, name)
    sig, proof = t.split(":= by\n",1)
    assert SIG_OLD_RE.search(sig), name
    sig=SIG_OLD_RE.sub(SIG_NEW, sig)
    sig=sig.replace("theorem "+name+" ", "theorem "+newname+" ")
    sig=sig.replace("d.segments","segs").replace("shouldEmit o ","shouldEmit cx.o ").replace("d.settings.style","cx.d.settings.style")
    sig=sig.replace("lastEmitted o ","lastEmitted cx.o ").replace("findClass d ","findClass cx.d ")
    sig=re.sub(r"\bscript\b", SCRIPT, sig)
    m=HEAD_RE.search(proof)
    assert m, name
    pre, body = proof[:m.start()], proof[m.end():]
    pre=re.sub(r"\bscript\b", SCRIPT, pre)
    body=dedent(body, 4)
    body=re.sub(r"^\s*generalize hT : endSections cx emitted \+\+ topLevel d o = T\n","",body,flags=re.M)
    body=body.replace("rw [← hT, hlines]","rw [hlines]")
    body=body.replace(" ++ endSections cx emitted) ++ topLevel d o\n"," ++ T)\n")
    body=body.replace("rw [← hT]; simp [List.append_assoc]","simp [List.append_assoc]")
    body=body.replace("d.segments","segs").replace("have hd' : cx.d = d := by rw [← hcx]","have hd' : cx.d = d := hd")
    body=re.sub(r"\n\s*rw \[hd\] at \*\n","\n",body)
    body=body.replace("(endSections cx emitted ++ topLevel d o)","T")
    proof=extra(pre+NEWHEAD+body)
    return "/-- "+doc+" -/\n"+sig+":= by\n"+proof+"\n"

HDR="""/-
  GENERATED-BY-HAND-ONCE from the proofs of the whole-script theorems (the generator was a throw-away script): the same
  proofs with the writer context `cx`, the segment list and the statements `T` that follow the segments left open.
  `{name}` instantiates them for the main script of partial mode (`generatePartial`), whose segment part is `add_segment` in
  the reference-to-partial-object context over the emitted segments with their file lists replaced by the partial object
  (`C04.partialSegments_main`).
-/
"""
if __name__=="__main__":
    which=sys.argv[1]
    if which=="C03":
        out=HDR.replace("{name}","the `_partial` theorems below")+"import Props.C03Start\nnamespace Slinky.C03\nopen Slinky W Ld\n\n"
        out+=core("C03Vram.lean","final_vram_end","vram_end_core","`final_vram_end` for any writer context and any statements behind the segments.")
        out+=core("C03Follows.lean","final_follows_segment","follows_segment_core","`final_follows_segment` for any writer context.")
        out+=core("C03Follows.lean","final_fixed_symbol","fixed_symbol_core","`final_fixed_symbol` for any writer context.")
        out+=core("C03Default.lean","final_default_placement","default_placement_core","`final_default_placement` for any writer context.")
        out+=core("C03Start.lean","final_vram_start","vram_start_core","`final_vram_start` for any writer context.",
                  lambda p: p.replace("final_vram_end objs d o vc "+SCRIPT+" hmulti h hall defsyms","vram_end_core objs cx hsy vc segs ls emitted T hsegs hall defsyms"))
        out+="end Slinky.C03\n"
        open(L+"C03Core.lean","w").write(out)
    elif which=="C05":
        out=HDR.replace("{name}","`final_group_symbols_partial`")+"import Props.C05Final\nimport Props.C03Core\nnamespace Slinky.C05\nopen Slinky W Ld\n\n"
        out+=core("C05Final.lean","final_group_symbols","group_symbols_core","`final_group_symbols` for any writer context.")
        out+="end Slinky.C05\n"
        open(L+"C05Core.lean","w").write(out)
    elif which=="C10":
        out=HDR.replace("{name}","`final_class_fixed_vram_partial`")+"import Props.C10Final\nimport Props.C05Core\nnamespace Slinky.C10\nopen Slinky W Ld\n\n"
        out+=core("C10Final.lean","final_class_fixed_vram","class_fixed_vram_core","`final_class_fixed_vram` for any writer context.")
        out+="end Slinky.C10\n"
        open(L+"C10Core.lean","w").write(out)
    elif which=="C10End":
        # Props/C10EndCore.lean (the partial-mode wrapper `final_class_end_partial` was appended by hand)
        t=core("C10End.lean","final_class_end","class_end_core","`final_class_end` for any writer context and any statements behind the segments.")
        t=t.replace("endAssigns o c","endAssigns cx.o c")
        open(L+"C10EndCore.lean","w").write("import Props.C10End\nimport Props.C10Partial\nnamespace Slinky.C10\nopen Slinky W Ld\n\n"+t+"\nend Slinky.C10\n")
    elif which=="C10Symbol":
        # Props/C10SymbolCore.lean (the wrapper `final_class_fixed_symbol_partial` was appended by hand)
        t=core("C10Symbol.lean","final_class_fixed_symbol","class_fixed_symbol_core","`final_class_fixed_symbol` for any writer context and any statements behind the segments.")
        open(L+"C10SymbolCore.lean","w").write("import Props.C10Symbol\nimport Props.C10Partial\nnamespace Slinky.C10\nopen Slinky W Ld\n\n"+t+"\nend Slinky.C10\n")
