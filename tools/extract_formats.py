#!/usr/bin/env python3
"""Translator for the text-producing layer of slinky (part of the second tie between model and code).

Reads /repo's *current* script_buffer.rs, linker_writer.rs and partial_linker_writer.rs and writes
lean/Src/Formats.lean: for every function, every string literal of its body in source order, parsed as a Rust
format template into `List Slinky.Piece` (`{}` -> disp, `{:X}` -> hex, `{:08X}` -> hex8, `{{`/`}}` -> braces, text -> lit):

    def sb__write_assert_0 : List Piece := [.lit c!"ASSERT((", .disp, .lit c!"), \\"Error: ", .disp, .lit c!"\\");"]

and `def <file>__<fn>_count : Nat` (the number of literals in that function). Props/*Src.lean prove that the text the
model's `Line.renderBody` / `Expr.render` produce for each constructor the writer uses *is* `Slinky.fmt <template> <args>`
for the template found in the source now, and that the counts are what the model was written against. A changed, added or
removed literal therefore breaks a proof obligation. The translator knows nothing about which literal is used where; that
is the model's claim, and the correspondence run is what checks it.

usage: extract_formats.py [repo] [out]; prints `changed` or `same`."""
import os, re, sys

REPO = sys.argv[1] if len(sys.argv) > 1 else "/repo"
OUT = sys.argv[2] if len(sys.argv) > 2 else os.path.join(os.path.dirname(os.path.dirname(os.path.abspath(__file__))), "lean", "Src", "Formats.lean")
FILES = [("sb", "script_buffer.rs"), ("lw", "linker_writer.rs"), ("plw", "partial_linker_writer.rs")]

TOKEN = re.compile(r'''
    (?P<lc>//[^\n]*) |
    (?P<bc>/\*.*?\*/) |
    (?P<str>"(?:\\.|[^"\\])*") |
    (?P<chr>'(?:\\.|[^'\\])') |
    (?P<fn>\bfn\s+(?P<name>\w+)) |
    (?P<open>\{) |
    (?P<close>\})
''', re.S | re.X)


def functions(text):
    """[(name, [literal, ...])] for every `fn` with a body, in source order; nested closures stay with their function"""
    out = []
    stack = []          # (name, depth_at_open, literals)
    depth = 0
    pending = None
    for m in TOKEN.finditer(text):
        if m.group("lc") or m.group("bc") or m.group("chr"):
            continue
        if m.group("fn"):
            pending = m.group("name")
            continue
        if m.group("str"):
            if stack:
                stack[-1][2].append(m.group("str")[1:-1])
            continue
        if m.group("open"):
            depth += 1
            if pending is not None:
                stack.append((pending, depth, []))
                pending = None
            continue
        if m.group("close"):
            if stack and stack[-1][1] == depth:
                name, _, lits = stack.pop()
                out.append((name, lits, m.start()))
            depth -= 1
    # a `fn f(...);` without body (trait) leaves pending set: ignored
    out.sort(key=lambda t: t[2])
    return [(n, l) for n, l, _ in out]


def unescape(s):
    """Rust escapes -> text, or None when the translator does not know the escape"""
    out = []
    i = 0
    while i < len(s):
        c = s[i]
        if c == "\\":
            if i + 1 >= len(s):
                return None
            d = s[i + 1]
            if d == "n":
                out.append("\n")
            elif d == '"':
                out.append('"')
            elif d == "\\":
                out.append("\\")
            elif d == "'":
                out.append("'")
            elif d == "t":
                out.append("\t")
            else:
                return None
            i += 2
        else:
            out.append(c)
            i += 1
    return "".join(out)


def lean_lit(t):
    if any(ord(c) > 126 or (ord(c) < 32 and c not in "\n\t") for c in t):
        return None
    return 'c!"%s"' % t.replace("\\", "\\\\").replace('"', '\\"').replace("\n", "\\n").replace("\t", "\\t")


def pieces(raw):
    """the literal as a format template; every literal is read as one (a plain literal has no placeholders)"""
    t = unescape(raw)
    if t is None:
        return "(untranslated_escape : List Piece)"
    out = []
    buf = ""
    i = 0

    def flush():
        nonlocal buf
        if buf:
            l = lean_lit(buf)
            out.append(".lit %s" % l if l else "(untranslated_text : Piece)")
            buf = ""
    while i < len(t):
        if t.startswith("{{", i):
            buf += "{"
            i += 2
        elif t.startswith("}}", i):
            buf += "}"
            i += 2
        elif t[i] == "{":
            j = t.find("}", i)
            if j < 0:
                # not a format template (e.g. the literal "{" of begin_block)
                buf += t[i]
                i += 1
                continue
            spec = t[i + 1:j]
            flush()
            if spec == "":
                out.append(".disp")
            elif spec == ":X":
                out.append(".hex")
            elif spec == ":08X":
                out.append(".hex8")
            else:
                out.append("(untranslated_spec : Piece)")
            i = j + 1
        else:
            buf += t[i]
            i += 1
    flush()
    return "[" + ", ".join(out) + "]"


def main():
    parts = ["/-\n  GENERATED by tools/extract_formats.py from the current sources of /repo/slinky/src - do not edit.\n"
             "  Every string literal of every function of script_buffer.rs (sb), linker_writer.rs (lw) and\n"
             "  partial_linker_writer.rs (plw), in source order, read as a Rust format template.\n-/\n"
             "import Slinkyv.Fmt\nnamespace Slinky.Src\n"]
    index = []
    try:
        vtext = open(os.path.join(REPO, "slinky", "src", "version.rs"), encoding="utf-8").read()
    except OSError:
        vtext = ""
    for nm in ("MAJOR", "MINOR", "PATCH"):
        m = re.search(r"pub\s+static\s+VERSION_%s\s*:\s*u32\s*=\s*(\d+)\s*;" % nm, vtext)
        parts.append("def version_%s : Nat := %s" % (nm.lower(), m.group(1) if m else "(untranslated_version : Nat)"))
    parts.append("")
    for tag, fname in FILES:
        try:
            text = open(os.path.join(REPO, "slinky", "src", fname), encoding="utf-8").read()
        except OSError:
            text = ""
        seen = {}
        for name, lits in functions(text):
            k = seen.get(name, 0)
            seen[name] = k + 1
            ident = "%s__%s" % (tag, name) + ("" if k == 0 else "__%d" % k)
            parts.append("def %s_count : Nat := %d" % (ident, len(lits)))
            for i, raw in enumerate(lits):
                parts.append("def %s_%d : List Piece := %s" % (ident, i, pieces(raw)))
            index.append('("%s", %d)' % (ident, len(lits)))
            parts.append("")
    parts.append("/-- every function found, with its number of literals (a new text-producing function needs a model). -/")
    parts.append("def formatIndex : List (String × Nat) := [\n  " + ",\n  ".join(index) + "]\n")
    parts.append("end Slinky.Src\n")
    text = "\n".join(parts)
    os.makedirs(os.path.dirname(OUT), exist_ok=True)
    old = open(OUT).read() if os.path.exists(OUT) else None
    if old == text:
        print("same")
    else:
        open(OUT, "w").write(text)
        print("changed")


main()
