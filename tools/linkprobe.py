#!/usr/bin/env python3
"""tools/linkprobe.py <replay.json> [--keep]: generate with the real library, link with the ld-lab exactly as the
checks do, and print the script, the section table and the symbols (diagnosis aid; not used by any check)."""
import json, sys, os
sys.path.insert(0, os.path.join(os.path.dirname(os.path.abspath(__file__)), ".."))
from vlib import engine, props, tree, image, ldlab
from vlib.gen import Rng

def main():
    obj = json.load(open(sys.argv[1]))
    c = obj.get("case", obj)
    w = engine.Workers()
    try:
        impl = w.h.run(engine.impl_request(c))
        print("outcome:", impl.get("outcome"), impl.get("err_kind"))
        if impl.get("outcome") != "ok":
            return
        info = w.d.ask({"op": "docinfo", "case": {"id": c["id"], "doc": tree.to_proto(c["doc"]), "opts": c["opts"]}})
        scripts = [("main", impl["script"])] + [(n, t) for n, t in impl.get("partials", [])]
        rng = Rng(c.get("seed", 1) ^ 0x5EED)
        L = image.build_and_link("probe", scripts, info, rng)
        print(impl["script"])
        if isinstance(L, str):
            print("not linked:", L); return
        print("link ok:", L.ok, L.log[-500:] if not L.ok else "")
        if L.ok:
            for s in L.sections:
                print("  sec %-24s addr=0x%08X size=0x%X type=%s lma=%s" % (s["name"], s["addr"], s["size"], s.get("type"), image.lma_of(L, s)))
            for k, v in sorted(L.symbols.items(), key=lambda kv: (kv[1], kv[0])):
                print("  sym 0x%08X %s" % (v, k))
            print("objects:", L.objects)
        if os.environ.get('KEEP'):
            print('lab kept at', L.lab.dir)
        else:
            L.lab.close()
    finally:
        w.close()
main()
