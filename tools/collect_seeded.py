#!/usr/bin/env python3
"""copies the confirmed seeded changes from the scratch area into /verif/seeded/<id>/"""
import glob, json, os, shutil
ROUND = int(os.environ.get("ROUND", "1"))
SUF = "" if ROUND == 1 else str(ROUND)
rep = {}
for f in ("/tmp/mut/verify_report%s.json" % SUF,):
    if os.path.exists(f):
        rep.update(json.load(open(f)))
head = os.popen("git -C /repo rev-parse --short HEAD").read().strip()
for mid, r in sorted(rep.items()):
    if not r.get("confirmed"):
        continue
    pid, n = mid.split("-")
    src = "/tmp/mut/out%s/%s/%d" % (SUF, pid, int(n) - 2 * (ROUND - 1))
    dst = "/verif/seeded/%s-%s" % (pid, n)
    os.makedirs(dst, exist_ok=True)
    for f in glob.glob(src + "/*"):
        if os.path.isfile(f) and not f.endswith(".orig"):
            shutil.copy(f, dst)
    meta = json.load(open(os.path.join(src, "meta.json")))
    meta["confirmed_by_me"] = {
        "repo_head": head,
        "ran": "tools/verify_seeded.py in a scratch worktree of /repo (git worktree under /tmp, removed afterwards): "
               "git apply patch.diff; cargo test --workspace --offline; demonstration with and without the patch",
        "suite_with_patch": r.get("suite_with_patch"),
        "demo_fails_with_patch": r.get("demo_fails_with_patch"),
        "demo_passes_without_patch": r.get("demo_passes_without_patch"),
        "ported": os.path.exists(os.path.join(src, "patch.diff.orig")),
    }
    json.dump(meta, open(os.path.join(dst, "meta.json"), "w"), indent=1)
print(sorted(os.listdir("/verif/seeded")))
