#!/bin/bash
# usage: tools/mutest.sh <patch.diff> <Cxx> [<Cyy> ...]   — apply a seeded change to /repo, run the checks, undo it
patch="$1"; shift
cd /repo || exit 2
if ! git apply --check "$patch" 2>/dev/null; then
  if ! git apply -3 --check "$patch" 2>/dev/null; then echo "PATCH-DOES-NOT-APPLY $patch"; exit 3; fi
  git apply -3 "$patch" >/dev/null 2>&1
else
  git apply "$patch"
fi
for p in "$@"; do
  (cd /verif && ./check "$p" quick 2>&1 | tail -4)
  echo "exit=$?"
done
git -C /repo reset -q --hard HEAD
git -C /repo status --short | head -3
