#!/usr/bin/env python3
"""Translator for the table-like parts of slinky's source (the second tie between model and code, next to the
correspondence run): reads /repo's *current* sources and writes lean/Src/Tables.lean with

  * `Src.defaults : Settings`      - every `settings_default_*()` of settings.rs, through `impl Default for Settings`;
  * `Src.<fn> : Style -> Str.. -> Str` - every naming function of linker_symbols_style.rs (the `format!` strings);
  * `Src.keys_<Struct> : List Str` and `Src.deny_<Struct> : Bool` - the field names and `deny_unknown_fields` of every
    `*Serial` struct (what serde accepts as keys);
  * `Src.sectionNameSource : Bool` - whether `convert_section_name_to_linker_format` and `utils::capitalize` still
    have the token text the hand model `Style.sectionName` was written from (a fingerprint, not a translation).

The hand-written theorems of Props/C05Src.lean, C08Src.lean, C16Src.lean state that the model's tables are these
(`rfl` / `decide`), so they are re-checked against what the code says now on every run. A construct this translator does
not know makes it write `#exit`-free but ill-typed Lean on purpose (an `untranslated` marker): the proof obligation then
breaks, which is reported as such (no-failing-input-found unless the correspondence run finds an input).

usage: extract_tables.py [repo] [out]   (defaults /repo, /verif/lean/Src/Tables.lean); prints `changed` or `same`."""
import os, re, sys

REPO = sys.argv[1] if len(sys.argv) > 1 else "/repo"
OUT = sys.argv[2] if len(sys.argv) > 2 else os.path.join(os.path.dirname(os.path.dirname(os.path.abspath(__file__))), "lean", "Src", "Tables.lean")


def src(name):
    try:
        return open(os.path.join(REPO, "slinky", "src", name), encoding="utf-8").read()
    except OSError:
        return ""


def strip_comments(s):
    s = re.sub(r"/\*.*?\*/", "", s, flags=re.S)
    return re.sub(r"//[^\n]*", "", s)


def lit(s):
    """a Rust string literal's content as the model's literal"""
    if any(ord(c) > 126 or c in '"\\' for c in s):
        return "(untranslated_string : Str)"
    return 'c!"%s"' % s


def camel(s):
    p = s.split("_")
    return p[0] + "".join(x.capitalize() for x in p[1:])


FIELD_RENAME = {"linker_symbols_style": "style"}


def rust_value(e):
    """the Lean term for the Rust expression of a default"""
    e = " ".join(e.split())
    if e in ("PathBuf::new()", "String::new()"):
        return "[]"
    if e == "None":
        return "none"
    if e in ("true", "false"):
        return e
    if e in ("HashMap::new()", "vec![]", "Vec::new()"):
        return "[]"
    m = re.fullmatch(r"LinkerSymbolsStyle::(\w+)", e)
    if m:
        return "." + m.group(1).lower()
    m = re.fullmatch(r"Some\((0x[0-9A-Fa-f]+|\d+)\)", e)
    if m:
        return "some %d" % int(m.group(1), 0)
    m = re.fullmatch(r'"([^"]*)"\.(?:to_string|into|to_owned)\(\)', e)
    if m:
        return lit(m.group(1))
    m = re.fullmatch(r"vec!\[(.*?),?\s*\]", e)
    if m:
        items = re.findall(r'"([^"]*)"\.(?:into|to_string|to_owned)\(\)', m.group(1))
        rest = re.sub(r'"([^"]*)"\.(?:into|to_string|to_owned)\(\)', "", m.group(1)).replace(",", "").strip()
        if not rest:
            return "[" + ", ".join(lit(x) for x in items) + "]"
    return "(untranslated_%s : _)" % re.sub(r"\W+", "_", e)[:40]


def gen_defaults():
    s = strip_comments(src("settings.rs"))
    fns = {}
    for m in re.finditer(r"(?:const\s+)?fn\s+(settings_default_\w+)\s*\(\s*\)\s*->\s*[^{]+\{(.*?)\n\}", s, flags=re.S):
        fns[m.group(1)] = m.group(2).strip()
    m = re.search(r"impl\s+Default\s+for\s+Settings\s*\{\s*fn\s+default\(\)\s*->\s*Self\s*\{\s*Self\s*\{(.*?)\}\s*\}\s*\}", s, flags=re.S)
    lines = []
    if not m:
        return "def defaults : Settings := (untranslated_impl_Default_for_Settings : _)\n"
    for fm in re.finditer(r"(\w+)\s*:\s*([^,]+?)\s*,", m.group(1) + ","):
        field, expr = fm.group(1), fm.group(2).strip()
        cm = re.fullmatch(r"(\w+)\(\)", expr)
        body = fns.get(cm.group(1)) if cm else None
        val = rust_value(body) if body is not None else rust_value(expr)
        lines.append("    %s := %s" % (camel(FIELD_RENAME.get(field, field)), val))
    return "/-- `impl Default for Settings`, field by field, as the source has it now. -/\ndef defaults : Settings :=\n  {\n" + ",\n".join(lines) + " }\n"


def fmt_expr(fmt, args):
    """`format!("a{}b{}", x, y)` as a concatenation"""
    parts = fmt.split("{}")
    if len(parts) != len(args) + 1:
        return "(untranslated_format : Str)"
    out = []
    for i, p in enumerate(parts):
        if p:
            out.append(lit(p))
        if i < len(args):
            out.append(args[i])
    return " ++ ".join(out) if out else "[]"


def gen_style():
    s = strip_comments(src("linker_symbols_style.rs"))
    out = []
    names = []
    for m in re.finditer(r"pub fn (\w+)\(&self((?:,\s*\w+:\s*&str)*)\)\s*->\s*String\s*\{(.*?)\n    \}", s, flags=re.S):
        name, params, body = m.group(1), re.findall(r"(\w+):\s*&str", m.group(2)), m.group(3)
        lets = ""
        lm = re.search(r"let\s+(\w+)\s*=\s*self\.convert_section_name_to_linker_format\((\w+)\);", body)
        if lm:
            lets = "  let %s := st.sectionName %s\n" % (lm.group(1), lm.group(2))
        arms = {}
        for am in re.finditer(r"LinkerSymbolsStyle::(\w+)\s*=>\s*format!\(\s*\"([^\"]*)\"((?:\s*,\s*\w+)*)\s*,?\s*\)", body):
            arms[am.group(1).lower()] = fmt_expr(am.group(2), re.findall(r"\w+", am.group(3)))
        names.append(name)
        ps = " ".join("(%s : Str)" % p for p in params)
        if set(arms) != {"splat", "makerom"}:
            out.append("def %s (st : Style) %s : Str := (untranslated_match_arms : _)\n" % (name, ps))
            continue
        out.append("def %s (st : Style) %s : Str :=\n%s  match st with\n  | .splat => %s\n  | .makerom => %s\n" % (name, ps, lets, arms["splat"], arms["makerom"]))
    out.append("/-- the naming functions the source has now. -/\ndef styleFunctions : List String := [%s]\n" % ", ".join('"%s"' % n for n in names))
    # fingerprint of the one function that is modelled by hand
    toks = lambda t: re.sub(r"\s+", "", t)
    m = re.search(r"fn convert_section_name_to_linker_format\(&self, section_type: &str\) -> String \{(.*?)\n    \}", s, flags=re.S)
    conv = toks(m.group(1)) if m else ""
    u = strip_comments(src("utils.rs"))
    m = re.search(r"pub\(crate\) fn capitalize\(s: &str\) -> String \{(.*?)\n\}", u, flags=re.S)
    cap = toks(m.group(1)) if m else ""
    want_conv = toks('''match self { LinkerSymbolsStyle::Splat => section_type.replace('.', "_").to_uppercase(), LinkerSymbolsStyle::Makerom => {
        if section_type == ".rodata" { "RoData".to_string() } else if section_type.chars().nth(0) == Some('.') { utils::capitalize(&section_type[1..]) }
        else { utils::capitalize(section_type) } } }''')
    out.append("/-- `convert_section_name_to_linker_format` still has the token text `Style.sectionName` was modelled from. -/\n"
               "def sectionNameSource : Bool := %s\n" % ("true" if conv == want_conv else "false"))
    out.append("/-- token text of `utils::capitalize` (compared with the recorded one in Props/C05Src.lean). -/\n"
               "def capitalizeSource : String := %s\n" % json_str(cap))
    return "\n".join(out)


def json_str(s):
    import json
    return json.dumps(s, ensure_ascii=True)


def gen_keys():
    out = []
    structs = []
    for f in sorted(os.listdir(os.path.join(REPO, "slinky", "src"))) if os.path.isdir(os.path.join(REPO, "slinky", "src")) else []:
        if not f.endswith(".rs"):
            continue
        s = strip_comments(src(f))
        for m in re.finditer(r"((?:#\[[^\]]*\]\s*)*)pub(?:\(crate\))?\s+struct\s+(\w+Serial)\s*\{(.*?)\n\}", s, flags=re.S):
            attrs, name, body = m.group(1), m.group(2), m.group(3)
            deny = "deny_unknown_fields" in attrs
            fields = []
            for fm in re.finditer(r"((?:#\[[^\]]*\]\s*)*)pub(?:\(crate\))?\s+(\w+)\s*:", body):
                fa, fname = fm.group(1), fm.group(2)
                if "serde(skip" in fa:
                    continue
                rm = re.search(r'rename\s*=\s*"([^"]*)"', fa)
                fields.append(rm.group(1) if rm else fname)
            structs.append(name)
            out.append("def keys_%s : List Str := [%s]\ndef deny_%s : Bool := %s\n" % (name, ", ".join(lit(x) for x in fields), name, "true" if deny else "false"))
    out.append("def serialStructs : List String := [%s]\n" % ", ".join('"%s"' % n for n in sorted(structs)))
    return "\n".join(out)


def main():
    text = ("/-\n  GENERATED by tools/extract_tables.py from the current sources of /repo/slinky/src - do not edit.\n"
            "  Regenerated by every `./check` run; Props/C05Src.lean, C08Src.lean and C16Src.lean prove that the hand-written\n"
            "  model has exactly these tables.\n-/\nimport Slinkyv.Types\nimport Slinkyv.Script\nnamespace Slinky.Src\n\n"
            + gen_defaults() + "\n" + gen_style() + "\n" + gen_keys() + "\nend Slinky.Src\n")
    os.makedirs(os.path.dirname(OUT), exist_ok=True)
    old = open(OUT).read() if os.path.exists(OUT) else None
    if old == text:
        print("same")
    else:
        open(OUT, "w").write(text)
        print("changed")


main()
