"""Canonical YAML value trees: Python None/bool/int/str/list/dict (+ Pairs for ordered maps
that may repeat a key, Float for float scalars); rendering to YAML text (one fixed
spelling: flow style, strings double-quoted) and to the protocol JSON the Lean driver reads."""
import json


class Pairs(list):
    """an ordered mapping given as a list of (key, value); keys may repeat"""


class Float(str):
    """a float scalar, kept as its source text"""


def to_yaml(t):
    if t is None:
        return "null"
    if t is True:
        return "true"
    if t is False:
        return "false"
    if isinstance(t, Float):
        return str(t)
    if isinstance(t, int):
        return str(t)
    if isinstance(t, str):
        return json.dumps(t, ensure_ascii=False)
    if isinstance(t, Pairs):
        return "{" + ", ".join(json.dumps(k, ensure_ascii=False) + ": " + to_yaml(v) for k, v in t) + "}"
    if isinstance(t, dict):
        return "{" + ", ".join(json.dumps(k, ensure_ascii=False) + ": " + to_yaml(v) for k, v in t.items()) + "}"
    if isinstance(t, (list, tuple)):
        return "[" + ", ".join(to_yaml(x) for x in t) + "]"
    raise TypeError(type(t))


def to_proto(t):
    if t is None or isinstance(t, bool):
        return t
    if isinstance(t, Float):
        return {"$f": str(t)}
    if isinstance(t, (int, str)):
        return t
    if isinstance(t, Pairs):
        return {"$m": [[k, to_proto(v)] for k, v in t]}
    if isinstance(t, dict):
        return {"$m": [[k, to_proto(v)] for k, v in t.items()]}
    if isinstance(t, (list, tuple)):
        return [to_proto(x) for x in t]
    raise TypeError(type(t))


def from_json(j):
    """plain JSON (e.g. from the harness' yaml2json) -> tree"""
    if isinstance(j, dict):
        if set(j.keys()) == {"$float"}:
            return Float(j["$float"])
        return {k: from_json(v) for k, v in j.items()}
    if isinstance(j, list):
        return [from_json(x) for x in j]
    return j
