"""Image-level oracle: links the implementation's script(s) with real GNU ld over synthetic
objects (one marker symbol per (file, member, input section)) and evaluates the image
clauses of the properties on the resulting ELF. Symbol names come from the Lean model's
`Style` table (driver op `docinfo`), never from a re-implementation here."""
import re

from . import ldlab, tree

FIXED_SYMS = {"entrypoint": 0x80400000, "osMemSize": 0x80500040, "__start": 0x80600000, "gCounter": 0x80700010,
              "_binary_start": 0x80800000, "func_80001000": 0x80001000, "sym": 0x80900000}
M32 = (1 << 32) - 1


def align_up(x, a):
    return x if not a or a <= 1 else (x + a - 1) // a * a


def parse_script(script):
    """statements of a script: list of dicts, in order, with the enclosing output section"""
    out = []
    depth = 0
    cur = None
    prev = None
    for raw in script.split("\n"):
        t = raw.strip()
        if t == "{":
            if depth == 1 and prev is not None:
                cur = prev.split()[0]
            depth += 1
            continue
        if t == "}":
            depth -= 1
            if depth == 1:
                cur = None
            continue
        prev = t
        if not t or depth < 2 or cur is None or cur == "/DISCARD/":
            if depth >= 1 and t:
                m = re.match(r"^([A-Za-z_.][\w.$]*) = (.*);$", t)
                if m and depth == 1:
                    out.append({"kind": "sym", "name": m.group(1), "expr": m.group(2), "outsec": None})
            continue
        m = re.match(r"^(KEEP\()?([^()\s:;=]+)(?::([^()\s]+))?\(([^()*]*)(\*?)\)\)?;$", t)
        if m and not t.startswith("*(") and " = " not in t and m.group(2) not in ("FILL", "PROVIDE", "HIDDEN", "PROVIDE_HIDDEN", "ASSERT", "ENTRY", "EXTERN"):
            out.append({"kind": "input", "keep": bool(m.group(1)), "path": m.group(2), "member": m.group(3),
                        "sec": m.group(4), "wild": m.group(5) == "*", "outsec": cur})
            continue
        m = re.match(r"^(?:PROVIDE\(|HIDDEN\(|PROVIDE_HIDDEN\()?([A-Za-z_.][\w.$]*) = (.*?)\)?;$", t)
        if m:
            out.append({"kind": "sym", "name": m.group(1), "expr": m.group(2), "outsec": cur})
            continue
        m = re.match(r"^\. \+= 0x([0-9A-F]+);$", t)
        if m:
            out.append({"kind": "pad", "n": int(m.group(1), 16), "outsec": cur})
    return out


def matches(st, sec):
    return sec.startswith(st["sec"]) if st["wild"] else sec == st["sec"]


class Linked:
    pass


MAIN = "\0main"     # the label of the main script in `scripts` (no segment can be called so)


def build_and_link(tag, scripts, info, rng, extra_sections=True, no_check_sections=False):
    """scripts: [(MAIN, text)] or [(MAIN, text), (seg, text)...] for partial mode (then `partial_objs` maps
    segment name -> object path named by the main script). Returns a Linked or a string reason when not linkable."""
    main = dict(scripts)[MAIN]
    partial_scripts = [(n, s) for n, s in scripts if n != MAIN]
    lab = ldlab.Lab(tag)
    lab.no_check_sections = no_check_sections     # (the two-step comparison: the two layouts differ in size, an overlap in one only is no finding)
    L = Linked()
    L.lab = lab
    try:
        seg_by_name = {s["name"]: s for s in info["segments"]}
        # which script names the source objects?
        sources = partial_scripts if partial_scripts else [(MAIN, main)]
        objects = {}     # (path, member) -> list of (sec, size, align, nobits)
        order = []
        L.stmts = {}
        for sname, script in sources:
            stmts = parse_script(script)
            L.stmts[sname] = stmts
            ins = [s for s in stmts if s["kind"] == "input"]
            for s in ins:
                p, m = s["path"], s["member"]
                if not ldlab.SAFE_PATH.match(p) or p.startswith("/") or ".." in p.split("/") or (m and not ldlab.SAFE_MEMBER.match(m)):
                    lab.close()
                    return "unsafe path"
                if not re.match(r"^[A-Za-z0-9_.]+$", s["sec"]) or s["sec"] == "COMMON":
                    continue
                members = [m] if m != "*" else ["w1.o", "w2.o"]
                for mm in members:
                    key = (p, mm)
                    if key not in objects:
                        objects[key] = []
                        order.append(key)
                    names = [x[0] for x in objects[key]]
                    cand = [s["sec"]] + ([s["sec"] + ".x"] if s["wild"] and rng.chance(0.2) else [])
                    for sec in cand:
                        if sec not in names:
                            nobits = s["outsec"].endswith(".noload") or s["sec"] in ldlab.NOBITS_NAMES if s["outsec"] else False
                            objects[key].append((sec, rng.pick([0, 4, 4, 8, 12, 0x10, 0x24, 0x100]), rng.pick([1, 4, 4, 8, 16]), nobits))
        if extra_sections:
            for key in order:
                if not info.get("discard_wildcard", True):
                    # without the wildcard unlisted sections become orphans, whose placement is the linker's own business
                    break
                if rng.chance(0.5):
                    objects[key].append((".zz_unlisted", 8, 4, False))
                if rng.chance(0.3):
                    objects[key].append((".reginfo", 4, 4, False))
                if rng.chance(0.2):
                    objects[key].append((".mdebug", 12, 4, False))
        if not objects:
            lab.close()
            return "no objects"
        # assemble
        by_path = {}
        for (p, m) in order:
            by_path.setdefault(p, []).append(m)
        cmd_inputs = []
        for p, members in by_path.items():
            if members == [None]:
                lab.assemble(p, ldlab.asm_for(p, objects[(p, None)]))
                cmd_inputs.append(("obj", p))
            else:
                if None in members:
                    lab.close()
                    return "path used both as object and archive"
                lab.archive(p, [(m, ldlab.asm_for(p + ":" + m, objects[(p, m)])) for m in members])
                cmd_inputs.append(("ar", p))
        L.objects = objects
        L.order = order
        defsyms = []
        for name, val in FIXED_SYMS.items():
            defsyms += ["--defsym", "%s=0x%X" % (name, val)]

        def inputs_for(script):
            used = {s["path"] for s in parse_script(script) if s["kind"] == "input"}
            args = []
            for kind, p in cmd_inputs:
                if p in used:
                    args += [p] if kind == "obj" else ["--whole-archive", p, "--no-whole-archive"]
            return args
        L.partial_logs = {}
        L.partial_objs = {}
        if partial_scripts:
            main_inputs = [s["path"] for s in parse_script(main) if s["kind"] == "input"]
            for sname, script in partial_scripts:
                # the object the main script expects for this segment
                cand = [p for p in main_inputs if p.endswith("/" + sname + ".o") or p == sname + ".o"]
                if not cand:
                    lab.close()
                    return "main script does not reference the partial object of " + sname
                target = cand[0]
                L.partial_objs[sname] = target
                import os
                os.makedirs(os.path.dirname(lab.path(target)) or lab.dir, exist_ok=True)
                ins = inputs_for(script)
                if not ins:
                    lab.assemble("empty_input.o", "")
                    ins = ["empty_input.o"]
                rc, out = lab.link(script, inputs=ins, relocatable=True, out=target)
                L.partial_logs[sname] = (rc, out)
                if rc != 0:
                    L.ok = False
                    L.log = "ld -r %s: %s" % (sname, out[-600:])
                    return L
            seen = []
            for p in main_inputs:
                if p not in seen:
                    seen.append(p)
            rc, out = lab.link(main, inputs=seen, extra=defsyms + ["-Map", "out.map"])
        else:
            rc, out = lab.link(main, inputs=inputs_for(main), extra=defsyms + ["-Map", "out.map"])
        L.ok = rc == 0
        L.log = out[-1500:]
        if L.ok:
            L.symbols = {k: v[0] for k, v in lab.symbols().items() if v[0] is not None}
            L.sections = lab.sections()
            L.symsec = lab.symbol_secs()
            L.loads = lab.segments()
            L.map_lma = lab.map_lmas()
            rc, ro, _ = ldlab.sh(["readelf", "-SW", "out.elf"], lab.dir)
            L.align = {}
            for line in ro.splitlines():
                m = re.match(r"\s*\[\s*\d+\]\s+(\S+)\s+\S+\s+[0-9a-f]+\s+[0-9a-f]+\s+[0-9a-f]+\s+\S+\s+(\S*)\s+\d+\s+\d+\s+(\d+)\s*$", line)
                if m:
                    L.align[m.group(1)] = int(m.group(3))
        L.main_stmts = parse_script(main)
        return L
    except RuntimeError as e:
        lab.close()
        return "toolchain: %s" % e
    except Exception:
        lab.close()
        raise


def object_table(L):
    """the input sections of the objects on the command line, in the order the linker walks them:
    [path, member|None, section, size, alignment]"""
    objs = []
    seen = []
    for (p, m) in L.order:
        if p not in seen:
            seen.append(p)
    for p in seen:
        for (pp, m) in L.order:
            if pp != p:
                continue
            # what the assembler really emits: .text, .data, .bss come first in every object (empty, alignment 1, when
            # the source does not mention them), then the other sections in source order
            given = [(sec, size, align) for sec, size, align, nobits in L.objects[(pp, m)] if sec != "COMMON"]
            std = []
            for name in (".text", ".data", ".bss"):
                hit = [g for g in given if g[0] == name]
                std.append(hit[0] if hit else (name, 0, 1))
            for sec, size, align in std + [g for g in given if g[0] not in (".text", ".data", ".bss")]:
                objs.append([pp, m, sec, size, align])
    return objs


def twostep_model(L2, driver, ordinary_script, main_script, partial_scripts):
    """the Lean two-step link (Slinkyv.Ld2, driver op `twostep`) on the same scripts and object table as the real
    two-step link L2. Returns None, or a dict: `two` / `two_exact` = [(marker, partial object)] in the order of the
    two-step link with the main script as written / with its partial-object statements taken by exact name,
    `one` = [marker] in the order of the one-step link; only input sections that have a marker in the image"""
    parts = [[L2.partial_objs[n], t] for n, t in partial_scripts if n in L2.partial_objs]
    ans = driver.ask({"op": "twostep", "objects": object_table(L2), "partials": parts, "main": main_script, "ordinary": ordinary_script})
    if not ans or "two" not in ans or not ans.get("two_plain"):
        return None
    out = {}
    for k in ("two", "two_exact", "one"):
        seq = []
        for p, m, sec, obj in ans[k]:
            mk = ldlab.marker(p if m is None else p + ":" + m, sec)
            if mk in L2.symbols:
                seq.append((mk, obj))
        out[k] = seq
    out["one"] = [mk for mk, _ in out["one"]]
    return out


def grabbing_statements(main_script, partial_objs):
    """pairs of statements of the main script for one partial object where the pattern of the earlier one (`name*`)
    also matches the section name of the later one: [(object, earlier, later)]"""
    out = []
    by = {}
    for st in parse_script(main_script):
        if st["kind"] == "input" and st["path"] in partial_objs:
            by.setdefault(st["path"], []).append(st)
    for obj, sts in by.items():
        for i, a in enumerate(sts):
            for b in sts[i + 1:]:
                if a["wild"] and b["sec"] != a["sec"] and b["sec"].startswith(a["sec"]):
                    out.append((obj, a["sec"], b["sec"]))
    return out


def ldsem_fidelity(L, info, driver, script):
    """runs the Lean linker semantics (Slinkyv.Ld, driver op `ld`) on the same script and object table and compares it
    with what GNU ld produced: every symbol value, every output section's address and size, the address of every
    placed input section. Returns (compared, mismatches) or None when the case is outside what the semantics covers."""
    if any(degenerate(s) for s in emitted(info)) or not info.get("discard_wildcard", True):
        return None
    # an allowlisted name that is also the name of an output section a segment defines: GNU ld merges the two
    # statements into one output section; the Lean semantics keeps two records (outside what it claims)
    outs = {st["outsec"] for st in parse_script(script) if st.get("outsec")}
    for sg in emitted(info):
        outs |= {"." + sg["name"], "." + sg["name"] + ".noload"}
    if outs & set(info.get("allowlist", [])):
        return None
    objs = object_table(L)
    used = {s["path"] for s in parse_script(script) if s["kind"] == "input"}
    objs = [o for o in objs if o[0] in used]
    ans = driver.ask({"op": "ld", "script": script, "objects": objs, "defsyms": [[k, v] for k, v in FIXED_SYMS.items()]})
    if not ans or "syms" not in ans:
        return (0, ["driver gave no answer to op ld"])
    if not ans.get("stable", True) or ans.get("emptied"):
        return None     # symbols read before their assignment have not settled after three evaluations
    bad = []
    n = 0
    # the hypothesis of the whole-script theorems (Props/Final.lean, C04.final_rom_symbols): the script assigns each
    # ROM symbol of an emitted segment once
    # ... and of C03.final_vram_end / final_follows_segment / final_default_placement / final_vram_start: each VRAM start and
    # end symbol of an emitted segment is assigned once and each header `.<segment>` occurs once
    twice = set(ans.get("assigned_twice", []))
    rom = {s[k] for s in emitted(info) for k in ("rom_start", "rom_end", "vram", "vram_end")}
    hdr2 = set(ans.get("headers_twice", [])) & {"." + s["name"] for s in emitted(info)}
    driver.last_final_hyp = ("assigned-once" if not (twice & rom) else "assigned-twice") + ("" if not hdr2 else "+header-twice")
    for name, v in ans["syms"].items():
        if name in FIXED_SYMS or name == ".":
            continue
        real = L.symbols.get(name)
        if real is None:
            continue
        n += 1
        if real != v % (1 << 32):
            bad.append("symbol %s: GNU ld 0x%X, Lean semantics 0x%X" % (name, real, v))
    for o in ans["secs"]:
        if o["name"] in (".symtab", ".strtab", ".shstrtab"):
            continue        # the linker's own tables
        real = sec_by_name(L, o["name"])
        if real is None:
            if o["size"] != 0:
                bad.append("section %s (size 0x%X in the Lean semantics) is missing from the image" % (o["name"], o["size"]))
            continue
        n += 1
        if real["size"] != o["size"] or (real["addr"] != o["addr"] % (1 << 32) and not (o["size"] == 0 and o["name"] in info.get("allowlist", []))):
            bad.append("section %s: GNU ld addr 0x%X size 0x%X, Lean semantics addr 0x%X size 0x%X" % (o["name"], real["addr"], real["size"], o["addr"], o["size"]))
    for p, m, sec, addr, out in ans["placed"]:
        if not any(x[0] == sec for x in L.objects.get((p, m), [])):
            continue    # an implicit empty .text/.data/.bss of the object: it has no marker
        real = marker_addr(L, p, m, sec)
        if real is None:
            size = [x[1] for x in L.objects[(p, m)] if x[0] == sec]
            bad.append("%s:%s(%s): placed by the Lean semantics, missing from the image" % (p, m, sec))
            continue
        n += 1
        size = [x[1] for x in L.objects[(p, m)] if x[0] == sec][0]
        if out in info.get("allowlist", []) and out == sec:
            continue    # order of the files inside a `*(sec)` single-entry section: ld's file walk, no property speaks about it
        if real != addr % (1 << 32) and not (size == 0 and sec_by_name(L, out) is None):
            bad.append("%s:%s(%s): GNU ld 0x%X, Lean semantics 0x%X" % (p, m, sec, real, addr))
    return (n, bad)


def sec_by_name(L, name):
    for s in L.sections:
        if s["name"] == name:
            return s
    return None


def lma_of(L, sec):
    m = getattr(L, "map_lma", None) or {}
    if sec.get("name") in m:
        return m[sec["name"]]
    for ld in L.loads:
        if ld["vaddr"] <= sec["addr"] < ld["vaddr"] + max(ld["memsz"], 1) and \
                ld["off"] <= sec["off"] < ld["off"] + max(ld["filesz"], 1) and sec["addr"] - ld["vaddr"] == sec["off"] - ld["off"]:
            return ld["paddr"] + (sec["addr"] - ld["vaddr"])
    return None


def emitted(info):
    return [s for s in info["segments"] if s["emitted"]]


def degenerate(s):
    """a segment without any allocatable section: GNU ld drops the empty output section and ignores its address,
    so the image clauses about its placement do not apply (DESIGN.md, interpretation notes)"""
    return not any(not sc["noload"] for sc in s["sections"])


def sym(L, name):
    return L.symbols.get(name)


def check_rom(L, info):
    """C04: ROM positions contiguous, ordered, exclude noload"""
    bad = []
    if info["single"]:
        return bad
    r = 0
    for s in emitted(info):
        rs, re_, rz = sym(L, s["rom_start"]), sym(L, s["rom_end"]), sym(L, s["rom_size"])
        if rs is None or re_ is None or rz is None:
            bad.append("%s: ROM symbols missing" % s["name"])
            continue
        exp = align_up(r, s["start_align"])
        if rs != exp:
            bad.append("%s: ROM start 0x%X, expected previous ROM end 0x%X rounded up to 0x%X = 0x%X" % (s["name"], rs, r, s["start_align"] or 1, exp))
        sec = sec_by_name(L, "." + s["name"])
        size = sec["size"] if sec else 0
        if sec and sec["size"] > 0 and sec["type"] != "NOBITS":
            lma = lma_of(L, sec)
            if lma is not None and lma != rs:
                bad.append("%s: load address 0x%X != ROM start symbol 0x%X" % (s["name"], lma, rs))
        exp_end = align_up(rs + size, s["end_align"])
        if re_ != exp_end:
            bad.append("%s: ROM end 0x%X, expected ROM start + size of allocatable part (0x%X + 0x%X) rounded up to 0x%X = 0x%X" % (
                s["name"], re_, rs, size, s["end_align"] or 1, exp_end))
        if rz != (re_ - rs) & M32:
            bad.append("%s: ROM size 0x%X != end - start" % (s["name"], rz))
        nl = sec_by_name(L, "." + s["name"] + ".noload")
        if nl and nl["size"] > 0 and nl["type"] != "NOBITS":
            bad.append("%s: noload part is emitted as %s (has file contents)" % (s["name"], nl["type"]))
        r = re_
    return bad


def expected_class_start(L, info, name):
    """the address the document requests for a class, computed from the document's rule and the member ends in the image
    (not from the class's own start symbol): fixed_vram, fixed_symbol, or the largest VRAM end among the emitted members
    of the classes it follows. Returns (full, prefix): `full` counts every emitted member of the followed classes, `prefix`
    only those listed before this class's first emitted member (what a script evaluated top-down can know there);
    None where it cannot be told"""
    cls = {c["name"]: c for c in info["classes"]}
    c = cls.get(name)
    if c is None:
        return None, None
    if c["fixed_vram"] is not None:
        return c["fixed_vram"], c["fixed_vram"]
    if c["fixed_symbol"] is not None:
        v = FIXED_SYMS.get(c["fixed_symbol"])
        return v, v
    em = emitted(info)
    first = next((i for i, s in enumerate(em) if s["vram_class"] == name), None)
    if first is None:
        return None, None
    full = prefix = 0
    for f in c.get("follows") or []:
        for i, s in enumerate(em):
            if s["vram_class"] != f:
                continue
            e = sym(L, s["vram_end"])
            if e is None:
                return None, None
            full = max(full, e)
            if i < first:
                prefix = max(prefix, e)
    return full, prefix


def check_vram(L, info):
    """C03: each segment starts at the requested VRAM address"""
    bad = []
    cls = {c["name"]: c for c in info["classes"]}
    if info["single"]:
        s = emitted(info)[0]
        prev = s["fixed_vram"] or 0
        first = True
        for sc in s["sections"]:
            e = sec_by_name(L, sc["name"])
            if e is None:
                continue
            if e["addr"] < prev or e["addr"] >= prev + 0x1000:
                bad.append("single-segment: section %s at 0x%X, expected to follow 0x%X" % (sc["name"], e["addr"], prev))
            prev = e["addr"] + e["size"]
            first = False
        return bad
    dot = 0
    for s in emitted(info):
        sec = sec_by_name(L, "." + s["name"])
        nl = sec_by_name(L, "." + s["name"] + ".noload")
        v, ve = sym(L, s["vram"]), sym(L, s["vram_end"])
        if degenerate(s):
            dot = None      # what ld does with the location counter around a dropped output section is its own business
            continue
        if v is None or ve is None:
            bad.append("%s: VRAM symbols missing" % s["name"])
            continue
        dropped = sec is None
        if sec is None:
            # ld drops the header of an output section without contents; its address is still ADDR(.s)
            sec = {"addr": v, "size": 0, "type": "NOBITS", "off": 0}
        a = L.align.get("." + s["name"], 1)
        if s["fixed_vram"] is not None:
            exp, why = s["fixed_vram"], "fixed_vram"
        elif s["fixed_symbol"] is not None:
            exp, why = FIXED_SYMS.get(s["fixed_symbol"]), "fixed_symbol"
        elif s["follows_segment"] is not None:
            exp, why = sym(L, s["follows_end_sym"]), "end of followed segment"
            if any(degenerate(x) for x in emitted(info)):
                exp = None      # see check_classes: around a dropped output section the symbols are ld's business
        elif s["vram_class"] is not None:
            exp, why = sym(L, cls[s["vram_class"]]["start"]) if s["vram_class"] in cls else None, "class start"
            full, prefix = expected_class_start(L, info, s["vram_class"])
            if any(degenerate(x) for x in emitted(info)):
                exp = full = None
            if full is not None and sec["addr"] not in (full, prefix):
                bad.append("%s: placed at 0x%X, but its class %s is requested at 0x%X (fixed address, or largest end of the members of the classes it follows)"
                           % (s["name"], sec["addr"], s["vram_class"], full))
        elif dot is None:
            exp, why = None, ""
        else:
            exp, why = align_up(align_up(dot, s["start_align"]), a), "previous end 0x%X rounded up to 0x%X and 0x%X" % (dot, s["start_align"] or 1, a)
        if exp is not None and sec["addr"] != exp:
            bad.append("%s: placed at 0x%X, requested 0x%X (%s)" % (s["name"], sec["addr"], exp, why))
        if v != sec["addr"]:
            bad.append("%s: VRAM start symbol 0x%X != address of the segment 0x%X" % (s["name"], v, sec["addr"]))
        end_alloc = sym(L, s["alloc"]["end"])
        if end_alloc is None:
            end_alloc = sec["addr"] + sec["size"]
        if nl is not None and not dropped:
            na = L.align.get("." + s["name"] + ".noload", 1)
            if nl["addr"] != align_up(end_alloc, na):
                bad.append("%s: noload part at 0x%X does not follow the allocatable part ending at 0x%X" % (s["name"], nl["addr"], end_alloc))
        end_all = sym(L, s["noload"]["end"])
        if end_all is None:
            end_all = (nl["addr"] + nl["size"]) if nl is not None else end_alloc
        if ve != align_up(end_all, s["end_align"]):
            bad.append("%s: VRAM end 0x%X, expected end of noload part 0x%X rounded up to 0x%X" % (s["name"], ve, end_all, s["end_align"] or 1))
        dot = ve
    return bad


def check_symbols(L, info):
    """C05: completeness / size = end - start / start <= end / brackets; returns (bad, kf)"""
    bad, kf = [], []
    for s in emitted(info):
        fams = []
        if not info["single"]:
            fams += [("ROM", s["rom_start"], s["rom_end"], s["rom_size"])]
            if not degenerate(s):
                fams += [("VRAM", s["vram"], s["vram_end"], s["vram_size"])]
        fams += [("alloc", s["alloc"]["start"], s["alloc"]["end"], s["alloc"]["size"]),
                 ("noload", s["noload"]["start"], s["noload"]["end"], s["noload"]["size"])]
        for sc in s["sections"]:
            fams.append((sc["name"], sc["start"], sc["end"], sc["size"]))
        for label, a, b, z in fams:
            va, vb, vz = sym(L, a), sym(L, b), sym(L, z)
            if va is None or vb is None or vz is None:
                bad.append("%s/%s: symbol %s missing from the image" % (s["name"], label, [n for n, v in ((a, va), (b, vb), (z, vz)) if v is None]))
                continue
            if vz != (vb - va) & M32:
                bad.append("%s/%s: size 0x%X != end 0x%X - start 0x%X" % (s["name"], label, vz, vb, va))
            if va > vb:
                if label in ("alloc", "noload"):
                    kf.append("KF-C05-kind-start-before-header")
                else:
                    bad.append("%s/%s: start 0x%X exceeds end 0x%X" % (s["name"], label, va, vb))
        for o in s["offsets"]:
            if sym(L, o) is None:
                bad.append("%s: linker offset symbol %s missing" % (s["name"], o))
        if not info["single"]:
            sec = sec_by_name(L, "." + s["name"])
            v, ve = sym(L, s["vram"]), sym(L, s["vram_end"])
            a0 = sym(L, s["alloc"]["start"])
            if sec is not None and a0 is not None and a0 != sec["addr"]:
                kf.append("KF-C05-kind-start-before-header")
            for sc in s["sections"]:
                va, vb = sym(L, sc["start"]), sym(L, sc["end"])
                if None not in (va, vb, v, ve) and not (v <= va <= vb <= ve):
                    bad.append("%s: group %s [0x%X,0x%X) outside the segment [0x%X,0x%X)" % (s["name"], sc["name"], va, vb, v, ve))
    for c in info["classes"]:
        used = [s for s in emitted(info) if s["vram_class"] == c["name"]]
        vs = [sym(L, c[k]) for k in ("start", "end", "size")]
        if used and None in vs:
            bad.append("class %s: start/end/size symbols missing" % c["name"])
        elif not used and any(v is not None for v in vs):
            bad.append("class %s has no emitted member but defines symbols" % c["name"])
        elif used:
            if vs[2] != (vs[1] - vs[0]) & M32:
                bad.append("class %s: size != end - start" % c["name"])
    return bad, kf


def group_ranges(stmts):
    """for the statements of one script: each input statement with the group (start symbol, end symbol) around it"""
    out = []
    cur_start = None
    pending = []
    for st in stmts:
        if st["kind"] == "sym" and st["outsec"] is not None and st["expr"] == ".":
            # a `X = .;` inside an output section: a start, an end or an offset symbol
            pending.append(st["name"])
        if st["kind"] == "input":
            out.append(st)
    return out


def first_match_layout(L, stmts):
    """expected (object, section) -> index of the input statement that places it (first match wins)"""
    placed = {}
    for i, st in enumerate(stmts):
        if st["kind"] != "input":
            continue
        for (p, m), secs in L.objects.items():
            if p != st["path"]:
                continue
            if st["member"] not in (None, "*") and m != st["member"]:
                continue
            for sec, size, align, nobits in secs:
                if (p, m, sec) not in placed and matches(st, sec):
                    placed[(p, m, sec)] = i
    return placed


def marker_addr(L, p, m, sec):
    fid = p if m is None else p + ":" + m
    return sym(L, ldlab.marker(fid, sec))


def check_brackets_and_order(L, info, stmts):
    """C05 bracket clause, C02 order clause, C01 placement clause on a one-step link; returns dict of lists"""
    res = {"C01": [], "C02": [], "C05": []}
    placed = first_match_layout(L, stmts)
    segs = {("." + s["name"]): s for s in emitted(info)}
    for s in emitted(info):
        segs["." + s["name"] + ".noload"] = s
    # group boundaries: walk statements, remember the last `X_START = .` seen in the output section
    grp = {}
    cur = None
    secsyms = {}
    for s in emitted(info):
        for sc in s["sections"]:
            secsyms[sc["start"]] = ("start", s, sc)
            secsyms[sc["end"]] = ("end", s, sc)
    last_in_outsec = {}
    for i, st in enumerate(stmts):
        if st["kind"] == "sym" and st["name"] in secsyms:
            kind, s, sc = secsyms[st["name"]]
            cur = (s, sc) if kind == "start" else None
        elif st["kind"] == "input":
            grp[i] = cur
    # single-segment mode: groups are the output sections themselves
    for (p, m, sec), i in sorted(placed.items(), key=lambda kv: kv[1]):
        st = stmts[i]
        addr = marker_addr(L, p, m, sec)
        size = [x[1] for x in L.objects[(p, m)] if x[0] == sec][0]
        if addr is None:
            res["C01"].append("%s:%s(%s) is placed by a statement but missing from the image (discarded)" % (p, m, sec))
            continue
        if size == 0 and st.get("outsec") and sec_by_name(L, st["outsec"]) is None:
            # ld removed the (empty) output section; where it then parks the marker of a zero-size input section says nothing
            continue
        g = grp.get(i)
        if g:
            s, sc = g
            a, b = sym(L, sc["start"]), sym(L, sc["end"])
            if a is not None and b is not None and not (a <= addr and addr + size <= b):
                res["C05"].append("%s(%s) at 0x%X+0x%X outside its group %s/%s [0x%X,0x%X)" % (p, sec, addr, size, s["name"], sc["name"], a, b))
            if not info["single"]:
                v, ve = sym(L, s["vram"]), sym(L, s["vram_end"])
                if v is not None and ve is not None and not (v <= addr and addr + size <= ve):
                    res["C01"].append("%s(%s) at 0x%X outside its segment %s [0x%X,0x%X)" % (p, sec, addr, s["name"], v, ve))
        key = st["outsec"]
        if key in last_in_outsec and addr < last_in_outsec[key][0]:
            res["C02"].append("%s(%s) at 0x%X precedes %s placed by an earlier statement of %s" % (p, sec, addr, last_in_outsec[key][1], key))
        last_in_outsec[key] = (addr, "%s(%s)@0x%X" % (p, sec, addr))
    # symbols other than markers must bracket nothing else: every marker inside a group's range belongs to it
    if not info["single"]:
        prev = 0
        for s in emitted(info):
            a, b = sym(L, s["rom_start"]), sym(L, s["rom_end"])
            if a is not None and b is not None:
                if not (prev <= a <= b):
                    res["C02"].append("ROM positions decrease at segment %s: previous end 0x%X, start 0x%X, end 0x%X" % (s["name"], prev, a, b))
                prev = b
    return res


def check_align(L, info, stmts):
    """C09"""
    bad = []
    for s in emitted(info):
        if not info["single"]:
            for symn, al, what in ((s["rom_start"], s["start_align"], "ROM start"), (s["rom_end"], s["end_align"], "ROM end"),
                                   (s["vram_end"], s["end_align"], "VRAM end")):
                v = sym(L, symn)
                if v is not None and al and v % al:
                    bad.append("%s: %s 0x%X is not a multiple of 0x%X" % (s["name"], what, v, al))
            default_placed = s["fixed_vram"] is None and s["fixed_symbol"] is None and s["follows_segment"] is None and s["vram_class"] is None
            v = sym(L, s["vram"])
            if default_placed and v is not None and s["start_align"] and v % s["start_align"]:
                bad.append("%s: default-placed VRAM start 0x%X is not a multiple of 0x%X" % (s["name"], v, s["start_align"]))
        for sc in s["sections"]:
            if info["single"]:
                base = 0
            else:
                part = sec_by_name(L, "." + s["name"] + (".noload" if sc["noload"] else ""))
                if part is None:
                    continue
                base = part["addr"]
            for symn, als, what in ((sc["start"], sc["start_aligns"], "start"), (sc["end"], sc["end_aligns"], "end")):
                v = sym(L, symn)
                for al in als:
                    if v is not None and al and (v - base) % al:
                        bad.append("%s: %s of group %s (0x%X, part starts at 0x%X) is not at a multiple of 0x%X" % (s["name"], what, sc["name"], v, base, al))
        if s["subalign"]:
            placed = first_match_layout(L, stmts)
            for (p, m, sec), i in placed.items():
                st = stmts[i]
                owner = st["outsec"]
                names = ["." + s["name"], "." + s["name"] + ".noload"] if not info["single"] else [sc["name"] for sc in s["sections"]]
                if owner in names:
                    a = marker_addr(L, p, m, sec)
                    if a is not None and a % s["subalign"]:
                        bad.append("%s: input section %s(%s) at 0x%X is not at a multiple of subalign 0x%X" % (s["name"], p, sec, a, s["subalign"]))
    return bad


def check_classes(L, info):
    """C10; returns (bad, kf)"""
    bad, kf = [], []
    for c in info["classes"]:
        members = [s for s in emitted(info) if s["vram_class"] == c["name"]]
        if not members:
            continue
        st, en, sz = sym(L, c["start"]), sym(L, c["end"]), sym(L, c["size"])
        if None in (st, en, sz):
            bad.append("class %s: symbols missing" % c["name"])
            continue
        # a segment without allocatable sections is dropped by ld together with its address; what the location counter and
        # the symbols around it then hold is ld's business (DESIGN.md, interpretation notes): no address clause applies
        murky = any(degenerate(s) for s in emitted(info))
        full, prefix = expected_class_start(L, info, c["name"])
        if murky:
            full = None
        if full is not None and st != full:
            if st == prefix:
                # exactly the recorded finding: a member of a followed class is listed after this class's first member
                kf.append("KF-C10-followed-member-listed-later")
            else:
                bad.append("class %s: start 0x%X, expected 0x%X" % (c["name"], st, full))
        mends = [sym(L, s["vram_end"]) for s in members]
        if None not in mends and en != max(mends):
            bad.append("class %s: end 0x%X, expected the largest member end 0x%X" % (c["name"], en, max(mends)))
        if sz != (en - st) & M32:
            bad.append("class %s: size != end - start" % c["name"])
        for s in members:
            sec = sec_by_name(L, "." + s["name"])
            if sec is not None and sec["addr"] != st and not murky:
                bad.append("class %s: member %s starts at 0x%X, not at the class start 0x%X" % (c["name"], s["name"], sec["addr"], st))
    return bad, kf


def check_tail(L, info):
    """C18: allowlisted sections survive under their own name, denied and (with the wildcard) unplaced sections are discarded"""
    bad = []
    names = {s["name"] for s in L.sections}
    have = {sec for secs in L.objects.values() for sec, _, _, _ in secs}
    placed = set()
    for st in L.main_stmts:
        if st["kind"] == "input":
            for sec in have:
                if matches(st, sec):
                    placed.add(sec)
    for a in info["allowlist"]:
        if a in have and a not in placed and a not in names:
            bad.append("allowlisted section %s did not survive as an output section" % a)
    for d in info["denylist"]:
        if d in have and d not in placed and d not in info["allowlist"] and d in names:
            bad.append("denied section %s survived" % d)
    if info["discard_wildcard"]:
        for sec in have:
            if sec not in placed and sec not in info["allowlist"] and sec in names:
                bad.append("unplaced section %s survived although discard_wildcard_section is on" % sec)
    return bad


def check_gp(L, info):
    """C17: value of _gp"""
    bad = []
    g = sym(L, "_gp")
    if info["hardcoded_gp"] is not None:
        if g != info["hardcoded_gp"]:
            bad.append("_gp = %s, expected the hardcoded value 0x%X" % (g, info["hardcoded_gp"]))
        return bad
    want = None
    for s in emitted(info):
        if s["gp"]:
            for sc in s["sections"]:
                if sc["name"] == s["gp"]["section"]:
                    st = sym(L, sc["start"])
                    if st is not None:
                        want = (st + s["gp"]["offset"]) & M32
    if want is None and g is not None:
        bad.append("_gp is defined (0x%X) although neither hardcoded_gp_value nor an included gp_info asks for it" % g)
    if want is not None and g != want:
        bad.append("_gp = %s, expected start of the group + offset = 0x%X" % (hex(g) if g is not None else None, want))
    return bad
