"""The decision procedure shared by all property checks (DESIGN §3.2):
build → proof audit → corpus and generated cases through implementation and model →
decide → evidence."""
import hashlib, json, os, re, subprocess, sys, time, collections

from . import tree, run, gen

VERIF = run.VERIF
BUILD = run.BUILD
LEAN = os.path.join(VERIF, "lean")
ALLOWED_AXIOMS = {"propext", "Classical.choice", "Quot.sound"}
TRUSTED_BASE = [
    "Lean 4.33 kernel and elaborator (lake build; leanchecker on the property module in the thorough tier)",
    "axioms: subset of {propext, Classical.choice, Quot.sound}, printed per theorem on every run; no native_decide, no bv_decide, no own axioms, no sorry",
    "hand-written Lean model of slinky (lean/Slinkyv/*.lean), tied to /repo only by this run's correspondence check (byte equality of all outputs on every generated case)",
    "modelled by hand, validated differentially only: std::path (components/push/Display/extension), serde derive behaviour on the canonical value tree, HashMap iteration as an arbitrary order, {:X}/{:08X} formatting, ASCII case mapping",
    "Slinkyv.Ld (lean/Slinkyv/Ld.lean): a hand-written Lean semantics of GNU ld for the statements slinky writes; the image-level theorems are about this model of the linker; it is compared with GNU ld 2.40 (-m elf_i386) on every linked case of the run (all symbol values, section addresses/sizes, input-section addresses; evidence field ldsem_fidelity); outside it: segments without allocatable sections, orphans, output sections that end up empty without a symbol, PROVIDE semantics, 64-bit arithmetic, ld.lld",
    "Slinkyv.Ld2 (lean/Slinkyv/Ld2.lean): placement order (`takes`, tied to Ld.exec by the theorem C11.exec_takes) and the two-step link of partial mode (`relink`, `twoStep`): that an output section of `ld -r` becomes one section of the partial object holding its contents in placement order, that empty ones are absent and that the final link moves such a section as one block is validated against real two-step links on every linked C11 case (twostep_model_fidelity), not proved",
    "tools/extract_tables.py: a regex-based translator of three table-like parts of the source (settings defaults, naming format strings, serde field lists) into lean/Src/Tables.lean, regenerated on every run; Props/C05Src, C08Src, C16Src prove the model's tables equal to it; the translator is trusted to read those constructs faithfully (an unknown construct yields ill-typed Lean, i.e. a broken obligation, not a silent pass)",
    "tools/extract_formats.py: a tokenizer-based translator of every string literal of every function of script_buffer.rs, linker_writer.rs and partial_linker_writer.rs (read as Rust format templates) and of the version constants into lean/Src/Formats.lean, regenerated on every run; Props/C01Src, C03Src, C04Src, C05Fmt, C08Fmt, C09Src, C10Src, C11Src, C12Src, C13Src, C17Src, C18Src, C20Src prove that the text the model prints for each statement kind is `format!` (Slinkyv.Fmt.fmt: `{}`, `{:X}`, `{:08X}`) of the template the code has now, and that each function has the number of literals the model was written against; which template is used where is the model's claim and is validated by the correspondence run",
    "tools/extract_logic.py: a recursive-descent translator of the body of RuntimeSettings::should_emit_entry (if-without-else, return, let mut, assignment, !, &&, ||, is_empty, iter().any/all with the one closure the code uses) and of the match arms of FileKind::from_path into lean/Src/Logic.lean, regenerated on every run; Props/C06Src.shouldEmit_src and Props/C16Logic.kindFromPath_src prove the model's functions equal to the translations for all inputs",
    "not modelled: serde_yaml's scanner (bytes -> tree), clap, std::fs beyond create-parents/truncate/write",
    "the harness (harness/src/main.rs), ./check (python) and the Lean script parser are ordinary programs",
]


def sh(cmd, cwd=None, env=None, timeout=None):
    e = dict(os.environ)
    e["CARGO_NET_OFFLINE"] = "true"
    if env:
        e.update(env)
    p = subprocess.run(cmd, cwd=cwd, env=e, shell=isinstance(cmd, str), capture_output=True, text=True, timeout=timeout)
    return p.returncode, p.stdout, p.stderr


def build_harness(need_cli=False):
    os.makedirs(BUILD, exist_ok=True)
    rc, out, err = sh(["cargo", "build", "--offline", "--manifest-path", os.path.join(VERIF, "harness", "Cargo.toml")],
                      env={"CARGO_TARGET_DIR": os.path.join(BUILD, "harness-target")})
    if rc != 0:
        return False, err[-4000:]
    if need_cli:
        rc, out, err = sh(["cargo", "build", "--offline", "-p", "slinky-cli", "--manifest-path", "/repo/Cargo.toml"],
                          env={"CARGO_TARGET_DIR": os.path.join(BUILD, "repo-target")})
        if rc != 0:
            return False, err[-4000:]
    return True, ""


def regen_tables():
    """the translator half of the tie: lean/Src/Tables.lean is rewritten from /repo's current sources
    (tools/extract_tables.py); Props/C05Src, C08Src, C16Src are then re-checked against it by the proof audit"""
    rc, out, err = sh([sys.executable, os.path.join(VERIF, "tools", "extract_tables.py"), "/repo", os.path.join(LEAN, "Src", "Tables.lean")])
    rc2, out2, err2 = sh([sys.executable, os.path.join(VERIF, "tools", "extract_formats.py"), "/repo", os.path.join(LEAN, "Src", "Formats.lean")])
    rc3, out3, err3 = sh([sys.executable, os.path.join(VERIF, "tools", "extract_logic.py"), "/repo", os.path.join(LEAN, "Src", "Logic.lean")])
    return rc == 0 and rc2 == 0 and rc3 == 0, (out + err + out2 + err2 + out3 + err3).strip()


def build_lean(targets):
    rc, out, err = sh(["lake", "build"] + targets, cwd=LEAN, timeout=3600)
    return rc == 0, (out + err)[-6000:]


FORBIDDEN = re.compile(r"\bsorry\b|\badmit\b|^\s*axiom\s|native_decide|bv_decide|implemented_by|\bunsafe\s|maxHeartbeats\s+0")


def strip_comments(src):
    # remove /- ... -/ (nested) and -- line comments
    out = []
    i, depth = 0, 0
    while i < len(src):
        if src.startswith("/-", i):
            depth += 1
            i += 2
        elif src.startswith("-/", i) and depth > 0:
            depth -= 1
            i += 2
        elif depth > 0:
            i += 1
        elif src.startswith("--", i):
            j = src.find("\n", i)
            i = len(src) if j < 0 else j
        else:
            out.append(src[i])
            i += 1
    return "".join(out)


def scan_forbidden():
    hits = []
    for root, _, files in os.walk(LEAN):
        if ".lake" in root:
            continue
        for f in files:
            if f.endswith(".lean"):
                p = os.path.join(root, f)
                body = strip_comments(open(p).read())
                for n, line in enumerate(body.split("\n"), 1):
                    if FORBIDDEN.search(line):
                        hits.append("%s: %s" % (os.path.relpath(p, LEAN), line.strip()[:120]))
    return hits


def proof_modules(pid):
    """Props/<pid>.lean and its continuation files Props/<pid>[A-Z]*.lean (e.g. Props/C06Trace.lean)"""
    import glob
    out = [pid]
    for p in sorted(glob.glob(os.path.join(LEAN, "Props", pid + "[A-Z]*.lean"))):
        out.append(os.path.basename(p)[:-5])
    return out


def proof_audit(pid):
    """builds the property's theorem modules, prints the axioms of every theorem in them; returns a dict"""
    res = {"module": "Props." + pid, "theorems": [], "obligations": 0, "discharged": 0, "failed": [], "axioms": {}}
    mods = proof_modules(pid)
    if not os.path.exists(os.path.join(LEAN, "Props", pid + ".lean")):
        res["failed"].append("missing Props/%s.lean" % pid)
        return res
    ok, log = build_lean(["Props." + m for m in mods])
    if not ok:
        res["failed"].append("lake build %s failed: %s" % (" ".join("Props." + m for m in mods), log[-1500:]))
    full_names = []
    for m in mods:
        src = strip_comments(open(os.path.join(LEAN, "Props", m + ".lean")).read())
        ns = re.findall(r"^namespace\s+(\S+)", src, re.M)
        prefix = (ns[0] + ".") if ns else ""
        for n in re.findall(r"^(?:protected\s+|private\s+)?theorem\s+([^\s:({\[]+)", src, re.M):
            full_names.append((n, prefix + n))
    res["theorems"] = [n for n, _ in full_names]
    res["obligations"] = len(full_names)
    if not ok or not full_names:
        if not full_names:
            res["failed"].append("no theorem in Props/%s.lean" % pid)
        return res
    audit = os.path.join(BUILD, "audit_%s.lean" % pid)
    with open(audit, "w") as f:
        for m in mods:
            f.write("import Props.%s\n" % m)
        for _, full in full_names:
            f.write("#print axioms %s\n" % full)
    rc, out, err = sh(["lake", "env", "lean", audit], cwd=LEAN, timeout=1800)
    text = out + err
    for m in re.finditer(r"'([^']+)' (depends on axioms: \[([^\]]*)\]|does not depend on any axioms)", text):
        name = m.group(1)
        axs = [a.strip() for a in (m.group(3) or "").replace("\n", " ").split(",") if a.strip()]
        res["axioms"][name] = axs
    for n, full in full_names:
        if full not in res["axioms"]:
            res["failed"].append("no axiom report for " + full)
        elif not set(res["axioms"][full]) <= ALLOWED_AXIOMS:
            res["failed"].append("%s uses axioms %s" % (full, res["axioms"][full]))
        else:
            res["discharged"] += 1
    hits = scan_forbidden()
    if hits:
        res["failed"].append("forbidden constructs: " + "; ".join(hits[:5]))
    return res


def leanchecker(pid):
    ok, log = True, ""
    for m in proof_modules(pid):
        rc, out, err = sh(["lake", "env", "leanchecker", "Props." + m], cwd=LEAN, timeout=3600)
        ok = ok and rc == 0
        log += (out + err)[-1000:]
    return ok, log[-2000:]


FINGERPRINT = os.path.join(VERIF, "source_fingerprint.json")


def source_fingerprint():
    """sha256 of every source file of the two crates (what the model was last validated against in depth)"""
    import glob
    out = {}
    for pat in ("slinky/src/*.rs", "slinky-cli/src/*.rs", "slinky/Cargo.toml", "slinky-cli/Cargo.toml", "Cargo.toml", "Cargo.lock"):
        for f in sorted(glob.glob(os.path.join("/repo", pat))):
            try:
                out[os.path.relpath(f, "/repo")] = hashlib.sha256(open(f, "rb").read()).hexdigest()
            except OSError:
                out[os.path.relpath(f, "/repo")] = "unreadable"
    return out


def source_changed():
    """the files of /repo's working tree that differ from the recorded fingerprint (the tree every thorough tier
    was last run on). A changed source makes the quick tier run a deeper case stream (`./check`: escalation)."""
    try:
        rec = json.load(open(FINGERPRINT))["files"]
    except (OSError, ValueError, KeyError):
        return ["<no fingerprint recorded>"]
    now = source_fingerprint()
    return sorted(k for k in set(rec) | set(now) if rec.get(k) != now.get(k))


def case_hash(obj):
    return hashlib.sha256(json.dumps(obj, sort_keys=True, default=str).encode()).hexdigest()[:16]


def impl_request(c):
    req = {"id": c["id"], "yaml": tree.to_yaml(c["doc"]), "opts": c["opts"], "mode": c["mode"],
           "version_comment": c.get("version_comment", False), "repeat": c.get("repeat", 1)}
    if c.get("reuse_opts") is not None:
        req["reuse_opts"] = c["reuse_opts"]
    if c.get("history"):
        req["history"] = True
    return req


def proto_case(c, want):
    pc = {k: v for k, v in c.items() if k not in ("doc",)}
    pc["doc"] = tree.to_proto(c["doc"])
    pc["want"] = want
    return pc


class Workers:
    """a harness + driver pair"""

    def __init__(self):
        self.h = run.Harness()
        self.d = run.Driver()

    def eval(self, c, want, extra_impl=None):
        impl = self.h.run(impl_request(c))
        req_case = proto_case(c, want)
        v = self.d.ask({"case": req_case, "impl": impl, **(extra_impl or {})})
        if v is None:
            self.d.start()
            v = {"driver_crash": True}
        return impl, v

    def close(self):
        self.h.close()
        self.d.close()


def shrink_tree(doc, still_fails, budget_s=40.0):
    """greedy delta debugging on the value tree: drop list items and dict keys while the verdict persists"""
    import copy
    t0 = time.time()
    cur = copy.deepcopy(doc)

    def paths(t, pre=()):
        if isinstance(t, dict):
            for k in list(t.keys()):
                yield pre + (k,)
                yield from paths(t[k], pre + (k,))
        elif isinstance(t, list):
            for i in range(len(t) - 1, -1, -1):
                yield pre + (i,)
                yield from paths(t[i], pre + (i,))

    def remove(t, path):
        t = copy.deepcopy(t)
        x = t
        for p in path[:-1]:
            x = x[p]
        del x[path[-1]]
        return t
    changed = True
    while changed and time.time() - t0 < budget_s:
        changed = False
        for p in list(paths(cur)):
            if time.time() - t0 > budget_s:
                break
            try:
                cand = remove(cur, p)
            except (KeyError, IndexError, TypeError):
                continue
            try:
                if still_fails(cand):
                    cur = cand
                    changed = True
                    break
            except Exception:
                continue
    return cur


def write_evidence(pid, ev):
    os.makedirs(os.path.join(VERIF, "evidence"), exist_ok=True)
    with open(os.path.join(VERIF, "evidence", pid + ".json"), "w") as f:
        json.dump(ev, f, indent=1, default=str)


def write_replay(pid, obj):
    os.makedirs(os.path.join(VERIF, "replays"), exist_ok=True)
    h = case_hash(obj)
    p = os.path.join(VERIF, "replays", "%s-%s.json" % (pid, h))
    with open(p, "w") as f:
        json.dump(obj, f, indent=1, default=str)
    return p


def load_known_findings():
    p = os.path.join(VERIF, "known_findings.json")
    if not os.path.exists(p):
        return {"findings": [], "fixed": []}
    return json.load(open(p))


def corpus_cases(pid):
    """cases that run before the random ones on every run: the witness of every listed known finding of the property
    (so its KNOWN-FINDING line is printed whenever the finding is still there) and the minimized past failures kept
    under /verif/corpus/<pid>/*.json"""
    out = []
    for f in load_known_findings().get("findings", []):
        w = f.get("witness") or {}
        if f.get("property") == pid and w.get("yaml"):
            c = {"id": "kf-" + f["id"], "seed": 1, "stream": "valid", "opts": [], "mode": "normal", "version_comment": False, "link": True,
                 "doc": json.loads(w["yaml"])}
            c.update(w.get("case") or {})
            out.append(c)
    d = os.path.join(VERIF, "corpus", pid)
    if os.path.isdir(d):
        for n in sorted(os.listdir(d)):
            if n.endswith(".json"):
                c = json.load(open(os.path.join(d, n)))
                c = c.get("case", c)
                c["id"] = "corpus-" + n[:-5]
                out.append(c)
    return out
