"""Process plumbing: the Rust harness (real slinky) and the Lean driver (model), both
speaking one JSON document per line."""
import json, os, subprocess, sys, time

VERIF = os.path.dirname(os.path.dirname(os.path.abspath(__file__)))
BUILD = os.path.join(VERIF, ".build")
HARNESS_BIN = os.path.join(BUILD, "harness-target", "debug", "slinky-harness")
DRIVER_BIN = os.path.join(VERIF, "lean", ".lake", "build", "bin", "driver")


class LineProc:
    def __init__(self, argv, env=None):
        self.argv = argv
        self.env = env
        self.p = None
        self.start()

    def start(self):
        e = dict(os.environ)
        if self.env:
            e.update(self.env)
        self.p = subprocess.Popen(self.argv, stdin=subprocess.PIPE, stdout=subprocess.PIPE,
                                  stderr=subprocess.DEVNULL, env=e, text=True, bufsize=1)

    def ask(self, obj, timeout=None):
        """returns the decoded answer, or None when the process died / closed its output"""
        try:
            self.p.stdin.write(json.dumps(obj) + "\n")
            self.p.stdin.flush()
            line = self.p.stdout.readline()
        except (BrokenPipeError, OSError):
            line = ""
        if not line:
            return None
        return json.loads(line)

    def close(self):
        try:
            self.p.stdin.close()
        except Exception:
            pass
        try:
            self.p.wait(timeout=10)
        except Exception:
            self.p.kill()


class Harness(LineProc):
    """the real implementation; an abort (stack overflow, OOM, SIGKILL by a limit) of the
    child is observed as outcome 'abort' and the child is restarted"""

    def __init__(self, limits=True, fsize=None):
        self.limits = limits
        self.fsize = fsize      # RLIMIT_FSIZE in bytes (SIGXFSZ ignored): a file grows to that size, then writes are cut short / fail
        super().__init__([HARNESS_BIN])

    def start(self):
        pre = None
        if self.limits:
            import resource
            fsize = self.fsize

            def pre():
                resource.setrlimit(resource.RLIMIT_AS, (8 << 30, 8 << 30))
                if fsize:
                    import signal
                    signal.signal(signal.SIGXFSZ, signal.SIG_IGN)
                    resource.setrlimit(resource.RLIMIT_FSIZE, (fsize, fsize))
        e = dict(os.environ)
        e["HARNESS_SCRATCH"] = os.path.join(BUILD, "scratch")
        self.p = subprocess.Popen(self.argv, stdin=subprocess.PIPE, stdout=subprocess.PIPE,
                                  stderr=subprocess.DEVNULL, env=e, text=True, bufsize=1,
                                  preexec_fn=pre)

    def run(self, req, timeout=20.0):
        a = self.run_once(req, timeout)
        if a.get("outcome") == "timeout" and getattr(self, "confirmed_hangs", 0) < 2:
            # a loaded machine must not look like a hang: only a request that also exceeds a much longer limit counts.
            # (after two confirmed hangs this run reports a violation anyway: later ones are not timed a second time)
            a = self.run_once(req, 120.0)
            if a.get("outcome") == "timeout":
                self.confirmed_hangs = getattr(self, "confirmed_hangs", 0) + 1
        return a

    def run_once(self, req, timeout):
        import threading
        res = {}

        def target():
            res["a"] = self.ask(req)
        t = threading.Thread(target=target, daemon=True)
        t.start()
        t.join(timeout)
        if t.is_alive():
            self.p.kill()
            t.join(5)
            self.start()
            return {"id": req.get("id"), "outcome": "timeout"}
        a = res.get("a")
        if a is None:
            rc = self.p.poll()
            self.start()
            return {"id": req.get("id"), "outcome": "abort", "err_msg": "harness exited rc=%s" % rc}
        return a


class Driver(LineProc):
    def __init__(self):
        super().__init__([DRIVER_BIN])

    def ask(self, obj, timeout=600.0):
        """as LineProc.ask, but a model that does not answer within `timeout` seconds is killed and restarted (the answer
        is then None, which every caller treats as a failure of the model, never as a verdict about the implementation)"""
        import threading
        res = {}

        def target():
            res["a"] = LineProc.ask(self, obj)
        t = threading.Thread(target=target, daemon=True)
        t.start()
        t.join(timeout)
        if t.is_alive():
            self.p.kill()
            t.join(5)
            self.start()
            return None
        return res.get("a")

    def run(self, case, impl):
        a = self.ask({"case": case, "impl": impl})
        if a is None:
            self.start()
            return {"id": case.get("id"), "driver_crash": True}
        return a
