"""Feature booster: rare combinations on purpose.

The type-directed generator (gen.py) draws every feature independently, so a combination of two or three
*specific* features (a class that follows a class whose only member is conditional; two segments with one name
under complementary conditions in partial mode; a pad in a sub-group section of a segment with `keep_sections`)
is hit with the product of small probabilities. The seeded changes of rounds 5-7 that the checks first missed
all needed such a combination. `boost(r, case)` takes a generated valid case and forces one to three features
from the table below into it (each `ensure_*` edits the document so that the feature is present and the document
stays inside the documented rules as far as it can tell; a document that slinky then rejects is still a case:
model and implementation must agree on the rejection). The names of the applied features are kept in
`case["boost"]` and counted in the evidence (`input_distribution`), pair coverage included.
"""
import copy

from . import gen

ALLOC_D = [".text", ".data", ".rodata", ".sdata"]
NOLOAD_D = [".sbss", ".scommon", ".bss", "COMMON"]


def _settings(doc):
    return doc.setdefault("settings", {})


def _opt(case, k, v):
    """make option k carry value v (last one wins)"""
    case["opts"] = [p for p in case["opts"] if p[0] != k] + [[k, v]]


def _lists(doc, seg):
    s = doc.get("settings") or {}
    a = seg.get("alloc_sections", s.get("alloc_sections", ALLOC_D))
    n = seg.get("noload_sections", s.get("noload_sections", NOLOAD_D))
    return list(a or []), list(n or [])


def _subs(doc, seg):
    s = doc.get("settings") or {}
    return dict(seg.get("sections_subgroups", s.get("sections_subgroups", {})) or {})


def _multi(doc):
    return not (doc.get("settings") or {}).get("single_segment_mode")


def _leaf_files(files):
    for f in files:
        if f.get("kind") == "group":
            yield from _leaf_files(f.get("files", []))
        else:
            yield f


def _objects(seg):
    return [f for f in _leaf_files(seg.get("files", [])) if "path" in f]


def _strip_addr(seg):
    for k in ("fixed_vram", "fixed_symbol", "follows_segment", "vram_class"):
        seg.pop(k, None)


# ---------------------------------------------------------------------------------------------------------------
# features


def dup_segment_names(r, case):
    """one segment name used twice under complementary conditions; the options select exactly one of the two"""
    doc = case["doc"]
    if not _multi(doc):
        return False
    segs = doc["segments"]
    i = r.below(len(segs))
    a = segs[i]
    b = copy.deepcopy(a)
    for s in (a, b):
        for k in ("include_if_any", "include_if_all", "exclude_if_any", "exclude_if_all"):
            s.pop(k, None)
    b["files"] = [{"path": "dup/%s_2.o" % a["name"]}] + b.get("files", [])[:1]
    form = r.below(3)
    if form == 0:
        a["include_if_any"] = [["version", "jp"]]
        b["include_if_any"] = [["version", "us"]]
    elif form == 1:
        a["exclude_if_any"] = [["version", "us"]]
        b["exclude_if_all"] = [["version", "jp"]]
    else:
        a["include_if_all"] = [["version", "jp"], ["debug", "on"]]
        b["exclude_if_all"] = [["version", "jp"], ["debug", "on"]]
    _opt(case, "version", r.pick(["us", "jp"]))
    if r.chance(0.5):
        _opt(case, "debug", r.pick(["on", "off"]))
    b.pop("gp_info", None)
    pos = i + 1 + r.below(len(segs) - i)
    segs.insert(pos, b)
    if r.chance(0.5) and pos + 1 <= len(segs):
        f = {"name": "after_" + a["name"], "follows_segment": a["name"], "files": [{"path": "fol.o"}]}
        segs.insert(min(len(segs), pos + 1 + r.below(2)), f)
    return True


def class_follow_conditional(r, case):
    """a class that follows another one whose members are all conditional (selected or not by the options)"""
    doc = case["doc"]
    if not _multi(doc):
        return False
    cl = doc.setdefault("vram_classes", [])
    names = {c["name"] for c in cl}
    A = "fA" if "fA" not in names else "fA2"
    B = "fB" if "fB" not in names else "fB2"
    cl.append({"name": A, "fixed_vram": r.pick([0x80400000, 0x80500040])})
    fol = {"name": B, "follows_classes": [A] + ([cl[0]["name"]] if cl and r.chance(0.3) and cl[0]["name"] not in (A, B) else [])}
    cl.append(fol)
    segs = doc["segments"]
    cond = r.pick([("include_if_any", [["version", "us"]]), ("include_if_all", [["version", "us"], ["debug", "on"]]),
                   ("exclude_if_any", [["version", "jp"]]), ("exclude_if_all", [["version", "jp"], ["debug", "on"]])])
    nmem = 1 + r.below(2)
    members = []
    for k in range(nmem):
        m = {"name": "%s_m%d" % (A, k), "vram_class": A, "files": [{"path": "cls/%s_%d.o" % (A, k)}]}
        m[cond[0]] = copy.deepcopy(cond[1])
        members.append(m)
    follower = {"name": B + "_m", "vram_class": B, "files": [{"path": "cls/%s.o" % B}]}
    order = r.below(3)
    if order == 0:
        segs.extend(members + [follower])
    elif order == 1:
        segs.extend([follower] + members)
    else:
        segs[0:0] = members
        segs.append(follower)
    _opt(case, "version", r.pick(["us", "jp", "us"]))
    _opt(case, "debug", r.pick(["on", "off"]))
    return True


def single_conditional(r, case):
    """single_segment_mode whose only segment carries conditions (the options may or may not select it)"""
    doc = case["doc"]
    s = _settings(doc)
    if case["mode"] == "partial":
        return False
    seg = doc["segments"][0]
    doc["segments"] = [seg]
    doc.pop("vram_classes", None)
    _strip_addr(seg)
    if r.chance(0.5):
        seg["fixed_vram"] = 0x80000400
    s["single_segment_mode"] = True
    seg[r.pick(["include_if_any", "exclude_if_any", "include_if_all", "exclude_if_all"])] = [["version", r.pick(["us", "jp"])]]
    _opt(case, "version", r.pick(["us", "jp"]))
    if r.chance(0.6):
        s["sections_denylist"] = [".junk", ".comment"]
    if r.chance(0.6):
        s["sections_allowlist"] = [".mdebug"]
    if r.chance(0.5):
        s["discard_wildcard_section"] = r.chance(0.7)
    if seg.get("gp_info") and "hardcoded_gp_value" in s:
        seg.pop("gp_info")
    return True


def shared_subgroup(r, case):
    """one section listed as a sub-group of two sections, and a `section_order` that sends something into it or
    out of it (cycle guard territory: generation may legitimately fail with the cycle error)"""
    doc = case["doc"]
    seg = r.pick(doc["segments"])
    a, n = _lists(doc, seg)
    listed = a + n
    if len(listed) < 2:
        return False
    x, y = r.sample(listed, 2)
    sub = r.pick([".init", ".ctor", ".lit4", ".rdata2"])
    if sub in listed:
        return False
    table = _subs(doc, seg)
    table[x] = list(table.get(x, [])) + [sub]
    table[y] = list(table.get(y, [])) + [sub]
    seg["sections_subgroups"] = table
    objs = _objects(seg)
    if objs:
        f = r.pick(objs)
        f["section_order"] = r.pick([{y: sub}, {sub: x}, {x: sub}, {sub: y, y: x}])
    return True


def mark_in_subgroup(r, case):
    """a pad and a linker offset whose section is a sub-group section (top level and inside a group)"""
    doc = case["doc"]
    seg = r.pick(doc["segments"])
    a, n = _lists(doc, seg)
    if not a + n:
        return False
    table = _subs(doc, seg)
    lead = r.pick(a + n)
    sub = next((v[0] for k, v in table.items() if k in a + n and v), None)
    if sub is None:
        sub = r.pick([".rdata9", ".ctors", ".lit8"])
        table[lead] = list(table.get(lead, [])) + [sub]
        seg["sections_subgroups"] = table
    marks = [{"kind": "pad", "pad_amount": 0x20, "section": sub},
             {"kind": "linker_offset", "linker_offset_name": "sub_mark%d" % r.below(9), "section": sub}]
    files = seg["files"]
    if r.chance(0.5):
        files.insert(r.below(len(files) + 1), marks[0])
        files.insert(r.below(len(files) + 1), marks[1])
    else:
        files.insert(r.below(len(files) + 1), {"kind": "group", "dir": "mg", "files": [{"path": "mg1.o"}] + marks + [{"path": "mg2.o"}]})
    return True


def null_override(r, case):
    """a global value for an overridable option and an explicit `null` for it on a segment"""
    doc = case["doc"]
    s = _settings(doc)
    seg = r.pick(doc["segments"])
    for f in r.sample(["subalign", "segment_start_align", "segment_end_align", "section_start_align", "section_end_align", "fill_value"], 1 + r.below(3)):
        s[f] = 0xAB if f == "fill_value" else r.pick([0x10, 0x40, 0x100, 0x1000])
        seg[f] = None
    return True


def foreign_section_destination(r, case):
    """a segment overrides the section lists with a section the global lists do not have; a file moves something into it"""
    doc = case["doc"]
    seg = r.pick(doc["segments"])
    a, n = _lists(doc, seg)
    new = r.pick([".vutext", ".vudata", ".ovl_bss", "special"])
    if new in a + n or not a:
        return False
    pos = r.below(len(a) + 1)
    seg["alloc_sections"] = a[:pos] + [new] + a[pos:]
    gp = seg.get("gp_info")
    objs = _objects(seg)
    if objs:
        f = r.pick(objs)
        src = r.pick(a)
        f["section_order"] = {src: new}
    return True


def keep_list_and_order(r, case):
    """`keep_sections` in list form (own or inherited) together with a `section_order` one of whose sections is in the list"""
    doc = case["doc"]
    seg = r.pick(doc["segments"])
    a, n = _lists(doc, seg)
    if len(a + n) < 2:
        return False
    objs = _objects(seg)
    if not objs:
        return False
    f = r.pick(objs)
    src, dst = r.sample(a + n, 2)
    f["section_order"] = {src: dst}
    lst = r.pick([[src], [dst], [src, dst]])
    where = r.below(3)
    if where == 0:
        f["keep_sections"] = lst
    elif where == 1:
        f.pop("keep_sections", None)
        seg["keep_sections"] = lst
    else:
        f.pop("keep_sections", None)
        seg["keep_sections"] = r.pick([False, lst])
        if seg.get("vram_class"):
            for c in doc.get("vram_classes", []):
                if c["name"] == seg["vram_class"]:
                    c["keep_sections"] = r.pick([True, lst])
    return True


def class_keep_segment_false(r, case):
    """class keeps, the member segment says false, files say nothing (nearest ancestor wins)"""
    doc = case["doc"]
    if not _multi(doc):
        return False
    cl = doc.setdefault("vram_classes", [])
    if not cl:
        cl.append({"name": "kc", "fixed_vram": 0x80600000})
    c = r.pick(cl)
    c["keep_sections"] = r.pick([True, [".text", ".data"]])
    seg = r.pick(doc["segments"])
    _strip_addr(seg)
    seg["vram_class"] = c["name"]
    seg["keep_sections"] = r.pick([False, False, [".rodata"]])
    for f in _leaf_files(seg["files"]):
        if r.chance(0.7):
            f.pop("keep_sections", None)
    return True


def dup_toplevel(r, case):
    """the same required symbol / assignment / assert listed twice under different conditions"""
    doc = case["doc"]
    name = r.pick(gen.SYMS)
    doc.setdefault("required_symbols", [])
    doc["required_symbols"] += [{"name": name, "include_if_any": [["version", "jp"]]}, {"name": name, "exclude_if_any": [["version", "jp"]]}]
    if r.chance(0.5):
        doc.setdefault("symbol_assignments", [])
        doc["symbol_assignments"] += [{"name": "dupA", "value": "0x10", "include_if_any": [["version", "us"]]},
                                      {"name": "dupA", "value": "0x20", "provide": True, "exclude_if_any": [["version", "us"]]}]
    if r.chance(0.5):
        doc.setdefault("asserts", [])
        doc["asserts"] += [{"check": "1", "error_message": "same", "include_if_any": [["debug", "on"]]}, {"check": "1", "error_message": "same"}]
    _opt(case, "version", r.pick(["us", "jp"]))
    return True


def gp_after_alignment(r, case):
    """gp_info on a section that has a start alignment at both levels, not the first section of its part"""
    doc = case["doc"]
    s = _settings(doc)
    if "hardcoded_gp_value" in s:
        return False
    for g in doc["segments"]:
        g.pop("gp_info", None)
    seg = r.pick(doc["segments"])
    a, n = _lists(doc, seg)
    if len(a) < 2:
        return False
    sec = r.pick(a[1:])
    seg["gp_info"] = {"section": sec, "offset": r.pick([0x7FF0, 0x10, -16])}
    seg["section_start_align"] = r.pick([0x10, 0x100])
    m = dict(seg.get("sections_start_alignment", {}) or {})
    m[sec] = r.pick([0x40, 0x200])
    seg["sections_start_alignment"] = m
    return True


def allowlist_collision(r, case):
    """an allowlisted name that a segment's output section or a listed section also carries"""
    doc = case["doc"]
    s = _settings(doc)
    seg = r.pick(doc["segments"])
    a, n = _lists(doc, seg)
    name = "." + seg["name"] if _multi(doc) or not a else r.pick(a)
    s["sections_allowlist"] = list(s.get("sections_allowlist", []) or []) + [name]
    if r.chance(0.5):
        s["sections_allowlist_extra"] = list(s.get("sections_allowlist_extra", []) or []) + [name]
    s["discard_wildcard_section"] = True
    return True


def option_value_with_marker(r, case):
    """an option whose value looks like a marker (of a provided option, of a missing one, of itself) and that some path
    of the document uses - the base path, a file, a partial folder; a key given twice"""
    doc = case["doc"]
    s = _settings(doc)
    if case["mode"] == "partial" and r.chance(0.6):
        s["partial_build_segments_folder"] = r.pick(["segments_{version}", "pb/{version}/o", "{objdir}/seg"])
        s.setdefault("partial_scripts_folder", "ps")
    if r.chance(0.6) or not gen.keys_in_doc(doc):
        s["base_path"] = r.pick(["build/{objdir}", "{objdir}", "b/{objdir}/x"])
    keys = sorted(gen.keys_in_doc(doc))
    k = r.pick(keys)
    _opt(case, "version", r.pick(["us", "jp"]))
    _opt(case, k, r.pick(["{version}_objs", "{version}", "o{region}", "{rev}", "{" + k + "}", "a{rev}b{version}"]))
    for other in keys:
        if other not in [p[0] for p in case["opts"]]:
            _opt(case, other, r.pick(["x1", "y2"]))
    if r.chance(0.5):
        case["opts"] = [["version", "eu"]] + case["opts"]      # an earlier value that the later one replaces
    return True


def excluded_then_aligned(r, case):
    """an excluded segment with an end alignment, directly followed by a segment with the same start alignment"""
    doc = case["doc"]
    if not _multi(doc):
        return False
    x = r.pick([0x100, 0x1000, 0x40])
    segs = doc["segments"]
    first = {"name": "pre_seg", "files": [{"path": "pre.o"}, {"kind": "pad", "pad_amount": 0x14, "section": ".data"}], "segment_end_align": r.pick([4, 0x10, None])}
    ex = {"name": "gone", "files": [{"path": "gone.o"}], "segment_end_align": x, "include_if_any": [["version", "zz"]]}
    nxt = {"name": "post_seg", "files": [{"path": "post.o"}], "segment_start_align": x}
    pos = r.below(len(segs) + 1)
    segs[pos:pos] = [first, ex, nxt]
    return True


def subalign_vs_section_align(r, case):
    """`subalign` together with section start alignments that are smaller, equal and larger"""
    doc = case["doc"]
    seg = r.pick(doc["segments"])
    a, n = _lists(doc, seg)
    seg["subalign"] = r.pick([0x10, 0x20])
    seg["section_start_align"] = r.pick([0x4, 0x10, 0x20, 0x40])
    if a + n:
        seg["sections_start_alignment"] = {r.pick(a + n): r.pick([0x8, 0x10, 0x80])}
    return True


def all_files_excluded(r, case):
    """a segment (and a group) all of whose files are excluded by per-file conditions while the segment itself is emitted"""
    doc = case["doc"]
    if not _multi(doc):
        return False
    seg = {"name": "dbg_only", "files": [{"path": "dbg1.o", "include_if_any": [["build", "debug"]]},
                                           {"kind": "group", "dir": "dg", "include_if_any": [["build", "debug"]], "files": [{"path": "dbg2.o"}]},
                                           {"path": "dbg3.o", "exclude_if_any": [["build", "release"]]}]}
    doc["segments"].insert(r.below(len(doc["segments"]) + 1), seg)
    _opt(case, "build", r.pick(["release", "release", "debug"]))
    return True


def pad_under_keep(r, case):
    """pads and linker offsets below a keeping class / segment / group"""
    doc = case["doc"]
    seg = r.pick(doc["segments"])
    a, n = _lists(doc, seg)
    if not a + n:
        return False
    sec = r.pick(a + n)
    marks = [{"kind": "pad", "pad_amount": 0x10, "section": sec}, {"kind": "linker_offset", "linker_offset_name": "kp%d" % r.below(9), "section": sec}]
    k = r.below(3)
    if k == 0:
        seg["keep_sections"] = r.pick([True, [sec]])
        seg["files"] += marks
    elif k == 1:
        seg["files"].append({"kind": "group", "keep_sections": r.pick([True, [sec]]), "files": [{"path": "kg.o"}] + marks})
    else:
        marks[0]["keep_sections"] = True
        marks[1]["keep_sections"] = [sec]
        seg["files"] += marks
    return True


def partial_folder_with_marker(r, case):
    """partial mode with `{key}` markers in both folders, dependency and header files, dotted segment names"""
    doc = case["doc"]
    if not _multi(doc):
        return False
    s = _settings(doc)
    s["partial_scripts_folder"] = r.pick(["ps/{version}", "ld_{version}"])
    s["partial_build_segments_folder"] = r.pick(["segments_{version}", "pb/{version}/o", "{region}_{version}"])
    s.setdefault("target_path", "rom.elf")
    s["d_path"] = r.pick(["rom.d", "{version}/rom.d"])
    s.setdefault("symbols_header_path", "syms.h")
    _opt(case, "version", r.pick(["us", "jp"]))
    _opt(case, "region", r.pick(["ntsc", "pal"]))
    if r.chance(0.5):
        seg = r.pick(doc["segments"])
        old = seg["name"]
        seg["name"] = old + r.pick([".1", ".title", ".a.b"])
        for g in doc["segments"]:
            if g.get("follows_segment") == old:
                g["follows_segment"] = seg["name"]
        if r.chance(0.5):
            doc["segments"].append({"name": old + ".2", "files": [{"path": "second.o"}]})
    case["mode"] = "partial"
    return True


def alloc_holds_noload_names(r, case):
    """a global `alloc_sections` that names default noload sections while `noload_sections` is omitted everywhere"""
    doc = case["doc"]
    s = _settings(doc)
    s["alloc_sections"] = r.pick([[".text", ".data", ".bss"], [".text", ".sbss", ".rodata"], [".text", "COMMON"]])
    s.pop("noload_sections", None)
    s.pop("sections_subgroups", None)
    for seg in doc["segments"]:
        for k in ("alloc_sections", "noload_sections", "sections_subgroups", "gp_info", "sections_start_alignment", "sections_end_alignment"):
            seg.pop(k, None)
        for f in _leaf_files(seg["files"]):
            f.pop("section_order", None)
            f.pop("keep_sections", None)
            if f.get("kind") in ("pad", "linker_offset"):
                f["section"] = ".text"
    return True


def empty_alloc_with_noload(r, case):
    """a segment with `alloc_sections: []` and a non-empty noload list, between two ordinary segments"""
    doc = case["doc"]
    if not _multi(doc):
        return False
    seg = {"name": "framebuffers", "alloc_sections": [], "noload_sections": [".bss"], "files": [{"path": "fb.o"}]}
    if r.chance(0.5):
        seg["fixed_vram"] = 0x80700000
    doc["segments"].insert(r.below(len(doc["segments"]) + 1), seg)
    return True


def excluded_first_class_member(r, case):
    """the first listed member of a class is excluded, a later one is emitted"""
    doc = case["doc"]
    if not _multi(doc):
        return False
    cl = doc.setdefault("vram_classes", [])
    names = {c["name"] for c in cl}
    n = "late" if "late" not in names else "late2"
    cl.append({"name": n, "fixed_vram": 0x80800000})
    m1 = {"name": n + "_off", "vram_class": n, "files": [{"path": "l0.o"}], "include_if_any": [["version", "zz"]]}
    m2 = {"name": n + "_on", "vram_class": n, "files": [{"path": "l1.o"}]}
    m3 = {"name": n + "_on2", "vram_class": n, "files": [{"path": "l2.o"}, {"path": "l3.o"}]}
    doc["segments"] += [m1, m2] + ([m3] if r.chance(0.5) else [])
    return True


def many_address_fields_variants(r, case):
    """follows_segment to an excluded / later / repeated segment is known-finding territory; here: every address kind once"""
    doc = case["doc"]
    if not _multi(doc) or len(doc["segments"]) < 2:
        return False
    segs = doc["segments"]
    for i, seg in enumerate(segs):
        _strip_addr(seg)
    segs[0]["fixed_vram"] = 0x80000400
    segs[1]["follows_segment"] = segs[0]["name"]
    if len(segs) > 2:
        segs[2]["fixed_symbol"] = "osMemSize"
    return True


def gp_in_subgroup(r, case):
    """gp_info naming a section the segment only has as a sub-group section (not in its lists): to be rejected"""
    doc = case["doc"]
    s = _settings(doc)
    if "hardcoded_gp_value" in s:
        return False
    for g in doc["segments"]:
        g.pop("gp_info", None)
    seg = r.pick(doc["segments"])
    a, n = _lists(doc, seg)
    if not a + n:
        return False
    table = _subs(doc, seg)
    sub = next((v[0] for k, v in table.items() if k in a + n and v and v[0] not in a + n), None)
    if sub is None:
        sub = r.pick([".sdata2", ".lit4", ".small"])
        if sub in a + n:
            return False
        lead = r.pick(a + n)
        table[lead] = list(table.get(lead, [])) + [sub]
        seg["sections_subgroups"] = table
    seg["gp_info"] = {"section": sub, "offset": 0x7FF0}
    return True


def assignment_named_like_generated(r, case):
    """a user symbol assignment (and a required symbol) spelled exactly like a symbol slinky generates"""
    doc = case["doc"]
    st = (doc.get("settings") or {}).get("linker_symbols_style", "splat")
    seg = r.pick(doc["segments"])
    n = seg["name"]
    names = ["%s_ROM_END" % n, "%s_VRAM" % n, "%s_ROM_START" % n, "%s_TEXT_START" % n, "%s_VRAM_END" % n] if st != "makerom" else \
        ["_%sSegmentRomEnd" % n, "_%sSegmentStart" % n, "_%sSegmentRomStart" % n, "_%sSegmentTextStart" % n]
    doc.setdefault("symbol_assignments", [])
    doc["symbol_assignments"].insert(r.below(len(doc["symbol_assignments"]) + 1), {"name": r.pick(names), "value": r.pick(["0x00100000", "0x10"])})
    if r.chance(0.4):
        doc["symbol_assignments"].append({"name": "rom_size_u", "value": r.pick(names)})
    if r.chance(0.3):
        doc.setdefault("required_symbols", []).append({"name": r.pick(names)})
    return True


def cyclic_unused_classes(r, case):
    """classes that follow each other in a cycle and have no emitted member, followed by a class that is used"""
    doc = case["doc"]
    if not _multi(doc):
        return False
    cl = doc.setdefault("vram_classes", [])
    names = {c["name"] for c in cl}
    if {"cyA", "cyB", "cyUse"} & names:
        return False
    k = r.below(3)
    if k == 0:
        cl += [{"name": "cyA", "follows_classes": ["cyB"]}, {"name": "cyB", "follows_classes": ["cyA"]}]
    elif k == 1:
        cl += [{"name": "cyA", "follows_classes": ["cyA"]}, {"name": "cyB", "fixed_vram": 0x80900000}]
    else:
        cl += [{"name": "cyA", "follows_classes": ["cyB"]}, {"name": "cyB", "follows_classes": ["cyA", "cyB"]}]
    cl.append({"name": "cyUse", "follows_classes": r.pick([["cyA"], ["cyB", "cyA"], ["cyA", "cyB"]])})
    if r.chance(0.6):
        doc["segments"].append({"name": "cy_off", "vram_class": r.pick(["cyA", "cyB"]), "files": [{"path": "cy0.o"}], "include_if_any": [["version", "zz"]]})
    doc["segments"].append({"name": "cy_on", "vram_class": "cyUse", "files": [{"path": "cy1.o"}]})
    return True


FEATURES = [gp_in_subgroup, assignment_named_like_generated, cyclic_unused_classes, dup_segment_names, class_follow_conditional, single_conditional, shared_subgroup, mark_in_subgroup, null_override,
            foreign_section_destination, keep_list_and_order, class_keep_segment_false, dup_toplevel, gp_after_alignment,
            allowlist_collision, option_value_with_marker, excluded_then_aligned, subalign_vs_section_align, all_files_excluded,
            pad_under_keep, partial_folder_with_marker, alloc_holds_noload_names, empty_alloc_with_noload, excluded_first_class_member,
            many_address_fields_variants]


def boost(r, case, only=None, exclude=()):
    """applies one to three features (in a random order) to a generated case; records their names"""
    doc = case.get("doc")
    if not (isinstance(doc, dict) and isinstance(doc.get("segments"), list) and doc["segments"]
            and all(isinstance(s, dict) and isinstance(s.get("files"), list) and isinstance(s.get("name"), str) for s in doc["segments"])
            and isinstance(doc.get("settings", {}), dict) and isinstance(doc.get("vram_classes", []), list)):
        case["boost"] = []
        return case         # (a structurally mutated document: nothing to force into it)
    k = 1 + r.below(3)
    pool = [f for f in FEATURES if (only is None or f.__name__ in only) and f.__name__ not in exclude]
    applied = []
    for f in r.sample(pool, k):
        snapshot = copy.deepcopy((case["doc"], case["opts"], case["mode"]))
        try:
            ok = f(r, case)
        except (KeyError, IndexError, TypeError, AttributeError):
            ok = False
        if ok:
            applied.append(f.__name__)
        else:
            case["doc"], case["opts"], case["mode"] = snapshot
    if "alloc_holds_noload_names" in applied:
        # the same section in the allocatable and the noload list: two groups share their symbols, the image clauses
        # have nothing well defined to say (text level only)
        case["link"] = False
    else:
        for seg in case["doc"]["segments"]:
            a, n = _lists(case["doc"], seg)
            if set(a) & set(n):
                seg["noload_sections"] = [x for x in n if x not in a]
            a, n = _lists(case["doc"], seg)
            gp = seg.get("gp_info")
            if gp and gp.get("section", ".sdata") not in a + n:
                seg.pop("gp_info")
    if case["mode"] == "partial":
        s = _settings(case["doc"])
        if s.get("single_segment_mode"):
            case["mode"] = "normal"
        else:
            s.setdefault("partial_scripts_folder", "ps")
            s.setdefault("partial_build_segments_folder", "pb")
    case["boost"] = applied
    return case
