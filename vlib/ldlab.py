"""ld-lab: synthetic 32-bit objects with one marker symbol per (file, input section),
real links with GNU ld (-m elf_i386) / ld -r / ld.lld, and readers for the resulting ELF
(nm, readelf). Scratch lives under /verif/.build/ldlab and is removed after each link."""
import os, re, shutil, subprocess, hashlib

from .run import BUILD

LAB = os.path.join(BUILD, "ldlab")
SAFE_PATH = re.compile(r"^[A-Za-z0-9_./+-]+$")
SAFE_MEMBER = re.compile(r"^[A-Za-z0-9_.+*-]+$")
NOBITS_NAMES = (".bss", ".sbss", ".scommon", "COMMON")


def sh(cmd, cwd, timeout=60):
    p = subprocess.run(cmd, cwd=cwd, capture_output=True, text=True, timeout=timeout)
    return p.returncode, p.stdout, p.stderr


def sym_id(s):
    return re.sub(r"[^A-Za-z0-9]", lambda m: "_%02x" % ord(m.group(0)), s)


def marker(file_id, sec):
    return "mk__%s__%s" % (sym_id(file_id), sym_id(sec))


def section_directive(name, nobits):
    if name == "COMMON":
        return None
    if nobits:
        return '.section %s,"aw",@nobits' % name
    if name.startswith(".text") or name in (".init", ".fini"):
        return '.section %s,"ax",@progbits' % name
    return '.section %s,"aw",@progbits' % name


def asm_for(file_id, sections, defines=(), undefs=()):
    """sections: list of (name, size, align, nobits)"""
    out = []
    for name, size, align, nobits in sections:
        d = section_directive(name, nobits)
        if d is None:
            continue
        out.append(d)
        out.append(".balign %d" % align)
        m = marker(file_id, name)
        out.append(".globl %s" % m)
        out.append("%s:" % m)
        out.append((".skip %d" % size) if size else "")
    for s in defines:
        out += ['.section .text,"ax",@progbits', ".globl %s" % s, "%s:" % s, ".skip 4"]
    for s in undefs:
        out += ['.section .data,"aw",@progbits', ".long %s" % s]
    return "\n".join(out) + "\n"


class Lab:
    def __init__(self, tag):
        self.dir = os.path.join(LAB, "%s_%d" % (tag, os.getpid()))
        shutil.rmtree(self.dir, ignore_errors=True)
        os.makedirs(self.dir)

    def close(self):
        shutil.rmtree(self.dir, ignore_errors=True)

    def path(self, rel):
        return os.path.join(self.dir, rel)

    def write(self, rel, text):
        p = self.path(rel)
        os.makedirs(os.path.dirname(p) or self.dir, exist_ok=True)
        with open(p, "w") as f:
            f.write(text)
        return p

    def assemble(self, rel_obj, asm_text):
        src = self.write(rel_obj + ".s", asm_text)
        os.makedirs(os.path.dirname(self.path(rel_obj)) or self.dir, exist_ok=True)
        rc, out, err = sh(["as", "--32", "-o", self.path(rel_obj), src], self.dir)
        if rc != 0:
            raise RuntimeError("as failed: " + err[:300])

    def archive(self, rel_ar, members):
        """members: list of (member name, asm text)"""
        tmp = self.path(rel_ar + ".members")
        os.makedirs(tmp, exist_ok=True)
        objs = []
        for name, text in members:
            with open(os.path.join(tmp, name + ".s"), "w") as f:
                f.write(text)
            rc, out, err = sh(["as", "--32", "-o", os.path.join(tmp, name), os.path.join(tmp, name + ".s")], self.dir)
            if rc != 0:
                raise RuntimeError("as failed: " + err[:300])
            objs.append(os.path.join(tmp, name))
        os.makedirs(os.path.dirname(self.path(rel_ar)) or self.dir, exist_ok=True)
        rc, out, err = sh(["ar", "rcs", self.path(rel_ar)] + objs, self.dir)
        if rc != 0:
            raise RuntimeError("ar failed: " + err[:300])

    def link(self, script_text, inputs=(), relocatable=False, out="out.elf", extra=(), lld=False):
        self.write("script.ld" if not relocatable else out + ".ld", script_text)
        sp = "script.ld" if not relocatable else out + ".ld"
        if lld:
            cmd = ["ld.lld", "-m", "elf_i386", "--no-check-sections", "-T", sp, "-o", out] + list(extra) + list(inputs)
        else:
            cmd = ["ld", "-m", "elf_i386", "-T", sp, "-o", out] + (["-r"] if relocatable else (["--no-check-sections"] if getattr(self, "no_check_sections", False) else [])) + list(extra) + list(inputs)
        rc, so, se = sh(cmd, self.dir, timeout=120)
        return rc, so + se

    def symbols(self, elf="out.elf"):
        rc, out, err = sh(["nm", "-n", elf], self.dir)
        syms = {}
        for line in out.splitlines():
            parts = line.split()
            if len(parts) == 3:
                syms[parts[2]] = (int(parts[0], 16), parts[1])
            elif len(parts) == 2:
                syms.setdefault(parts[1], (None, parts[0]))
        return syms

    def symbol_secs(self, elf="out.elf"):
        """symbol name -> name of the output section that holds it (objdump -t)"""
        rc, out, err = sh(["objdump", "-t", elf], self.dir)
        res = {}
        for line in out.splitlines():
            m = re.match(r"^([0-9a-f]+)\s.{7}\s(\S+)\t([0-9a-f]+)\s+(\S+)$", line)
            if m:
                res[m.group(4)] = m.group(2)
        return res

    def sections(self, elf="out.elf"):
        rc, out, err = sh(["readelf", "-SW", elf], self.dir)
        secs = []
        for line in out.splitlines():
            m = re.match(r"\s*\[\s*(\d+)\]\s+(\S+)\s+(\S+)\s+([0-9a-f]+)\s+([0-9a-f]+)\s+([0-9a-f]+)\s", line)
            if m and m.group(2) != "NULL":
                secs.append({"name": m.group(2), "type": m.group(3), "addr": int(m.group(4), 16),
                             "off": int(m.group(5), 16), "size": int(m.group(6), 16)})
        return secs

    def map_lmas(self, mapfile="out.map"):
        """output section -> load address as GNU ld itself recorded it in the link map (VMA when no `load address` is
        printed); the program headers cannot tell two overlaid sections with the same VMA apart"""
        try:
            text = open(self.path(mapfile)).read()
        except OSError:
            return {}
        i = text.find("Linker script and memory map")
        if i < 0:
            return {}
        out = {}
        lines = text[i:].splitlines()
        k = 0
        while k < len(lines):
            line = lines[k]
            m = re.match(r"^(\S+)(\s+0x[0-9a-f]+\s+0x[0-9a-f]+.*)?$", line)
            if m and not line.startswith(" ") and not m.group(1).startswith(("0x", "LOAD", "OUTPUT", "START", "END", "Linker", "/DISCARD/")):
                rest = m.group(2)
                if rest is None and k + 1 < len(lines) and re.match(r"^\s+0x[0-9a-f]+\s+0x[0-9a-f]+", lines[k + 1]):
                    rest = lines[k + 1]
                    k += 1
                if rest:
                    mm = re.match(r"\s+0x([0-9a-f]+)\s+0x([0-9a-f]+)(?:\s+load address 0x([0-9a-f]+))?", rest)
                    if mm:
                        out[m.group(1)] = int(mm.group(3) or mm.group(1), 16)
            k += 1
        return out

    def segments(self, elf="out.elf"):
        rc, out, err = sh(["readelf", "-lW", elf], self.dir)
        segs = []
        for line in out.splitlines():
            m = re.match(r"\s*LOAD\s+0x([0-9a-f]+)\s+0x([0-9a-f]+)\s+0x([0-9a-f]+)\s+0x([0-9a-f]+)\s+0x([0-9a-f]+)", line)
            if m:
                segs.append({"off": int(m.group(1), 16), "vaddr": int(m.group(2), 16), "paddr": int(m.group(3), 16),
                             "filesz": int(m.group(4), 16), "memsz": int(m.group(5), 16)})
        return segs


SYNTAX_PAT = re.compile(r"syntax error|unrecogni[sz]ed|unexpected|expected|unknown directive|malformed|not a valid|invalid (assignment|expression|syntax)|"
                        r"nonconstant expression|bad ", re.I)


def syntax_diagnostics(output):
    """lines of linker output that complain about the *script text* (not about missing symbols,
    overlaps, failed user asserts or absent files)"""
    bad = []
    for l in output.splitlines():
        if "script.ld" in l and SYNTAX_PAT.search(l) and "ASSERT" not in l.upper().split("SCRIPT.LD")[0]:
            bad.append(l.strip())
        elif re.search(r"syntax error", l, re.I):
            bad.append(l.strip())
    return bad
