import json
"""Per-property plug-ins: how cases are generated, which extra implementation runs a case
needs, what makes a case non-trivial, which outcome disagreements the property owns."""
import copy, json, os, re, collections
from . import gen, tree, image
from .gen import Profile, Rng


def walk_files(files):
    for f in files or []:
        if isinstance(f, dict):
            yield f
            if isinstance(f.get("files"), list):
                yield from walk_files(f["files"])


def all_files(doc):
    for s in doc.get("segments", []) or []:
        if isinstance(s, dict):
            yield from walk_files(s.get("files"))


COND_KEYS = ("include_if_any", "include_if_all", "exclude_if_any", "exclude_if_all")


def has_cond(x):
    return isinstance(x, dict) and any(k in x for k in COND_KEYS)


def fs_safe(c):
    """the file exports of this case stay inside the scratch directory"""
    def bad(s):
        return s.startswith("/") or ".." in s.split("/") or s == "" or s.endswith("/")
    for k, v in c["opts"]:
        if v.startswith("/") or ".." in v.split("/"):
            return False
    st = c["doc"].get("settings") or {}
    for f in ("d_path", "symbols_header_path", "partial_scripts_folder", "partial_build_segments_folder", "target_path"):
        v = st.get(f)
        if isinstance(v, str) and bad(v):
            return False
    if isinstance(st.get("base_path"), str) and (st["base_path"].startswith("/") or ".." in st["base_path"].split("/")):
        return False
    for s in c["doc"].get("segments", []):
        if "/" in s.get("name", "") or s.get("name", "").startswith("."):
            return False
    o = c.get("out")
    if isinstance(o, str) and bad(o):
        return False
    return True


def engine_request(c):
    from .engine import impl_request
    return impl_request(dict(c, repeat=1))


def eval_files(w, c):
    """runs the file exports of implementation and model over a scratch directory; returns (impl, verdict)"""
    from .engine import impl_request
    req = impl_request(c)
    req["op"] = "files"
    if c.get("out") is not None:
        req["out"] = c["out"]
    if c.get("pre"):
        req["pre"] = c["pre"]
    impl = w.h.run(req)
    pc = {k: v for k, v in c.items() if k != "doc"}
    pc["doc"] = tree.to_proto(c["doc"])
    v = w.d.ask({"op": "files", "case": pc, "impl": impl})
    return impl, (v or {"driver_crash": True})


def dotted_segment_names(r, doc, p):
    """with probability p, gives some segments names with inner dots (they are file-name stems of the partial outputs)"""
    if not r.chance(p):
        return
    pool = ["ovl.title", "ovl.menu", "a.b.c", "seg.v1.0", "x.ld"]
    ren = {}
    for s in doc.get("segments", []):
        if r.chance(0.6) and pool:
            new = pool.pop(r.below(len(pool)))
            ren[s["name"]] = new
            s["name"] = new
    for s in doc.get("segments", []):
        if s.get("follows_segment") in ren:
            s["follows_segment"] = ren[s["follows_segment"]]


def dotted_class_names(r, doc, p):
    """with probability p, gives some vram classes names with characters a linker accepts in a symbol and C does not"""
    if not r.chance(p) or not isinstance(doc.get("vram_classes"), list):
        return
    pool = ["ovl.battle", "cls.a", "bank$1", "x.y.z"]
    ren = {}
    for c in doc["vram_classes"]:
        if isinstance(c, dict) and r.chance(0.6) and pool:
            new = pool.pop(r.below(len(pool)))
            ren[c.get("name")] = new
            c["name"] = new
    for c in doc["vram_classes"]:
        if isinstance(c, dict) and isinstance(c.get("follows_classes"), list):
            c["follows_classes"] = [ren.get(x, x) for x in c["follows_classes"]]
    for s in doc.get("segments", []):
        if s.get("vram_class") in ren:
            s["vram_class"] = ren[s["vram_class"]]


def default_cases(pid):
    """documents that rely on the documented defaults alone: no `settings` key, an empty one, no optional field anywhere"""
    out = []
    base = [
        {"segments": [{"name": "boot", "files": [{"path": "src/boot.o"}, {"path": "lib/libc.a", "kind": "archive", "subfile": "str.o"}]}]},
        {"segments": [{"name": "boot", "fixed_vram": 0x80000400, "files": [{"path": "a.o"}]},
                      {"name": "main", "files": [{"path": "b.o"}, {"kind": "pad", "pad_amount": 16, "section": ".data"}]}]},
    ]
    k = 0
    # pairs of independently valid features that the random generator combines only rarely
    combos = [
        ("normal", {"settings": {"single_segment_mode": True, "hardcoded_gp_value": 0x80008000, "subalign": 16},
                    "segments": [{"name": "boot", "fixed_vram": 0x80000400, "subalign": 32,
                                  "files": [{"path": "a.o"}, {"kind": "pad", "pad_amount": 8, "section": ".data"}, {"path": "b.o"}]}]}),
        ("partial", {"settings": {"partial_scripts_folder": "ps", "partial_build_segments_folder": "pb/{version}", "target_path": "rom.elf",
                                  "d_path": "rom.d", "symbols_header_path": "syms.h", "subalign": 8, "sections_allowlist": [".keepme"]},
                     "segments": [{"name": "boot", "subalign": None, "keep_sections": [".data"],
                                   "files": [{"path": "a.o"}, {"kind": "linker_offset", "linker_offset_name": "mid", "section": ".text"},
                                             {"kind": "pad", "pad_amount": 16, "section": ".data"},
                                             {"path": "lib/libc.a", "kind": "archive", "subfile": "str.o", "keep_sections": True},
                                             {"path": "c.o", "section_order": {".rodata": ".text", ".sdata": ".text"}}]},
                                  {"name": "ovl.title", "files": [{"path": "t.o"}], "exclude_if_all": [["version", "us"], ["debug", "on"]]}]}),
        ("normal", {"settings": {"segment_start_align": 0x100, "segment_end_align": 0x40, "sections_start_alignment": {".rdata": 0x20}},
                    "vram_classes": [{"name": "A", "fixed_vram": 0x80100004}, {"name": "B", "follows_classes": ["A"]}],
                    "segments": [{"name": "a_dbg", "vram_class": "A", "files": [{"path": "d.o"}], "include_if_any": [["debug", "on"]]},
                                 {"name": "a1", "vram_class": "A", "segment_end_align": None, "files": [{"path": "a1.o"}]},
                                 {"name": "a2", "vram_class": "A", "files": [{"path": "a2.o"}, {"path": "a3.o"}]},
                                 {"name": "b1", "vram_class": "B", "sections_subgroups": {".rodata": [".rdata"]},
                                  "files": [{"path": "b1.o"}, {"kind": "pad", "pad_amount": 64, "section": ".rdata"},
                                            {"kind": "linker_offset", "linker_offset_name": "b_rdata", "section": ".rdata"}]}]}),
        ("normal", {"settings": {"sections_subgroups": {".rodata": [".rdata"], ".rdata": [".lit4"]}, "wildcard_sections": True},
                    "segments": [{"name": "boot", "fixed_vram": 0x80000400,
                                  "files": [{"kind": "group", "dir": "g", "files": [{"path": "a.o"},
                                                                                    {"kind": "linker_offset", "linker_offset_name": "mid", "section": ".rdata"},
                                                                                    {"kind": "pad", "pad_amount": 32, "section": ".lit4"},
                                                                                    {"path": "b.o"}]},
                                            {"path": "c.o", "section_order": {".rdata": ".data", ".bss": ".data"}},
                                            {"kind": "pad", "pad_amount": 16, "section": ".rdata"}, {"path": "d.o"}]},
                                 {"name": "ovl", "wildcard_sections": False, "alloc_sections": [".text", ".ovl_data"], "noload_sections": [],
                                  "files": [{"path": "o1.o"}, {"path": "lib/libo.a", "kind": "archive", "subfile": "m.o", "keep_sections": [".text"]}]}]}),
        # a follower of two classes of which the first has only an excluded member; a segment name used twice under
        # exclusive conditions and followed by another segment
        ("normal", {"vram_classes": [{"name": "A", "fixed_vram": 0x80100000}, {"name": "B", "fixed_vram": 0x80200000},
                                     {"name": "C", "follows_classes": ["A", "B"]}],
                    "segments": [{"name": "boot", "fixed_vram": 0x80000400, "files": [{"path": "a.o"}]},
                                 {"name": "a_jp", "vram_class": "A", "files": [{"path": "aj.o"}], "include_if_any": [["version", "jp"]]},
                                 {"name": "b1", "vram_class": "B", "files": [{"path": "b1.o"}, {"path": "b2.o"}]},
                                 {"name": "c1", "vram_class": "C", "files": [{"path": "c1.o"}]},
                                 {"name": "model", "files": [{"path": "mj.o"}], "include_if_any": [["version", "jp"]]},
                                 {"name": "font", "files": [{"path": "f.o"}, {"path": "g.o"}]},
                                 {"name": "model", "files": [{"path": "mu.o"}], "include_if_any": [["version", "us"]]},
                                 {"name": "other", "files": [{"path": "o.o"}]},
                                 {"name": "anims", "follows_segment": "model", "files": [{"path": "an.o"}]}]}),
        # round 12: a segment switches `wildcard_sections` off under the global default, and one configured section name is a
        # prefix of another: with a `*` the first group would swallow the inputs of the second
        ("normal", {"segments": [{"name": "main", "fixed_vram": 0x80000400, "wildcard_sections": False,
                                  "alloc_sections": [".text", ".data", ".data.hires", ".rodata"], "noload_sections": [".bss", ".bss.big"],
                                  "files": [{"path": "a.o"}, {"path": "b.o"}]},
                                 {"name": "other", "files": [{"path": "c.o"}]}]}),
        # round 9: a start alignment equal to the end alignment of an earlier segment, with a segment in between that has
        # no end alignment (a "redundant" alignment is not redundant then); three sizes of the middle segment
        ("normal", {"settings": {"segment_end_align": 0x10},
                    "segments": [{"name": "first", "fixed_vram": 0x80000400, "files": [{"path": "a.o"}]},
                                 {"name": "middle", "segment_end_align": None, "files": [{"path": "b.o"}, {"kind": "pad", "pad_amount": 4, "section": ".data"}]},
                                 {"name": "last", "segment_start_align": 0x10, "segment_end_align": None, "files": [{"path": "c.o"}]},
                                 {"name": "tail", "segment_start_align": 0x10, "files": [{"path": "d.o"}, {"kind": "pad", "pad_amount": 12, "section": ".text"}]}]}),
    ]
    # a `follows_segment` that names a segment listed later (the ROM order stays the document order); not linked: whether
    # the linker takes the forward reference is KF-C03-follows-unavailable's business
    forward = {"segments": [{"name": "overlay", "follows_segment": "boot", "files": [{"path": "ov.o"}]},
                            {"name": "boot", "fixed_vram": 0x80000400, "files": [{"path": "a.o"}]},
                            {"name": "main", "files": [{"path": "b.o"}]}]}
    fwd_partial = json.loads(json.dumps(forward))
    fwd_partial["settings"] = {"partial_scripts_folder": "ps", "partial_build_segments_folder": "pb"}
    for mode, doc in (("normal", forward), ("partial", fwd_partial)):
        out.append({"id": "fwd-follow-" + mode, "seed": 97, "stream": "valid", "opts": [["version", "us"]], "mode": mode, "version_comment": False,
                    "link": False, "doc": doc})
    # round 9: outputs larger than any buffer or block a writer might compare or hold back (script > 8 KiB, header > 4 KiB)
    big = {"settings": {"target_path": "rom.elf", "d_path": "rom.d", "symbols_header_path": "include/syms.h"},
           "segments": [{"name": "seg%02d" % i, "files": [{"path": "src/seg%02d/f%d.o" % (i, j)} for j in range(3)]} for i in range(14)]}
    big["segments"][0]["fixed_vram"] = 0x80000400
    big_partial = json.loads(json.dumps(big))
    big_partial["settings"].update({"partial_scripts_folder": "ps", "partial_build_segments_folder": "pb"})
    for mode, doc in (("normal", big), ("partial", big_partial)):
        out.append({"id": "big-" + mode, "seed": 101, "stream": "valid", "opts": [], "mode": mode, "version_comment": mode == "normal",
                    "link": False, "files_check": True, "doc": doc})
    # the stale-end-alignment document again with other object sizes and alignments (the image shows the difference only when
    # the middle segment ends off the alignment and the output section's own alignment does not make up for it)
    for j in range(5):
        out.append({"id": "stale-align-%d" % j, "seed": 211 + 17 * j, "stream": "valid", "opts": [["version", "us"]], "mode": "normal",
                    "version_comment": False, "link": True, "doc": json.loads(json.dumps(combos[-1][1]))})
    for mode, doc in combos:
        out.append({"id": "combo%d" % k, "seed": 31 + k, "stream": "valid", "opts": [["version", "us"]], "mode": mode, "version_comment": False,
                    "link": mode == "normal", "doc": doc})
        k += 1
    for d in base:
        for st in (None, {}, {"target_path": "rom.elf", "d_path": "rom.d", "symbols_header_path": "syms.h"}):
            for mode in ("normal", "partial"):
                doc = json.loads(json.dumps(d))
                if st is not None:
                    doc["settings"] = dict(st)
                if mode == "partial":
                    if st is None:
                        continue
                    doc["settings"].update({"partial_scripts_folder": "ps", "partial_build_segments_folder": "pb"})
                out.append({"id": "dflt%d" % k, "seed": 7 + k, "stream": "valid", "opts": [], "mode": mode, "version_comment": k % 2 == 0,
                            "link": mode == "normal", "doc": doc})
                k += 1
    return out


def _stale_variants(text):
    """earlier contents of an output file that a correct writer replaces: the same lines in another order, a prefix, a longer
    file, the same length with a late difference, nothing"""
    lines = text.split("\n")
    body, last = lines[:-1], lines[-1:]
    out = [("the same lines in reverse order", "\n".join(list(reversed(body)) + last)),
           ("the first half of it", text[:len(text) // 2]),
           ("an empty file", ""),
           ("it with three more lines", text + "/* stale */\n" * 3)]
    if len(text) > 8:
        k = len(text) - 3
        ch = "~" if text[k] != "~" else "#"
        out.append(("a file of the same length that differs near the end", text[:k] + ch + text[k + 1:]))
    return out


def delivered_files_check(w, c):
    """what the user links is the *file*: the outputs written by the file exports must be the generated texts whatever the
    output locations held before (same lines in another order, a prefix, a longer file, same length), and a write that fails
    (an output location that is /dev/full) must be reported. Returns None or the reason of a violation."""
    from . import engine
    if c.get("stream", "valid") != "valid" or not fs_safe(c) or not isinstance(c.get("doc"), dict):
        return None
    req = engine.impl_request(dict(c, repeat=1, history=False))
    req["op"] = "files"
    req["out"] = "out/script.ld"
    f1 = w.h.run(req)
    if f1.get("outcome") != "ok" or not f1.get("files"):
        return None
    for what, _ in _stale_variants("0123456789\nabcdefghij\n"):
        pre = []
        for path, text in f1["files"].items():
            v = dict(_stale_variants(text)).get(what)
            if v is not None:
                pre.append([path, v])
        f2 = w.h.run(dict(req, pre=pre))
        if f2.get("outcome") != "ok" or f2.get("files") != f1.get("files"):
            diff = sorted(q for q in set(f1["files"]) | set(f2.get("files") or {}) if f1["files"].get(q) != (f2.get("files") or {}).get(q))
            return ("the files written where every output location already held %s are not the generated outputs (outcome %s): %s"
                    % (what, f2.get("outcome"), ",".join(diff)[:160]))
    # a file-size limit smaller than the script (RLIMIT_FSIZE, the signal ignored): the file takes the first part, the rest of
    # the write is cut short or refused - the export must not report success with a truncated script
    if c.get("files_check") and max(len(t) for t in f1["files"].values()) > 3 * 8192:
        from . import run as _run
        # (only the script is written in this run: the other outputs would hit the limit as well and report it)
        doc6 = copy.deepcopy(c["doc"])
        for key in ("symbols_header_path", "d_path"):
            (doc6.get("settings") or {}).pop(key, None)
        req6 = engine.impl_request(dict(c, doc=doc6, repeat=1, history=False))
        req6["op"] = "files"
        req6["out"] = "out/script.ld"
        lim = _run.Harness(fsize=8192)
        try:
            f6 = lim.run(req6)
        finally:
            lim.close()
        if f6.get("outcome") == "ok":
            return "with a file-size limit of 8192 bytes the export reports success (files: %s)" % ", ".join(
                "%s %d bytes" % (q, len(t)) for q, t in sorted((f6.get("files") or {}).items()) if len(t) >= 8000)[:160]
    if os.path.exists("/dev/full"):
        f3 = w.h.run(dict(req, out="/dev/full"))
        if f3.get("outcome") == "ok":
            return "writing the script to /dev/full (no space left on device) is reported as a success"
        # every single output location in turn is a link to /dev/full (the per-segment scripts and dependency files of
        # partial mode included): the export must not report success
        for path in sorted(f1["files"]):
            f5 = w.h.run(dict(req, pre=[[path, "/dev/full", "symlink"]]))
            if f5.get("outcome") == "ok":
                return "writing %s fails (the location is /dev/full: no space left on device) and the export reports success" % path
        st = c["doc"].get("settings")
        if isinstance(st, dict):
            for key in ("symbols_header_path", "d_path"):
                if isinstance(st.get(key), str) and (key != "d_path" or isinstance(st.get("target_path"), str)):
                    doc2 = copy.deepcopy(c["doc"])
                    doc2["settings"][key] = "/dev/full"
                    r2 = engine.impl_request(dict(c, doc=doc2, repeat=1, history=False))
                    r2["op"] = "files"
                    r2["out"] = "out/script.ld"
                    f4 = w.h.run(r2)
                    if f4.get("outcome") == "ok":
                        return "writing %s to /dev/full (no space left on device) is reported as a success" % key
    return None


def evaluate_case(spec, w, c, kind="g", idx=0):
    """the property's own evaluation, followed for a share of the valid cases by the delivered-files check"""
    r = spec.evaluate(w, c)
    if r.get("status") == "ok" and not r.get("rejected") and ((kind == "x" and idx % 3 == 0) or (kind == "g" and idx % 11 == 5) or c.get("files_check")):
        why = delivered_files_check(w, c)
        r["files_checked"] = True
        if why:
            r.update(status="violation", why=why)
            r["files_violation"] = True
    return r


class Property:
    pid = "C00"
    title = ""
    owns_errors = ()          # implementation/model error kinds whose presence/absence this property decides
    quick_n = 600
    thorough_n = 20000
    rule = ""
    boosted = True
    boost_only = None
    boost_exclude = ()

    def profile(self, r):
        return Profile()

    def make_case(self, seed, idx):
        r = Rng(seed * 1000003 + idx * 7919 + 17)
        c = gen.gen_case(r, self.profile(r), idx)
        self.tweak(r, c)
        # one case in seven is generated from a parsed document and a settings object that were already used for
        # other generations with other option values (harness: generate_after_history); the outputs must be those of
        # a first use, so everything that follows (model equality, predicates, links) is the same
        if idx % 7 == 3:
            c["history"] = True
        # one case in four carries one to three features forced into it (vlib/boost.py): the combinations that
        # independent draws reach only with the product of small probabilities
        if idx % 4 == 2 and self.boosted:
            from . import boost
            boost.boost(Rng(seed * 7368787 + idx * 104729 + 5), c, self.boost_only, self.boost_exclude)
        return c

    def tweak(self, r, c):
        pass

    def extra_cases(self, tier):
        """deterministic cases run before the random ones (lattices, corpus)"""
        return []

    def adapt(self, c):
        """fits a generic corpus / defaults case to what this property's evaluation needs; None drops it"""
        return c

    def nontrivial(self, c):
        return True

    def evaluate(self, w, c):
        """returns a dict with at least: status in {ok, violation, corr, skip}, why"""
        impl, v = w.eval(c, [self.pid])
        return self.judge(c, impl, v, w)

    def judge(self, c, impl, v, w):
        res = {"impl_outcome": impl.get("outcome"), "impl_err": impl.get("err_kind"),
               "model_outcome": v.get("model_outcome"), "model_err": v.get("model_err")}
        if v.get("driver_crash") or v.get("bad_request"):
            res.update(status="corr", why="driver failed on this case")
            return res
        io = impl.get("outcome")
        if io in ("panic", "abort", "timeout"):
            res.update(status="violation", why="implementation %s: %s" % (io, impl.get("err_msg")))
            return res
        if not v.get("outcome_agree"):
            kinds = {impl.get("err_kind"), v.get("model_err")} - {None}
            if kinds & set(self.owns_errors) or "*" in self.owns_errors:
                res.update(status="violation" if self.outcome_is_violation(c, impl, v) else "corr",
                           why="outcome differs: impl %s/%s model %s/%s" % (io, impl.get("err_kind"), v.get("model_outcome"), v.get("model_err")))
            else:
                res.update(status="skip", why="outcome disagreement not owned by this property")
            return res
        if io != "ok":
            res.update(status="ok", why="both reject", rejected=True)
            return res
        p = (v.get("props") or {}).get(self.pid)
        if p is None:
            res.update(status="ok" if v.get("full_equal") else "corr", why="" if v.get("full_equal") else "outputs differ (no projection)")
            return res
        res["domain"] = p.get("domain", True)
        if not p["holds_impl"] and p.get("domain", True):
            res.update(status="violation", why="predicate fails on the implementation's output: " + p.get("why", ""))
        elif not p["proj_equal"]:
            res.update(status="corr", why="projection differs: " + p.get("why", ""))
        elif not p["holds_model"] and p.get("domain", True):
            res.update(status="corr", why="predicate fails on the model's own output")
        else:
            res.update(status="ok", why="")
        return res

    def outcome_is_violation(self, c, impl, v):
        """an owned outcome disagreement: is the implementation wrong w.r.t. the property (True)
        or is only the correspondence broken (False)? default: the model is the reference"""
        return True


class C06(Property):
    pid = "C06"
    title = "conditional inclusion"
    rule = ("valid-stream documents with conditions on every entry kind plus the exhaustive truth-table lattice; "
            "a case is non-trivial when it has at least one excluded and one included conditional entry under its options")

    def profile(self, r):
        return Profile(p_cond=0.6, p_toplevel=0.6, p_gp=0.4, p_group=0.35, p_missing_key=0.0)

    def cond_entries(self, doc):
        out = []
        for s in doc.get("segments", []):
            out.append(s)
            if isinstance(s.get("gp_info"), dict):
                out.append(s["gp_info"])
        out += list(all_files(doc))
        for k in ("symbol_assignments", "required_symbols", "asserts"):
            out += [x for x in (doc.get(k) or []) if isinstance(x, dict)]
        return [e for e in out if has_cond(e)]

    def evaluate(self, w, c):
        impl, v = w.eval(c, [self.pid])
        res = self.judge(c, impl, v, w)
        from .engine import impl_request
        if impl.get("outcome") == "err" and impl.get("stage") == "generate" and res["status"] != "violation" \
                and c.get("stream", "valid") == "valid" and isinstance(c.get("doc"), dict):
            # "no trace" includes errors (C06.no_trace): a document whose generation fails must fail in the same way once its
            # excluded entries are deleted - an error that only an excluded entry causes is a trace of that entry
            pr = w.d.ask({"op": "prune", "case": {"id": c["id"], "doc": tree.to_proto(c["doc"]), "opts": c["opts"]}})
            if pr and pr.get("doc") is not None:
                pruned = from_proto(pr["doc"])
                impl2 = w.h.run(impl_request(dict(c, doc=pruned, id=c["id"] + ":pruned")))
                if impl2.get("outcome") == "ok" or (impl2.get("outcome") == "err" and impl2.get("err_kind") != impl.get("err_kind")):
                    res.update(status="violation", why="generation fails with %s, but the document with the excluded entries deleted gives %s/%s: "
                               "an excluded entry is visible through an error" % (impl.get("err_kind"), impl2.get("outcome"), impl2.get("err_kind")),
                               pruned_doc=pruned)
            return res
        if res["status"] not in ("ok", "corr") or impl.get("outcome") != "ok":
            return res
        # metamorphic part: the document with every excluded entry deleted gives the same outputs
        pr = w.d.ask({"op": "prune", "case": {"id": c["id"], "doc": tree.to_proto(c["doc"]), "opts": c["opts"]}})
        pruned = from_proto(pr["doc"])
        res["pruned_differs"] = pruned != c["doc"]
        c2 = dict(c, doc=pruned, id=c["id"] + ":pruned")
        impl2 = w.h.run(impl_request(c2))
        e = w.d.ask({"op": "eqmod", "a": impl, "b": impl2})
        if not e["equal"]:
            res.update(status="violation", why="outputs differ from those of the document with the excluded entries deleted (%s)" % e["why"],
                       pruned_doc=pruned)
            return res
        # a custom option nobody mentions changes nothing
        c3 = dict(c, opts=c["opts"] + [["zz_unmentioned", "1"]], id=c["id"] + ":fresh")
        impl3 = w.h.run(impl_request(c3))
        if {k: impl3.get(k) for k in ("outcome", "script", "joined", "deps", "header", "symbols", "partials")} != \
           {k: impl.get(k) for k in ("outcome", "script", "joined", "deps", "header", "symbols", "partials")}:
            res.update(status="violation", why="an option that no condition and no path mentions changed the outputs")
        return res

    def nontrivial(self, c):
        ents = self.cond_entries(c["doc"])
        if len(ents) < 2:
            return False
        optmap = {}
        for k, v in c["opts"]:
            optmap[k] = v
        verdicts = {py_should_emit(optmap, e) for e in ents}
        return verdicts == {True, False}

    def extra_cases(self, tier):
        return truth_table_lattice(full=(tier == "thorough"))


def py_should_emit(optmap, e):
    """used only to classify cases as non-trivial for the evidence (never for a verdict)"""
    m = lambda p: optmap.get(p[0]) == p[1]
    ea, el = e.get("exclude_if_any") or [], e.get("exclude_if_all") or []
    ia, il = e.get("include_if_any") or [], e.get("include_if_all") or []
    if any(m(p) for p in ea):
        return False
    if el and all(m(p) for p in el):
        return False
    if ia or il:
        return any(m(p) for p in ia) or (bool(il) and all(m(p) for p in il))
    return True


def from_proto(j):
    if isinstance(j, dict):
        if "$m" in j:
            pairs = [(k, from_proto(v)) for k, v in j["$m"]]
            keys = [k for k, _ in pairs]
            if len(set(keys)) == len(keys):
                return dict(pairs)
            return tree.Pairs(pairs)
        if "$f" in j:
            return tree.Float(j["$f"])
        return {k: from_proto(v) for k, v in j.items()}
    if isinstance(j, list):
        return [from_proto(x) for x in j]
    return j


def truth_table_lattice(full):
    """every combination of the four lists over a 2-key x 2-value alphabet (lists of length 0..2)
    x option maps over the same alphabet, on each of the six conditional record kinds"""
    import itertools
    keys, vals = ["k1", "k2"], ["a", "b"]
    pairs = [[k, v] for k in keys for v in vals]
    lists = [None] + [[p] for p in pairs] + [[p, q] for p in pairs for q in pairs if p < q]
    optmaps = [[]] + [[[k, v]] for k in keys for v in vals] + [[["k1", a], ["k2", b]] for a in vals for b in vals]
    combos = []
    if full:
        # lists restricted to 5 representatives per field to keep 5^4*9*6 = 33750 cases
        reps = [None, [["k1", "a"]], [["k1", "a"], ["k2", "b"]], [["k1", "b"], ["k2", "b"]], [["k2", "a"], ["k1", "a"]]]
        combos = list(itertools.product(reps, repeat=4))
    else:
        reps = [None, [["k1", "a"]], [["k1", "a"], ["k2", "b"]]]
        combos = list(itertools.product(reps, repeat=4))
    cases = []
    idx = 0
    for combo in combos:
        cond = {k: v for k, v in zip(COND_KEYS, combo) if v is not None}
        for kind in range(6):
            for om in (optmaps if full else optmaps[::2]):
                idx += 1
                cases.append({"id": "tt%d" % idx, "stream": "lattice:truth-table", "doc": lattice_doc(kind, cond),
                              "opts": om, "mode": "partial" if (kind in (0, 1) and idx % 3 == 0) else "normal",
                              "version_comment": False})
    # lists that repeat a pair (more pairs than there are options), alone in one field, on every record kind
    repeated = [[["k1", "a"], ["k1", "a"]], [["k1", "a"], ["k1", "a"], ["k1", "a"]], [["k1", "a"], ["k2", "b"], ["k1", "a"]],
                [["k2", "b"], ["k2", "b"], ["k1", "a"], ["k1", "a"]]]
    for ck in COND_KEYS:
        for rep in repeated:
            for kind in range(6):
                for om in optmaps:
                    idx += 1
                    cases.append({"id": "tr%d" % idx, "stream": "lattice:repeated-pairs", "doc": lattice_doc(kind, {ck: rep}),
                                  "opts": om, "mode": "partial" if (kind in (0, 1) and idx % 3 == 0) else "normal",
                                  "version_comment": False})
    return cases


def lattice_doc(kind, cond):
    """a small document with one conditional entry of the given kind carrying `cond`
    and an unconditional sibling of the same kind"""
    seg_a = {"name": "boot", "files": [{"path": "a.o"}], "fixed_vram": 0x80000400}
    seg_b = {"name": "main", "files": [{"path": "b.o"}, {"kind": "group", "dir": "g", "files": [{"path": "c.o"}]}]}
    doc = {"settings": {"base_path": "build", "target_path": "rom.elf", "d_path": "rom.d",
                        "partial_scripts_folder": "ps", "partial_build_segments_folder": "pb"},
           "segments": [seg_a, seg_b]}
    if kind == 0:
        seg_b.update(copy.deepcopy(cond))
    elif kind == 1:
        seg_b["files"][1]["files"].append(dict({"path": "lib.a", "subfile": "m.o"}, **copy.deepcopy(cond)))
        seg_b["files"].insert(0, dict({"kind": "group", "files": [{"path": "x.o"}, {"kind": "pad", "pad_amount": 16, "section": ".data"}]}, **copy.deepcopy(cond)))
    elif kind == 2:
        seg_b["gp_info"] = dict({"section": ".sdata", "offset": 16}, **copy.deepcopy(cond))
    elif kind == 3:
        doc["symbol_assignments"] = [dict({"name": "sa", "value": "1"}, **copy.deepcopy(cond)), {"name": "sb", "value": "2"}]
    elif kind == 4:
        doc["required_symbols"] = [dict({"name": "ra"}, **copy.deepcopy(cond)), {"name": "rb"}]
    else:
        doc["asserts"] = [dict({"check": "1", "error_message": "m1"}, **copy.deepcopy(cond)), {"check": "2", "error_message": "m2"}]
    return doc


class C12(Property):
    pid = "C12"
    title = "dependency file"
    rule = ("valid-stream documents with target_path/d_path, repeated paths, archives with several subfiles, nested groups, "
            "conditional entries, {key} paths, both modes; non-trivial when the script references a repeated path, an archive, "
            "or the document has an excluded file entry")

    # `d_path` needs a `target_path` to name as its target: a document that has the one and not the other (absent, or an
    # explicit null) must be refused, not accepted and then left without its dependency file
    owns_errors = ("MissingRequiredFieldCombo",)

    def profile(self, r):
        return Profile(dpath=1.0, p_archive=0.4, p_cond=0.4, p_group=0.35, p_braces=0.4, p_dot_components=0.15)

    def extra_cases(self, tier):
        out = []
        k = 0
        for mode in ("normal", "partial"):
            for tp in ("absent", None, "rom.elf"):
                st = {"d_path": "deps/rom.d", "symbols_header_path": "syms.h"}
                if tp != "absent":
                    st["target_path"] = tp
                if mode == "partial":
                    st.update({"partial_scripts_folder": "ps", "partial_build_segments_folder": "pb"})
                doc = {"settings": st, "segments": [{"name": "boot", "fixed_vram": 0x80000400, "files": [{"path": "a.o"}]},
                                                    {"name": "main", "files": [{"path": "b.o"}, {"path": "a.o"}]}]}
                out.append({"id": "dpath-target-%d" % k, "seed": 5, "stream": "valid", "opts": [], "mode": mode, "version_comment": False,
                            "link": False, "doc": doc})
                k += 1
        # absolute paths replace the `base_path` / `dir` prefix: they are prerequisites like any other referenced file
        for mode in ("normal", "partial"):
            for base in ("build", ""):
                st = {"base_path": base, "target_path": "rom.elf", "d_path": "rom.d"}
                if mode == "partial":
                    st.update({"partial_scripts_folder": "ps", "partial_build_segments_folder": "pb"})
                doc = {"settings": st, "segments": [
                    {"name": "boot", "fixed_vram": 0x80000400, "files": [{"path": "a.o"}, {"path": "/opt/prebuilt/rt.o"},
                                                                         {"path": "/opt/tc/libgcc.a", "subfile": "_div.o"},
                                                                         {"path": "/opt/tc/libgcc.a", "subfile": "_mul.o"}]},
                    {"name": "main", "dir": "/abs/main", "files": [{"path": "b.o"}, {"kind": "group", "dir": "/abs/g", "files": [{"path": "c.o"}]},
                                                                    {"kind": "group", "dir": "rel", "files": [{"path": "/abs/d.o"}, {"path": "e.o"}]}]}]}
                out.append({"id": "abs-paths-%s-%d" % (mode[0], len(base)), "seed": 6, "stream": "valid", "opts": [], "mode": mode,
                            "version_comment": False, "link": False, "doc": doc})
        return out

    def tweak(self, r, c):
        dotted_segment_names(r, c["doc"], 0.12)
        # repeat a path now and then
        fs = [f for f in all_files(c["doc"]) if "path" in f]
        if len(fs) >= 2 and r.chance(0.5):
            fs[-1]["path"] = fs[0]["path"]
            if r.chance(0.3):
                fs[-1]["path"] = "./" + fs[0]["path"]      # the same file, spelled with a `.` component
            if fs[0].get("path", "").endswith(".a"):
                fs[-1]["subfile"] = "other.o"

    def evaluate(self, w, c):
        impl, v = w.eval(c, [self.pid])
        res = self.judge(c, impl, v, w)
        if res["status"] != "ok" or impl.get("outcome") != "ok" or not fs_safe(c):
            return res
        # the files `save_other_files` writes (the only way to see the per-segment .d files of partial mode)
        c2 = dict(c, out="out/script.ld")
        fimpl, fv = eval_files(w, c2)
        res["files_checked"] = True
        if fimpl.get("outcome") in ("panic", "abort", "timeout"):
            res.update(status="violation", why="file export %s" % fimpl.get("outcome"))
        elif not fv.get("outcome_agree"):
            res.update(status="skip", why="file export outcome disagreement (not owned)")
        elif fimpl.get("outcome") == "ok":
            dfiles = {p: t for p, t in fimpl.get("files", {}).items() if p.endswith(".d")}
            mpaths = [p for p in fv.get("model_paths", []) if p.endswith(".d")]
            if sorted(dfiles) != sorted(mpaths):
                res.update(status="violation", why="dependency files written %s, expected %s" % (sorted(dfiles), sorted(mpaths)))
            elif not fv.get("files_equal") and any(p in fv.get("diff", "") for p in dfiles):
                res.update(status="violation", why="dependency file differs from the one the property prescribes: " + fv.get("diff", ""))
        return res

    def nontrivial(self, c):
        fs = [f for f in all_files(c["doc"]) if "path" in f]
        paths = [f["path"] for f in fs]
        return len(set(paths)) < len(paths) or any(p.endswith(".a") for p in paths) or any(has_cond(f) for f in fs)


class C13(Property):
    pid = "C13"
    title = "symbols header"
    rule = ("valid-stream documents with both styles, linker offsets, vram classes, user assignments, both header options, "
            "both modes; non-trivial when the document has a linker offset, a class or a user symbol assignment")

    def profile(self, r):
        return Profile(header=1.0, p_offset=0.3, p_classes=0.5, p_toplevel=0.5, p_makerom=0.5, p_settings_field=0.4, p_gp=0.4)

    def extra_cases(self, tier):
        """the two header options are the document's whether or not it names a place for the header file (the header is also
        available through `export_symbol_header`): path absent / null / given x type x as_array x both modes"""
        out = []
        k = 0
        for path in ("absent", None, "include/syms.h"):
            for ty, arr in (("Addr", False), ("u8", True), ("char", False)):
                for mode in ("normal", "partial"):
                    st = {"symbols_header_type": ty, "symbols_header_as_array": arr}
                    if path != "absent":
                        st["symbols_header_path"] = path
                    if mode == "partial":
                        st.update({"partial_scripts_folder": "ps", "partial_build_segments_folder": "pb"})
                    doc = {"settings": st, "segments": [{"name": "boot", "fixed_vram": 0x80000400, "files": [{"path": "a.o"},
                                                        {"kind": "linker_offset", "linker_offset_name": "mid", "section": ".data"}]},
                                                       {"name": "main", "files": [{"path": "b.o"}]}]}
                    out.append({"id": "hdropt%d" % k, "seed": 70 + k, "stream": "valid", "opts": [], "mode": mode, "version_comment": k % 2 == 0,
                                "link": False, "doc": doc})
                    k += 1
        return out

    def tweak(self, r, c):
        dotted_class_names(r, c["doc"], 0.15)
        # the header is also written when there is no dependency file to write
        st = c["doc"].get("settings")
        if isinstance(st, dict) and r.chance(0.3):
            st.pop("d_path", None)
            st.pop("target_path", None)

    def evaluate(self, w, c):
        impl, v = w.eval(c, [self.pid])
        res = self.judge(c, impl, v, w)
        if res["status"] == "corr" and impl.get("outcome") == "ok" and impl.get("header") is not None:
            kf = self.compile_header(w, c, impl["header"])
            if kf is not None and kf["status"] == "violation":
                res.update(kf)
            return res
        if res["status"] != "ok" or impl.get("outcome") != "ok" or not fs_safe(c) or impl.get("header") is None:
            return res
        # the header file `save_other_files` writes, in both modes: present, and the text of the in-memory export
        c2 = dict(c, out="out/script.ld")
        fimpl, fv = eval_files(w, c2)
        res["files_checked"] = True
        if fimpl.get("outcome") in ("panic", "abort", "timeout"):
            res.update(status="violation", why="file export %s" % fimpl.get("outcome"))
        elif not fv.get("outcome_agree"):
            res.update(status="skip", why="file export outcome disagreement (not owned)")
        elif fimpl.get("outcome") == "ok":
            hp = [p for p in fv.get("model_paths", []) if not p.endswith(".d") and not p.endswith(".ld")]
            files = fimpl.get("files", {})
            for p in hp:
                if p not in files:
                    res.update(status="violation", why="the symbols header %s is not written (files: %s)" % (p, sorted(files)))
                elif files[p] != impl["header"]:
                    res.update(status="violation", why="the symbols header file %s is not the header of the generated symbols" % p)
            if res["status"] == "ok" and hp:
                # regenerated over an older, longer header at the same place: the file is still exactly the header
                stale = "#ifndef OLD_H\n#define OLD_H\n" + "extern char old_symbol_%d[];\n" * 1 % 0 + "/* stale */\n" * 600 + "#endif\n"
                c3 = dict(c2, pre=[[p, stale] for p in hp], id=c["id"] + ":regen")
                fimpl3, fv3 = eval_files(w, c3)
                if fimpl3.get("outcome") == "ok":
                    for p in hp:
                        if fimpl3.get("files", {}).get(p) != impl["header"]:
                            res.update(status="violation", why="regenerated over an older, longer file the symbols header %s is not the header of the generated symbols" % p)
        if res["status"] == "ok":
            kf = self.compile_header(w, c, impl["header"])
            if kf is not None:
                res.update(kf)
        return res

    def compile_header(self, w, c, header):
        """the header is a self-contained C file (the declared type is the user's: it is typedef'd in front). Returns None
        when it compiles, a known-finding verdict when the only offending names are documented spellings that are no C
        identifiers because the document's own names are none, a violation otherwise."""
        import subprocess, shutil
        if shutil.which("gcc") is None:
            return None
        st = c["doc"].get("settings") if isinstance(c["doc"].get("settings"), dict) else {}
        ty = (st or {}).get("symbols_header_type", "char")
        pre = "" if ty in ("char", "unsigned char", "int", "unsigned int") else "typedef unsigned int %s;\n" % ty
        if not re.match(r"^[A-Za-z_][A-Za-z0-9_ ]*$", str(ty)):
            return None
        p = subprocess.run(["gcc", "-fsyntax-only", "-std=c99", "-x", "c", "-"], input=pre + header, capture_output=True, text=True, timeout=30)
        if p.returncode == 0:
            return None
        names = re.findall(r"^extern .*?([^\s\[\];]+)(?:\[\])?;$", header, re.M)
        bad = [n for n in names if not re.match(r"^[A-Za-z_][A-Za-z0-9_]*$", n)]
        info = w.d.ask({"op": "docinfo", "case": {"id": c["id"], "doc": tree.to_proto(c["doc"]), "opts": c["opts"]}})
        documented = set()
        if info and "segments" in info:
            for sg in info["segments"]:
                documented |= {sg[k] for k in ("rom_start", "rom_end", "rom_size", "vram", "vram_end", "vram_size")}
                documented |= set(sg["alloc"].values()) | set(sg["noload"].values()) | set(sg.get("offsets") or [])
                for sc in sg["sections"]:
                    documented |= {sc["start"], sc["end"], sc["size"]}
            for cl in info.get("classes", []):
                documented |= {cl["start"], cl["end"], cl["size"]}
        if bad and all(n in documented for n in bad):
            return {"status": "kf:KF-C13-names-not-identifiers", "why": "known finding KF-C13-names-not-identifiers: %s" % bad[0]}
        return {"status": "violation", "why": "the symbols header is not a C file a compiler accepts: %s" % (bad[:3] or p.stderr[:200])}

    def nontrivial(self, c):
        d = c["doc"]
        return bool(d.get("vram_classes")) or bool(d.get("symbol_assignments")) or \
            any(f.get("kind") == "linker_offset" for f in all_files(d))


class C14(Property):
    pid = "C14"
    title = "KEEP inheritance"
    rule = ("valid-stream documents with keep_sections in {absent,true,false,list} at class/segment/group/file, depth up to 4, "
            "sub-group and section_order-moved sections, both modes, plus the {absent,true,false,list}^5 lattice over "
            "class/segment/group/group/file; non-trivial when at least two levels carry explicit values that disagree")
    lattice_exhaustive = True

    def profile(self, r):
        return Profile(p_keep=0.55, p_group=0.45, max_depth=4, p_classes=0.6, p_addr=0.7, p_section_order=0.3,
                       p_subgroups=0.4, p_missing_key=0.0, p_pad=0.05, p_offset=0.05)

    def explicit_levels(self, doc):
        vals = []
        for c in doc.get("vram_classes") or []:
            if "keep_sections" in c:
                vals.append(json.dumps(c["keep_sections"]))
        for s in doc.get("segments", []):
            if "keep_sections" in s:
                vals.append(json.dumps(s["keep_sections"]))
        for f in all_files(doc):
            if "keep_sections" in f:
                vals.append(json.dumps(f["keep_sections"]))
        return vals

    def nontrivial(self, c):
        return len(set(self.explicit_levels(c["doc"]))) >= 2

    def extra_cases(self, tier):
        import itertools
        vals = [None, True, False, [".data"]]
        cases = []
        combos = list(itertools.product(vals, repeat=5))
        if tier != "thorough":
            combos = combos[::5]
        for i, (kc, ks, kg1, kg2, kf) in enumerate(combos):
            def put(d, k):
                if k is not None:
                    d["keep_sections"] = copy.deepcopy(k)
                return d
            f = put({"path": "f.o"}, kf)
            g2 = put({"kind": "group", "dir": "g2", "files": [f, {"path": "sib.o"}]}, kg2)
            g1 = put({"kind": "group", "files": [g2, {"path": "lib.a", "subfile": "m.o"}]}, kg1)
            seg = put({"name": "ovl", "vram_class": "cls", "files": [g1, {"path": "top.o", "section_order": {".data": ".text"}}]}, ks)
            cls = put({"name": "cls", "fixed_vram": 0x80100000}, kc)
            doc = {"settings": {"partial_scripts_folder": "ps", "partial_build_segments_folder": "pb"},
                   "vram_classes": [cls], "segments": [seg]}
            cases.append({"id": "kl%d" % i, "stream": "lattice:keep", "doc": doc, "opts": [],
                          "mode": "partial" if i % 2 else "normal", "version_comment": False})
            if i % 7 == 0:
                # the same tree in single_segment_mode (no class symbols are written there, the class's keep_sections still counts)
                docs = copy.deepcopy(doc)
                docs["settings"] = {"single_segment_mode": True}
                cases.append({"id": "kls%d" % i, "stream": "lattice:keep", "doc": docs, "opts": [], "mode": "normal", "version_comment": False})
        # three absent groups between the value and the file (the value travels down through every absent level)
        for j, kv in enumerate([True, [".data"], [".text", ".bss"]]):
            deep = {"path": "deep.o"}
            for depth in range(4):
                deep = {"kind": "group", "dir": "d%d" % depth, "files": [deep, {"path": "s%d.o" % depth}]}
            for where in ("class", "segment", "group"):
                seg = {"name": "ovl", "vram_class": "cls", "files": [deep if where != "group" else dict(deep, keep_sections=copy.deepcopy(kv))]}
                cls = {"name": "cls", "fixed_vram": 0x80100000}
                if where == "class":
                    cls["keep_sections"] = copy.deepcopy(kv)
                if where == "segment":
                    seg["keep_sections"] = copy.deepcopy(kv)
                for mode in ("normal", "partial"):
                    doc = {"settings": {"partial_scripts_folder": "ps", "partial_build_segments_folder": "pb"}, "vram_classes": [cls], "segments": [copy.deepcopy(seg)]}
                    cases.append({"id": "kdeep%d%s%s" % (j, where[0], mode[0]), "stream": "lattice:keep", "doc": doc, "opts": [], "mode": mode, "version_comment": False})
        return cases


BRACE_COMPONENTS = ["{a}", "{a}{b}", "{a}_{b}", "x{a}", "{a}x", "{a}x{b}y", "p{a}q{b}r{a}", "{a", "a}", "}{", "{}", "{{a}}",
                    "{a}{a}", "{a}b{c", "x}b{a}", "{a}}", "{missing}", "{a}{missing}", "pre{b}{a}post.o", "{e}", "x{e}", "{e}{e}y"]


class C07(Property):
    pid = "C07"
    title = "emitted paths"
    owns_errors = ("CustomOptionInPathNotProvided",)
    rule = ("valid-stream documents whose path-valued fields (base_path, segment dir, group dir, path, target_path, d_path, "
            "symbols_header_path, partial folders, -o) carry 0..3 {key} markers per component at leading/inner/trailing/adjacent "
            "positions, repeated and missing keys, empty values and values containing '/' or braces, nesting depth 0..3, both modes, "
            "plus a lattice of 22 brace patterns x 9 fields; non-trivial when some component has two markers or a marker sits in a dir")

    def profile(self, r):
        return Profile(p_braces=0.8, p_group=0.4, max_depth=3, p_missing_key=0.12, dpath=0.7, header=0.6, p_partial=0.4,
                       p_cond=0.15, p_pad=0.05, p_offset=0.05)

    def tweak(self, r, c):
        dotted_segment_names(r, c["doc"], 0.12)
        # sprinkle awkward components
        fs = [f for f in all_files(c["doc"])]
        for f in fs:
            if "path" in f and r.chance(0.25):
                f["path"] = "/".join([r.pick(BRACE_COMPONENTS) for _ in range(r.below(2))] + [r.pick(BRACE_COMPONENTS) + ".o"])
            if f.get("kind") == "group" and r.chance(0.3):
                f["dir"] = r.pick(BRACE_COMPONENTS)
        have = {k for k, _ in c["opts"]}
        for k, v in (("a", "us"), ("b", "v1"), ("c", "x/y"), ("e", "")):
            if k not in have and r.chance(0.85):
                c["opts"].append([k, v if r.chance(0.8) else r.pick(["", "q{b}", "a/b", "}", "{"])])
        if r.chance(0.5) or c["mode"] == "partial":
            c["out"] = r.pick(["out/{a}.ld", "script.ld", "o/{a}{b}/s.ld", "{version}.ld"])
        if c["mode"] == "partial":
            st = c["doc"].setdefault("settings", {})
            st.setdefault("target_path", "rom.elf")
            st.setdefault("d_path", r.pick(["rom.d", "d/{a}.d"]))
            if r.chance(0.5):
                st["partial_build_segments_folder"] = r.pick(["seg/{a}", "{a}{b}", "pb/x{b}", "{version}/o"])
            if r.chance(0.3):
                st["partial_scripts_folder"] = r.pick(["ps/{a}", "{b}"])
            have = {k for k, _ in c["opts"]}
            if "version" not in have:
                c["opts"].append(["version", "us"])

    def nontrivial(self, c):
        import re
        def strs(t):
            if isinstance(t, str):
                yield t
            elif isinstance(t, dict):
                for k, v in t.items():
                    if k in ("path", "dir", "base_path", "target_path", "d_path", "symbols_header_path",
                             "partial_scripts_folder", "partial_build_segments_folder"):
                        yield from strs(v)
                    elif isinstance(v, (dict, list)):
                        yield from strs(v)
            elif isinstance(t, list):
                for v in t:
                    yield from strs(v)
        for s in strs(c["doc"]):
            for comp in s.split("/"):
                if len(re.findall(r"\{[^{}]*\}", comp)) >= 2:
                    return True
        return any("{" in (f.get("dir") or "") for f in all_files(c["doc"])) or \
            any("{" in (s.get("dir") or "") for s in c["doc"].get("segments", []))

    def evaluate(self, w, c):
        impl, v = w.eval(c, [self.pid])
        res = self.judge(c, impl, v, w)
        if res["status"] != "ok" or not fs_safe(c) or "out" not in c:
            return res
        fimpl, fv = eval_files(w, c)
        res["files_checked"] = True
        if fimpl.get("outcome") in ("panic", "abort", "timeout"):
            res.update(status="violation", why="file export %s" % fimpl.get("outcome"))
        elif not fv.get("outcome_agree"):
            kinds = {fimpl.get("err_kind"), fv.get("model_err")} - {None}
            if kinds & set(self.owns_errors):
                res.update(status="violation", why="file export: outcome differs: impl %s/%s model %s/%s" % (
                    fimpl.get("outcome"), fimpl.get("err_kind"), fv.get("model_outcome"), fv.get("model_err")))
        elif fimpl.get("outcome") == "ok" and sorted(fimpl.get("files", {})) != sorted(fv.get("model_paths", [])):
            res.update(status="violation", why="output locations: " + fv.get("diff", ""))
        elif fimpl.get("outcome") == "ok" and any(p.endswith(".d") for p in fv.get("unequal", [])):
            res.update(status="violation", why="paths in a written dependency file differ from base/dir/.../path with every {key} replaced: "
                       + ",".join(p for p in fv["unequal"] if p.endswith(".d")))
        return res

    def extra_cases(self, tier):
        cases = []
        fields = ["base_path", "seg_dir", "group_dir", "path", "target_path", "d_path", "symbols_header_path",
                  "partial_scripts_folder", "partial_build_segments_folder"]
        i = 0
        for comp in BRACE_COMPONENTS:
            for fld in fields:
                for optset in ([["a", "us"], ["b", "v1"], ["e", ""]], [["a", "x/y"], ["b", "{a}"], ["e", ""]], [["b", "only"]], []):
                    i += 1
                    if tier != "thorough" and i % 3:
                        continue
                    st = {"base_path": "build", "target_path": "t.elf", "d_path": "t.d", "symbols_header_path": "h/s.h",
                          "partial_scripts_folder": "ps", "partial_build_segments_folder": "pb"}
                    grp = {"kind": "group", "dir": "g", "files": [{"path": "in.o"}, {"path": "lib.a", "subfile": "m.o"}]}
                    seg = {"name": "main", "dir": "sd", "files": [{"path": "top.o"}, grp]}
                    if fld in st:
                        st[fld] = ("d/" + comp) if fld != "base_path" else comp
                    elif fld == "seg_dir":
                        seg["dir"] = comp + "/z"
                    elif fld == "group_dir":
                        grp["dir"] = "y/" + comp
                    else:
                        grp["files"][0]["path"] = comp + "/" + comp
                    doc = {"settings": st, "segments": [seg]}
                    cases.append({"id": "br%d" % i, "seed": i, "stream": "lattice:braces", "doc": doc, "opts": optset,
                                  "mode": "partial" if i % 2 else "normal", "version_comment": False, "out": "o/" + comp + ".ld"})
        # `..` and `.` components are part of the path as written: nothing is dropped or resolved
        for j, (fld, val) in enumerate((("base_path", "build/../out"), ("base_path", "../build"), ("seg_dir", "../sd"), ("seg_dir", "a/../b"),
                                        ("group_dir", "../prebuilt"), ("group_dir", "x/../../y"), ("path", "../lib/libc.a"), ("path", "a/./b.o"),
                                        ("target_path", "../t.elf"), ("d_path", "../d/t.d"), ("partial_build_segments_folder", "../pb"),
                                        ("group_dir", "{a}/.."), ("path", "../{a}/x.o"))):
            for mode in ("normal", "partial"):
                st = {"base_path": "build", "target_path": "t.elf", "d_path": "t.d", "symbols_header_path": "h/s.h",
                      "partial_scripts_folder": "ps", "partial_build_segments_folder": "pb"}
                grp = {"kind": "group", "dir": "g", "files": [{"path": "in.o"}, {"path": "lib.a", "subfile": "m.o"}]}
                seg = {"name": "main", "dir": "sd", "files": [{"path": "top.o"}, grp]}
                if fld in st:
                    st[fld] = val
                elif fld == "seg_dir":
                    seg["dir"] = val
                elif fld == "group_dir":
                    grp["dir"] = val
                else:
                    grp["files"][0]["path"] = val
                cases.append({"id": "dots%d%s" % (j, mode[0]), "seed": 900 + j, "stream": "lattice:dots", "doc": {"settings": st, "segments": [seg]},
                              "opts": [["a", "us"]], "mode": mode, "version_comment": False})
        return cases


def base_valid_doc():
    return {"settings": {"base_path": "build", "target_path": "rom.elf", "d_path": "rom.d"},
            "vram_classes": [{"name": "cls", "fixed_vram": 0x80100000}],
            "segments": [{"name": "boot", "fixed_vram": 0x80000400, "files": [{"path": "a.o"}], "gp_info": {"section": ".sdata"}},
                         {"name": "ovl", "vram_class": "cls", "files": [{"path": "b.o"}, {"kind": "group", "dir": "g", "files": [{"path": "c.o"}]}]}],
            "entry": "start",
            "symbol_assignments": [{"name": "s1", "value": "1"}],
            "required_symbols": [{"name": "r1"}],
            "asserts": [{"check": "1", "error_message": "m"}]}


def record_sites(doc):
    """(label, record) for the nine record levels of a document"""
    out = [("document", doc), ("settings", doc.get("settings")), ("vram_class", (doc.get("vram_classes") or [None])[0])]
    segs = doc.get("segments") or []
    if segs:
        out.append(("segment", segs[0]))
        if isinstance(segs[0].get("gp_info"), dict):
            out.append(("gp_info", segs[0]["gp_info"]))
        fs = list(all_files(doc))
        if fs:
            out.append(("file", fs[0]))
            nested = [f for f in fs if f.get("kind") == "group" and f.get("files")]
            if nested:
                out.append(("file_in_group", nested[0]["files"][0]))
    for k, lab in (("symbol_assignments", "symbol_assignment"), ("required_symbols", "required_symbol"), ("asserts", "assert")):
        if doc.get(k):
            out.append((lab, doc[k][0]))
    return [(l, r) for l, r in out if isinstance(r, dict)]


class C16(Property):
    pid = "C16"
    title = "rejection of invalid, acceptance of valid documents"
    owns_errors = ("*",)
    quick_n = 500
    lattice_exhaustive = True
    rule = ("the presence lattices in full: file entries {kind absent|5 kinds} x 2^8 field presences x {.o,.a,other} (4608), each field "
            "also as null; segments 2^4 address subsets; classes 2^3 placement subsets; an unknown key at each of the 9 record levels; "
            "every field of every record x {absent,null,value}; an empty list for each of the 4 condition fields on each of the 6 "
            "conditional record kinds; empty names/paths/values; gp_info x hardcoded_gp_value x section membership; d_path without "
            "target_path; plus valid-stream documents and single random mutations of them. "
            "Non-trivial: the case differs from a valid document in exactly one rule, or is a valid document with optional features")

    def profile(self, r):
        return Profile(p_missing_key=0.0)

    def tweak(self, r, c):
        # one random mutation in half of the random cases
        c["mut"] = None
        if not r.chance(0.5):
            return
        sites = record_sites(c["doc"])
        lab, rec = r.pick(sites)
        kind = r.below(5)
        keys = list(rec.keys())
        if kind == 0:
            rec["bogus_key"] = 1
            c["mut"] = "unknown key in " + lab
        elif kind == 1 and keys:
            k = r.pick(keys)
            rec[k] = None
            c["mut"] = "null on %s.%s" % (lab, k)
        elif kind == 2 and keys:
            k = r.pick(keys)
            del rec[k]
            c["mut"] = "deleted %s.%s" % (lab, k)
        elif kind == 3 and keys:
            k = r.pick(keys)
            v = rec[k]
            rec[k] = [] if isinstance(v, list) else ("" if isinstance(v, str) else ({} if isinstance(v, dict) else v))
            c["mut"] = "emptied %s.%s" % (lab, k)
        else:
            k = r.pick(list(COND_KEYS))
            rec[k] = r.pick([[], None, [["a"]], [["a", "b", "c"]], "x", [["k", "v"]]])
            c["mut"] = "cond %s.%s" % (lab, k)
        c["stream"] = "mutated"

    def nontrivial(self, c):
        return True

    def evaluate(self, w, c):
        impl, v = w.eval(c, [self.pid])
        res = {"impl_outcome": impl.get("outcome"), "impl_err": impl.get("err_kind"),
               "model_outcome": v.get("model_outcome"), "model_err": v.get("model_err"), "mut": c.get("mut")}
        if v.get("driver_crash") or "valid_spec" not in v:
            res.update(status="corr", why="driver failed on this case")
            return res
        io = impl.get("outcome")
        if io in ("panic", "abort", "timeout"):
            res.update(status="violation", why="implementation %s while reading the document" % io)
            return res
        impl_accepts = io == "ok" or impl.get("stage") in ("generate", "export")
        model_accepts = v.get("model_outcome") == "ok" or v.get("model_stage") == "generate"
        valid = v["valid_spec"]
        res["valid"] = valid
        res["errkind_agree"] = v.get("errkind_agree")
        if impl_accepts != valid:
            res.update(status="violation", why="the implementation %s a document that the documented rules %s (%s)" % (
                "accepts" if impl_accepts else "rejects (%s: %s)" % (impl.get("err_kind"), impl.get("err_msg")),
                "reject" if not valid else "accept", c.get("mut") or c.get("id")))
        elif model_accepts != impl_accepts:
            res.update(status="corr", why="model and implementation disagree on acceptance")
        else:
            res.update(status="ok", why="", rejected=not impl_accepts)
        return res

    def extra_cases(self, tier):
        import itertools
        cases = []

        def add(doc, tag):
            cases.append({"id": "v%d" % len(cases), "seed": len(cases), "stream": "lattice:" + tag, "doc": doc, "opts": [],
                          "mode": "normal", "version_comment": False, "mut": tag})
        # file entries: kind x 8 field presences x extension, fields as values; plus a null sweep
        fvals = {"path": None, "subfile": "m.o", "pad_amount": 16, "section": ".data", "linker_offset_name": "mark",
                 "section_order": {".data": ".text"}, "files": [{"path": "in.o"}], "dir": "d"}
        fields = list(fvals)
        kinds = [None, "object", "archive", "pad", "linker_offset", "group"]
        exts = ["x.o", "y.a", "z"]
        step = 1 if tier == "thorough" else 7
        n = 0
        for kind in kinds:
            for mask in range(256):
                for ext in exts:
                    n += 1
                    if n % step:
                        continue
                    f = {}
                    if kind:
                        f["kind"] = kind
                    for i, fld in enumerate(fields):
                        if mask >> i & 1:
                            f[fld] = ext if fld == "path" else copy.deepcopy(fvals[fld])
                    d = base_valid_doc()
                    d["segments"][0]["files"] = [f]
                    add(d, "file-presence")
        # each file field as null on each kind
        for kind in kinds:
            for fld in fields + ["kind"]:
                basef = {"object": {"path": "a.o"}, "archive": {"path": "l.a"}, "pad": {"kind": "pad", "pad_amount": 4, "section": ".text"},
                         "linker_offset": {"kind": "linker_offset", "linker_offset_name": "m", "section": ".text"},
                         "group": {"kind": "group", "files": [{"path": "q.o"}]}, None: {"path": "n.o"}}[kind]
                f = dict(basef)
                if kind in ("object", "archive"):
                    f["kind"] = kind
                f[fld] = None
                d = base_valid_doc()
                d["segments"][1]["files"][1]["files"] = [f]
                add(d, "file-null")
        # segments: 2^4 address subsets (+ null on each)
        addr = {"fixed_vram": 0x80001000, "fixed_symbol": "sym", "follows_segment": "boot", "vram_class": "cls"}
        for mask in range(16):
            d = base_valid_doc()
            seg = d["segments"][1]
            seg.pop("vram_class", None)
            for i, k in enumerate(addr):
                if mask >> i & 1:
                    seg[k] = addr[k]
            add(d, "segment-address")
        # classes: 2^3 placement subsets
        place = {"fixed_vram": 0x80200000, "fixed_symbol": "sym", "follows_classes": ["cls"]}
        for mask in range(8):
            for empty_follow in (False, True):
                d = base_valid_doc()
                c2 = {"name": "c2"}
                for i, k in enumerate(place):
                    if mask >> i & 1:
                        c2[k] = [] if (k == "follows_classes" and empty_follow) else place[k]
                d["vram_classes"].append(c2)
                add(d, "class-placement")
        # unknown key / every field absent-null-value / empty cond lists, at every record level
        d0 = base_valid_doc()
        d0["segments"][0]["files"].append({"kind": "pad", "pad_amount": 4, "section": ".text"})
        for lab, _ in record_sites(d0):
            d = copy.deepcopy(d0)
            rec = dict(record_sites(d))[lab]
            rec["zz_unknown"] = 1
            add(d, "unknown-key:" + lab)
            for k in list(dict(record_sites(d0))[lab].keys()):
                for how in ("null", "absent", "empty"):
                    d = copy.deepcopy(d0)
                    rec = dict(record_sites(d))[lab]
                    if how == "null":
                        rec[k] = None
                    elif how == "absent":
                        del rec[k]
                    else:
                        v = rec[k]
                        if isinstance(v, str):
                            rec[k] = ""
                        elif isinstance(v, list):
                            rec[k] = []
                        else:
                            continue
                    add(d, "%s:%s.%s" % (how, lab, k))
            if lab in ("segment", "file", "file_in_group", "gp_info", "symbol_assignment", "required_symbol", "assert"):
                for ck in COND_KEYS:
                    for val in ([], None, [["k", "v"]], [["k", 4]], [["k", True]], [[4, "v"]], [["k", None]], [["k", tree.Float("4.5")]],
                                [["k", "v"], ["modding", False]]):
                        d = copy.deepcopy(d0)
                        rec = dict(record_sites(d))[lab]
                        rec[ck] = val
                        add(d, "cond:%s.%s" % (lab, ck))
        # every optional settings / segment field x {null, value}
        sett_fields = {"base_path": "b", "linker_symbols_style": "makerom", "hardcoded_gp_value": 16, "d_path": "x.d", "target_path": "t",
                       "symbols_header_path": "h.h", "symbols_header_type": "u32", "symbols_header_as_array": False,
                       "sections_allowlist": [".a"], "sections_allowlist_extra": [".b"], "sections_denylist": [".c"],
                       "discard_wildcard_section": False, "single_segment_mode": False, "partial_scripts_folder": "p",
                       "partial_build_segments_folder": "q", "alloc_sections": [".text"], "noload_sections": [".bss"], "subalign": 4,
                       "segment_start_align": 8, "segment_end_align": 8, "section_start_align": 8, "section_end_align": 8,
                       "sections_start_alignment": {".text": 4}, "sections_end_alignment": {".text": 4}, "wildcard_sections": False,
                       "fill_value": 1, "sections_subgroups": {".text": [".init"]}}
        for k, val in sett_fields.items():
            for v2 in (None, val):
                for level in ("settings", "segment"):
                    if level == "segment" and k not in OVER_NAMES and k not in ("dir",):
                        continue
                    d = base_valid_doc()
                    d["segments"][0].pop("gp_info", None)
                    if level == "settings":
                        d["settings"] = {k: copy.deepcopy(v2)}
                    else:
                        d["segments"][0][k] = copy.deepcopy(v2)
                    add(d, "%s.%s=%s" % (level, k, "null" if v2 is None else "value"))
        # gp_info x hardcoded_gp_value x section membership
        for hard in (False, True):
            for sec in (None, ".sdata", ".nosuch", ""):
                for lists in (None, [".text", ".nosuch"]):
                    d = base_valid_doc()
                    if hard:
                        d["settings"]["hardcoded_gp_value"] = 0x80008000
                    gp = {}
                    if sec is not None:
                        gp["section"] = sec
                    d["segments"][0]["gp_info"] = gp
                    if lists:
                        d["segments"][0]["alloc_sections"] = lists
                    add(d, "gp")
        for dp, tp in itertools.product((None, "a.d"), (None, "t.elf")):
            d = base_valid_doc()
            d["settings"] = {}
            if dp:
                d["settings"]["d_path"] = dp
            if tp:
                d["settings"]["target_path"] = tp
            add(d, "d_path/target_path")
        for segs in ([], [{"name": "x", "files": []}], [{"name": "", "files": [{"path": "a.o"}]}], [{"name": "x", "files": [{"path": ""}]}]):
            add({"segments": segs}, "empty")
        return cases


OVER_NAMES = {"alloc_sections", "noload_sections", "subalign", "segment_start_align", "segment_end_align", "section_start_align",
              "section_end_align", "sections_start_alignment", "sections_end_alignment", "wildcard_sections", "fill_value",
              "sections_subgroups"}


class C17(Property):
    pid = "C17"
    title = "top-level statements and _gp"
    owns_errors = ("MissingSectionForSegment",)      # a gp_info whose section the segment has must be accepted (and `_gp` defined)
    rule = ("valid-stream documents with entry, symbol assignments (all four flag combinations), required symbols, asserts, "
            "gp_info on any segment/section/offset or a hardcoded value, conditions on all of them, multi-segment, single-segment and "
            "partial modes; non-trivial when the document has at least two statement kinds or a gp_info")

    def profile(self, r):
        return Profile(p_toplevel=0.75, p_gp=0.6, p_cond=0.35, p_single=0.2, p_partial=0.3, p_align=0.5, p_missing_key=0.0,
                       p_segment_override=0.35, p_custom_lists=0.5)

    def tweak(self, r, c):
        # section alignments on the gp section, to pin the position of `_gp`
        for s in c["doc"].get("segments", []):
            gp = s.get("gp_info")
            if isinstance(gp, dict) and r.chance(0.6):
                sec = gp.get("section", ".sdata")
                s.setdefault("sections_start_alignment", {})[sec] = 0x10
                if r.chance(0.5):
                    s["section_start_align"] = 8

    def extra_cases(self, tier):
        # the message of an assert is the user's text, character for character: backslashes, a tab, quotes of the other kind
        out = []
        msgs = ["docs\\layout.txt (table 2)", "tab\there", "it's 100% {not} a marker", "a\\nb"]
        for k, mode in enumerate(("normal", "partial")):
            st = {"partial_scripts_folder": "ps", "partial_build_segments_folder": "pb"} if mode == "partial" else {}
            doc = {"settings": st, "segments": [{"name": "boot", "fixed_vram": 0x80000400, "files": [{"path": "a.o"}]}],
                   "entry": "start",
                   "symbol_assignments": [{"name": "stack_top", "value": "0x80400000 + (4 * 0x400)"}],
                   "required_symbols": [{"name": "start"}],
                   "asserts": [{"check": "boot_VRAM_END <= 0x80400000", "error_message": m} for m in msgs]}
            out.append({"id": "assert-text-%d" % k, "seed": 3, "stream": "valid", "opts": [], "mode": mode, "version_comment": False,
                        "link": False, "doc": doc})
        # several segments with a gp_info, each restricted to its own build: `_gp` is defined by the included one, wherever
        # it stands in the document (the condition on the gp_info, or on the whole segment); also with a hardcoded value in partial mode
        for k, (opts, where) in enumerate(((v, wh) for v in ([["version", "us"]], [["version", "eu"]], [["version", "jp"]]) for wh in ("gp", "segment"))):
            for mode in ("normal", "partial"):
                st = {"partial_scripts_folder": "ps", "partial_build_segments_folder": "pb"} if mode == "partial" else {}
                segs = [{"name": "boot", "fixed_vram": 0x80000400, "files": [{"path": "a.o"}]}]
                for ver in ("us", "eu"):
                    sg = {"name": "sdata_" + ver, "files": [{"path": ver + ".o"}], "gp_info": {"section": ".sdata", "offset": 0x10}}
                    (sg["gp_info"] if where == "gp" else sg)["include_if_any"] = [["version", ver]]
                    segs.append(sg)
                out.append({"id": "two-gp-%d%s" % (k, mode[0]), "seed": 4, "stream": "valid", "opts": opts, "mode": mode, "version_comment": False,
                            "link": False, "doc": {"settings": st, "segments": segs}})
        for k, single in enumerate((False, True)):
            st = {"partial_scripts_folder": "ps", "partial_build_segments_folder": "pb", "hardcoded_gp_value": 0x800E4090}
            segs = [{"name": "boot", "fixed_vram": 0x80000400, "files": [{"path": "a.o"}]}] + ([] if single else [{"name": "main", "files": [{"path": "b.o"}]}])
            out.append({"id": "hard-gp-partial-%d" % k, "seed": 5, "stream": "valid", "opts": [], "mode": "partial", "version_comment": False,
                        "link": False, "doc": {"settings": st, "segments": segs}})
        return out

    def nontrivial(self, c):
        d = c["doc"]
        kinds = sum(1 for k in ("entry", "symbol_assignments", "required_symbols", "asserts") if d.get(k))
        return kinds >= 2 or any("gp_info" in s for s in d.get("segments", [])) or \
            "hardcoded_gp_value" in (d.get("settings") or {})


class C18(Property):
    pid = "C18"
    title = "allowlist, denylist, discard"
    rule = ("valid-stream documents with every emptiness/flag combination of sections_allowlist, sections_allowlist_extra, "
            "sections_denylist, discard_wildcard_section (incl. names on both an allowlist and the denylist), classes, multi-segment, "
            "single-segment and partial sub-scripts; non-trivial when one of the four settings has a non-default value")

    def profile(self, r):
        return Profile(p_settings_field=0.55, p_classes=0.4, p_single=0.2, p_partial=0.35, p_missing_key=0.0)

    def tweak(self, r, c):
        st = c["doc"].setdefault("settings", {})
        if r.chance(0.15):
            st["sections_allowlist"] = [".got", ".mdebug"]
        if r.chance(0.15):
            st["sections_allowlist_extra"] = []
        if r.chance(0.1):
            st["sections_denylist"] = []
            st["discard_wildcard_section"] = False

    def nontrivial(self, c):
        st = c["doc"].get("settings") or {}
        return any(k in st for k in ("sections_allowlist", "sections_allowlist_extra", "sections_denylist", "discard_wildcard_section"))

    def extra_cases(self, tier):
        import itertools
        cases = []
        i = 0
        for al, ex, dn, wc, kind in itertools.product(([], [".mdebug", ".got"]), ([], [".symtab"], None), ([], [".got", ".junk"], None),
                                                      (True, False, None), ("multi", "single", "partial", "classes")):
            i += 1
            st = {"partial_scripts_folder": "ps", "partial_build_segments_folder": "pb"}
            if al:
                st["sections_allowlist"] = al
            if ex is not None:
                st["sections_allowlist_extra"] = ex
            if dn is not None:
                st["sections_denylist"] = dn
            if wc is not None:
                st["discard_wildcard_section"] = wc
            segs = [{"name": "boot", "files": [{"path": "a.o"}]}, {"name": "main", "files": [{"path": "b.o"}]}]
            doc = {"settings": st, "segments": segs}
            if kind == "single":
                st["single_segment_mode"] = True
                doc["segments"] = segs[:1]
            if kind == "classes":
                doc["vram_classes"] = [{"name": "c1", "fixed_vram": 0x80100000}, {"name": "c2", "follows_classes": ["c1"]}]
                segs[1]["vram_class"] = "c2"
            cases.append({"id": "tl%d" % i, "seed": i, "stream": "lattice:tail", "doc": doc, "opts": [],
                          "mode": "partial" if kind == "partial" else "normal", "version_comment": False})
        return cases


class C15(Property):
    pid = "C15"
    title = "determinism"
    rule = ("valid-stream documents with at least two entries in hash-based fields (section_order incl. several sections moved to one "
            "destination and sections outside the lists, alignment maps, sub-groups, keep lists, options); every case is generated 3x in one "
            "process, once more in each of two fresh processes, and once with the distinct options supplied in another order; "
            "non-trivial when some section_order has two or more entries")
    quick_n = 500

    def extra_cases(self, tier):
        """lists that name something twice (a section, a file, a class member, a keep entry): whatever the implementation does
        with the repetition, it does the same in every process"""
        out = []
        k = 0
        for where in ("settings", "segment"):
            for field, val in (("alloc_sections", [".text", ".rodata", ".data", ".rodata", ".sdata", ".text"]),
                               ("noload_sections", [".bss", ".sbss", ".bss", "COMMON", ".sbss"]),
                               ("sections_allowlist", [".mdebug", ".comment", ".mdebug", ".note", ".comment"]),
                               ("sections_denylist", [".reginfo", ".got", ".reginfo", ".pdr", ".got"])):
                if where == "segment" and field.startswith("sections_"):
                    continue
                for mode in ("normal", "partial"):
                    st = {"partial_scripts_folder": "ps", "partial_build_segments_folder": "pb"} if mode == "partial" else {}
                    seg = {"name": "boot", "fixed_vram": 0x80000400, "keep_sections": [".data", ".text", ".data"],
                           "files": [{"path": "a.o"}, {"path": "b.o", "section_order": {".rodata": ".text", ".sdata": ".text", ".data": ".text"}}, {"path": "a.o"}]}
                    (st if where == "settings" else seg)[field] = list(val)
                    doc = {"settings": st, "segments": [seg, {"name": "main", "files": [{"path": "c.o"}]}]}
                    out.append({"id": "repeat%d" % k, "seed": 80 + k, "stream": "valid", "opts": [["version", "us"], ["debug", "on"]], "mode": mode,
                                "version_comment": False, "link": False, "doc": doc})
                    k += 1
        return out

    def profile(self, r):
        return Profile(p_section_order=0.6, p_subgroups=0.5, p_align=0.5, p_keep=0.4, p_custom_lists=0.4, p_missing_key=0.0,
                       p_braces=0.5, p_pad=0.05, p_offset=0.05)

    def tweak(self, r, c):
        c["repeat"] = 3
        # several sections (some of them in no list) moved into one destination
        for s in c["doc"].get("segments", []):
            for f in s.get("files", []):
                if isinstance(f, dict) and "path" in f and r.chance(0.35):
                    dest = r.pick([".text", ".data", ".bss", ".rodata"])
                    keys = r.sample([".init", ".fini", ".ctor", ".text.hot", ".zz", ".aa", ".sbss", ".sdata", "Xsec"], 2 + r.below(3))
                    f["section_order"] = {k: dest for k in keys if k != dest}

        # option values that look like markers themselves: expansion must not depend on option order
        if r.chance(0.3):
            c["opts"] = [o for o in c["opts"] if o[0] not in ("bdir", "ver")]
            pair = [["bdir", "{ver}-rel"], ["ver", r.pick(["us", "jp"])]]
            c["opts"] += pair if r.chance(0.5) else pair[::-1]
            fs = [f for f in all_files(c["doc"]) if "path" in f]
            if fs:
                r.pick(fs)["path"] = "{bdir}/x{ver}.o"
            c["doc"].setdefault("settings", {})["base_path"] = r.pick(["build/{bdir}", "{ver}/{bdir}", "b"])

    def nontrivial(self, c):
        return any(len(f.get("section_order") or {}) >= 2 for f in all_files(c["doc"]))

    def evaluate(self, w, c):
        from .engine import impl_request
        from . import run
        impl, v = w.eval(c, [self.pid])
        res = self.judge(c, impl, v, w)
        if res["status"] not in ("ok", "corr") or impl.get("outcome") != "ok":
            return res
        if not impl.get("repeat_same", True):
            res.update(status="violation", why="repeated generation in one process gave different outputs")
            return res
        # one parsed Document reused: every value changed, these options, changed again, these options again
        other = [[k, v + "_x"] for k, v in c["opts"]]
        impl_r = w.h.run(impl_request(dict(c, repeat=1, reuse_opts=other)))
        if impl_r.get("outcome") == "ok" and not impl_r.get("reuse_same", True):
            res.update(status="violation", why="generating again from the same parsed document, after a generation with other option values in between, gave different outputs")
            return res
        if not hasattr(w, "extra_h"):
            w.extra_h = [run.Harness(), run.Harness()]
        for k, h in enumerate(w.extra_h):
            impl2 = h.run(impl_request(c))
            if not same_outputs(impl, impl2):
                res.update(status="violation", why="a fresh process generated different outputs: " +
                           ",".join(x for x in OUT_KEYS if impl.get(x) != impl2.get(x)))
                return res
        # regenerating in place: the same files whether the directory was empty or held longer files at the same paths
        if fs_safe(c):
            freq = impl_request(dict(c, repeat=1))
            freq["op"] = "files"
            freq["out"] = "out/script.ld"
            f1 = w.h.run(freq)
            if f1.get("outcome") == "ok" and f1.get("files"):
                freq2 = dict(freq, pre=[[p, t + "\n/* stale tail of a longer previous generation */\n" * 3] for p, t in f1["files"].items()])
                f2 = w.h.run(freq2)
                if f2.get("outcome") != "ok" or f2.get("files") != f1.get("files"):
                    diff = sorted(p for p in set(f1["files"]) | set(f2.get("files") or {}) if f1["files"].get(p) != (f2.get("files") or {}).get(p))
                    res.update(status="violation", why="regenerating over longer files at the same paths gives other files than generating into an "
                               "empty directory: " + ",".join(diff)[:200])
                    return res
        # ... nor a header that an earlier generation of a sibling document left at the same place: same symbols, other
        # `symbols_header_type` / `symbols_header_as_array`
        st = c["doc"].get("settings")
        if fs_safe(c) and isinstance(st, dict) and "symbols_header_path" in st and impl.get("header"):
            sib = copy.deepcopy(c["doc"])
            sib["settings"]["symbols_header_type"] = "other_t" if st.get("symbols_header_type") != "other_t" else "char"
            sib["settings"]["symbols_header_as_array"] = not st.get("symbols_header_as_array", True)
            fs_ = impl_request(dict(c, doc=sib, repeat=1))
            fs_["op"] = "files"
            fs_["out"] = "out/script.ld"
            fsib = w.h.run(fs_)
            freq = impl_request(dict(c, repeat=1))
            freq["op"] = "files"
            freq["out"] = "out/script.ld"
            f1 = w.h.run(freq)
            if fsib.get("outcome") == "ok" and f1.get("outcome") == "ok" and fsib.get("files"):
                f3 = w.h.run(dict(freq, pre=[[p, t] for p, t in fsib["files"].items()]))
                if f3.get("outcome") != "ok" or f3.get("files") != f1.get("files"):
                    diff = sorted(p for p in set(f1["files"]) | set(f3.get("files") or {}) if f1["files"].get(p) != (f3.get("files") or {}).get(p))
                    res.update(status="violation", why="generating after a sibling document (other header type) had been generated at the same paths gives "
                               "other files than generating into an empty directory: " + ",".join(diff)[:200])
                    return res
        # the option *map* decides, not the order in which distinct options were supplied
        last = {}
        for k, val in c["opts"]:
            last[k] = val
        for perm in ([[k, last[k]] for k in sorted(last, reverse=True)], [[k, last[k]] for k in sorted(last)]):
            impl3 = w.h.run(impl_request(dict(c, opts=perm)))
            if not same_outputs(impl, impl3):
                res.update(status="violation", why="supplying the same options in another order changed the outputs", permuted_opts=perm)
                break
        return res


HOSTILE_SNIPPETS = [
    "segments: [" * 3000,
    "a: &a [1,2]\nb: &b [*a,*a,*a,*a,*a,*a,*a,*a,*a]\nc: &c [*b,*b,*b,*b,*b,*b,*b,*b,*b]\nd: &d [*c,*c,*c,*c,*c,*c,*c,*c,*c]\ne: &e [*d,*d,*d,*d,*d,*d,*d,*d,*d]\nf: &f [*e,*e,*e,*e,*e,*e,*e,*e,*e]\ng: &g [*f,*f,*f,*f,*f,*f,*f,*f,*f]\nsegments: *g\n",
    "segments:\n  - name: " + "x" * 100000 + "\n    files: [{path: a.o}]\n",
    "segments:\n  - name: a\n    fixed_vram: 99999999999999999999999999999999\n    files: [{path: a.o}]\n",
    "segments:\n  - name: a\n    fixed_vram: -1\n    files: [{path: a.o}]\n",
    "segments:\n  - name: \u00e9\u00e9\n    files: [{path: \u00fc.o}]\nsettings: {linker_symbols_style: makerom, alloc_sections: [\u00e9a, .\u00df]}\n",
    "settings: {sections_subgroups: {.text: [.text]}}\nsegments: [{name: a, files: [{path: a.o}]}]\n",
    "settings: {sections_subgroups: {.text: [.data], .data: [.text]}}\nsegments: [{name: a, files: [{path: a.o}]}]\n",
    "settings: {single_segment_mode: true}\nsegments: [{name: a, files: [{path: a.o}]}, {name: b, files: [{path: b.o}]}]\n",
    "--- !!binary |\n  R0lGODlhDAAMAIQAAP\n",
    "? [complex, key]\n: value\nsegments: []\n",
    "segments:\n  - <<: *nope\n",
    "segments: !!set {a, b}\n",
    "\ufeffsegments: [{name: a, files: [{path: a.o}]}]\n",
    "segments: [{name: a, files: [{path: a.o, section_order: {.data: .data}}]}]\n",
    "segments: [{name: a, files: [{kind: group, files: [{kind: group, files: [{kind: group, files: []}]}]}]}]\n",
    "settings: {alloc_sections: [], noload_sections: []}\nsegments: [{name: a, files: [{path: '{x}.o'}]}]\n",
    "segments: [{name: a, vram_class: nope, files: [{path: a.o}]}]\n",
    "segments: [{name: a, follows_segment: a, files: [{path: a.o}]}]\n",
    "vram_classes: [{name: c, follows_classes: [c]}]\nsegments: [{name: a, vram_class: c, files: [{path: a.o}]}]\n",
    "",
    "~\n",
    "segments:\n\t- name: a\n",
    # sub-group chains and a section_order that closes them into a cycle (each acyclic on its own)
    "segments: [{name: a, sections_subgroups: {.text: [.data], .data: [.rodata]}, files: [{path: a.o, section_order: {.text: .rodata}}]}]\n",
    "segments: [{name: a, sections_subgroups: {.text: [.data], .data: [.rodata], .rodata: [.sdata]}, files: [{path: a.o, section_order: {.text: .sdata}}]}]\n",
    "segments: [{name: a, sections_subgroups: {.text: [.rodata]}, files: [{kind: group, files: [{path: a.o, section_order: {.text: .rodata}}]}]}]\n",
    "settings: {sections_subgroups: {.bss: [.sbss], .sbss: [.scommon]}}\nsegments: [{name: a, files: [{path: a.o, section_order: {.bss: .scommon, .data: .bss}}]}]\n",
    # makerom names are built by cutting the section / segment name: multi-byte characters at every cut position
    "settings: {linker_symbols_style: makerom, alloc_sections: [.\u00f1data, .text]}\nsegments: [{name: a, files: [{path: a.o}]}]\n",
    "settings: {linker_symbols_style: makerom, noload_sections: [\u00e9, .\U0001F600x]}\nsegments: [{name: \u00e9, files: [{path: a.o}]}]\n",
    "settings: {linker_symbols_style: makerom}\nsegments: [{name: a, alloc_sections: ['.'], files: [{path: a.o}]}]\n",
    "settings: {linker_symbols_style: makerom}\nsegments: [{name: a, alloc_sections: [''], files: [{path: a.o, section_order: {'': ''}}]}]\n",
    "segments: [{name: a, files: [{kind: linker_offset, linker_offset_name: \u00e9, section: .text}, {kind: pad, pad_amount: 4294967295, section: .text}]}]\n",
    "settings: {single_segment_mode: true}\nsegments: []\n",
    "settings: {partial_scripts_folder: '{a', partial_build_segments_folder: 'b}'}\nsegments: [{name: a, files: [{path: '}{'}]}]\n",
]


class C19(Property):
    pid = "C19"
    title = "never crashes; success means an acceptable script"
    owns_errors = ()
    quick_n = 900
    thorough_n = 40000
    rule = ("three streams from one seed: valid documents with identifier-safe names (successful generations of a sample are handed to "
            "GNU ld -m elf_i386 and ld.lld with every referenced object present; only syntax diagnostics count), structurally mutated "
            "value trees (nulls, wrong kinds, unknown keys, empty lists, cyclic/self-referential settings, non-ASCII names), and raw text: "
            "byte-level mutations, truncations, deep nesting, alias bombs, huge numbers, tabs, tags, BOMs. Every input runs under "
            "catch_unwind in a child with an address-space limit and a wall timeout; the outcome must be success or an error value. "
            "Non-trivial: the input reaches generation, or is rejected after YAML parsing")
    link_every = 12

    def profile(self, r):
        return Profile(p_braces=0.15, p_missing_key=0.02, p_single=0.2, p_partial=0.35, p_makerom=0.4, wellformed=(r.next() % 4 != 0),
                       p_subgroups=0.4, p_section_order=0.3)

    def make_case(self, seed, idx):
        r = Rng(seed * 1000003 + idx * 7919 + 17)
        c = gen.gen_case(r, self.profile(r), idx)
        k = idx % 4
        if k == 2 or (k == 0 and idx % 8 == 0):
            from . import boost
            boost.boost(Rng(seed * 7368787 + idx * 104729 + 5), c)
            if idx % 7 == 3:
                c["history"] = True
        if k == 1:
            C16().tweak(r, c)
            if r.chance(0.3):
                # self-referential / cyclic tables and hostile names
                if not isinstance(c["doc"].get("settings"), dict):
                    c["doc"]["settings"] = {}
                st = c["doc"]["settings"]
                st["sections_subgroups"] = r.pick([{".text": [".text"]}, {".a": [".b"], ".b": [".a"]}, {".data": [".rdata"], ".rdata": [".data2"], ".data2": [".rdata"]}])
            if r.chance(0.25):
                # a sub-group chain of 1..4 hops closed into a cycle by one file's section_order (each part acyclic alone)
                segs = [sg for sg in (c["doc"].get("segments") or []) if isinstance(sg, dict)]
                if segs:
                    sg = r.pick(segs)
                    chain = r.sample([".text", ".data", ".rodata", ".sdata", ".rdata", ".ctor", "mysec"], 2 + r.below(4))
                    sg["sections_subgroups"] = {chain[i]: [chain[i + 1]] for i in range(len(chain) - 1)}
                    sg["alloc_sections"] = [chain[0]]
                    leaf = {"path": "cyc.o", "section_order": {chain[0]: chain[-1]}}
                    sg["files"] = [leaf if r.chance(0.5) else {"kind": "group", "files": [leaf]}]
            if r.chance(0.2):
                for sg in (c["doc"].get("segments") or []):
                    if isinstance(sg, dict) and r.chance(0.5):
                        sg["name"] = r.pick(["\u00e9t\u00e9", "\u00dfeg", "a b", "x;y", "s{eg", "\U0001F600", "\u0131d"])
            if r.chance(0.2):
                if not isinstance(c["doc"].get("settings"), dict):
                    c["doc"]["settings"] = {}
                st = c["doc"]["settings"]
                st["alloc_sections"] = r.pick([["\u00e9a", ".text"], ["\u00dfx"], ["."], [""], [".text", ".text"]])
                st["linker_symbols_style"] = "makerom"
            c["stream"] = "mutated"
        elif k == 3:
            text = tree.to_yaml(c["doc"])
            raw = bytearray(text.encode("utf-8"))
            how = r.below(7)
            if how == 0 and raw:
                raw = raw[: r.below(len(raw))]
            elif how == 1 and raw:
                for _ in range(1 + r.below(8)):
                    raw[r.below(len(raw))] = r.below(256)
            elif how == 2 and raw:
                pos = r.below(len(raw))
                raw[pos:pos] = bytes(r.below(256) for _ in range(1 + r.below(6)))
            elif how == 3 and raw:
                a = r.below(len(raw))
                b = min(len(raw), a + r.below(200))
                raw[a:a] = raw[a:b] * (1 + r.below(4))
            elif how == 4:
                raw = bytearray(r.pick(HOSTILE_SNIPPETS).encode("utf-8"))
            elif how == 5 and raw:
                for _ in range(1 + r.below(4)):
                    pos = r.below(len(raw))
                    raw[pos:pos + 1] = r.pick([b"{", b"}", b"[", b"]", b":", b",", b"\"", b"&a ", b"*a", b"!!str ", b"\t", b"\n", b"- ", b"? "])
            else:
                raw = bytearray(("x: " * (1 + r.below(50))).encode() + raw)
            c["raw"] = list(raw)
            c["stream"] = "raw-bytes"
        else:
            c["stream"] = "valid"
        c["link"] = (c["stream"] == "valid" and idx % self.link_every == 0)
        return c

    def extra_cases(self, tier):
        """every hostile snippet, in both modes, on every run (they used to be drawn at random)"""
        out = []
        # a deep acyclic sub-group table whose paths re-converge: 2^48 paths, 144 entries (a check that re-explores per path never returns)
        ladder = {}
        for i in range(48):
            ladder[".s%d" % i] = [".a%d" % i, ".b%d" % i]
            ladder[".a%d" % i] = [".s%d" % (i + 1)]
            ladder[".b%d" % i] = [".s%d" % (i + 1)]
        for k, doc in enumerate([
                {"settings": {"sections_subgroups": ladder}, "segments": [{"name": "boot", "files": [{"path": "a.o"}]}]},
                {"settings": {"sections_subgroups": ladder, "partial_scripts_folder": "ps", "partial_build_segments_folder": "pb"},
                 "segments": [{"name": "boot", "alloc_sections": [".text", ".s40"], "files": [{"path": "a.o"}]}]}]):
            out.append({"id": "ladder%d" % k, "seed": 900 + k, "stream": "valid", "doc": doc, "opts": [], "mode": "normal" if k == 0 else "partial",
                        "version_comment": False, "link": False})
        # documents at the edge of the field-combination rules, followed through the file exports as well
        for k, st in enumerate([{"d_path": "rom.d", "target_path": None}, {"d_path": "rom.d", "target_path": None, "symbols_header_path": "s.h"},
                                {"d_path": None, "target_path": "rom.elf"}, {"symbols_header_path": None, "d_path": "rom.d", "target_path": "rom.elf"}]):
            for mode in ("normal", "partial"):
                st2 = dict(st)
                if mode == "partial":
                    st2.update({"partial_scripts_folder": "ps", "partial_build_segments_folder": "pb"})
                out.append({"id": "combo-null%d%s" % (k, mode[0]), "seed": 950 + k, "stream": "valid", "opts": [], "mode": mode, "version_comment": False,
                            "link": False, "doc": {"settings": st2, "segments": [{"name": "boot", "files": [{"path": "a.o"}]}]}})
        for i, text in enumerate(HOSTILE_SNIPPETS):
            for mode in ("normal", "partial"):
                out.append({"id": "hostile%d%s" % (i, mode[0]), "seed": 1000 + i, "stream": "raw-bytes", "doc": {}, "opts": [["version", "us"]],
                            "mode": mode, "version_comment": False, "raw": list(text.encode("utf-8")), "link": False})
        return out

    def nontrivial(self, c):
        return True

    def evaluate(self, w, c):
        from .engine import impl_request
        if "raw" in c:
            req = {"id": c["id"], "yaml_bytes": c["raw"], "opts": c["opts"], "mode": c["mode"], "version_comment": False}
            impl = w.h.run(req)
            res = {"impl_outcome": impl.get("outcome"), "impl_err": impl.get("err_kind"), "model_outcome": None, "model_err": None}
            if impl.get("outcome") in ("ok", "err"):
                res.update(status="ok", why="")
            else:
                res.update(status="violation", why="implementation %s on raw input: %s" % (impl.get("outcome"), impl.get("err_msg")))
            return res
        impl, v = w.eval(c, [self.pid])
        res = {"impl_outcome": impl.get("outcome"), "impl_err": impl.get("err_kind"),
               "model_outcome": v.get("model_outcome"), "model_err": v.get("model_err")}
        if impl.get("outcome") not in ("ok", "err"):
            res.update(status="violation", why="implementation %s: %s" % (impl.get("outcome"), impl.get("err_msg")))
            return res
        if v.get("model_outcome") == "diverge":
            res.update(status="corr", why="the model's recursion bound is exhausted where the implementation returns")
            return res
        if v.get("model_outcome") in ("ok", "err") and not v.get("outcome_agree"):
            res.update(status="corr", why="model %s/%s vs implementation %s/%s" % (v.get("model_outcome"), v.get("model_err"), impl.get("outcome"), impl.get("err_kind")))
            if impl.get("outcome") == "ok":
                # the implementation accepts what the model refuses: whatever that means for other properties, here it must
                # still not crash further down
                r2 = self.after_generation(w, dict(c, link=False), impl, dict(res, status="ok", why=""))
                if r2.get("status") == "violation":
                    return r2
            return res
        res.update(status="ok", why="")
        return self.after_generation(w, c, impl, res)

    def after_generation(self, w, c, impl, res):
        from .engine import impl_request
        # the file exports are part of "generation never panics": a document the library accepts is carried through
        # `export_linker_script_to_file` and `save_other_files` too
        if impl.get("outcome") == "ok" and c.get("stream") == "valid" and isinstance(c.get("doc"), dict) and fs_safe(c) and \
                (c["id"].startswith("combo-null") or sum(map(ord, c["id"])) % 5 == 0):
            freq = impl_request(dict(c, repeat=1, history=False))
            freq["op"] = "files"
            freq["out"] = "out/script.ld"
            f = w.h.run(freq)
            res["files_checked"] = True
            if f.get("outcome") not in ("ok", "err"):
                res.update(status="violation", why="the file exports end in %s: %s" % (f.get("outcome"), f.get("err_msg")))
                return res
        leftover = False
        if impl.get("outcome") == "ok" and c["stream"] == "valid" and not any("{" in v or "}" in v for _, v in c["opts"]):
            # a terminated {key} marker that survives expansion is not a name the document wrote: the script must still be accepted
            texts = [impl.get("script") or ""] + [t for _, t in impl.get("partials", [])]
            leftover = any(re.search(r"\{[^{}/\s]*\}", line) for t in texts for line in t.split("\n")
                           if line.strip() not in ("{", "}") and " : { *(" not in line)
        # (an option value that itself contains braces puts them into the paths legitimately: such names are no linker
        #  identifiers and the acceptance clause does not speak about them)
        braces_in_values = any("{" in v or "}" in v for _, v in c["opts"])
        if impl.get("outcome") == "ok" and ((c.get("link") and not braces_in_values) or leftover):
            bad = link_syntax_check(c, impl)
            res["linked"] = bad is not None
            if bad:
                res.update(status="violation", why="a linker rejects the syntax of the generated script: " + "; ".join(bad)[:400])
        return res


def script_inputs(script):
    """(path, member) pairs named by the input statements of a script text"""
    from . import image
    return [(st["path"], st["member"]) for st in image.parse_script(script) if st["kind"] == "input"]


def link_syntax_check(c, impl):
    """hands the implementation's script(s) to GNU ld and lld with all referenced files present (empty objects);
    returns the list of syntax diagnostics, [] if none, None if the case is not linkable (unsafe names)"""
    from . import ldlab
    scripts = [(image.MAIN, impl["script"])] + [(n, s) for n, s in impl.get("partials", [])]
    lab = ldlab.Lab("c19")
    try:
        bad = []
        for name, script in scripts:
            ins = script_inputs(script)
            if any(not ldlab.SAFE_PATH.match(p.replace("{", "").replace("}", "")) or p.startswith("/") or ".." in p.split("/")
                   or (m and not ldlab.SAFE_MEMBER.match(m)) for p, m in ins):
                return None
            objs = []
            seen = set()
            for p, m in ins:
                if p in seen:
                    continue
                seen.add(p)
                if m is not None or p.endswith(".a"):
                    members = sorted({mm for pp, mm in ins if pp == p and mm and mm != "*"}) or ["member.o"]
                    lab.archive(p, [(mm, "") for mm in members])
                else:
                    lab.assemble(p, "")
                objs.append(p)
            rel = name != image.MAIN
            rc, out = lab.link(script, inputs=objs, relocatable=rel, out=(name + ".o" if rel else "out.elf"))
            bad += ["ld(%s): %s" % (name, x) for x in ldlab.syntax_diagnostics(out)]
            if not rel:
                rc2, out2 = lab.link(script, inputs=objs, out="out_lld.elf", lld=True)
                bad += ["lld(%s): %s" % (name, x) for x in ldlab.syntax_diagnostics(out2)]
        return bad
    except RuntimeError:
        return None
    finally:
        lab.close()


class C20(Property):
    pid = "C20"
    title = "CLI and file exports"
    quick_n = 160
    thorough_n = 4000
    rule = ("valid-stream documents run through the real slinky-cli binary (built from /repo) in scratch directories: with and without -o "
            "(with {key}), --partial-linking, --omit-version-comment, custom options spelled as repeated -c, comma lists, "
            "--custom-options, repeated keys and '=' in values, a piece without '='; prior states of every output location in {absent, "
            "missing parents, existing longer file}. The resulting tree, standard output and exit class are compared with the model's "
            "cliRun. Non-trivial: at least two output files or a repeated option key")

    def profile(self, r):
        return Profile(dpath=0.7, header=0.7, p_partial=0.4, p_missing_key=0.04, max_segments=3, max_files=3, p_braces=0.4)

    def adapt(self, c):
        c.setdefault("cli_opts", [])
        c.setdefault("cli_long", [])
        c.setdefault("prior", "absent")
        return c

    def tweak(self, r, c):
        dotted_segment_names(r, c["doc"], 0.25)
        # spell the options as CLI arguments
        pairs = [list(p) for p in c["opts"]]
        if r.chance(0.3) and pairs:
            pairs.append([pairs[0][0], r.pick(["us", "jp", "x=y", "a=b=c"])])     # repeated key, last wins; '=' inside a value
        if r.chance(0.2) and pairs:
            pairs.insert(0, [pairs[-1][0], "early"])
        pairs = [p for p in pairs if "," not in p[1]]
        args, cur = [], []
        for k, v in pairs:
            cur.append("%s=%s" % (k, v))
            if r.chance(0.5):
                args.append(",".join(cur))
                cur = []
        if cur:
            args.append(",".join(cur))
        if r.chance(0.04):
            args.append("novalue")          # clap rejects it: non-zero exit, nothing written
        c["cli_opts"] = args
        c["cli_long"] = [r.chance(0.3) for _ in args]
        c["opts"] = pairs
        if r.chance(0.7):
            c["out"] = r.pick(["out/{version}/script.ld", "script.ld", "a/b/c/s.ld", "{region}.ld", "o.ld"])
        c["prior"] = r.pick(["absent", "absent", "longer", "longer", "dirs"])

    def extra_cases(self, tier):
        """an output location that accepts the open and refuses the data (/dev/full): the error must reach the exit status"""
        import os
        out = []
        # --partial-linking on a document without the partial folders: the tool fails (it does not fall back to an ordinary script)
        j = 0
        for have in ((), ("partial_scripts_folder",), ("partial_build_segments_folder",)):
            for outp in (None, "outdir", "s.ld"):
                st = {"base_path": "build", "target_path": "rom.elf", "d_path": "rom.d"}
                for f in have:
                    st[f] = "pf"
                c = {"id": "cli-nofolder%d" % j, "seed": 50 + j, "stream": "valid", "opts": [], "cli_opts": [], "cli_long": [], "mode": "partial",
                     "version_comment": j % 2 == 0, "prior": "absent",
                     "doc": {"settings": st, "segments": [{"name": "boot", "files": [{"path": "a.o"}]}, {"name": "main", "files": [{"path": "b.o"}]}]}}
                if outp:
                    c["out"] = outp
                out.append(c)
                j += 1
        if not os.path.exists("/dev/full"):
            return out
        k = 0
        for where in ("out", "d_path", "symbols_header_path"):
            for mode in ("normal", "partial"):
                st = {"base_path": "build", "target_path": "rom.elf", "partial_scripts_folder": "ps", "partial_build_segments_folder": "pb"}
                c = {"id": "devfull%d" % k, "seed": 3 + k, "stream": "valid", "opts": [], "cli_opts": [], "cli_long": [], "mode": mode,
                     "version_comment": False, "prior": "absent", "devfull": where,
                     "doc": {"settings": st, "segments": [{"name": "boot", "files": [{"path": "a.o"}, {"path": "b.o"}]}]}}
                if where == "out":
                    c["out"] = "/dev/full"
                    if mode == "partial":
                        continue        # in partial mode -o names a directory
                else:
                    st[where] = "/dev/full"
                    c["out"] = "s.ld" if mode == "normal" else "outdir"
                out.append(c)
                k += 1
        return out

    def nontrivial(self, c):
        st = c["doc"].get("settings") or {}
        nfiles = sum(1 for k in ("d_path", "symbols_header_path") if k in st) + (1 if "out" in c else 0) + (2 if c["mode"] == "partial" else 0)
        keys = [a.split("=")[0] for piece in c.get("cli_opts", []) for a in piece.split(",")]
        return nfiles >= 2 or len(keys) != len(set(keys))

    def evaluate(self, w, c):
        import os, shutil, subprocess
        from . import run
        res = {"impl_outcome": None, "impl_err": None, "model_outcome": None, "model_err": None}
        cli = os.path.join(run.BUILD, "repo-target", "debug", "slinky-cli")
        if c.get("devfull"):
            d = os.path.join(run.BUILD, "cli", "p%d_%s" % (os.getpid(), c["id"]))
            shutil.rmtree(d, ignore_errors=True)
            os.makedirs(d)
            try:
                with open(os.path.join(d, "input.yaml"), "w") as f:
                    f.write(tree.to_yaml(c["doc"]))
                argv = [cli, "input.yaml", "-o", c["out"], "--omit-version-comment"] + (["--partial-linking"] if c["mode"] == "partial" else [])
                p = subprocess.run(argv, cwd=d, capture_output=True, text=True, timeout=30)
                res["impl_outcome"] = "ok" if p.returncode == 0 else "exit%d" % p.returncode
                if p.returncode == 0:
                    res.update(status="violation", why="writing %s to /dev/full fails (no space left on device) but the exit status is 0" % c["devfull"])
                elif p.returncode < 0 or p.returncode in (134, 139):
                    res.update(status="violation", why="the CLI died with signal/abort rc=%d" % p.returncode)
                else:
                    res.update(status="ok", why="")
                return res
            finally:
                shutil.rmtree(d, ignore_errors=True)
        if not fs_safe(c) or any(v.startswith("/") or ".." in v for _, v in c["opts"]):
            res.update(status="skip", why="paths could leave the scratch directory")
            return res
        d = os.path.join(run.BUILD, "cli", "p%d_%s" % (os.getpid(), c["id"]))
        shutil.rmtree(d, ignore_errors=True)
        os.makedirs(d)
        try:
            # model first with an empty prior state, to learn the output locations
            pc = {k: v for k, v in c.items() if k != "doc"}
            pc["doc"] = tree.to_proto(c["doc"])
            pc["pre"] = []
            v0 = w.d.ask({"op": "cli", "case": pc, "impl": {"exit_zero": False, "files": {}, "stdout": ""}})
            pre = []
            if c["prior"] == "longer":
                pre = [[p, "STALE CONTENT THAT IS MUCH LONGER THAN ANYTHING\n" * 400] for p in v0.get("model_paths", [])]
            elif c["prior"] == "dirs":
                pre = [[os.path.join(os.path.dirname(p), "keep.txt") if os.path.dirname(p) else "keep.txt", "k"] for p in v0.get("model_paths", [])]
            pre = [list(x) for x in dict((a, b) for a, b in pre).items()]
            for pth, content in pre:
                full = os.path.join(d, pth)
                os.makedirs(os.path.dirname(full), exist_ok=True)
                with open(full, "w") as f:
                    f.write(content)
            with open(os.path.join(d, "input.yaml"), "w") as f:
                f.write(tree.to_yaml(c["doc"]))
            argv = [cli, "input.yaml"]
            if "out" in c:
                argv += ["-o", c["out"]]
            if c["mode"] == "partial":
                argv.append("--partial-linking")
            if not c.get("version_comment", False):
                argv.append("--omit-version-comment")
            for a, lng in zip(c["cli_opts"], c["cli_long"]):
                argv += ["--custom-options" if lng else "-c", a]
            p = subprocess.run(argv, cwd=d, capture_output=True, text=True, timeout=30)
            files = {}
            for root, _, fs in os.walk(d):
                for fn in fs:
                    full = os.path.join(root, fn)
                    rel = os.path.relpath(full, d)
                    if rel == "input.yaml":
                        continue
                    files[rel] = open(full, errors="replace").read()
            impl = {"exit_zero": p.returncode == 0, "files": files, "stdout": p.stdout, "rc": p.returncode}
            pc["pre"] = [[a, b] for a, b in pre]
            v = w.d.ask({"op": "cli", "case": pc, "impl": impl})
            res["impl_outcome"] = "ok" if p.returncode == 0 else "exit%d" % p.returncode
            res["model_outcome"] = "ok" if v.get("model_exit_zero") else "nonzero"
            if p.returncode < 0 or p.returncode in (134, 139):
                res.update(status="violation", why="the CLI died with signal/abort rc=%d" % p.returncode)
            elif not v["exit_agree"]:
                res.update(status="violation", why="exit status: CLI rc=%d, expected %s; stderr: %s" % (
                    p.returncode, "0" if v.get("model_exit_zero") else "non-zero", p.stderr[-300:]))
            elif p.returncode == 0 and not v["files_equal"]:
                res.update(status="violation", why="files on disk differ from the library's in-memory outputs: " + ",".join(v.get("unequal", []))[:300])
            elif p.returncode == 0 and not v["stdout_equal"]:
                res.update(status="violation", why="standard output differs from the script plus one line break")
            else:
                res.update(status="ok", why="")
            return res
        finally:
            shutil.rmtree(d, ignore_errors=True)


class ImageProperty(Property):
    """layout properties: text-level correspondence/projection on every case + real links (GNU ld) on a sample"""
    quick_n = 360
    thorough_n = 12000
    link_every = 3
    checks = ()
    # (a section in both the allocatable and the noload list gives two groups one set of symbols: nothing the layout
    #  clauses say is well defined there; the defaults side of that feature is C08's)
    #  a user assignment spelled like a generated symbol replaces its value in the image: "the value of boot_ROM_END" is
    #  then the user's (the hypothesis `assignCount <= 1` of the whole-script theorems fails); that feature is C17's)
    boost_exclude = ("alloc_holds_noload_names", "assignment_named_like_generated")

    def base_profile(self, r, **kw):
        # (partial-mode cases are compared at text level only; two-step links are C11's)
        base = dict(p_braces=0.0, p_missing_key=0.0, p_toplevel=0.0, p_cond=0.2, p_partial=0.12, p_single=0.1, dpath=0.1, header=0.1, p_gp=0.3)
        base.update(kw)
        return Profile(**base)

    def make_case(self, seed, idx):
        c = Property.make_case(self, seed, idx)
        c["link"] = (idx % self.link_every == 0) and c.get("link") is not False   # a tweak may rule a case out of linking
        return c

    def image_checks(self, L, info, c):
        return [], []

    def evaluate(self, w, c):
        impl, v = w.eval(c, [self.pid])
        res = self.judge(c, impl, v, w)
        if res["status"] not in ("ok", "corr") or impl.get("outcome") != "ok":
            return res
        # a broken correspondence makes every case worth a link: look for a concrete failing image
        if not (c.get("link") or res["status"] == "corr") or c["mode"] == "partial":
            return res      # (two-step links are C11's business)
        out = link_and_check(self, w, c, impl)
        if res["status"] == "corr" and out.get("status") is None:
            out.pop("why", None)
        res.update(out)
        return res


def link_and_check(spec, w, c, impl):
    from . import image
    info = w.d.ask({"op": "docinfo", "case": {"id": c["id"], "doc": tree.to_proto(c["doc"]), "opts": c["opts"]}})
    if not info or "segments" not in info:
        return {"linked": "no-docinfo"}
    scripts = [(image.MAIN, impl["script"])] + [(n, t) for n, t in impl.get("partials", [])]
    rng = Rng(c.get("seed", 1) ^ 0x5EED)
    L = image.build_and_link("p%s" % spec.pid, scripts, info, rng)
    if isinstance(L, str):
        return {"linked": "skip:" + L}
    try:
        if not L.ok:
            return {"linked": "link-failed", "link_log": L.log[-300:]}
        bad, kf = spec.image_checks(L, info, c)
        out = {"linked": "ok"}
        if not impl.get("partials"):
            fid = image.ldsem_fidelity(L, info, w.d, impl["script"])
            if fid is None:
                out["ldsem"] = "outside"
            else:
                out["ldsem"] = "agree" if not fid[1] else "differ"
                out["ldsem_compared"] = fid[0]
                out["final_hyp"] = getattr(w.d, "last_final_hyp", None)
                if fid[1]:
                    out["ldsem_diff"] = fid[1][:5]
        if bad:
            out.update(status="violation", why="linked image (GNU ld): " + "; ".join(bad[:3]), image_failures=bad[:10])
        elif kf:
            out.update(status="kf:" + sorted(set(kf))[0], why="known finding " + sorted(set(kf))[0])
        return out
    finally:
        L.lab.close()


class C03(ImageProperty):
    pid = "C03"
    title = "segment VRAM start"
    rule = ("linkable valid-stream documents with every mix of fixed_vram / fixed_symbol / follows_segment / vram_class / default placement "
            "over 1-4 segments, excluded subsets, start/end alignments with and without explicit addresses, input alignments 1..16, empty "
            "parts, single-segment mode; a third of the cases is linked with GNU ld; non-trivial: two emitted segments with two different address kinds")

    def profile(self, r):
        return self.base_profile(r, p_addr=0.75, p_classes=0.5, p_align=0.6, p_segment_override=0.3, p_nonpow2=0.2)

    def nontrivial(self, c):
        kinds = set()
        for s in c["doc"].get("segments", []):
            kinds.add(next((k for k in ("fixed_vram", "fixed_symbol", "follows_segment", "vram_class") if k in s), "default"))
        return len(kinds) >= 2

    def image_checks(self, L, info, c):
        from . import image
        return image.check_vram(L, info), []

    def evaluate(self, w, c):
        res = ImageProperty.evaluate(self, w, c)
        if res.get("status") not in ("ok", "corr") or res.get("impl_outcome") != "ok":
            return res
        # text level, ordinary script and main script of partial mode: the header of every emitted segment carries exactly
        # the address the document requests (literal, symbol, end of the followed segment, class start) or none
        impl = w.h.run(engine_request(c))
        info = w.d.ask({"op": "docinfo", "case": {"id": c["id"], "doc": tree.to_proto(c["doc"]), "opts": c["opts"]}})
        if impl.get("outcome") != "ok" or not info or "segments" not in info or info["single"]:
            return res
        cls = {cl["name"]: cl["start"] for cl in info.get("classes", [])}
        text = impl.get("script") or ""
        pos = 0
        unavailable = None
        for sg in info["segments"]:
            if not sg["emitted"]:
                continue
            want = ("0x%08X" % sg["fixed_vram"]) if sg.get("fixed_vram") is not None else sg.get("fixed_symbol") or sg.get("follows_end_sym") or \
                (cls.get(sg["vram_class"]) if sg.get("vram_class") else None)
            m = re.compile(r"^[ \t]*" + re.escape("." + sg["name"]) + r"(?: (\S+))? : AT\(", re.M).search(text, pos)
            if not m:
                res.update(status="violation", why="no output section header for the emitted segment %s (in document order)" % sg["name"])
                return res
            pos = m.end()
            if m.group(1) != want:
                res.update(status="violation", why="segment %s asks for the address %s, its header carries %s" % (sg["name"], want, m.group(1)))
                return res
            fe = sg.get("follows_end_sym")
            if fe and res["status"] == "ok" and not re.search(r"^[ \t]*" + re.escape(fe) + r" = ", text[:m.start()], re.M):
                unavailable = sg["name"]
        if res["status"] == "ok" and unavailable is not None:
            res.update(status="kf:KF-C03-follows-unavailable", why="known finding KF-C03-follows-unavailable: segment %s" % unavailable)
        return res


class C04(ImageProperty):
    pid = "C04"
    title = "ROM positions"
    rule = ("linkable multi-segment documents with per-segment start/end alignments (incl. end-only and null overrides), overlays sharing "
            "VRAM through classes, per-segment noload lists, noload inputs with contents, excluded subsets; a third linked with GNU ld; "
            "non-trivial: two segments and some alignment")

    def profile(self, r):
        return self.base_profile(r, p_single=0.0, p_align=0.8, p_classes=0.5, p_addr=0.6, p_segment_override=0.4, p_settings_field=0.3, p_nonpow2=0.2)

    def nontrivial(self, c):
        ks = ("segment_start_align", "segment_end_align")
        st = c["doc"].get("settings") or {}
        return len(c["doc"].get("segments", [])) >= 2 and (any(k in st for k in ks) or any(k in s for s in c["doc"]["segments"] for k in ks))

    def image_checks(self, L, info, c):
        from . import image
        return image.check_rom(L, info), []

    def tweak(self, r, c):
        # conditions with several pairs on segments (an excluded subset decided by a partially matching list)
        for sgm in c["doc"].get("segments", []):
            if r.chance(0.2):
                sgm[r.pick(list(COND_KEYS))] = gen.gen_pairs(r, 2 + r.below(2))

    def evaluate(self, w, c):
        res = ImageProperty.evaluate(self, w, c)
        if res.get("status") not in ("ok", "corr") or res.get("impl_outcome") != "ok":
            return res
        # text level, every mode: the ROM statements cover exactly the emitted segments, in document order; and the main
        # script of partial mode moves the ROM counter exactly as the ordinary script does
        impl = w.h.run(engine_request(c))
        info = w.d.ask({"op": "docinfo", "case": {"id": c["id"], "doc": tree.to_proto(c["doc"]), "opts": c["opts"]}})
        if impl.get("outcome") != "ok" or not info or "segments" not in info or info["single"]:
            return res

        def rom_lines(text):
            return [t.strip() for t in (text or "").split("\n") if "__romPos" in t]
        want = []
        for sg in info["segments"]:
            if sg["emitted"]:
                want += [sg["rom_start"], sg["rom_end"], sg["rom_size"]]
        got = [m.group(1) for t in rom_lines(impl.get("script")) for m in [re.match(r"^(\S+) = ", t)] if m and m.group(1) in set(want)]
        have = [n for n in re.findall(r"^\s*(\S+) = ", impl.get("script") or "", re.M) if n in set(want)]
        if have != want:
            res.update(status="violation", why="ROM symbols of the emitted segments, in document order: expected %s..., the script assigns %s..." % (want[:6], have[:6]))
            return res
        # the ROM counter is rounded exactly where a segment asks for it: start alignment in front of the ROM start symbol,
        # end alignment behind the size of the allocatable part
        wantA = []
        for sg in info["segments"]:
            if sg["emitted"]:
                wantA += [("start", sg["rom_start"], sg["start_align"])] if sg.get("start_align") is not None else []
                wantA += [("end", sg["rom_end"], sg["end_align"])] if sg.get("end_align") is not None else []
        gotA = []
        lines = rom_lines(impl.get("script"))
        for i, t in enumerate(lines):
            m = re.match(r"^__romPos = ALIGN\(__romPos, 0x([0-9A-Fa-f]+)\);$", t)
            if m:
                nxt = next((re.match(r"^(\S+) = __romPos;$", u).group(1) for u in lines[i + 1:] if re.match(r"^(\S+) = __romPos;$", u)), None)
                gotA.append(("start" if nxt and nxt.endswith(tuple(sg["rom_start"] for sg in info["segments"])) and nxt in {sg["rom_start"] for sg in info["segments"]} else "end",
                             nxt, int(m.group(1), 16)))
        if gotA != wantA:
            res.update(status="violation", why="roundings of the ROM counter: requested %s..., the script has %s..." % (wantA[:4], gotA[:4]))
            return res
        if c["mode"] == "partial":
            from .engine import impl_request
            implN = w.h.run(impl_request(dict(c, mode="normal", id=c["id"] + ":normal")))
            if implN.get("outcome") == "ok" and rom_lines(implN.get("script")) != rom_lines(impl.get("script")):
                res.update(status="violation", why="the main script of partial mode moves the ROM counter differently from the ordinary script")
        return res


class C05(ImageProperty):
    pid = "C05"
    title = "linker symbols"
    rule = ("linkable documents in both styles with section names without a leading dot, .rodata, multi-dot and mixed-case names, per-segment "
            "list overrides, linker offsets, classes (used, unused, only excluded members), excluded subsets, single-segment mode; a third "
            "linked with GNU ld (size = end - start, start <= end, brackets); non-trivial: makerom style, a non-default section name, an offset or a class")

    def profile(self, r):
        return self.base_profile(r, p_makerom=0.5, p_offset=0.3, p_classes=0.5, p_custom_lists=0.6, p_cond=0.3, p_addr=0.5)

    def nontrivial(self, c):
        d = c["doc"]
        st = d.get("settings") or {}
        return st.get("linker_symbols_style") == "makerom" or "alloc_sections" in st or bool(d.get("vram_classes")) or \
            any(f.get("kind") == "linker_offset" for f in all_files(d))

    def tweak(self, r, c):
        dotted_class_names(r, c["doc"], 0.15)
        dotted_segment_names(r, c["doc"], 0.1)

    def image_checks(self, L, info, c):
        from . import image
        bad, kf = image.check_symbols(L, info)
        r = image.check_brackets_and_order(L, info, L.main_stmts)
        return bad + r["C05"], kf

    def evaluate(self, w, c):
        res = ImageProperty.evaluate(self, w, c)
        if res.get("status") not in ("ok", "corr") or res.get("impl_outcome") != "ok":
            return res
        # completeness at text level, in every mode: each symbol the property lists is assigned by the main script or by a partial script
        impl = w.h.run(engine_request(c))
        if impl.get("outcome") != "ok":
            return res
        info = w.d.ask({"op": "docinfo", "case": {"id": c["id"], "doc": tree.to_proto(c["doc"]), "opts": c["opts"]}})
        if not info or "segments" not in info:
            return res
        text = "\n".join([impl.get("script") or ""] + [t for _, t in impl.get("partials", [])])
        assigned = set(re.findall(r"^\s*(?:PROVIDE\(|HIDDEN\(|PROVIDE_HIDDEN\()?([^\s=()]+) = ", text, re.M))
        missing = []
        for s in info["segments"]:
            if not s["emitted"]:
                continue
            want = list(s.get("offsets") or [])
            for sc in s["sections"]:
                want += [sc["start"], sc["end"], sc["size"]]
            if not info["single"]:
                want += [s["rom_start"], s["rom_end"], s["rom_size"], s["vram"], s["vram_end"], s["vram_size"]]
            missing += [n for n in want if n not in assigned]
        # one symbol per linker-offset entry: as many assignments as included entries carry that name
        offs = collections.Counter(n for s in info["segments"] if s["emitted"] for n in (s.get("offsets") or []))
        every = collections.Counter(re.findall(r"^\s*(?:PROVIDE\(|HIDDEN\(|PROVIDE_HIDDEN\()?([^\s=()]+) = ", text, re.M))
        twice = [n for n, k in offs.items() if every.get(n, 0) > k]
        # (a section listed twice - in both lists, or as a sub-group of two sections - is walked twice, and so is a linker
        #  offset in it: "one symbol per entry" is stated for tables in which every section has one place)
        if twice and all(s.get("tables_ok", True) for s in info["segments"] if s["emitted"]):
            res.update(status="violation", why="linker-offset symbols assigned more often than there are entries (%s mode): %s" % (c["mode"], ", ".join(twice[:4])))
            return res
        if not info["single"]:
            # start, end and size of every vram class an emitted segment uses; and no size without its start and end
            used = {s.get("vram_class") for s in info["segments"] if s["emitted"] and s.get("vram_class")}
            for cl in info.get("classes", []):
                trio = [cl["start"], cl["end"], cl["size"]]
                if cl["name"] in used:
                    missing += [n for n in trio if n not in assigned]
                elif cl["size"] in assigned:
                    missing += [n for n in trio[:2] if n not in assigned]
        if missing:
            res.update(status="violation", why="symbols the property lists are assigned by no script (%s mode): %s" % (c["mode"], ", ".join(missing[:6])))
        return res


class C09(ImageProperty):
    pid = "C09"
    title = "alignments in the image"
    rule = ("linkable documents with every presence combination of the six alignment options at global and segment level (values 1..0x1000, "
            "null overrides), subalign with smaller natural input alignments, misaligned fixed_vram, single-segment mode; a third linked; "
            "non-trivial: two alignment options on one segment")

    def profile(self, r):
        return self.base_profile(r, p_align=0.9, p_settings_field=0.4, p_segment_override=0.5, p_addr=0.5, p_single=0.15)

    def tweak(self, r, c):
        for s in c["doc"].get("segments", []):
            if r.chance(0.3):
                s["subalign"] = r.pick([8, 16, 32])

    def nontrivial(self, c):
        ks = ("subalign", "segment_start_align", "segment_end_align", "section_start_align", "section_end_align",
              "sections_start_alignment", "sections_end_alignment")
        st = c["doc"].get("settings") or {}
        return any(sum(1 for k in ks if k in s or k in st) >= 2 for s in c["doc"].get("segments", []))

    def image_checks(self, L, info, c):
        from . import image
        return image.check_align(L, info, L.main_stmts), []

    def evaluate(self, w, c):
        res = ImageProperty.evaluate(self, w, c)
        if res.get("status") not in ("ok", "corr") or res.get("impl_outcome") != "ok":
            return res
        # text level, ordinary script and main script of partial mode: the alignment statements are exactly the requested
        # ones, in place and in order (an option that is null or absent adds none; a requested one is not lost)
        impl = w.h.run(engine_request(c))
        info = w.d.ask({"op": "docinfo", "case": {"id": c["id"], "doc": tree.to_proto(c["doc"]), "opts": c["opts"]}})
        if impl.get("outcome") != "ok" or not info or "segments" not in info:
            return res
        # single-segment layout (single_segment_mode, and every partial script): one output section per section group,
        # each with the segment's SUBALIGN
        # (partial scripts come in the order of the emitted segments; a name may be used by two segments)
        em = [sg for sg in info["segments"] if sg["emitted"]]
        parts = impl.get("partials", [])
        paired = [(sg, t) for sg, (n, t) in zip(em, parts) if sg["name"] == n] if len(em) == len(parts) else []
        layouts = [(info["segments"][0], impl.get("script") or "")] if info["single"] and info["segments"] else paired
        for sg, text in layouts:
            wantS = [sg["subalign"]] * len(sg["sections"]) if sg.get("subalign") is not None else []
            gotS = [int(x) for x in re.findall(r"SUBALIGN\((\d+)\)", text)]
            if gotS != wantS:
                res.update(status="violation", why="SUBALIGN attributes of the script of segment %s: %s, requested %s" % (sg["name"], gotS[:6], wantS[:6]))
                return res
        if info["single"]:
            return res
        want, subs = [], []
        for sg in info["segments"]:
            if not sg["emitted"]:
                continue
            if sg.get("start_align") is not None:
                want += [("__romPos", sg["start_align"]), (".", sg["start_align"])]
            for sc in sg["sections"]:
                want += [(".", a) for a in sc["start_aligns"]] + [(".", a) for a in sc["end_aligns"]]
            if sg.get("end_align") is not None:
                want += [("__romPos", sg["end_align"]), (".", sg["end_align"])]
            if sg.get("subalign") is not None:
                subs += [sg["subalign"], sg["subalign"]]
        text = impl.get("script") or ""
        got = [(a, int(v, 16)) for a, b, v in re.findall(r"^\s*(\S+) = ALIGN\((\S+), 0x([0-9A-Fa-f]+)\);", text, re.M) if a == b]
        gsubs = [int(x) for x in re.findall(r"SUBALIGN\((\d+)\)", text)]
        if got != want:
            k = next((i for i, (x, y) in enumerate(zip(got, want)) if x != y), min(len(got), len(want)))
            res.update(status="violation", why="alignment statements of the %s script differ from the requested ones at position %d: script %s, requested %s" % (
                "main" if c["mode"] == "partial" else "ordinary", k, got[k:k + 3], want[k:k + 3]))
        elif gsubs != subs:
            res.update(status="violation", why="SUBALIGN attributes %s, requested %s" % (gsubs[:6], subs[:6]))
        return res


class C10(ImageProperty):
    pid = "C10"
    title = "vram classes"
    owns_errors = ("MissingVramClassForSegment", "InvalidFieldCombo", "MissingAnyOfOptionalFields")

    def extra_cases(self, tier):
        """a class is placed by exactly one of fixed_vram / fixed_symbol / follows_classes: every subset of the three on a class
        that an emitted segment uses (more than one is refused; none is refused too)"""
        out = []
        fields = {"fixed_vram": 0x80100000, "fixed_symbol": "ovl_base", "follows_classes": ["common"]}
        names = list(fields)
        for mask in range(8):
            cls = {"name": "ovl"}
            for i, f in enumerate(names):
                if mask >> i & 1:
                    cls[f] = fields[f]
            for mode in ("normal", "partial"):
                st = {"partial_scripts_folder": "ps", "partial_build_segments_folder": "pb"} if mode == "partial" else {}
                doc = {"settings": st, "vram_classes": [{"name": "common", "fixed_vram": 0x80080000}, cls],
                       "segments": [{"name": "boot", "fixed_vram": 0x80000400, "files": [{"path": "a.o"}]},
                                    {"name": "common_a", "vram_class": "common", "files": [{"path": "c.o"}]},
                                    {"name": "ovl_a", "vram_class": "ovl", "files": [{"path": "o.o"}]}]}
                out.append({"id": "classcombo%d%s" % (mask, mode[0]), "seed": 60 + mask, "stream": "valid", "opts": [], "mode": mode,
                            "version_comment": False, "link": False, "doc": doc})
        # a segment naming a class that is not declared makes generation fail, whatever the name (the empty one included)
        for nm in ("", "nosuch", " "):
            for mode in ("normal", "partial"):
                st = {"partial_scripts_folder": "ps", "partial_build_segments_folder": "pb"} if mode == "partial" else {}
                doc = {"settings": st, "vram_classes": [{"name": "common", "fixed_vram": 0x80080000}],
                       "segments": [{"name": "boot", "fixed_vram": 0x80000400, "files": [{"path": "a.o"}]},
                                    {"name": "common_a", "vram_class": "common", "files": [{"path": "c.o"}]},
                                    {"name": "ovl_b", "vram_class": nm, "files": [{"path": "o.o"}]}]}
                out.append({"id": "undeclared%d%s" % (len(nm) + (2 if nm == " " else 0), mode[0]), "seed": 80 + len(nm), "stream": "valid", "opts": [],
                            "mode": mode, "version_comment": False, "link": False, "doc": doc})
        return ImageProperty.extra_cases(self, tier) + out
    rule = ("linkable documents with 1-3 classes of the three kinds, follow DAGs whose dependencies precede, members interleaved with "
            "non-members, classes with no or only excluded members, undeclared classes on emitted and on excluded segments, both modes; a third "
            "linked; non-trivial: a class with two members or a follower")

    def profile(self, r):
        return self.base_profile(r, p_classes=0.95, p_addr=0.9, p_single=0.0, p_cond=0.3, p_partial=0.25, max_segments=5)

    def tweak(self, r, c):
        d = c["doc"]
        dotted_class_names(r, d, 0.2)
        names = [x["name"] for x in d.get("vram_classes") or []]
        for s in d.get("segments", []):
            if names and r.chance(0.5):
                for k in ("fixed_vram", "fixed_symbol", "follows_segment"):
                    s.pop(k, None)
                s["vram_class"] = r.pick(names)
            elif r.chance(0.04):
                for k in ("fixed_vram", "fixed_symbol", "follows_segment"):
                    s.pop(k, None)
                s["vram_class"] = "undeclared_class"
        if names and r.chance(0.06):
            # a member that also asks for an address of its own (the validity rules forbid the combination)
            ms = [s for s in d.get("segments", []) if s.get("vram_class") in names]
            if ms:
                s = r.pick(ms)
                if r.chance(0.5):
                    s["fixed_vram"] = 0x80400000
                else:
                    s["fixed_symbol"] = "some_symbol"
                c["extra_addr"] = True
                c["link"] = False
        if c["mode"] == "partial":
            st = d.setdefault("settings", {})
            st.setdefault("partial_scripts_folder", "ps")
            st.setdefault("partial_build_segments_folder", "pb")
            c["link"] = False

    def nontrivial(self, c):
        d = c["doc"]
        cl = d.get("vram_classes") or []
        members = {}
        for s in d.get("segments", []):
            if "vram_class" in s:
                members[s["vram_class"]] = members.get(s["vram_class"], 0) + 1
        return any(v >= 2 for v in members.values()) or any("follows_classes" in x for x in cl)

    def image_checks(self, L, info, c):
        from . import image
        return image.check_classes(L, info)

    def evaluate(self, w, c):
        res = ImageProperty.evaluate(self, w, c)
        if res.get("status") not in ("ok", "corr", "skip") or res.get("impl_outcome") != "ok":
            return res
        if res.get("status") == "skip" or c.get("extra_addr"):
            # the implementation accepted a document (whatever the validity rules say about it): every emitted member
            # of a class must still be placed at the class start
            d2 = copy.deepcopy(c["doc"])
            for sg in d2.get("segments", []):
                if isinstance(sg, dict) and "vram_class" in sg:
                    for k in ("fixed_vram", "fixed_symbol", "follows_segment"):
                        sg.pop(k, None)
            info2 = w.d.ask({"op": "docinfo", "case": {"id": c["id"], "doc": tree.to_proto(d2), "opts": c["opts"]}})
            impl = w.h.run(engine_request(c))
            if info2 and "classes" in info2 and impl.get("outcome") == "ok" and not info2["single"]:
                start = {cl["name"]: cl["start"] for cl in info2["classes"]}
                for sg in info2["segments"]:
                    if sg["emitted"] and sg.get("vram_class") in start:
                        m = re.search(r"^\s*" + re.escape("." + sg["name"]) + r" (\S+) :", impl.get("script") or "", re.M)
                        if m and m.group(1) != start[sg["vram_class"]]:
                            res.update(status="violation", why="member segment %s of class %s is placed at %s, not at the class start %s" % (
                                sg["name"], sg["vram_class"], m.group(1), start[sg["vram_class"]]))
                            return res
            if res.get("status") == "skip":
                return res
        # text level, every mode: a class symbol that a script refers to (address of a member, MAX for a follower or
        # for the class end, the size expression) is also assigned by a script - otherwise the image cannot be linked
        impl = w.h.run(engine_request(c))
        if impl.get("outcome") != "ok":
            return res
        info = w.d.ask({"op": "docinfo", "case": {"id": c["id"], "doc": tree.to_proto(c["doc"]), "opts": c["opts"]}})
        if not info or "classes" not in info:
            return res
        text = impl.get("script") or ""
        assigned = set(re.findall(r"^\s*(?:PROVIDE\(|HIDDEN\(|PROVIDE_HIDDEN\()?([^\s=()]+) = ", text, re.M))
        dangling = []
        for cl in info["classes"]:
            for n in (cl["start"], cl["end"]):
                used = re.search(r"(?<![\w.$])" + re.escape(n) + r"(?![\w.$])", re.sub(r"^\s*" + re.escape(n) + r" = .*$", "", text, flags=re.M))
                if used and n not in assigned:
                    dangling.append(n)
        if dangling:
            res.update(status="violation", why="the script refers to class symbols that no statement defines: %s" % ", ".join(dangling[:4]))
        return res


class C01(ImageProperty):
    pid = "C01"
    title = "every listed input section placed exactly once"
    rule = ("linkable documents with groups to depth 3, archives with and without subfile, per-segment section lists, section_order (also "
            "inside groups and onto sub-group sections), sections_subgroups (also nested), pads/offsets, all three modes at text level; a third "
            "linked with GNU ld (every configured section of every listed file inside its segment, none discarded); non-trivial: a group, a "
            "section_order, a sub-group or an archive")

    def profile(self, r):
        return self.base_profile(r, p_group=0.4, max_depth=3, p_archive=0.35, p_section_order=0.35, p_subgroups=0.5, p_custom_lists=0.5,
                                 p_partial=0.2, p_single=0.12)

    def tweak(self, r, c):
        if c["mode"] == "partial":
            c["link"] = False

    def nontrivial(self, c):
        fs = list(all_files(c["doc"]))
        st = c["doc"].get("settings") or {}
        return any(f.get("kind") == "group" or "section_order" in f or str(f.get("path", "")).endswith(".a") for f in fs) or \
            "sections_subgroups" in st or any("sections_subgroups" in s for s in c["doc"].get("segments", []))

    def image_checks(self, L, info, c):
        from . import image
        r = image.check_brackets_and_order(L, info, L.main_stmts)
        return r["C01"], []


class C02(C01):
    pid = "C02"
    title = "layout order follows the document"
    rule = ("as C01, with two section_order files in one group, pads between groups, per-segment noload lists in another order than the "
            "global one, conditionally included nested groups; a third linked (addresses never decrease along the statement order of an output "
            "section, ROM positions never decrease in segment order); non-trivial: two entries and a group, pad, offset or section_order")

    def profile(self, r):
        return self.base_profile(r, p_group=0.4, max_depth=3, p_pad=0.25, p_offset=0.2, p_section_order=0.35, p_subgroups=0.4,
                                 p_custom_lists=0.5, p_cond=0.35, p_partial=0.2)

    def image_checks(self, L, info, c):
        from . import image
        r = image.check_brackets_and_order(L, info, L.main_stmts)
        return r["C02"], []


class C11(Property):
    pid = "C11"
    title = "partial linking equals one-step linking"
    owns_errors = ("MissingRequiredField",)

    def adapt(self, c):
        return c if c["mode"] == "partial" else None
    quick_n = 300
    thorough_n = 8000
    link_every = 4
    rule = ("linkable multi-segment documents with groups, section_order, sub-groups, archives, pads, offsets, excluded segments (all four "
            "condition lists, several pairs), segment dir, dotted segment names, {key} in both folders, missing folders; every case is generated "
            "in ordinary and in partial mode and compared by the Lean predicate C11.holds; a quarter is linked both ways with GNU ld "
            "(ld -r per partial script, then the main script) and marker order / segment membership are compared; "
            "non-trivial: two emitted segments and a sub-group, section_order or pad")

    def profile(self, r):
        return Profile(p_braces=0.15, p_missing_key=0.0, p_toplevel=0.15, p_partial=1.0, p_single=0.0, p_group=0.35, p_pad=0.2,
                       p_offset=0.15, p_section_order=0.3, p_subgroups=0.4, p_cond=0.35, dpath=0.2, header=0.2, max_segments=4)

    def tweak(self, r, c):
        dotted_segment_names(r, c["doc"], 0.12)
        c["mode"] = "partial"
        st = c["doc"].setdefault("settings", {})
        st.setdefault("partial_scripts_folder", "ps")
        st.setdefault("partial_build_segments_folder", "segments")
        if r.chance(0.04):
            st.pop("partial_build_segments_folder", None)
        # conditions with several pairs on segments; dotted names
        for sgm in c["doc"].get("segments", []):
            if r.chance(0.25):
                k = r.pick(list(COND_KEYS))
                sgm[k] = gen.gen_pairs(r, 2 + r.below(2))
            if r.chance(0.1):
                sgm["name"] = sgm["name"] + "." + r.pick(["title", "select", "x"])
        c.pop("link", None)     # make_case decides which cases are linked

    def extra_cases(self, tier):
        """a missing partial folder is an error whatever the segments and options are: every segment excluded, the first
        emitted segment failing on its own (an unprovided {key}), no segment at all"""
        out = []
        k = 0
        for missing in ("partial_build_segments_folder", "partial_scripts_folder"):
            for segs, opts in (
                    ([{"name": "boot", "files": [{"path": "a.o"}], "include_if_any": [["version", "jp"]]},
                      {"name": "main", "files": [{"path": "b.o"}], "exclude_if_all": [["version", "us"]]}], [["version", "us"]]),
                    ([{"name": "boot", "files": [{"path": "src/{nokey}/a.o"}]}, {"name": "main", "files": [{"path": "b.o"}]}], []),
                    ([{"name": "boot", "files": [{"path": "a.o"}]}], [])):
                st = {"base_path": "build", "partial_scripts_folder": "ps", "partial_build_segments_folder": "pb"}
                st.pop(missing)
                out.append({"id": "nofolder%d" % k, "seed": 40 + k, "stream": "valid", "opts": opts, "mode": "partial", "version_comment": False,
                            "link": False, "doc": {"settings": st, "segments": copy.deepcopy(segs)}})
                k += 1
        # an excluded segment is not looked at: one that could not be processed under these options (a {key} only the builds
        # that include it provide, a section_order cycle) does not make partial-mode generation fail
        for j, bad in enumerate(({"name": "dbg", "dir": "src/{flavor}", "files": [{"path": "d.o"}]},
                                 {"name": "dbg", "files": [{"kind": "group", "dir": "{flavor}", "files": [{"path": "{flavor}/d.o"}]}]},
                                 {"name": "dbg", "files": [{"path": "d.o", "section_order": {".text": ".data", ".data": ".text"}}]})):
            seg = dict(copy.deepcopy(bad), include_if_any=[["debug", "on"]])
            doc = {"settings": {"base_path": "build", "partial_scripts_folder": "ps", "partial_build_segments_folder": "pb"},
                   "segments": [{"name": "boot", "fixed_vram": 0x80000400, "files": [{"path": "a.o"}]}, seg,
                                {"name": "main", "files": [{"path": "b.o"}]}]}
            out.append({"id": "excluded-unprocessable%d" % j, "seed": 70 + j, "stream": "valid", "opts": [["version", "us"]], "mode": "partial",
                        "version_comment": False, "link": False, "doc": doc})
        return out

    def make_case(self, seed, idx):
        c = Property.make_case(self, seed, idx)
        c["link"] = (idx % self.link_every == 0) and c.get("link") is not False   # a tweak may rule a case out of linking
        return c

    def nontrivial(self, c):
        d = c["doc"]
        fs = list(all_files(d))
        st = d.get("settings") or {}
        return len(d.get("segments", [])) >= 2 and (any("section_order" in f or f.get("kind") == "pad" for f in fs) or "sections_subgroups" in st)

    def evaluate(self, w, c):
        from .engine import impl_request
        implP, v = w.eval(c, [self.pid])
        res = self.judge(c, implP, v, w)
        if c["id"].startswith("nofolder") and res["status"] in ("ok", "corr") and fs_safe(c):
            # "missing partial-folder settings are reported as errors" also where only the file exports need the folder: the
            # script to standard output or to a file, with and without a dependency file
            for out in (None, "out/script.ld"):
                for dpath in (False, True):
                    doc2 = copy.deepcopy(c["doc"])
                    if dpath:
                        doc2["settings"].update({"target_path": "rom.elf", "d_path": "rom.d"})
                    fimpl, fv = eval_files(w, dict(c, doc=doc2, out=out))
                    if fimpl.get("outcome") in ("panic", "abort", "timeout"):
                        res.update(status="violation", why="file export %s" % fimpl.get("outcome"))
                        return res
                    if fv.get("model_outcome") == "err" and fimpl.get("outcome") == "ok":
                        res.update(status="violation", why="a missing partial folder is an error for the file exports (%s, %s a dependency file), "
                                   "but the export reports success" % ("script to a file" if out else "script to standard output", "with" if dpath else "without"))
                        return res
        if res["status"] == "skip" and v.get("model_outcome") == "ok" and implP.get("outcome") not in ("ok", "panic", "abort", "timeout"):
            # "for all accepted documents": the ordinary writer accepts the document and the model of partial mode does too
            implN = w.h.run(impl_request(dict(c, mode="normal", id=c["id"] + ":normal")))
            if implN.get("outcome") == "ok":
                res.update(status="violation", why="partial-mode generation fails (%s) for a document that ordinary generation accepts and whose "
                           "partial-mode generation the model accepts: no partial script for its emitted segments" % implP.get("err_kind"))
            return res
        if res["status"] not in ("ok", "corr") or implP.get("outcome") != "ok":
            return res
        cn = dict(c, mode="normal", id=c["id"] + ":normal")
        implN = w.h.run(impl_request(cn))
        if implN.get("outcome") != "ok":
            res.update(status="skip", why="ordinary generation failed: %s" % implN.get("err_kind"))
            return res
        pc = {"id": c["id"], "doc": tree.to_proto(c["doc"]), "opts": c["opts"], "version_comment": c.get("version_comment", False)}
        r = w.d.ask({"op": "c11", "case": pc, "normal": implN, "partial": implP})
        if not r or "holds_impl" not in r:
            res.update(status="corr", why="driver failed")
            return res
        if not r["holds_impl"]:
            res.update(status="violation", why=r["why"])
            return res
        if not r["holds_model"]:
            res.update(status="corr", why="predicate fails on the model: " + r.get("why_model", ""))
            return res
        if c.get("link") or res["status"] == "corr":
            out = two_step_check(w, c, implN, implP)
            res.update(out)
        return res


def two_step_check(w, c, implN, implP):
    from . import image
    info = w.d.ask({"op": "docinfo", "case": {"id": c["id"], "doc": tree.to_proto(c["doc"]), "opts": c["opts"]}})
    if not info or "segments" not in info:
        return {"linked": "no-docinfo"}
    seed = c.get("seed", 1) ^ 0xC11
    # an input file named by two segments is placed once by the one-step link (first match) but is linked into both
    # partial objects, and a linker offset of the same name in two segments is one symbol assigned twice in the ordinary
    # script but two definitions in two partial objects: the two links are not comparable (DESIGN.md, interpretation notes)
    owner = {}
    for n, t in implP.get("partials", []):
        for st in image.parse_script(t):
            key = ("file", st["path"]) if st["kind"] == "input" else ("sym", st["name"]) if st["kind"] == "sym" else None
            if key is not None and key[1] != "." and owner.setdefault(key, n) != n:
                return {"linked": "skip:a file or symbol is named by two segments"}
    L1 = image.build_and_link("c11a", [(image.MAIN, implN["script"])], info, Rng(seed), extra_sections=False, no_check_sections=True)
    if isinstance(L1, str):
        return {"linked": "skip:" + L1}
    try:
        if not L1.ok:
            return {"linked": "link-failed(one-step)"}
        L2 = image.build_and_link("c11b", [(image.MAIN, implP["script"])] + [(n, t) for n, t in implP.get("partials", [])], info, Rng(seed),
                                  extra_sections=False, no_check_sections=True)
        if isinstance(L2, str):
            return {"linked": "skip:" + L2}
        try:
            if not L2.ok:
                if "not enough room for program headers" in L2.log:
                    return {"linked": "link-failed(two-step, program headers)"}
                return {"linked": "ok", "status": "violation",
                        "why": "two-step link fails where the one-step link succeeds: " + L2.log[-300:]}
            bad = []
            # zero-sized input sections can sit on a segment boundary: leave them out of the comparison
            zero = set()
            for (pth, mem), secs in L1.objects.items():
                for sec, size, al, nb in secs:
                    if size == 0:
                        from . import ldlab
                        zero.add(ldlab.marker(pth if mem is None else pth + ":" + mem, sec))
            for L in (L1, L2):
                L.symbols = {k: a for k, a in L.symbols.items() if k not in zero}
            def members(L, s):
                """the markers the image holds in the two output sections of segment s, in address order (the section a
                symbol belongs to is read from the symbol table: overlays share addresses)"""
                outs = ("." + s["name"], "." + s["name"] + ".noload")
                ms = [(outs.index(L.symsec[k]), a, k) for k, a in L.symbols.items() if k.startswith("mk__") and L.symsec.get(k) in outs]
                return [k for _, a, k in sorted(ms)]
            for s in image.emitted(info):
                m1, m2 = members(L1, s), members(L2, s)
                if sorted(m1) != sorted(m2):
                    bad.append("segment %s holds different input sections after two-step linking: only one-step %s, only two-step %s" % (
                        s["name"], sorted(set(m1) - set(m2))[:3], sorted(set(m2) - set(m1))[:3]))
            missing = [k for k in L1.symbols if k.startswith("mk__") and k not in L2.symbols]
            if missing:
                bad.append("input sections lost by the two-step link: %s" % missing[:3])
            if not bad:
                # relative order inside every segment (zero-sized sections are left out: they may tie)
                for s in image.emitted(info):
                    o1 = members(L1, s)
                    pos2 = {k: i for i, k in enumerate(members(L2, s))}
                    for a, b in zip(o1, o1[1:]):
                        if pos2[a] > pos2[b]:
                            bad.append("segment %s: %s precedes %s after one-step linking but follows it after two-step linking" % (s["name"], a, b))
                            break
            out = {"linked": "ok"}
            # the Lean two-step link (Slinkyv.Ld2) on the same scripts and objects: fidelity, and the known finding
            model = image.twostep_model(L2, w.d, implN["script"], implP["script"], implP.get("partials", []))
            model_agrees = None
            if model is not None:
                model_agrees = True
                for obj in sorted({o for _, o in model["two"]}):
                    seq = [mk for mk, o in model["two"] if o == obj and mk not in zero]
                    for a, b in zip(seq, seq[1:]):
                        if L2.symsec.get(a) == L2.symsec.get(b) and not L2.symbols[a] < L2.symbols[b]:
                            model_agrees = False
                out["twostep_model"] = "agrees" if model_agrees else "differs"
            if bad:
                order_only = all("precedes" in b for b in bad)
                grabs = image.grabbing_statements(implP["script"], set(L2.partial_objs.values()))
                explained = False
                if order_only and grabs and model is not None and model_agrees:
                    # with the partial objects' sections taken by exact name the two-step order is the one-step order
                    explained = True
                    for obj in sorted({o for _, o in model["two_exact"]}):
                        seq = [mk for mk, o in model["two_exact"] if o == obj]
                        ref = [mk for mk in model["one"] if mk in set(seq)]
                        if seq != ref:
                            explained = False
                if explained:
                    out.update(status="kf:KF-C11-prefix-group", why="known finding KF-C11-prefix-group: %s(%s*) also takes section %s of the partial object" % grabs[0])
                else:
                    out.update(status="violation", why="two-step link (ld -r per segment, then main): " + "; ".join(bad[:2]))
            return out
        finally:
            L2.lab.close()
    finally:
        L1.lab.close()


OVER = ["alloc_sections", "noload_sections", "subalign", "segment_start_align", "segment_end_align",
        "section_start_align", "section_end_align", "sections_start_alignment", "sections_end_alignment",
        "wildcard_sections", "fill_value", "sections_subgroups"]
NULLABLE = {"subalign", "segment_start_align", "segment_end_align", "section_start_align", "section_end_align", "fill_value"}
OUT_KEYS = ("outcome", "script", "joined", "deps", "header", "symbols", "partials")


def same_outputs(a, b):
    return {k: a.get(k) for k in OUT_KEYS} == {k: b.get(k) for k in OUT_KEYS}


class C08(Property):
    pid = "C08"
    title = "segment overrides global overrides default"
    rule = ("the 12 options x {absent,null,value} at global level x {absent,null,value} at segment level (two distinct values), "
            "embedded in small documents, plus valid-stream documents with many overrides; every case is also re-run with all "
            "effective values restated explicitly on every segment while the global values are replaced by different ones; "
            "non-trivial when some option is set at both levels with different values")
    lattice_exhaustive = True

    def profile(self, r):
        return Profile(p_settings_field=0.45, p_segment_override=0.45, p_align=0.6, p_custom_lists=0.5, p_subgroups=0.5,
                       p_missing_key=0.0, p_cond=0.1)

    def nontrivial(self, c):
        st = c["doc"].get("settings") or {}
        for s in c["doc"].get("segments", []):
            for k in OVER:
                if k in s and k in st and s[k] != st[k]:
                    return True
        return False

    def evaluate(self, w, c):
        from .engine import impl_request
        impl, v = w.eval(c, [self.pid])
        res = self.judge(c, impl, v, w)
        if res["status"] not in ("ok", "corr") or impl.get("outcome") != "ok":
            return res
        rr = w.d.ask({"op": "resolved", "case": {"id": c["id"], "doc": tree.to_proto(c["doc"])}})
        if not rr or "segments" not in rr:
            return res
        doc2 = copy.deepcopy(c["doc"])
        for seg, eff in zip(doc2["segments"], rr["segments"]):
            for k in OVER:
                seg[k] = eff[k]
        st = doc2.setdefault("settings", {})
        # different global values: must be shielded by the explicit segment values
        alt = {"alloc_sections": [".zz1", ".text"], "noload_sections": [".zz2"], "subalign": 64, "segment_start_align": 0x2000,
               "segment_end_align": 0x4000, "section_start_align": 0x80, "section_end_align": 0x100,
               "sections_start_alignment": {".text": 0x400}, "sections_end_alignment": {".data": 0x800},
               "wildcard_sections": not bool(st.get("wildcard_sections", True)), "fill_value": 0xABCD, "sections_subgroups": {".zz1": [".zz3"]}}
        for k in OVER:
            st[k] = None if (k in NULLABLE and c["seed"] % 3 == 0 and k != "fill_value") else alt[k]
        c2 = dict(c, doc=doc2, id=c["id"] + ":restated")
        impl2 = w.h.run(impl_request(c2))
        if not same_outputs(impl, impl2):
            res.update(status="violation", restated_doc=doc2,
                       why="restating every effective value on the segments (and changing the now shielded global values) changed the outputs: "
                           + ",".join(k for k in OUT_KEYS if impl.get(k) != impl2.get(k)))
            return res
        # the effective values as the script shows them, segment by segment (ordinary multi-segment scripts): `*` on every
        # input statement iff wildcard_sections, FILL iff fill_value, SUBALIGN iff subalign
        st0 = c["doc"].get("settings") if isinstance(c["doc"].get("settings"), dict) else {}
        if c["mode"] == "partial" and not (st0 or {}).get("single_segment_mode"):
            # the per-segment scripts of partial mode: `*` on every input statement iff the segment's wildcard_sections
            names_p = [sg.get("name") for sg in c["doc"]["segments"]]
            for seg, eff in zip(c["doc"]["segments"], rr["segments"]):
                if names_p.count(seg["name"]) > 1:
                    continue
                for pname, ptext in impl.get("partials", []):
                    if pname != seg["name"]:
                        continue
                    wrong = [x for x in image.parse_script(ptext) if x["kind"] == "input" and x["wild"] != eff["wildcard_sections"]]
                    if wrong:
                        res.update(status="violation", why="segment %s: wildcard_sections is %s but its partial script has `%s(%s%s)`" % (
                            seg["name"], eff["wildcard_sections"], wrong[0]["path"], wrong[0]["sec"], "*" if wrong[0]["wild"] else ""))
                        return res
        if c["mode"] in ("normal", "partial") and not (st0 or {}).get("single_segment_mode"):
            # (in partial mode this is the main script: the same headers, and one statement per group for the partial object)
            stmts = image.parse_script(impl.get("script") or "")
            text = impl.get("script") or ""
            names = [sg.get("name") for sg in c["doc"]["segments"]]
            for seg, eff in zip(c["doc"]["segments"], rr["segments"]):
                if names.count(seg["name"]) > 1:
                    continue        # two segments of one name: their output sections cannot be told apart by name
                outs = ("." + seg["name"], "." + seg["name"] + ".noload")
                wrong = [x for x in stmts if x["kind"] == "input" and x["outsec"] in outs and x["wild"] != eff["wildcard_sections"]]
                if wrong:
                    res.update(status="violation", why="segment %s: wildcard_sections is %s but the script has `%s(%s%s)`" % (
                        seg["name"], eff["wildcard_sections"], wrong[0]["path"], wrong[0]["sec"], "*" if wrong[0]["wild"] else ""))
                    return res
                for m in re.finditer(r"^[ \t]*" + re.escape("." + seg["name"]) + r"(?:\.noload \(NOLOAD\)| \S+| ?) ?:[^\n]*\n[ \t]*\{\n([^\n]*)\n", text, re.M):
                    hdr = m.group(0).split("\n")[0]
                    sub = re.search(r"SUBALIGN\((\d+)\)", hdr)
                    if (int(sub.group(1)) if sub else None) != eff["subalign"]:
                        res.update(status="violation", why="segment %s: subalign is %s but the header reads `%s`" % (seg["name"], eff["subalign"], hdr.strip()))
                        return res
                    fill = re.match(r"^[ \t]*FILL\(0x([0-9A-Fa-f]+)\);$", m.group(1))
                    if (int(fill.group(1), 16) if fill else None) != eff["fill_value"]:
                        res.update(status="violation", why="segment %s: fill_value is %s but the output section starts with `%s`" % (
                            seg["name"], eff["fill_value"], m.group(1).strip()))
                        return res
        return res

    def extra_cases(self, tier):
        cases = []
        vals = {"alloc_sections": ([".text", ".data"], [".data", ".mysec", ".text"]), "noload_sections": ([".bss"], [".sbss", ".bss"]),
                "subalign": (16, 4), "segment_start_align": (0x1000, 0x10), "segment_end_align": (0x40, 0x800),
                "section_start_align": (8, 0x20), "section_end_align": (0x10, 4),
                "sections_start_alignment": ({".data": 0x20}, {".text": 0x40, ".data": 8}),
                "sections_end_alignment": ({".text": 0x20}, {".data": 0x10}), "wildcard_sections": (False, True),
                "fill_value": (0xFF, 0x12345678), "sections_subgroups": ({".data": [".rdata"]}, {".text": [".init", ".fini"]})}
        empties = {"alloc_sections": [], "noload_sections": [], "sections_start_alignment": {}, "sections_end_alignment": {}, "sections_subgroups": {}}
        i = 0
        for k in OVER:
            levels = ("absent", "null", "v1", "v2") + (("empty",) if k in empties else ())
            for g in levels:
                for sg in levels:
                    i += 1
                    st = {"base_path": "build"}
                    seg = {"name": "main", "fixed_vram": 0x80000400, "files": [{"path": "a.o"}, {"path": "b.o"}]}
                    for lvl, tgt in ((g, st), (sg, seg)):
                        if lvl == "null":
                            tgt[k] = None
                        elif lvl == "v1":
                            tgt[k] = copy.deepcopy(vals[k][0])
                        elif lvl == "v2":
                            tgt[k] = copy.deepcopy(vals[k][1])
                        elif lvl == "empty":
                            tgt[k] = copy.deepcopy(empties[k])
                    doc = {"settings": st, "segments": [seg, {"name": "other", "files": [{"path": "c.o"}]}]}
                    cases.append({"id": "ov%d" % i, "seed": i, "stream": "lattice:override", "doc": doc, "opts": [],
                                  "mode": "normal", "version_comment": False})
                    if k in ("wildcard_sections", "subalign", "fill_value"):
                        # what the scripts of partial mode show of these: the main script and the per-segment scripts
                        docp = copy.deepcopy(doc)
                        docp["settings"].update({"partial_scripts_folder": "ps", "partial_build_segments_folder": "pb"})
                        cases.append({"id": "ovp%d" % i, "seed": i, "stream": "lattice:override", "doc": docp, "opts": [],
                                      "mode": "partial", "version_comment": False})
        return cases


PROPS = {p.pid: p for p in [C01(), C02(), C03(), C04(), C05(), C09(), C10(), C11(), C06(), C07(), C08(), C12(), C13(), C14(), C15(), C16(), C17(), C18(), C19(), C20()]}
