"""Type-directed generators of slinky documents (canonical value trees), custom-option
sets and modes. Everything derives from one SplitMix64 state so a case regenerates from
its seed. `Profile` knobs let each property emphasise the features it talks about."""
import copy
from .tree import Pairs, Float

MASK = (1 << 64) - 1


class Rng:
    def __init__(self, seed):
        self.s = seed & MASK

    def next(self):
        self.s = (self.s + 0x9E3779B97F4A7C15) & MASK
        z = self.s
        z = ((z ^ (z >> 30)) * 0xBF58476D1CE4E5B9) & MASK
        z = ((z ^ (z >> 27)) * 0x94D049BB133111EB) & MASK
        return z ^ (z >> 31)

    def below(self, n):
        return self.next() % n if n > 0 else 0

    def chance(self, p):
        return (self.next() % 10000) < int(p * 10000)

    def pick(self, seq):
        return seq[self.below(len(seq))]

    def sample(self, seq, k):
        seq = list(seq)
        out = []
        for _ in range(min(k, len(seq))):
            out.append(seq.pop(self.below(len(seq))))
        return out

    def shuffle(self, seq):
        seq = list(seq)
        return self.sample(seq, len(seq))

    def fork(self):
        return Rng(self.next())


SEG_NAMES = ["boot", "main", "ovl_a", "ovl_b", "data1", "code2", "_under", "Seg9", "header", "assets"]
SECTIONS = [".text", ".data", ".rodata", ".sdata", ".rdata", ".init", ".fini", ".ctor", "mysec", ".data2",
            ".sbss", ".scommon", ".bss", "COMMON", ".rodata.cst8", ".text.hot", "Xsec", ".ovl", "rodata", ".data.rel.ro"]
OPT_KEYS = ["version", "compiler", "region", "debug"]
OPT_VALS = ["us", "jp", "eu", "gcc", "ido", "on", "off"]
DIRS = ["src", "asm", "lib", "build", "{version}", "{compiler}", "a{version}b", "{version}{region}",
        "{region}_{debug}", "x{debug}", "{version}x", "o.d", "sub", "se\u00f1al_{version}"]
FILES = ["main.o", "util.o", "data.o", "rom_header.o", "libc.a", "libultra.a", "{version}.o", "f{region}.o",
         "{version}_{compiler}.o", "weird", "x.y.o", "lib{region}.a", "noext", "dir/inner.o", "{debug}{debug}.o",
         "\u00e9t\u00e9_{region}.o", "blob.bin"]
SYMS = ["entrypoint", "osMemSize", "__start", "gCounter", "_binary_start", "func_80001000"]
CLASS_NAMES = ["overlays", "battle", "menus", "extra"]


class Profile:
    """feature probabilities; every property's generator starts from `Profile()` and turns knobs"""

    def __init__(self, **kw):
        self.max_segments = 4
        self.max_files = 4
        self.max_depth = 2
        self.p_group = 0.25
        self.p_archive = 0.2
        self.p_pad = 0.12
        self.p_offset = 0.12
        self.p_cond = 0.25          # conditions on an entry
        self.p_section_order = 0.15
        self.p_subgroups = 0.2
        self.p_keep = 0.2
        self.p_settings_field = 0.2  # each optional settings field
        self.p_segment_override = 0.15
        self.p_dot_components = 0.03
        self.p_classes = 0.3
        self.p_addr = 0.5
        self.p_toplevel = 0.35
        self.p_braces = 0.3          # {key} markers in paths
        self.p_missing_key = 0.05    # a referenced key is not provided
        self.p_single = 0.12
        self.p_partial = 0.3
        self.p_makerom = 0.3
        self.p_custom_lists = 0.3
        self.p_gp = 0.2
        self.p_align = 0.3
        self.wellformed = True       # C01 well-formedness of section tables
        self.dpath = 0.4
        self.header = 0.5
        self.p_no_settings = 0.06    # the document has no `settings` key at all (Settings::default())
        self.p_foreign_align_keys = 0.3  # alignment maps may name sections that only another level lists
        self.p_nonpow2 = 0.0         # segment start / end alignments that are no powers of two (C03, C04: "any alignments")
        self.__dict__.update(kw)


def gen_opts(r, prof):
    n = r.below(4)
    keys = r.sample(OPT_KEYS, n)
    opts = [[k, "" if r.chance(0.04) else r.pick(OPT_VALS)] for k in keys]     # (an option may carry the empty value)
    if r.chance(0.1) and opts:   # a repeated key: the last one wins
        opts.append([opts[0][0], r.pick(OPT_VALS)])
    if r.chance(0.1):
        opts.append(["unused_option", "zz"])
    return opts


def gen_pairs(r, n=None):
    n = n or (1 + r.below(2))
    return [[r.pick(OPT_KEYS), "" if r.chance(0.04) else r.pick(OPT_VALS[:4])] for _ in range(n)]


def gen_cond(r, prof, into):
    if not r.chance(prof.p_cond):
        return
    for f in r.sample(["include_if_any", "include_if_all", "exclude_if_any", "exclude_if_all"], 1 + r.below(2)):
        into[f] = gen_pairs(r)


def gen_path(r, prof, pool, depth=None):
    def comp(c):
        if "{" in c and not r.chance(prof.p_braces):
            return c.replace("{", "").replace("}", "")
        return c
    n = r.below(3) if depth is None else depth
    parts = [comp(r.pick(DIRS)) for _ in range(n)] + [comp(r.pick(pool))]
    if r.chance(prof.p_dot_components):
        # a `.` component: leading (`./src/a.o`) or interior (`src/./a.o`) - the same file spelled differently
        parts.insert(r.below(len(parts)), ".")
    return "/".join(parts)


def gen_keep(r, sections):
    k = r.below(4)
    if k == 0:
        return True
    if k == 1:
        return False
    return r.sample(sections, r.below(3))


def gen_file(r, prof, depth, sections, subsecs, allow_special=True):
    f = {}
    x = r.next() % 1000 / 1000.0
    secs_all = sections + subsecs
    if depth < prof.max_depth and x < prof.p_group:
        f["kind"] = "group"
        if r.chance(0.6):
            f["dir"] = gen_path(r, prof, DIRS, depth=r.below(2))
        f["files"] = [gen_file(r, prof, depth + 1, sections, subsecs) for _ in range(1 + r.below(prof.max_files))]
    elif allow_special and x < prof.p_group + prof.p_pad:
        f["kind"] = "pad"
        f["pad_amount"] = r.pick([0, 4, 16, 0x100, 0x1234])
        f["section"] = r.pick(secs_all) if secs_all else ".text"
    elif allow_special and x < prof.p_group + prof.p_pad + prof.p_offset:
        f["kind"] = "linker_offset"
        f["linker_offset_name"] = r.pick(["mark", "bootEnd", "tbl_start", "x9"]) + str(r.below(50))
        f["section"] = r.pick(secs_all) if secs_all else ".text"
    else:
        p = gen_path(r, prof, FILES)
        f["path"] = p
        is_archive = p.endswith(".a")
        if r.chance(0.15):
            f["kind"] = "archive" if (is_archive or r.chance(0.2)) else "object"
            is_archive = f["kind"] == "archive"
        if is_archive and r.chance(0.5):
            f["subfile"] = r.pick(["mem.o", "str.o", "*", "sub{version}.o"])
        if secs_all and r.chance(prof.p_section_order):
            so = {}
            for k in r.sample(secs_all, 1 + r.below(3)):
                dests = [s for s in secs_all if s != k]
                if dests:
                    so[k] = k if r.chance(0.08) else r.pick(dests)      # (an identity entry: the section stays where it is)
            if prof.wellformed:
                # keep it a one-step relocation: a destination is never itself relocated
                so = {k: v for k, v in so.items() if v not in so or v == k}
            if so:
                f["section_order"] = so
    gen_cond(r, prof, f)
    if r.chance(prof.p_keep):
        f["keep_sections"] = gen_keep(r, secs_all)
    return f


def gen_sections_tables(r, prof):
    """alloc list, noload list, sub-groups (values disjoint from the lists and each other when wellformed)"""
    pool = r.shuffle(SECTIONS)
    na, nn = r.below(5), r.below(4)
    alloc, noload = pool[:na], pool[na:na + nn]
    rest = pool[na + nn:]
    subs = {}
    if r.chance(0.7):
        leads = r.sample(alloc + noload, min(len(alloc + noload), 1 + r.below(2)))
        for lead in leads:
            k = 1 + r.below(2)
            subs[lead] = rest[:k]
            rest = rest[k:]
        if subs and rest and r.chance(0.3):
            # a second level: a sub-group section with its own sub-group
            first = next(iter(subs.values()))
            subs[first[0]] = rest[:1]
            rest = rest[1:]
    return alloc, noload, subs


def pow2(r, lo=0, hi=12):
    return 1 << (lo + r.below(hi - lo + 1))


def gen_overrides(r, prof, into, p, alloc_default, noload_default):
    """the twelve overridable options; returns the (alloc, noload, subgroups) this level sets"""
    res = {}
    if r.chance(p * prof.p_custom_lists * 3):
        a, n, s = gen_sections_tables(r, prof)
        if r.chance(0.8):
            into["alloc_sections"] = a
            res["alloc"] = a
        if r.chance(0.6):
            into["noload_sections"] = n
            res["noload"] = n
        if s and r.chance(prof.p_subgroups * 3):
            into["sections_subgroups"] = s
            res["subs"] = s
    for f in ["subalign", "segment_start_align", "segment_end_align", "section_start_align", "section_end_align"]:
        if r.chance(p * prof.p_align * 2):
            into[f] = None if r.chance(0.25) else pow2(r, 0, 12)
            if f.startswith("segment_") and into[f] is not None and r.chance(prof.p_nonpow2):
                into[f] = r.pick([0x18, 0x14, 0x50, 12, 3, 0x30, 0x1001])
    if r.chance(p):
        into["wildcard_sections"] = r.chance(0.5)
    if r.chance(p):
        into["fill_value"] = None if r.chance(0.4) else r.pick([0, 0xFF, 0xDEADBEEF, 0x12345678])
    return res


def gen_doc(r, prof, opts=None):
    """returns (doc tree, mode) — a document that satisfies the documented rules"""
    doc = {}
    settings = {}
    single = r.chance(prof.p_single)
    partial = (not single) and r.chance(prof.p_partial)
    if r.chance(0.7):
        settings["base_path"] = gen_path(r, prof, DIRS, depth=r.below(2))
    if r.chance(prof.p_makerom):
        settings["linker_symbols_style"] = "makerom"
    elif r.chance(0.1):
        settings["linker_symbols_style"] = "splat"
    if r.chance(prof.dpath):
        settings["target_path"] = gen_path(r, prof, ["rom.elf", "{version}.elf", "out"])
        if r.chance(0.8):
            settings["d_path"] = gen_path(r, prof, ["rom.d", "{version}.d"])
    if r.chance(prof.header):
        settings["symbols_header_path"] = gen_path(r, prof, ["syms.h", "include/{version}/syms.h"])
    if r.chance(prof.p_settings_field):
        settings["symbols_header_type"] = r.pick(["u32", "unsigned char", "Addr"])
    if r.chance(prof.p_settings_field):
        settings["symbols_header_as_array"] = r.chance(0.5)
    if r.chance(prof.p_settings_field):
        settings["sections_allowlist"] = r.sample([".mdebug", ".debug_info", ".shstrtab", ".note"], r.below(3))
    if r.chance(prof.p_settings_field):
        settings["sections_allowlist_extra"] = r.sample([".symtab", ".strtab", ".comment", ".pdr"], r.below(3))
    if r.chance(prof.p_settings_field):
        settings["sections_denylist"] = r.sample([".reginfo", ".MIPS.abiflags", ".got", ".junk"], r.below(3))
    if r.chance(prof.p_settings_field):
        settings["discard_wildcard_section"] = r.chance(0.5)
    if single:
        settings["single_segment_mode"] = True
    if partial or r.chance(0.1):
        settings["partial_scripts_folder"] = gen_path(r, prof, ["linker_scripts/partial", "ld/{version}"], depth=0)
        settings["partial_build_segments_folder"] = gen_path(r, prof, ["segments", "seg/{version}"], depth=0)
    alloc_d = [".text", ".data", ".rodata", ".sdata"]
    noload_d = [".sbss", ".scommon", ".bss", "COMMON"]
    gres = gen_overrides(r, prof, settings, prof.p_settings_field * 1.5, alloc_d, noload_d)
    g_alloc, g_noload, g_subs = gres.get("alloc", alloc_d), gres.get("noload", noload_d), gres.get("subs", {})
    for f in ["sections_start_alignment", "sections_end_alignment"]:
        if r.chance(prof.p_align * 0.6):
            settings[f] = {s: pow2(r, 0, 8) for s in r.sample(g_alloc + g_noload, 1 + r.below(2))} if (g_alloc + g_noload) else {}
            if r.chance(prof.p_foreign_align_keys):
                # entries for sections the global lists do not have: a segment may still list them and inherit the entry
                for s in r.sample(SECTIONS, 1 + r.below(3)):
                    settings[f].setdefault(s, pow2(r, 1, 9))
    hard_gp = False
    if r.chance(prof.p_gp * 0.5):
        settings["hardcoded_gp_value"] = r.pick([0x80008000, 0x10, 0])
        hard_gp = True
    # vram classes
    classes = []
    if (not single) and r.chance(prof.p_classes):
        names = r.sample(CLASS_NAMES, 1 + r.below(3))
        for i, n in enumerate(names):
            c = {"name": n}
            k = r.below(3)
            if k == 0 or (k == 2 and i == 0):
                c["fixed_vram"] = r.pick([0x80100000, 0x80200000, 0x80300040])
            elif k == 1:
                c["fixed_symbol"] = r.pick(SYMS)
            else:
                c["follows_classes"] = r.sample(names[:i], 1 + r.below(min(2, i)))
            if r.chance(prof.p_keep):
                c["keep_sections"] = gen_keep(r, g_alloc + g_noload)
            classes.append(c)
        doc["vram_classes"] = classes
    # segments
    nseg = 1 if single else 1 + r.below(prof.max_segments)
    seg_names = r.sample(SEG_NAMES, nseg)
    segments = []
    gp_done = hard_gp
    for i, name in enumerate(seg_names):
        seg = {"name": name}
        sres = gen_overrides(r, prof, seg, prof.p_segment_override, g_alloc, g_noload)
        alloc, noload = sres.get("alloc", g_alloc), sres.get("noload", g_noload)
        subs = sres.get("subs", g_subs)
        if "subs" not in sres and g_subs and r.chance(prof.p_segment_override + 0.05):
            # an explicitly empty table at segment level switches the global one off
            seg["sections_subgroups"] = {}
            subs = {}
        if not prof.wellformed and r.chance(0.3) and (alloc + noload):
            # violate a well-formedness rule on purpose (finding zones)
            which = r.below(3)
            if which == 0:
                seg["alloc_sections"] = alloc + [r.pick(alloc + noload)]
                alloc = seg["alloc_sections"]
            elif which == 1:
                lead = r.pick(alloc + noload)
                subs = dict(subs)
                subs[lead] = subs.get(lead, []) + [r.pick(alloc + noload)]
                seg["sections_subgroups"] = subs
        if prof.wellformed:
            # keep the tables of one segment well-formed whatever mix of levels set them: lists disjoint,
            # sub-group sections neither listed nor shared
            if set(alloc) & set(noload):
                noload = [x for x in noload if x not in alloc]
                seg["noload_sections"] = noload
            taken = set(alloc) | set(noload)
            fixed, changed = {}, False
            for k, vals in subs.items():
                nv = []
                for x in vals:
                    if x in taken:
                        changed = True
                    else:
                        nv.append(x)
                        taken.add(x)
                fixed[k] = nv
            if changed:
                subs = fixed
                seg["sections_subgroups"] = subs
        listed = list(alloc) + list(noload)
        # sub-group sections reachable from the lists
        subsecs = []
        frontier = list(listed)
        seen = set(listed)
        while frontier:
            s = frontier.pop()
            for o in subs.get(s, []):
                if o not in seen:
                    seen.add(o)
                    subsecs.append(o)
                    frontier.append(o)
        for f in ["sections_start_alignment", "sections_end_alignment"]:
            if r.chance(prof.p_align * 0.4) and listed:
                seg[f] = {s: pow2(r, 0, 8) for s in r.sample(listed, 1 + r.below(2))}
            elif settings.get(f) and r.chance(prof.p_segment_override + 0.05):
                seg[f] = {}         # explicitly empty: no per-section alignment for this segment
        seg["files"] = [gen_file(r, prof, 0, listed, subsecs) for _ in range(1 + r.below(prof.max_files))]
        if r.chance(0.3):
            seg["dir"] = gen_path(r, prof, DIRS, depth=r.below(2))
        if r.chance(prof.p_addr):
            k = r.below(4)
            if k == 0:
                seg["fixed_vram"] = r.pick([0x80000400, 0x80001000, 0x80000404, 0x1000, 0])
            elif k == 1 and not single:
                seg["fixed_symbol"] = r.pick(SYMS)
            elif k == 2 and i > 0 and not single:
                seg["follows_segment"] = r.pick(seg_names[:i])
            elif k == 3 and classes:
                seg["vram_class"] = r.pick(classes)["name"]
        if not gp_done and listed and r.chance(prof.p_gp):
            gp = {}
            if ".sdata" not in listed or r.chance(0.5):
                gp["section"] = r.pick(listed)
            if r.chance(0.5):
                gp["offset"] = r.pick([0x7FF0, 0, -16, 0x8000, -0x8000])
            if r.chance(0.3):
                gp["provide"] = r.chance(0.5)
            if r.chance(0.3):
                gp["hidden"] = r.chance(0.5)
            gen_cond(r, prof, gp)
            seg["gp_info"] = gp
            gp_done = True
        if not single:
            gen_cond(r, prof, seg)
        if r.chance(prof.p_keep):
            seg["keep_sections"] = gen_keep(r, listed + subsecs)
        segments.append(seg)
    doc["segments"] = segments
    # (dropping the block must not change what the segments were made consistent with)
    structural = {"alloc_sections", "noload_sections", "sections_subgroups", "hardcoded_gp_value", "single_segment_mode"}
    drop = not single and not partial and not (structural & set(settings)) and r.chance(prof.p_no_settings * 1.5)
    if (settings or r.chance(0.2)) and not drop:
        doc["settings"] = settings
    if r.chance(prof.p_toplevel):
        doc["entry"] = r.pick(SYMS)
    if r.chance(prof.p_toplevel):
        sa = []
        for _ in range(1 + r.below(3)):
            a = {"name": r.pick(SYMS) + "_" + str(r.below(9)), "value": r.pick(["0x80000000", "ADDR(.boot)", "main_VRAM + 0x10", "1"])}
            if r.chance(0.4):
                a["provide"] = r.chance(0.6)
            if r.chance(0.4):
                a["hidden"] = r.chance(0.6)
            gen_cond(r, prof, a)
            sa.append(a)
        doc["symbol_assignments"] = sa
    if r.chance(prof.p_toplevel):
        rs = []
        for _ in range(1 + r.below(3)):
            a = {"name": r.pick(SYMS)}
            gen_cond(r, prof, a)
            rs.append(a)
        doc["required_symbols"] = rs
    if r.chance(prof.p_toplevel):
        asr = []
        for _ in range(1 + r.below(3)):
            a = {"check": r.pick(["boot_ROM_END <= 0x101000", "1", "boot_VRAM_SIZE < 0x100000", "0 == 0"]),
                 "error_message": r.pick(["boot segment is too big", "oops", "size check"])}
            gen_cond(r, prof, a)
            asr.append(a)
        doc["asserts"] = asr
    mode = "partial" if partial else "normal"
    return doc, mode


def keys_in_doc(t, acc=None):
    """every {key} that occurs in any string of the tree"""
    import re
    acc = set() if acc is None else acc
    if isinstance(t, str):
        for m in re.finditer(r"\{([^{}]*)\}", t):
            acc.add(m.group(1))
    elif isinstance(t, dict):
        for v in t.values():
            keys_in_doc(v, acc)
    elif isinstance(t, (list, tuple)):
        for v in t:
            keys_in_doc(v, acc)
    return acc


def gen_case(r, prof, idx=0):
    sub = r.fork()
    seed = sub.s
    doc, mode = gen_doc(sub, prof)
    opts = gen_opts(sub, prof)
    # provide the keys the paths use (mostly), so that generation usually succeeds
    have = {k for k, _ in opts}
    for k in sorted(keys_in_doc(doc)):
        if k not in have and not sub.chance(prof.p_missing_key):
            opts.append([k, sub.pick(OPT_VALS + ["", "a/b"]) if sub.chance(0.15) else sub.pick(OPT_VALS)])
    opts = sub.shuffle(opts) if sub.chance(0.5) else opts
    return {"id": "g%d" % idx, "seed": seed, "stream": "valid", "doc": doc, "opts": opts, "mode": mode,
            "version_comment": sub.chance(0.3)}
