// slinky-harness: runs the real slinky library (path dependency on /repo/slinky, rebuilt from
// the working tree) on one JSON request per input line and prints one JSON answer per line.
use std::fs;
use std::io::{BufRead, Write};
use std::panic;
use std::path::{Path, PathBuf};

use serde_json::{json, Map, Value};
use slinky::{RuntimeSettings, ScriptExporter, ScriptImporter, SlinkyError};

fn err_kind(e: &SlinkyError) -> String {
    let s = format!("{:?}", e);
    s.split(|c: char| c == ' ' || c == '{' || c == '(')
        .next()
        .unwrap_or("")
        .to_string()
}

struct Gen {
    script: String,
    joined: String,
    partials: Vec<(String, String)>,
    deps: Option<String>,
    header: String,
    symbols: Vec<String>,
}

fn make_rs(opts: &[(String, String)], version_comment: bool) -> RuntimeSettings {
    let mut rs = RuntimeSettings::new();
    rs.add_custom_options(opts.iter().cloned());
    rs.set_emit_version_comment(version_comment);
    rs
}

enum Stage {
    Parse,
    Generate,
    Export,
}

fn generate(
    yaml_path: &Path,
    opts: &[(String, String)],
    partial: bool,
    version_comment: bool,
) -> Result<Gen, (Stage, SlinkyError)> {
    let document = slinky::Document::read_file(yaml_path).map_err(|e| (Stage::Parse, e))?;
    generate_doc(&document, opts, partial, version_comment)
}

// the same outputs, but not as the first thing the parsed document and the settings object are used for: the
// script of the other kind and this kind are generated first, with another value for every option key, from the same
// `Document` and the same `RuntimeSettings`; then the options of the case are added (`HashMap::extend`: they replace
// the earlier values) and the outputs are generated. A library without state that outlives a generation returns
// what `generate` returns.
fn generate_after_history(
    yaml_path: &Path,
    opts: &[(String, String)],
    partial: bool,
    version_comment: bool,
) -> Result<Gen, (Stage, SlinkyError)> {
    let document = slinky::Document::read_file(yaml_path).map_err(|e| (Stage::Parse, e))?;
    let shadow: Vec<(String, String)> = opts.iter().map(|(k, v)| (k.clone(), format!("{}~", v))).collect();
    let mut rs = make_rs(&shadow, version_comment);
    let _ = generate_doc_rs(&document, &rs, !partial);
    let _ = generate_doc_rs(&document, &rs, partial);
    rs.add_custom_options(opts.iter().cloned());
    let _ = generate_doc_rs(&document, &rs, !partial);
    generate_doc_rs(&document, &rs, partial)
}

// every in-memory output, from an already parsed document (which may be reused for several generations)
fn generate_doc(
    document: &slinky::Document,
    opts: &[(String, String)],
    partial: bool,
    version_comment: bool,
) -> Result<Gen, (Stage, SlinkyError)> {
    let rs = make_rs(opts, version_comment);
    generate_doc_rs(document, &rs, partial)
}

// the same from given runtime settings (which may be reused and updated between generations)
fn generate_doc_rs(
    document: &slinky::Document,
    rs: &RuntimeSettings,
    partial: bool,
) -> Result<Gen, (Stage, SlinkyError)> {
    if partial {
        let mut w = slinky::PartialLinkerWriter::new(document, rs);
        w.add_whole_document(document)
            .map_err(|e| (Stage::Generate, e))?;
        let joined = w
            .export_linker_script_to_string()
            .map_err(|e| (Stage::Export, e))?;
        let main = w.get_main_writer();
        let script = main
            .export_linker_script_to_string()
            .map_err(|e| (Stage::Export, e))?;
        let mut partials = Vec::new();
        for (pw, name) in w.get_partial_writers() {
            partials.push((
                name.clone(),
                pw.export_linker_script_to_string()
                    .map_err(|e| (Stage::Export, e))?,
            ));
        }
        let deps = match document
            .settings
            .target_path_escaped(rs)
            .map_err(|e| (Stage::Export, e))?
        {
            Some(t) => Some(
                main.export_dependencies_file_to_string(&t)
                    .map_err(|e| (Stage::Export, e))?,
            ),
            None => None,
        };
        let header = main
            .export_symbol_header_to_string()
            .map_err(|e| (Stage::Export, e))?;
        let symbols = main.get_linker_symbols().iter().cloned().collect();
        Ok(Gen {
            script,
            joined,
            partials,
            deps,
            header,
            symbols,
        })
    } else {
        let mut w = slinky::LinkerWriter::new(document, rs);
        w.add_whole_document(document)
            .map_err(|e| (Stage::Generate, e))?;
        let script = w
            .export_linker_script_to_string()
            .map_err(|e| (Stage::Export, e))?;
        let deps = match document
            .settings
            .target_path_escaped(rs)
            .map_err(|e| (Stage::Export, e))?
        {
            Some(t) => Some(
                w.export_dependencies_file_to_string(&t)
                    .map_err(|e| (Stage::Export, e))?,
            ),
            None => None,
        };
        let header = w
            .export_symbol_header_to_string()
            .map_err(|e| (Stage::Export, e))?;
        let symbols = w.get_linker_symbols().iter().cloned().collect();
        Ok(Gen {
            joined: script.clone(),
            script,
            partials: Vec::new(),
            deps,
            header,
            symbols,
        })
    }
}

// file exports, run with the current directory set to a scratch directory
fn export_files(
    yaml_path: &Path,
    opts: &[(String, String)],
    partial: bool,
    version_comment: bool,
    out: Option<&str>,
) -> Result<Option<String>, (Stage, SlinkyError)> {
    let document = slinky::Document::read_file(yaml_path).map_err(|e| (Stage::Parse, e))?;
    let rs = make_rs(opts, version_comment);
    fn run(
        w: &mut impl slinky::ScriptGenerator,
        document: &slinky::Document,
        rs: &RuntimeSettings,
        out: Option<&str>,
    ) -> Result<Option<String>, (Stage, SlinkyError)> {
        w.add_whole_document(document)
            .map_err(|e| (Stage::Generate, e))?;
        let mut stdout = None;
        if let Some(o) = out {
            let p = rs
                .escape_path(Path::new(o))
                .map_err(|e| (Stage::Export, e))?;
            w.export_linker_script_to_file(&p)
                .map_err(|e| (Stage::Export, e))?;
        } else {
            stdout = Some(
                w.export_linker_script_to_string()
                    .map_err(|e| (Stage::Export, e))?,
            );
        }
        w.save_other_files().map_err(|e| (Stage::Export, e))?;
        Ok(stdout)
    }
    if partial {
        let mut w = slinky::PartialLinkerWriter::new(&document, &rs);
        run(&mut w, &document, &rs, out)
    } else {
        let mut w = slinky::LinkerWriter::new(&document, &rs);
        run(&mut w, &document, &rs, out)
    }
}

fn walk(dir: &Path, base: &Path, out: &mut Map<String, Value>) {
    if let Ok(rd) = fs::read_dir(dir) {
        let mut entries: Vec<PathBuf> = rd.filter_map(|e| e.ok().map(|e| e.path())).collect();
        entries.sort();
        for p in entries {
            let is_link = p
                .symlink_metadata()
                .map(|m| m.file_type().is_symlink())
                .unwrap_or(false);
            if is_link {
                // never read through a link (the fault-injection cases point links at /dev/full)
                continue;
            }
            if p.is_dir() {
                walk(&p, base, out);
            } else {
                let rel = p.strip_prefix(base).unwrap().to_string_lossy().to_string();
                let content = fs::read(&p).unwrap_or_default();
                out.insert(rel, json!(String::from_utf8_lossy(&content)));
            }
        }
    }
}

fn yaml_to_json(v: &serde_yaml::Value) -> Value {
    match v {
        serde_yaml::Value::Null => Value::Null,
        serde_yaml::Value::Bool(b) => json!(b),
        serde_yaml::Value::Number(n) => {
            if let Some(i) = n.as_i64() {
                json!(i)
            } else if let Some(u) = n.as_u64() {
                json!(u)
            } else {
                json!({"$float": n.to_string()})
            }
        }
        serde_yaml::Value::String(s) => json!(s),
        serde_yaml::Value::Sequence(s) => Value::Array(s.iter().map(yaml_to_json).collect()),
        serde_yaml::Value::Mapping(m) => {
            // ordered list of pairs so that duplicate / ordering information is kept
            let mut o = Map::new();
            for (k, v) in m {
                let ks = match k {
                    serde_yaml::Value::String(s) => s.clone(),
                    other => serde_yaml::to_string(other)
                        .unwrap_or_default()
                        .trim()
                        .to_string(),
                };
                o.insert(ks, yaml_to_json(v));
            }
            Value::Object(o)
        }
        serde_yaml::Value::Tagged(t) => yaml_to_json(&t.value),
    }
}

fn fail_json(stage: Stage, e: &SlinkyError) -> Value {
    json!({
        "outcome": "err",
        "stage": match stage { Stage::Parse => "parse", Stage::Generate => "generate", Stage::Export => "export" },
        "err_kind": err_kind(e),
        "err_msg": e.to_string(),
    })
}

fn main() {
    let scratch = std::env::var("HARNESS_SCRATCH").unwrap_or_else(|_| "/verif/.build/scratch".into());
    let scratch = PathBuf::from(scratch).join(format!("p{}", std::process::id()));
    fs::create_dir_all(&scratch).expect("scratch");
    let yaml_path = scratch.join("input.yaml");
    panic::set_hook(Box::new(|_| {}));

    let stdin = std::io::stdin();
    let stdout = std::io::stdout();
    let mut counter = 0u64;
    for line in stdin.lock().lines() {
        let line = match line {
            Ok(l) => l,
            Err(_) => break,
        };
        if line.trim().is_empty() {
            continue;
        }
        let req: Value = match serde_json::from_str(&line) {
            Ok(v) => v,
            Err(e) => {
                let mut so = stdout.lock();
                writeln!(so, "{}", json!({"outcome": "bad-request", "err_msg": e.to_string()})).ok();
                so.flush().ok();
                continue;
            }
        };
        counter += 1;
        let id = req.get("id").cloned().unwrap_or(Value::Null);
        let op = req.get("op").and_then(|v| v.as_str()).unwrap_or("gen");
        let mut ans: Value;
        if op == "yaml2json" {
            let p = req["path"].as_str().unwrap_or("");
            ans = match fs::read_to_string(p) {
                Ok(t) => match serde_yaml::from_str::<serde_yaml::Value>(&t) {
                    Ok(v) => json!({"outcome": "ok", "tree": yaml_to_json(&v)}),
                    Err(e) => json!({"outcome": "err", "err_msg": e.to_string()}),
                },
                Err(e) => json!({"outcome": "err", "err_msg": e.to_string()}),
            };
        } else {
            let opts: Vec<(String, String)> = req
                .get("opts")
                .and_then(|v| v.as_array())
                .map(|a| {
                    a.iter()
                        .filter_map(|p| {
                            let p = p.as_array()?;
                            Some((p.first()?.as_str()?.to_string(), p.get(1)?.as_str()?.to_string()))
                        })
                        .collect()
                })
                .unwrap_or_default();
            let partial = req.get("mode").and_then(|v| v.as_str()) == Some("partial");
            let version_comment = req
                .get("version_comment")
                .and_then(|v| v.as_bool())
                .unwrap_or(false);
            let repeat = req.get("repeat").and_then(|v| v.as_u64()).unwrap_or(1);
            // the document: either raw text, or a file path
            let ypath: PathBuf = if let Some(p) = req.get("yaml_path").and_then(|v| v.as_str()) {
                PathBuf::from(p)
            } else {
                let text = req.get("yaml").and_then(|v| v.as_str()).unwrap_or("");
                if let Some(b64) = req.get("yaml_bytes").and_then(|v| v.as_array()) {
                    let bytes: Vec<u8> = b64.iter().filter_map(|x| x.as_u64().map(|b| b as u8)).collect();
                    fs::write(&yaml_path, bytes).expect("write yaml");
                } else {
                    fs::write(&yaml_path, text).expect("write yaml");
                }
                yaml_path.clone()
            };

            if op == "files" {
                let dir = scratch.join(format!("fs{}", counter));
                let _ = fs::remove_dir_all(&dir);
                fs::create_dir_all(&dir).expect("fs dir");
                if let Some(pre) = req.get("pre").and_then(|v| v.as_array()) {
                    for p in pre {
                        if let Some(pa) = p.as_array() {
                            if let (Some(path), Some(content)) =
                                (pa.first().and_then(|x| x.as_str()), pa.get(1).and_then(|x| x.as_str()))
                            {
                                let full = dir.join(path);
                                if let Some(parent) = full.parent() {
                                    let _ = fs::create_dir_all(parent);
                                }
                                // a third element "symlink": the location is a symbolic link to `content`
                                // (an output location that accepts the open and refuses the data: /dev/full)
                                if pa.get(2).and_then(|x| x.as_str()) == Some("symlink") {
                                    let _ = std::os::unix::fs::symlink(content, full);
                                } else {
                                    let _ = fs::write(full, content);
                                }
                            }
                        }
                    }
                }
                let out = req.get("out").and_then(|v| v.as_str()).map(|s| s.to_string());
                let cwd = std::env::current_dir().ok();
                std::env::set_current_dir(&dir).expect("chdir");
                let r = panic::catch_unwind(|| {
                    export_files(&ypath, &opts, partial, version_comment, out.as_deref())
                });
                if let Some(c) = cwd {
                    let _ = std::env::set_current_dir(c);
                }
                let mut files = Map::new();
                walk(&dir, &dir, &mut files);
                let _ = fs::remove_dir_all(&dir);
                ans = match r {
                    Err(_) => json!({"outcome": "panic"}),
                    Ok(Err((stage, e))) => fail_json(stage, &e),
                    Ok(Ok(so)) => json!({"outcome": "ok", "stdout": so}),
                };
                ans["files"] = Value::Object(files);
            } else {
                let history = req.get("history").and_then(|v| v.as_bool()).unwrap_or(false);
                let r = panic::catch_unwind(|| {
                    if history {
                        generate_after_history(&ypath, &opts, partial, version_comment)
                    } else {
                        generate(&ypath, &opts, partial, version_comment)
                    }
                });
                ans = match r {
                    Err(p) => {
                        let msg = if let Some(s) = p.downcast_ref::<&str>() {
                            s.to_string()
                        } else if let Some(s) = p.downcast_ref::<String>() {
                            s.clone()
                        } else {
                            "".to_string()
                        };
                        json!({"outcome": "panic", "err_msg": msg})
                    }
                    Ok(Err((stage, e))) => fail_json(stage, &e),
                    Ok(Ok(g)) => {
                        let mut same = true;
                        for _ in 1..repeat {
                            match panic::catch_unwind(|| generate(&ypath, &opts, partial, version_comment)) {
                                Ok(Ok(g2)) => {
                                    if g2.script != g.script
                                        || g2.joined != g.joined
                                        || g2.partials != g.partials
                                        || g2.deps != g.deps
                                        || g2.header != g.header
                                        || g2.symbols != g.symbols
                                    {
                                        same = false;
                                    }
                                }
                                _ => same = false,
                            }
                        }
                        // one parsed document reused: other options, these options, other options, these options again
                        let mut reuse_same = true;
                        if let Some(other) = req.get("reuse_opts").and_then(|v| v.as_array()) {
                            let other: Vec<(String, String)> = other
                                .iter()
                                .filter_map(|p| {
                                    let a = p.as_array()?;
                                    Some((a.first()?.as_str()?.to_string(), a.get(1)?.as_str()?.to_string()))
                                })
                                .collect();
                            let r = panic::catch_unwind(|| {
                                let document = slinky::Document::read_file(&ypath).map_err(|e| (Stage::Parse, e))?;
                                let _ = generate_doc(&document, &other, partial, version_comment);
                                let a = generate_doc(&document, &opts, partial, version_comment)?;
                                let _ = generate_doc(&document, &other, partial, version_comment);
                                let b = generate_doc(&document, &opts, partial, version_comment)?;
                                // one RuntimeSettings reused: every key first given another value, a generation,
                                // then the values of this case (the option map is now that of a fresh object)
                                let shadow: Vec<(String, String)> =
                                    opts.iter().map(|(k, v)| (k.clone(), format!("{}~", v))).collect();
                                let mut rs = make_rs(&shadow, version_comment);
                                let _ = generate_doc_rs(&document, &rs, partial);
                                rs.add_custom_options(opts.iter().cloned());
                                let c = generate_doc_rs(&document, &rs, partial)?;
                                Ok::<(Gen, Gen, Gen), (Stage, SlinkyError)>((a, b, c))
                            });
                            match r {
                                Ok(Ok((a, b, c))) => {
                                    for x in [&a, &b, &c] {
                                        if x.script != g.script
                                            || x.joined != g.joined
                                            || x.partials != g.partials
                                            || x.deps != g.deps
                                            || x.header != g.header
                                            || x.symbols != g.symbols
                                        {
                                            reuse_same = false;
                                        }
                                    }
                                }
                                _ => reuse_same = false,
                            }
                        }
                        json!({
                            "outcome": "ok",
                            "reuse_same": reuse_same,
                            "script": g.script,
                            "joined": g.joined,
                            "partials": g.partials.iter().map(|(n, s)| json!([n, s])).collect::<Vec<_>>(),
                            "deps": g.deps,
                            "header": g.header,
                            "symbols": g.symbols,
                            "repeat_same": same,
                        })
                    }
                };
            }
        }
        ans["id"] = id;
        let mut so = stdout.lock();
        writeln!(so, "{}", ans).ok();
        so.flush().ok();
    }
    let _ = fs::remove_dir_all(&scratch);
}
