/-
  Slinkyv.Path — `std::path` (Unix flavour) as slinky uses it, `EscapedPath`'s `Display`,
  and `RuntimeSettings::escape_path` (slinky/src/runtime_settings.rs, escaped_path.rs).
  A `PathBuf` is its raw text.
-/
import Slinkyv.Basic
namespace Slinky

inductive ErrKind
  | failedYamlParsing | nullValueOnNonNull | emptyValue | invalidFieldCombo
  | missingRequiredField | missingRequiredFieldCombo | missingAnyOfOptionalFields
  | customOptionInPathNotProvided | missingSectionForSegment | missingVramClassForSegment
  | invalidSegmentCount | cyclicSubgroups
  deriving DecidableEq, Repr

/-- the custom-option *map* (`HashMap<String, String>`): only ever looked up, never iterated. -/
abbrev Opts := Str → Option Str

def optGet (o : Opts) (k : Str) : Option Str := o k

/-- the map built by `add_custom_options` from pairs in insertion order: the last pair for a
key wins (`HashMap::extend`). -/
def optsOfList (l : List (Str × Str)) : Opts := fun k => lookupLast k l

/-- `Path::components()` rendered as texts: `/` for the root, a leading `.` kept, interior
and trailing `.` and empty pieces dropped, `..` kept. -/
def components (raw : Str) : List Str :=
  let pieces := (splitOn '/' raw).filter (fun p => !p.isEmpty)
  let root := startsWith ['/'] raw
  let lead : List Str :=
    if root then [['/']]
    else match pieces with
      | p :: _ => if p = ['.'] then [['.']] else []
      | [] => []
  lead ++ pieces.filter (fun p => p ≠ ['.'])

/-- `PathBuf::push`. -/
def pathPush (buf p : Str) : Str :=
  if startsWith ['/'] p then p
  else
    let needSep : Bool := match buf.getLast? with
      | some c => c != '/'
      | none => false
    (if needSep then buf ++ ['/'] else buf) ++ p

/-- `Display for EscapedPath`. -/
def display (raw : Str) : Str := joinWith ['/'] (components raw)

/-- `Extend<&EscapedPath>`: push every component. -/
def pathExtend (buf p : Str) : Str := (components p).foldl pathPush buf

/-- `Path::extension()`. -/
def extension (raw : Str) : Option Str :=
  match (components raw).getLast? with
  | none => none
  | some name =>
    if name = ['/'] ∨ name = ['.'] ∨ name = ['.', '.'] then none
    else
      -- split at the last dot
      match (splitOn '.' name).reverse with
      | [] => none
      | [_] => none                      -- no dot at all
      | after :: before =>
        -- `before` (reversed pieces) joined is empty iff the only dot is the first char
        if before = [[]] then none else some after

mutual
  /-- the character scanner of `escape_path`, outside a `{…}`. -/
  def scanLit (o : Opts) : Str → Except Str Str
    | [] => .ok []
    | c :: cs =>
      if c = '{' then scanKey o [] cs
      else match scanLit o cs with
        | .ok r => .ok (c :: r)
        | .error e => .error e
  /-- inside a `{…}`; `key` is what was read so far. An unterminated `{` is kept literally. -/
  def scanKey (o : Opts) (key : Str) : Str → Except Str Str
    | [] => .ok ('{' :: key)
    | c :: cs =>
      if c = '}' then
        match optGet o key with
        | none => .error key
        | some v =>
          match scanLit o cs with
          | .ok r => .ok (v ++ r)
          | .error e => .error e
      else scanKey o (key ++ [c]) cs
end

/-- one component of `escape_path`. -/
def escapeComponent (o : Opts) (c : Str) : Except Str Str :=
  if !c.contains '{' || !c.contains '}' then .ok c else scanLit o c

def escapeComponents (o : Opts) (buf : Str) : List Str → Except ErrKind Str
  | [] => .ok buf
  | c :: cs =>
    match escapeComponent o c with
    | .error _ => .error .customOptionInPathNotProvided
    | .ok r => escapeComponents o (pathPush buf r) cs

/-- `RuntimeSettings::escape_path`. -/
def escapePath (o : Opts) (raw : Str) : Except ErrKind Str :=
  escapeComponents o [] (components raw)

end Slinky
