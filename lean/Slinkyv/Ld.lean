/-
  Slinkyv.Ld — an executable semantics of GNU ld for exactly the statements slinky writes
  (`Line`, Slinkyv.Script): the location counter, symbol assignments, output sections with an
  explicit / implicit address, `SUBALIGN`, `(NOLOAD)`, input-section statements with first-match
  placement, pads, `ALIGN`, `MAX`, `SIZEOF`, `ADDR` (also of a section that follows), the
  single-entry sections and `/DISCARD/`.

  This is a *model of the linker*, not of slinky: it is validated on every linked case of the
  image checks against what GNU ld 2.40 actually produced (all symbol values, section
  addresses and sizes, addresses of all input sections: vlib/image.py `ldsem_fidelity`), and
  it is what the image-level theorems (Props/Image.lean) are stated over.

  What it deliberately does not cover (DESIGN.md §9): output sections that ld removes because
  they hold nothing at all (a segment without allocatable sections), orphan placement
  (`discard_wildcard_section: false` with unlisted sections), `PROVIDE` semantics (a provided
  symbol is treated as defined), load addresses other than the explicit `AT(sym)`, 64-bit
  expression arithmetic (values are taken modulo 2^32 where ld's ELF32 symbol table does).
-/
import Slinkyv.Script
import Slinkyv.Parse
namespace Slinky
namespace Ld

def alignUp (x a : Nat) : Nat := if a ≤ 1 then x else ((x + a - 1) / a) * a

def M32 : Nat := 4294967296

/-- an input section of an object (or archive member) on the command line. -/
structure InSec where
  path : Str
  member : Option Str
  sec : Str
  size : Nat
  align : Nat
  deriving DecidableEq, Repr

/-- a symbol value: a number, or the address of an output section that is defined further
down (`X_VRAM = ADDR(.X);` precedes `.X`), resolved when it is used or at the end. -/
inductive Val
  | num (n : Nat)
  | addrOf (sec : Str)
  | unknown
  deriving DecidableEq, Repr

structure OutSec where
  name : Str
  addr : Nat
  size : Nat
  lma : Option Nat
  noload : Bool
  align : Nat
  deriving Repr

structure Placed where
  inp : InSec
  addr : Nat
  out : Str
  deriving Repr

/-- the output section being filled. -/
structure Cur where
  name : Str
  addr : Nat
  lma : Option Nat
  noload : Bool
  subalign : Option Nat
  align : Nat
  dot0 : Nat        -- the location counter in front of the header
  keep : Bool       -- a symbol is assigned inside: ld keeps the section even when it is empty
  deriving Repr

structure St where
  dot : Nat := 0
  syms : List (Str × Val) := []
  secs : List OutSec := []
  placed : List Placed := []
  discarded : List InSec := []
  cur : Option Cur := none
  inDiscard : Bool := false
  emptied : Bool := false     -- an output section without contents and symbols was met (see `step`, `.blockClose`)
  deriving Repr

def findSec (st : St) (name : Str) : Option OutSec := st.secs.reverse.find? (fun s => s.name = name)

def resolve (st : St) : Val → Option Nat
  | .num n => some n
  | .addrOf s => (findSec st s).map (·.addr)
  | .unknown => none

/-- a token that is not an assigned symbol: a `0x…` or decimal literal. -/
def literal (s : Str) : Option Nat :=
  match stripPrefix? c!"0x" s >>= parseHex with
  | some n => some n
  | none => parseDec s

/-- a name used as an operand: the location counter, a symbol, or a literal. (A script ld
accepts never assigns to a token that lexes as a number, so looking the name up first is the
same as lexing first.) -/
def operand (st : St) (s : Str) : Option Nat :=
  if s = c!"." then some st.dot
  else match lookupLast s st.syms with
    | some v => resolve st v
    | none => literal s

/-- the location counter as an expression sees it: relative to the start of the output
section inside one, absolute outside. -/
def relDot (st : St) : Nat :=
  match st.cur with
  | some c => st.dot - c.addr
  | none => st.dot

def base (st : St) : Nat :=
  match st.cur with
  | some c => c.addr
  | none => 0

def eval (st : St) : Expr → Val
  | .hex8 n => .num n
  | .hex n => .num n
  | .dot => .num st.dot
  | .sym s =>
    (match lookupLast s st.syms with
     | some v => (match resolve st v with | some n => .num n | none => v)
     | none =>
       match literal s with
       | some n => .num n
       | none => .unknown)
  | .addr sec =>
    (match findSec st sec with
     | some o => .num o.addr
     | none =>
       match st.cur with
       | some c => if c.name = sec then .num c.addr else .addrOf sec
       | none => .addrOf sec)
  | .sizeofE sec => .num ((findSec st sec).map (·.size) |>.getD 0)
  | .alignE o n =>
    if o = c!"." then .num (base st + alignUp (relDot st) n)
    else (match operand st o with | some v => .num (alignUp v n) | none => .unknown)
  | .maxE a b =>
    (match operand st a, operand st b with
     | some x, some y => .num (max x y)
     | _, _ => .unknown)
  | .absSub a b =>
    (match operand st a, operand st b with
     | some x, some y => .num ((x + M32 - y % M32) % M32)
     | _, _ => .unknown)
  | .sub a b =>
    (match operand st a, operand st b with
     | some x, some y => .num ((x + M32 - y % M32) % M32)
     | _, _ => .unknown)
  | .dotPlus off =>
    (match parseHex off with
     | some k => .num ((st.dot + k) % M32)
     | none => .unknown)

/-- does an input statement select this input section? (file names are compared literally:
the harness only links paths without glob characters) -/
def selects (path : Str) (member : Option Str) (sec : Str) (wild : Bool) (i : InSec) : Bool :=
  i.path = path
  && (match member with
      | none => i.member.isNone
      | some m => if m = c!"*" then i.member.isSome else i.member = some m)
  && (if wild then sec.isPrefixOf i.sec else i.sec = sec)

def isFree (st : St) (i : InSec) : Bool :=
  !(st.placed.any fun p => p.inp = i) && !(st.discarded.any fun d => d = i)

def effAlign (sub : Option Nat) (i : InSec) : Nat :=
  match sub with
  | some n => n
  | none => i.align

/-- place the selected free input sections, in command-line order: each at the next multiple
of its (or the section's `SUBALIGN`) alignment. -/
def placeAll (out : Str) (sub : Option Nat) : St → List InSec → St
  | st, [] => st
  | st, i :: rest =>
    let a := alignUp st.dot (effAlign sub i)
    placeAll out sub { st with dot := a + i.size, placed := st.placed ++ [⟨i, a, out⟩] } rest

/-- the statements up to the closing brace of the current block. -/
def blockBody : List Line → List Line
  | [] => []
  | .blockClose :: _ => []
  | l :: rest => l :: blockBody rest

/-- the input sections the statements of a block will take, in order (first match wins, also
against what earlier statements of the same block take). -/
def willTake (objs : List InSec) (st : St) : List Line → List InSec → List InSec
  | [], acc => acc
  | .input _ p m s w :: rest, acc =>
    let sel := objs.filter fun i => selects p m s w i && isFree st i && !(acc.any fun x => x = i)
    willTake objs st rest (acc ++ sel)
  | _ :: rest, acc => willTake objs st rest acc

/-- the alignment of an output section: the largest alignment among the input sections it
takes — their own, and the `SUBALIGN` value that replaces it for placing them. -/
def maxAlign (sub : Option Nat) (l : List InSec) : Nat :=
  l.foldl (fun m i => max m (max i.align (effAlign sub i))) 1

/-- where an output section starts: at the value of its address expression, otherwise at the
location counter rounded up to the alignment `al` of its contents. -/
def hdrStart (st : St) (addr : Option Str) (al : Nat) : Nat :=
  match addr with
  | some a => (match operand st a with | some v => v | none => st.dot)
  | none => alignUp st.dot al

/-- a symbol is assigned between the braces (then ld keeps the section even when empty). -/
def hasSymbol (body : List Line) : Bool :=
  body.any fun l => match l with
    | .assign s _ _ _ _ => s ≠ c!"."
    | .addAssign s _ => s ≠ c!"."
    | _ => false

def closedSec (c : Cur) (dot : Nat) : OutSec := ⟨c.name, c.addr, dot - c.addr, c.lma, c.noload, c.align⟩

def setSym (st : St) (s : Str) (v : Val) : St := { st with syms := st.syms ++ [(s, v)] }

/-- one statement. `rest` is what follows it (an output-section header looks ahead to the end
of its block for the alignment its contents require). -/
def step (objs : List InSec) (st : St) (l : Line) (rest : List Line) : St :=
  match l with
  | .assign s e _ _ _ =>
    if st.inDiscard then st
    else if s = c!"." then
      (match eval st e with
       | .num n => { st with dot := n }
       | _ => st)
    else setSym st s (eval st e)
  | .addAssign s e =>
    if st.inDiscard then st
    else if s = c!"." then
      (match eval st e with
       | .num n => { st with dot := st.dot + n }
       | _ => st)
    else
      (match operand st s, eval st e with
       | some a, .num b => setSym st s (.num (a + b))
       | _, _ => setSym st s .unknown)
  | .outHdr name noload addr lma sub =>
    let takes := willTake objs st (blockBody rest) []
    let al := maxAlign sub takes
    let start := hdrStart st addr al
    { st with dot := start,
              cur := some ⟨name, start, lma.bind (operand st), noload, sub, al, st.dot, hasSymbol (blockBody rest)⟩ }
  | .input _ p m s w =>
    (match st.cur with
     | some c =>
       let sel := objs.filter fun i => selects p m s w i && isFree st i
       placeAll c.name c.subalign st sel
     | none => st)
  | .singleEntry sec addr =>
    let start := (operand st addr).getD st.dot
    let sel := objs.filter fun i => i.sec = sec && isFree st i
    let st₁ := placeAll sec none { st with dot := start } sel
    { st₁ with secs := st₁.secs ++ [⟨sec, start, st₁.dot - start, none, false, maxAlign none sel⟩] }
  | .discardHdr => { st with inDiscard := true }
  | .discardPat pat =>
    if st.inDiscard then
      let sel := objs.filter fun i => (pat = c!"*" || i.sec = pat) && isFree st i
      { st with discarded := st.discarded ++ sel }
    else st
  | .blockClose =>
    (match st.cur with
     | some c =>
       if !c.keep && st.dot = c.addr then
         -- an output section without contents and without symbols is removed; the location
         -- counter is what it was in front of it. (Whether ld really removes it depends on the
         -- padding its first sizing pass saw — with `SUBALIGN` it may keep it; such scripts,
         -- which only single-segment layouts with zero-size input sections produce, are flagged
         -- `emptied` and are outside what this semantics claims.)
         { st with cur := none, dot := c.dot0, emptied := true }
       else
       { st with cur := none, secs := st.secs ++ [closedSec c st.dot] }
     | none => { st with inDiscard := false })
  | _ => st

def exec (objs : List InSec) : St → List Line → St
  | st, [] => st
  | st, l :: rest => exec objs (step objs st l rest) rest

/-- executing `a` when `k` follows it (`exec objs st l = execK objs st l []`). -/
def execK (objs : List InSec) : St → List Line → List Line → St
  | st, [], _ => st
  | st, l :: r, k => execK objs (step objs st l (r ++ k)) r k

/-- the linked image: final symbol values (forward `ADDR` resolved), output sections, the
address of every placed input section, the discarded ones. -/
structure Image where
  emptied : Bool
  syms : List (Str × Option Nat)
  secs : List OutSec
  placed : List Placed
  discarded : List InSec

/-- the symbol table a pass leaves to the next one: last value of every name, forward `ADDR`
resolved against the sections of that pass. -/
def carry (st : St) : List (Str × Val) :=
  (dedup (st.syms.map (·.1))).map fun n =>
    (n, match (lookupLast n st.syms) >>= resolve st with
        | some v => Val.num v
        | none => Val.unknown)

/-- one evaluation of the whole script, starting from the symbols an earlier evaluation left
(GNU ld sizes the sections more than once and keeps its symbol table in between, so a symbol
read before its assignment — the end of a vram class whose members come later — has the value
of the previous evaluation). -/
def pass (objs : List InSec) (ls : List Line) (syms : List (Str × Val)) : St :=
  exec objs { syms := syms } ls

def imageOf (st : St) : Image :=
  { emptied := st.emptied,
    syms := (carry st).map fun kv => (kv.1, match kv.2 with | .num n => some n | _ => none),
    secs := st.secs, placed := st.placed, discarded := st.discarded }

/-- `n + 1` evaluations. -/
def passes (objs : List InSec) (ls : List Line) (defsyms : List (Str × Val)) : Nat → St
  | 0 => pass objs ls defsyms
  | n + 1 => pass objs ls (carry (passes objs ls defsyms n))

def link (objs : List InSec) (defsyms : List (Str × Nat)) (ls : List Line) : Image :=
  imageOf (passes objs ls (defsyms.map fun kv => (kv.1, Val.num kv.2)) 2)

/-- the evaluation has settled: one more evaluation gives the same symbols and sections. -/
def stable (objs : List InSec) (defsyms : List (Str × Nat)) (ls : List Line) : Bool :=
  let d := defsyms.map fun kv => (kv.1, Val.num kv.2)
  let a := imageOf (passes objs ls d 2)
  let b := imageOf (passes objs ls d 3)
  a.syms == b.syms && a.secs.map (fun o => (o.name, o.addr, o.size)) == b.secs.map (fun o => (o.name, o.addr, o.size))

def Image.sym (im : Image) (n : Str) : Option Nat := (lookup n im.syms).bind id

end Ld
end Slinky
