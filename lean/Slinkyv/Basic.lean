/-
  Slinkyv.Basic — text, numbers and small list utilities shared by the model.
  The model is import-free (core Lean only) so that the driver links as a `lean_exe`.
  Text is `List Char` everywhere (`Str`); string literals are written `c!"..."`, which
  expands at elaboration time to a literal list of characters so that closed terms reduce
  in the kernel (`decide` witnesses).
-/
namespace Slinky

abbrev Str := List Char

open Lean in
/-- `c!"abc"` is `['a','b','c']`. -/
macro:max "c!" s:str : term => do
  let cs := s.getString.toList
  let elems : Array (TSyntax `term) := cs.toArray.map fun c => ⟨(Syntax.mkCharLit c).raw⟩
  `(([$elems,*] : List Char))

/-- Upper-case hexadecimal without padding (`{:X}`). -/
def toHex (n : Nat) : Str := (Nat.toDigits 16 n).map Char.toUpper

/-- `{:08X}`. -/
def toHex8 (n : Nat) : Str :=
  let d := toHex n
  List.replicate (8 - d.length) '0' ++ d

/-- decimal (`{}` on an unsigned integer). -/
def toDec (n : Nat) : Str := Nat.toDigits 10 n

/-- `{:X}` on an `i32`: two's complement. -/
def toHexI32 (i : Int) : Str :=
  if i < 0 then toHex (4294967296 - i.natAbs) else toHex i.toNat

def joinWith (sep : Str) : List Str → Str
  | [] => []
  | [x] => x
  | x :: xs => x ++ sep ++ joinWith sep xs

/-- first-occurrence de-duplication (the behaviour of `IndexSet::insert`). -/
def dedupAux {α} [DecidableEq α] (seen : List α) : List α → List α
  | [] => []
  | x :: xs => if x ∈ seen then dedupAux seen xs else x :: dedupAux (x :: seen) xs

def dedup {α} [DecidableEq α] (l : List α) : List α := dedupAux [] l

/-- association-list lookup, first match. -/
def lookup {β} (k : Str) : List (Str × β) → Option β
  | [] => none
  | (k', v) :: rest => if k' = k then some v else lookup k rest

/-- `HashMap::extend`/`insert` semantics on a list of pairs given in insertion order:
the last pair with the key wins. -/
def lookupLast {β} (k : Str) (l : List (Str × β)) : Option β := lookup k l.reverse

/-- position of the first element equal to `x`. -/
def position (x : Str) : List Str → Option Nat
  | [] => none
  | y :: ys => if y = x then some 0 else (position x ys).map (· + 1)

/-- map-and-concatenate with early exit on the first error, left to right. -/
def concatMapE {α β ε} (f : α → Except ε (List β)) : List α → Except ε (List β)
  | [] => .ok []
  | a :: as =>
    match f a with
    | .error e => .error e
    | .ok x =>
      match concatMapE f as with
      | .error e => .error e
      | .ok y => .ok (x ++ y)

def mapE {α β ε} (f : α → Except ε β) : List α → Except ε (List β)
  | [] => .ok []
  | a :: as =>
    match f a with
    | .error e => .error e
    | .ok x =>
      match mapE f as with
      | .error e => .error e
      | .ok y => .ok (x :: y)

/-- lexicographic "less than" on texts by code point (Rust's `str` ordering: byte-wise on
UTF-8, which coincides with code-point order). -/
def strLt : Str → Str → Bool
  | [], [] => false
  | [], _ :: _ => true
  | _ :: _, [] => false
  | a :: as, b :: bs => if a.toNat < b.toNat then true else if b.toNat < a.toNat then false else strLt as bs

def startsWith (p s : Str) : Bool := p.isPrefixOf s

def endsWith (p s : Str) : Bool := p.reverse.isPrefixOf s.reverse

/-- split on a separator character, keeping empty pieces. -/
def splitOn (sep : Char) : Str → List Str
  | [] => [[]]
  | c :: cs =>
    match splitOn sep cs with
    | [] => [[]]   -- unreachable
    | p :: ps => if c = sep then [] :: p :: ps else (c :: p) :: ps

end Slinky
