/-
  Slinkyv.Script — the abstract syntax of exactly what slinky writes (one constructor per
  `ScriptBuffer` operation, slinky/src/script_buffer.rs), its rendering to text with the
  buffer's indentation rule, and the symbol-name tables of `LinkerSymbolsStyle`.
-/
import Slinkyv.Types
namespace Slinky

/-- expressions slinky itself composes; user-supplied text is `sym`. -/
inductive Expr
  | hex8 (n : Nat)              -- 0x%08X
  | dot                         -- .
  | sym (s : Str)               -- a symbol name or opaque user text, printed as is
  | addr (sec : Str)            -- ADDR(sec)
  | sizeofE (sec : Str)         -- SIZEOF(sec)
  | alignE (of : Str) (n : Nat) -- ALIGN(of, 0x%X)
  | maxE (a b : Str)            -- MAX(a, b)
  | absSub (a b : Str)          -- ABSOLUTE(a - b)
  | sub (a b : Str)             -- a - b
  | dotPlus (off : Str)         -- . + 0x<off>   (off already printed in hex)
  | hex (n : Nat)               -- 0x%X
  deriving DecidableEq, Repr

def Expr.render : Expr → Str
  | .hex8 n => c!"0x" ++ toHex8 n
  | .dot => c!"."
  | .sym s => s
  | .addr s => c!"ADDR(" ++ s ++ c!")"
  | .sizeofE s => c!"SIZEOF(" ++ s ++ c!")"
  | .alignE o n => c!"ALIGN(" ++ o ++ c!", 0x" ++ toHex n ++ c!")"
  | .maxE a b => c!"MAX(" ++ a ++ c!", " ++ b ++ c!")"
  | .absSub a b => c!"ABSOLUTE(" ++ a ++ c!" - " ++ b ++ c!")"
  | .sub a b => a ++ c!" - " ++ b
  | .dotPlus off => c!". + 0x" ++ off
  | .hex n => c!"0x" ++ toHex n

/-- one line of a generated script. `linker` on an assignment records that the symbol was
written through `write_linker_symbol` (it enters the header); it is invisible in the text. -/
inductive Line
  | comment (t : Str)
  | blank
  | sectionsKw
  | blockOpen
  | blockClose
  | assign (sym : Str) (e : Expr) (provide hidden linker : Bool)
  | addAssign (sym : Str) (e : Expr)
  | outHdr (name : Str) (noload : Bool) (addr : Option Str) (lma : Option Str) (subalign : Option Nat)
  | fill (n : Nat)
  | input (keep : Bool) (path : Str) (member : Option Str) (sec : Str) (wild : Bool)
  | singleEntry (sec : Str) (addr : Str)
  | discardHdr
  | discardPat (pat : Str)
  | entry (e : Str)
  | extern (n : Str)
  | assertL (cond msg : Str)
  | unknown (t : Str)
  deriving DecidableEq, Repr

def Line.renderBody : Line → Str
  | .comment t => c!"/* " ++ t ++ c!" */"
  | .blank => []
  | .sectionsKw => c!"SECTIONS"
  | .blockOpen => c!"{"
  | .blockClose => c!"}"
  | .assign s e p h _ =>
    let core := s ++ c!" = " ++ e.render
    match p, h with
    | true, true => c!"PROVIDE_HIDDEN(" ++ core ++ c!");"
    | true, false => c!"PROVIDE(" ++ core ++ c!");"
    | false, true => c!"HIDDEN(" ++ core ++ c!");"
    | false, false => core ++ c!";"
  | .addAssign s e => s ++ c!" += " ++ e.render ++ c!";"
  | .outHdr name noload addr lma sub =>
    name
      ++ (if noload then c!" (NOLOAD) :" else
            (match addr with | some a => c!" " ++ a | none => []) ++ c!" :"
            ++ (match lma with | some r => c!" AT(" ++ r ++ c!")" | none => []))
      ++ (match sub with | some k => c!" SUBALIGN(" ++ toDec k ++ c!")" | none => [])
  | .fill n => c!"FILL(0x" ++ toHex8 n ++ c!");"
  | .input keep path member sec wild =>
    (if keep then c!"KEEP(" else []) ++ path
      ++ (match member with | some m => c!":" ++ m | none => [])
      ++ c!"(" ++ sec ++ (if wild then c!"*" else []) ++ c!")"
      ++ (if keep then c!")" else []) ++ c!";"
  | .singleEntry sec addr => sec ++ c!" " ++ addr ++ c!" : { *(" ++ sec ++ c!"); }"
  | .discardHdr => c!"/DISCARD/ :"
  | .discardPat p => c!"*(" ++ p ++ c!");"
  | .entry e => c!"ENTRY(" ++ e ++ c!");"
  | .extern n => c!"EXTERN(" ++ n ++ c!");"
  | .assertL cond msg => c!"ASSERT((" ++ cond ++ c!"), \"Error: " ++ msg ++ c!"\");"
  | .unknown t => t

def indentOf (n : Nat) : Str := (List.replicate n c!"    ").flatten

/-- `ScriptBuffer`: `writeln` prefixes the current indentation, `write_empty_line` does not,
`begin_block` writes `{` then indents, `end_block` unindents then writes `}`. -/
def renderLines : Nat → List Line → List Str
  | _, [] => []
  | n, .blank :: rest => [] :: renderLines n rest
  | n, .blockOpen :: rest => (indentOf n ++ c!"{") :: renderLines (n + 1) rest
  | n, .blockClose :: rest => (indentOf (n - 1) ++ c!"}") :: renderLines (n - 1) rest
  | n, l :: rest => (indentOf n ++ l.renderBody) :: renderLines n rest

/-- `export_linker_script`: every line followed by a line break. -/
def renderScript (ls : List Line) : Str :=
  ((renderLines 0 ls).map (· ++ ['\n'])).flatten

/-! ### `LinkerSymbolsStyle` -/

def replaceDotUpper (s : Str) : Str := s.map (fun c => if c = '.' then '_' else c.toUpper)

/-- `utils::capitalize` on ASCII text. -/
def capitalize : Str → Str
  | [] => []
  | c :: cs => c.toUpper :: cs

def Style.sectionName (st : Style) (sec : Str) : Str :=
  match st with
  | .splat => replaceDotUpper sec
  | .makerom =>
    if sec = c!".rodata" then c!"RoData"
    else match sec with
      | '.' :: rest => capitalize rest
      | _ => capitalize sec

def Style.segRomStart (st : Style) (n : Str) : Str :=
  match st with | .splat => n ++ c!"_ROM_START" | .makerom => c!"_" ++ n ++ c!"SegmentRomStart"
def Style.segRomEnd (st : Style) (n : Str) : Str :=
  match st with | .splat => n ++ c!"_ROM_END" | .makerom => c!"_" ++ n ++ c!"SegmentRomEnd"
def Style.segRomSize (st : Style) (n : Str) : Str :=
  match st with | .splat => n ++ c!"_ROM_SIZE" | .makerom => c!"_" ++ n ++ c!"SegmentRomSize"
def Style.segVramStart (st : Style) (n : Str) : Str :=
  match st with | .splat => n ++ c!"_VRAM" | .makerom => c!"_" ++ n ++ c!"SegmentStart"
def Style.segVramEnd (st : Style) (n : Str) : Str :=
  match st with | .splat => n ++ c!"_VRAM_END" | .makerom => c!"_" ++ n ++ c!"SegmentEnd"
def Style.segVramSize (st : Style) (n : Str) : Str :=
  match st with | .splat => n ++ c!"_VRAM_SIZE" | .makerom => c!"_" ++ n ++ c!"SegmentSize"
def Style.secStart (st : Style) (n sec : Str) : Str :=
  match st with
  | .splat => n ++ st.sectionName sec ++ c!"_START"
  | .makerom => c!"_" ++ n ++ c!"Segment" ++ st.sectionName sec ++ c!"Start"
def Style.secEnd (st : Style) (n sec : Str) : Str :=
  match st with
  | .splat => n ++ st.sectionName sec ++ c!"_END"
  | .makerom => c!"_" ++ n ++ c!"Segment" ++ st.sectionName sec ++ c!"End"
def Style.secSize (st : Style) (n sec : Str) : Str :=
  match st with
  | .splat => n ++ st.sectionName sec ++ c!"_SIZE"
  | .makerom => c!"_" ++ n ++ c!"Segment" ++ st.sectionName sec ++ c!"Size"
def Style.linkerOffset (st : Style) (n : Str) : Str :=
  match st with | .splat => n ++ c!"_OFFSET" | .makerom => c!"_" ++ n ++ c!"Offset"
def Style.classStart (st : Style) (n : Str) : Str :=
  match st with | .splat => n ++ c!"_VRAM_CLASS_START" | .makerom => c!"_" ++ n ++ c!"VramClassStart"
def Style.classEnd (st : Style) (n : Str) : Str :=
  match st with | .splat => n ++ c!"_VRAM_CLASS_END" | .makerom => c!"_" ++ n ++ c!"VramClassEnd"
def Style.classSize (st : Style) (n : Str) : Str :=
  match st with | .splat => n ++ c!"_VRAM_CLASS_SIZE" | .makerom => c!"_" ++ n ++ c!"VramClassSize"

end Slinky
