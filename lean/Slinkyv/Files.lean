/-
  Slinkyv.Files — what the file exports write (`export_linker_script_to_file`,
  `save_other_files` of both writers, as driven by slinky-cli's `write_script`), over an
  abstract file system: an association list from normalised relative path to content,
  with "create parents, create-or-truncate, write" as the only operation.
-/
import Slinkyv.Exports
namespace Slinky

abbrev Fs := List (Str × Str)

/-- the path the OS resolves: components without `.` (callers keep `..` and absolute paths out). -/
def normPath (raw : Str) : Str := joinWith ['/'] ((components raw).filter (· ≠ ['.']))

/-- create-or-truncate and write: any previous content is fully replaced. -/
def Fs.write (fs : Fs) (raw : Str) (content : Str) : Fs :=
  let p := normPath raw
  (fs.filter (·.1 ≠ p)) ++ [(p, content)]

structure FileRun where
  fs : Fs
  stdout : Option Str

def escOpt (o : Opts) (p : Option Str) : R (Option Str) :=
  match optEscape o p with
  | .ok r => .ok r
  | .error e => .error (.err e)

/-- `LinkerWriter::save_other_files` for a writer whose lines are `ls`. -/
def saveOtherMain (d : Document) (o : Opts) (vc : Bool) (ls : List Line) (fs : Fs) : R Fs :=
  match escOpt o d.settings.dPath with
  | .error e => .error e
  | .ok dp =>
    let fs₁ : R Fs :=
      match dp with
      | none => .ok fs
      | some dpath =>
        match escOpt o d.settings.targetPath with
        | .error e => .error e
        | .ok none => .ok fs
        | .ok (some t) => .ok (fs.write dpath (depsText vc (display t) (filesPaths ls)))
    match fs₁ with
    | .error e => .error e
    | .ok fs₁ =>
      match escOpt o d.settings.symbolsHeaderPath with
      | .error e => .error e
      | .ok none => .ok fs₁
      | .ok (some hp) =>
        .ok (fs₁.write hp (headerText vc d.settings.symbolsHeaderType d.settings.symbolsHeaderAsArray (linkerSymbols ls)))

/-- slinky-cli's `write_script` on top of a prior file system. -/
def fileRun (d : Document) (o : Opts) (m : Mode) (vc : Bool) (out : Option Str) (fs : Fs) : R FileRun :=
  match m with
  | .normal =>
    match generateNormal d o vc with
    | .error e => .error e
    | .ok ls =>
      let step₁ : R FileRun :=
        match out with
        | some op =>
          match escapePath o op with
          | .error e => .error (.err e)
          | .ok p => .ok { fs := fs.write p (renderScript ls), stdout := none }
        | none => .ok { fs := fs, stdout := some (renderScript ls) }
      match step₁ with
      | .error e => .error e
      | .ok r =>
        match saveOtherMain d o vc ls r.fs with
        | .error e => .error e
        | .ok fs' => .ok { r with fs := fs' }
  | .partialLink =>
    match generatePartial d o vc with
    | .error e => .error e
    | .ok po =>
      let ps := po.partials.map (fun p => (p.1, renderScript p.2))
      let step₁ : R FileRun :=
        match out with
        | some op =>
          match escapePath o op with
          | .error e => .error (.err e)
          | .ok p =>
            match escOpt o d.settings.partialScriptsFolder with
            | .error e => .error e
            | .ok none => .error (.err .missingRequiredField)
            | .ok (some psf) =>
              let fs₁ := fs.write p (renderScript po.main)
              .ok { fs := ps.foldl (fun acc q => acc.write (pathPush psf (q.1 ++ c!".ld")) q.2) fs₁, stdout := none }
        | none => .ok { fs := fs, stdout := some (joinWith c!"\n" (renderScript po.main :: ps.map (·.2))) }
      match step₁ with
      | .error e => .error e
      | .ok r =>
        -- PartialLinkerWriter::save_other_files
        match escapePath o d.settings.basePath with
        | .error e => .error (.err e)
        | .ok base =>
          match escOpt o d.settings.partialBuildSegmentsFolder with
          | .error e => .error e
          | .ok none => .error (.err .missingRequiredField)
          | .ok (some pbsf) =>
            match escOpt o d.settings.partialScriptsFolder with
            | .error e => .error e
            | .ok none => .error (.err .missingRequiredField)
            | .ok (some psf) =>
              match saveOtherMain d o vc po.main r.fs with
              | .error e => .error e
              | .ok fs₂ =>
                if d.settings.dPath.isSome then
                  .ok { r with fs := po.partials.foldl (fun acc q =>
                      acc.write (pathPush psf (q.1 ++ c!".d"))
                        (depsText vc (display (pathPush (pathExtend base pbsf) (q.1 ++ c!".o"))) (filesPaths q.2))) fs₂ }
                else .ok { r with fs := fs₂ }

end Slinky
