/-
  Slinkyv.Parse — classifies the lines of a real script text back into `Line`s, and reads
  dependency files and symbol headers back into their parts. Used to evaluate the
  property predicates on what the implementation produced.
-/
import Slinkyv.Script
namespace Slinky

def stripPrefix? (p s : Str) : Option Str :=
  if p.isPrefixOf s then some (s.drop p.length) else none

def stripSuffix? (p s : Str) : Option Str :=
  if endsWith p s then some (s.take (s.length - p.length)) else none

/-- split at the first occurrence of `sep`. -/
def splitFirst (sep : Str) : Str → Option (Str × Str)
  | [] => if sep = [] then some ([], []) else none
  | c :: cs =>
    if sep.isPrefixOf (c :: cs) then some ([], (c :: cs).drop sep.length)
    else match splitFirst sep cs with
      | some (a, b) => some (c :: a, b)
      | none => none

/-- split at the last occurrence of `sep`. -/
def splitLast (sep : Str) (s : Str) : Option (Str × Str) :=
  match splitFirst sep.reverse s.reverse with
  | some (a, b) => some (b.reverse, a.reverse)
  | none => none

def hexVal (c : Char) : Option Nat :=
  if '0' ≤ c ∧ c ≤ '9' then some (c.toNat - '0'.toNat)
  else if 'A' ≤ c ∧ c ≤ 'F' then some (c.toNat - 'A'.toNat + 10)
  else if 'a' ≤ c ∧ c ≤ 'f' then some (c.toNat - 'a'.toNat + 10)
  else none

def parseHex (s : Str) : Option Nat :=
  if s = [] then none
  else s.foldl (fun acc c => match acc, hexVal c with
    | some a, some v => some (a * 16 + v)
    | _, _ => none) (some 0)

def parseDec (s : Str) : Option Nat :=
  if s = [] then none
  else s.foldl (fun acc c =>
    match acc with
    | some a => if '0' ≤ c ∧ c ≤ '9' then some (a * 10 + (c.toNat - '0'.toNat)) else none
    | none => none) (some 0)

def parseExpr (t : Str) : Expr :=
  if t = c!"." then .dot
  else match stripPrefix? c!". + 0x" t with
  | some off => .dotPlus off
  | none =>
  match stripPrefix? c!"ADDR(" t >>= stripSuffix? c!")" with
  | some s => .addr s
  | none =>
  match stripPrefix? c!"SIZEOF(" t >>= stripSuffix? c!")" with
  | some s => .sizeofE s
  | none =>
  match stripPrefix? c!"ALIGN(" t >>= stripSuffix? c!")" >>= splitLast c!", 0x" with
  | some (a, n) => (match parseHex n with | some v => .alignE a v | none => .sym t)
  | none =>
  match stripPrefix? c!"MAX(" t >>= stripSuffix? c!")" >>= splitFirst c!", " with
  | some (a, b) => .maxE a b
  | none =>
  match stripPrefix? c!"ABSOLUTE(" t >>= stripSuffix? c!")" >>= splitFirst c!" - " with
  | some (a, b) => .absSub a b
  | none =>
  match stripPrefix? c!"0x" t with
  | some h => (match parseHex h with
      | some v => if h.length = 8 then .hex8 v else .hex v
      | none => .sym t)
  | none =>
  match splitFirst c!" - " t with
  | some (a, b) => .sub a b
  | none => .sym t

def parseAssignCore (core : Str) (p h : Bool) : Option Line :=
  match splitFirst c!" = " core with
  | some (s, v) => some (.assign s (parseExpr v) p h false)
  | none => none

def parseInput (t : Str) : Option Line :=
  -- t has no trailing `;`
  let (keep, body) :=
    match stripPrefix? c!"KEEP(" t >>= stripSuffix? c!")" with
    | some b => (true, b)
    | none => (false, t)
  match stripSuffix? c!")" body >>= splitLast c!"(" with
  | some (file, sec) =>
    let (sec', wild) := match stripSuffix? c!"*" sec with
      | some s => (s, true)
      | none => (sec, false)
    (match splitLast c!":" file with
     | some (p, m) => some (.input keep p (some m) sec' wild)
     | none => some (.input keep file none sec' wild))
  | none => none

def parseHdr (t : Str) : Option Line :=
  -- `<name>[ <addr>] :[ AT(<rom>)][ SUBALIGN(<n>)]`  or  `<name> (NOLOAD) :[ SUBALIGN(<n>)]`
  let (t₁, sub) : Str × Option Nat :=
    match splitLast c!" SUBALIGN(" t with
    | some (a, b) =>
      (match stripSuffix? c!")" b >>= parseDec with
       | some n => (a, some n)
       | none => (t, none))
    | none => (t, none)
  match stripSuffix? c!" (NOLOAD) :" t₁ with
  | some name => some (.outHdr name true none none sub)
  | none =>
    let (t₂, lma) : Str × Option Str :=
      match splitLast c!" : AT(" t₁ with
      | some (a, b) =>
        (match stripSuffix? c!")" b with
         | some r => (a ++ c!" :", some r)
         | none => (t₁, none))
      | none => (t₁, none)
    match stripSuffix? c!" :" t₂ with
    | some left =>
      (match splitFirst c!" " left with
       | some (name, addr) => some (.outHdr name false (some addr) lma sub)
       | none => some (.outHdr left false none lma sub))
    | none => none

def dropSpaces : Str → Str
  | ' ' :: cs => dropSpaces cs
  | cs => cs

def parseLine (raw : Str) : Line :=
  let t := dropSpaces raw
  if t = [] then .blank
  else if t = c!"SECTIONS" then .sectionsKw
  else if t = c!"{" then .blockOpen
  else if t = c!"}" then .blockClose
  else if t = c!"/DISCARD/ :" then .discardHdr
  else
  match stripPrefix? c!"/* " t >>= stripSuffix? c!" */" with
  | some x => .comment x
  | none =>
  match stripPrefix? c!"ENTRY(" t >>= stripSuffix? c!");" with
  | some x => .entry x
  | none =>
  match stripPrefix? c!"EXTERN(" t >>= stripSuffix? c!");" with
  | some x => .extern x
  | none =>
  match stripPrefix? c!"ASSERT((" t >>= stripSuffix? c!"\");" >>= splitFirst c!"), \"Error: " with
  | some (a, b) => .assertL a b
  | none =>
  match stripPrefix? c!"FILL(0x" t >>= stripSuffix? c!");" >>= parseHex with
  | some n => .fill n
  | none =>
  match stripPrefix? c!"*(" t >>= stripSuffix? c!");" with
  | some p => .discardPat p
  | none =>
  match stripSuffix? c!"); }" t >>= splitFirst c!" : { *(" with
  | some (left, sec) =>
    (match splitLast c!" " left with
     | some (s, addr) => if s = sec then .singleEntry sec addr else .unknown t
     | none => .unknown t)
  | none =>
  match stripPrefix? c!"PROVIDE_HIDDEN(" t >>= stripSuffix? c!");" >>= (parseAssignCore · true true) with
  | some l => l
  | none =>
  match stripPrefix? c!"PROVIDE(" t >>= stripSuffix? c!");" >>= (parseAssignCore · true false) with
  | some l => l
  | none =>
  match stripPrefix? c!"HIDDEN(" t >>= stripSuffix? c!");" >>= (parseAssignCore · false true) with
  | some l => l
  | none =>
  match stripSuffix? c!";" t with
  | some body =>
    (match splitFirst c!" += " body with
     | some (s, v) => .addAssign s (parseExpr v)
     | none =>
       match parseAssignCore body false false with
       | some l => l
       | none =>
         match parseInput body with
         | some l => l
         | none => .unknown t)
  | none =>
    match parseHdr t with
    | some l => l
    | none => .unknown t

def lines (s : Str) : List Str :=
  match (splitOn '\n' s).reverse with
  | [] :: rest => rest.reverse     -- text ends with a line break
  | l => l.reverse

def parseScript (text : Str) : List Line := (lines text).map parseLine

/-- dependency file: (target, prerequisites, rule targets). -/
structure DepsFile where
  target : Str
  prereqs : List Str
  rules : List Str
  wellFormed : Bool
  deriving DecidableEq, Repr

def parseDeps (text : Str) : DepsFile :=
  let ls := (lines text).filter (fun l => !(c!"#").isPrefixOf l)
  -- drop leading blanks
  let ls := ls.dropWhile (· = [])
  match ls with
  | [] => ⟨[], [], [], false⟩
  | first :: rest =>
    let (tgt, cont) := match stripSuffix? c!" \\" first with
      | some x => (x, true)
      | none => (first, false)
    match stripSuffix? c!":" tgt with
    | none => ⟨[], [], [], false⟩
    | some target =>
      let rec go (cont : Bool) (acc : List Str) : List Str → List Str × List Str
        | [] => (acc.reverse, [])
        | l :: more =>
          if cont then
            match stripPrefix? c!"    " l with
            | some body =>
              (match stripSuffix? c!" \\" body with
               | some b => go true (b :: acc) more
               | none => go false (body :: acc) more)
            | none => (acc.reverse, l :: more)
          else (acc.reverse, l :: more)
      let (prereqs, tail) := go cont [] rest
      let tail' := tail.filter (· ≠ [])
      let rules := tail'.filterMap (stripSuffix? c!":")
      ⟨target, prereqs, rules, rules.length = tail'.length && (tail.head? = some [] || tail = [])⟩

/-- symbols header: declared `(type, name, isArray)` in order, and whether the guard frame is intact. -/
structure HeaderFile where
  decls : List (Str × Str × Bool)
  framed : Bool
  deriving DecidableEq, Repr

def parseHeader (text : Str) : HeaderFile :=
  let ls := lines text
  let ls := match ls with
    | a :: b :: rest => if (c!"/* ").isPrefixOf a && b = [] then rest else ls
    | _ => ls
  match ls with
  | g1 :: g2 :: g3 :: rest =>
    let okTop := g1 = c!"#ifndef HEADER_SYMBOLS_H" && g2 = c!"#define HEADER_SYMBOLS_H" && g3 = []
    match rest.reverse with
    | e :: b :: body =>
      let okBot := e = c!"#endif" && b = []
      let decls := body.reverse.map (fun l =>
        match stripPrefix? c!"extern " l >>= stripSuffix? c!";" >>= splitLast c!" " with
        | some (ty, nm) =>
          (match stripSuffix? c!"[]" nm with
           | some n => some (ty, n, true)
           | none => some (ty, nm, false))
        | none => none)
      ⟨decls.filterMap id, okTop && okBot && decls.all Option.isSome⟩
    | _ => ⟨[], false⟩
  | _ => ⟨[], false⟩

end Slinky
