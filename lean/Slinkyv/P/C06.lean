/-
  Slinkyv.P.C06 — conditional inclusion: the documented predicate, the pruning of
  excluded entries on the value tree and on the parsed document, and the comparison
  "equal up to blank lines".
-/
import Slinkyv.Unserialize
import Slinkyv.Exports
import Slinkyv.Parse
namespace Slinky
namespace C06

/-- the documented predicate, written declaratively (docs/file_format: `exclude_if_any`,
`exclude_if_all`, `include_if_any`, `include_if_all`). -/
def specEmit (o : Opts) (c : Cond) : Bool :=
  !(c.excludeIfAny.any (pairMatches o))
  && !(!c.excludeIfAll.isEmpty && c.excludeIfAll.all (pairMatches o))
  && ((c.includeIfAny.isEmpty && c.includeIfAll.isEmpty)
      || c.includeIfAny.any (pairMatches o)
      || (!c.includeIfAll.isEmpty && c.includeIfAll.all (pairMatches o)))

/-- the four lists of a record of the value tree, when they are well-formed. -/
def condOfMap (m : List (Str × Y)) : Option Cond :=
  match dCondS m with
  | .ok cs => match cs.unserialize with
    | .ok c => some c
    | .error _ => none
  | .error _ => none

def keepEntry (o : Opts) (y : Y) : Bool :=
  match y with
  | .map m => match condOfMap m with
    | some c => specEmit o c
    | none => true
  | _ => true

/-- drop the four condition lists of an entry (used on entries the predicate includes). -/
def stripCond (y : Y) : Y :=
  match y with
  | .map m => match condOfMap m with
    | some _ => .map (m.filter (fun kv => kv.1 ∉ condKeys))
    | none => y
  | _ => y

/-- delete every excluded entry of a list and make the included ones unconditional, unless
that would empty the list (`keepNonEmpty`; then the list is left as it is). -/
def pruneList (o : Opts) (keepNonEmpty : Bool) (l : List Y) : List Y :=
  let kept := l.filter (keepEntry o)
  if keepNonEmpty && kept.isEmpty then l else kept.map stripCond

def setKey (k : Str) (v : Y) : List (Str × Y) → List (Str × Y)
  | [] => []
  | (k', v') :: rest => if k' = k then (k', v) :: setKey k v rest else (k', v') :: setKey k v rest

/-- prune the files of a file entry (groups), fuel-indexed by the tree size. -/
def pruneFile (o : Opts) : Nat → Y → Y
  | 0, y => y
  | fuel + 1, .map m =>
    match lookup c!"files" m with
    | some (.seq fs) => .map (setKey c!"files" (.seq ((pruneList o false fs).map (pruneFile o fuel))) m)
    | _ => .map m
  | _ + 1, y => y

def pruneSegment (o : Opts) (y : Y) : Y :=
  match y with
  | .map m =>
    let m₁ := match lookup c!"files" m with
      | some (.seq fs) => setKey c!"files" (.seq ((pruneList o true fs).map (fun f => pruneFile o (Y.size f) f))) m
      | _ => m
    let m₂ := match lookup c!"gp_info" m₁ with
      | some g => if keepEntry o g then setKey c!"gp_info" (stripCond g) m₁ else m₁.filter (fun kv => kv.1 ≠ c!"gp_info")
      | none => m₁
    .map m₂
  | _ => y

/-- the document with every excluded entry deleted. -/
def pruneDocY (o : Opts) (y : Y) : Y :=
  match y with
  | .map m =>
    let single : Bool := match lookup c!"settings" m with
      | some (.map s) => (match lookup c!"single_segment_mode" s with
          | some (.bool true) => true
          | _ => false)
      | _ => false
    let m₁ := match lookup c!"segments" m with
      | some (.seq segs) =>
        let segs' := if single then segs else pruneList o true segs
        setKey c!"segments" (.seq (segs'.map (pruneSegment o))) m
      | _ => m
    let pruneTop (k : Str) (mm : List (Str × Y)) : List (Str × Y) :=
      match lookup k mm with
      | some (.seq l) => setKey k (.seq (pruneList o false l)) mm
      | _ => mm
    .map (pruneTop c!"asserts" (pruneTop c!"required_symbols" (pruneTop c!"symbol_assignments" m₁)))
  | _ => y

def nonBlankLines (s : Str) : List Str := (lines s).filter (fun l => dropSpaces l ≠ [])

/-- equality of two texts up to blank lines. -/
def eqModBlank (a b : Str) : Bool := nonBlankLines a = nonBlankLines b

end C06
end Slinky
