/-
  Slinkyv.P.C07 — the declarative reading of `{key}` expansion: a path component is split
  into literal pieces and `{key}` markers (a marker runs from a `{` to the next `}`); every
  marker is replaced by the value of its key, every literal piece is kept, an unterminated
  `{…` is literal text. Nothing is ever dropped.
-/
import Slinkyv.Path
import Slinkyv.Monitor
namespace Slinky
namespace C07

inductive Tok
  | lit (c : Char)        -- one literal character
  | key (k : Str)         -- `{k}`
  | unterminated (t : Str) -- `{t` up to the end of the component
  deriving DecidableEq, Repr

mutual
  def tokLit : Str → List Tok
    | [] => []
    | c :: cs => if c = '{' then tokKey [] cs else .lit c :: tokLit cs
  def tokKey (key : Str) : Str → List Tok
    | [] => [.unterminated key]
    | c :: cs => if c = '}' then .key key :: tokLit cs else tokKey (key ++ [c]) cs
end

/-- the tokens of a component. -/
def tokenize (c : Str) : List Tok := tokLit c

/-- writing the tokens back gives the component: tokenisation loses nothing. -/
def Tok.source : Tok → Str
  | .lit c => [c]
  | .key k => '{' :: k ++ ['}']
  | .unterminated t => '{' :: t

/-- all-or-error expansion of a token list, left to right. -/
def expandToks (o : Opts) : List Tok → Except Str Str
  | [] => .ok []
  | .lit c :: rest => match expandToks o rest with
    | .ok r => .ok (c :: r)
    | .error e => .error e
  | .key k :: rest => match optGet o k with
    | none => .error k
    | some v => match expandToks o rest with
      | .ok r => .ok (v ++ r)
      | .error e => .error e
  | .unterminated t :: rest => match expandToks o rest with
    | .ok r => .ok ('{' :: t ++ r)
    | .error e => .error e

/-- the specification of one component. -/
def expandComponentSpec (o : Opts) (c : Str) : Except Str Str := expandToks o (tokenize c)

def escapeComponentsSpec (o : Opts) (buf : Str) : List Str → Except ErrKind Str
  | [] => .ok buf
  | c :: cs =>
    match expandComponentSpec o c with
    | .error _ => .error .customOptionInPathNotProvided
    | .ok r => escapeComponentsSpec o (pathPush buf r) cs

/-- the specification of `escape_path`: every component expanded, pushed in order. -/
def escapePathSpec (o : Opts) (raw : Str) : Except ErrKind Str :=
  escapeComponentsSpec o [] (components raw)

/-- every path a generation shows: input statements, dependency targets and prerequisites. -/
def pathsOf (ob : Obs) : List Str :=
  inputPaths ob.lines
  ++ (ob.partialLines.map fun p => (c!"== " ++ p.1) :: inputPaths p.2).flatten
  ++ (match ob.deps with
      | some t => let d := parseDeps t; d.target :: d.prereqs
      | none => [])

end C07
end Slinky
