/-
  Slinkyv.P.C16 — the documented validity rules as one declarative table per record
  (docs/file_format/*.md), independent of the order in which the code checks them.
-/
import Slinkyv.Unserialize
namespace Slinky
namespace C16

/-- what a file kind says about a kind-specific field. -/
inductive Req
  | required     -- must carry a value
  | optional     -- absent or a value; `null` is rejected
  | forbidden    -- must not be written at all
  deriving DecidableEq, Repr

def satisfies {α} (r : Req) (a : AN α) : Bool :=
  match r, a with
  | .required, .value _ => true
  | .required, _ => false
  | .optional, .null => false
  | .optional, _ => true
  | .forbidden, .absent => true
  | .forbidden, _ => false

inductive Field | subfile | padAmount | sect | linkerOffsetName | sectionOrder | files | dir
  deriving DecidableEq, Repr

/-- the kind/field table of docs/file_format/file.md. -/
def rule : Field → FileKind → Req
  | .subfile, .archive => .optional
  | .subfile, _ => .forbidden
  | .padAmount, .pad => .required
  | .padAmount, _ => .forbidden
  | .sect, .pad => .required
  | .sect, .linkerOffset => .required
  | .sect, _ => .forbidden
  | .linkerOffsetName, .linkerOffset => .required
  | .linkerOffsetName, _ => .forbidden
  | .sectionOrder, .object => .optional
  | .sectionOrder, .archive => .optional
  | .sectionOrder, _ => .forbidden
  | .files, .group => .required
  | .files, _ => .forbidden
  | .dir, .group => .optional
  | .dir, _ => .forbidden

/-- a condition list: absent, or a non-empty list. -/
def condListValid (a : AN (List (Str × Str))) : Bool :=
  match a with
  | .absent => true
  | .null => false
  | .value l => !l.isEmpty

def condValid (c : CondS) : Bool :=
  condListValid c.includeIfAny && condListValid c.includeIfAll
  && condListValid c.excludeIfAny && condListValid c.excludeIfAll

/-- the kind of an entry: the explicit one, else guessed from the (non-empty) path. -/
def kindOf (path : AN Str) (kindA : AN FileKind) : Option FileKind :=
  match kindA with
  | .null => none
  | .value k => some k
  | .absent =>
    match path with
    | .value p => if p = [] then none else some (kindFromPath p)
    | _ => none

/-- `path`: a non-empty value for objects and archives, not written otherwise. -/
def pathValid (k : FileKind) (path : AN Str) : Bool :=
  if k = .object ∨ k = .archive then
    match path with
    | .value p => p ≠ []
    | _ => false
  else !path.isPresent

mutual
  def fileValid : FileS → Bool
    | .mk path kindA subfile padAmount sect lo so files dir c _ =>
      match kindOf path kindA with
      | none => false
      | some k =>
        pathValid k path
        && satisfies (rule .subfile k) subfile && satisfies (rule .padAmount k) padAmount
        && satisfies (rule .sect k) sect && satisfies (rule .linkerOffsetName k) lo
        && satisfies (rule .sectionOrder k) so && satisfies (rule .files k) files
        && (match files with
            | .value l => if k = .group then filesValid l else true
            | _ => true)
        && satisfies (rule .dir k) dir && condValid c
  def filesValid : List FileS → Bool
    | [] => true
    | f :: fs => fileValid f && filesValid fs
end

def notNull {α} (a : AN α) : Bool := match a with | .null => false | _ => true

def gpValid (g : GpInfoS) : Bool :=
  (match g.sect with | .null => false | .value s => s ≠ [] | .absent => true)
  && notNull g.offset && notNull g.provide && notNull g.hidden && condValid g.cond

def gpSection (g : GpInfoS) : Str := match g.sect with | .value s => s | _ => c!".sdata"

def resolvedList (own : AN (List Str)) (inherited : List Str) : List Str :=
  match own with | .value v => v | _ => inherited

def resolvedSubgroups (own : AN (List (Str × List Str))) (inh : List (Str × List Str)) :=
  match own with | .value v => v | _ => inh

/-- the validity of everything in a segment except its name and files. -/
def restValid (st : Settings) (s : SegmentS) : Bool :=
  notNull s.fixedVram && notNull s.fixedSymbol && notNull s.followsSegment && notNull s.vramClass
  && atMostOne [s.fixedVram.hasValue, s.fixedSymbol.hasValue, s.followsSegment.hasValue, s.vramClass.hasValue]
  && notNull s.dir
  && (match s.gpInfo with
      | .null => false
      | .absent => true
      | .value g => gpValid g && st.hardcodedGpValue.isNone
          && (gpSection g ∈ resolvedList s.over.allocSections st.allocSections
              || gpSection g ∈ resolvedList s.over.noloadSections st.noloadSections))
  && condValid s.cond
  && notNull s.over.allocSections && notNull s.over.noloadSections
  && notNull s.over.sectionsStartAlignment && notNull s.over.sectionsEndAlignment
  && notNull s.over.wildcardSections && notNull s.over.sectionsSubgroups
  && !hasSubgroupCycle (resolvedSubgroups s.over.sectionsSubgroups st.sectionsSubgroups)

def segmentValid (st : Settings) (s : SegmentS) : Bool :=
  decide (s.name ≠ []) && !s.files.isEmpty && filesValid s.files && restValid st s

def classValid (v : VramClassS) : Bool :=
  v.name ≠ [] && notNull v.fixedVram && notNull v.fixedSymbol && notNull v.followsClasses
  && ((if v.fixedVram.hasValue then 1 else 0) + (if v.fixedSymbol.hasValue then 1 else 0)
      + (match v.followsClasses with | .value l => if l.isEmpty then 0 else 1 | _ => 0) = (1 : Nat))

def assignmentValid (a : SymbolAssignmentS) : Bool :=
  a.name ≠ [] && a.value ≠ [] && notNull a.provide && notNull a.hidden && condValid a.cond

def requiredValid (a : RequiredSymbolS) : Bool := a.name ≠ [] && condValid a.cond

def assertValid (a : AssertS) : Bool := a.check ≠ [] && a.errorMessage ≠ [] && condValid a.cond

def settingsValid (s : SettingsS) : Bool :=
  notNull s.basePath && notNull s.style && notNull s.symbolsHeaderType && notNull s.symbolsHeaderAsArray
  && notNull s.sectionsAllowlist && notNull s.sectionsAllowlistExtra && notNull s.sectionsDenylist
  && notNull s.discardWildcardSection && notNull s.singleSegmentMode
  && (!s.dPath.hasValue || s.targetPath.hasValue)
  && notNull s.over.allocSections && notNull s.over.noloadSections
  && notNull s.over.sectionsStartAlignment && notNull s.over.sectionsEndAlignment
  && notNull s.over.wildcardSections && notNull s.over.sectionsSubgroups

def listValid {α} (a : AN (List α)) (p : α → Bool) : Bool :=
  match a with
  | .null => false
  | .absent => true
  | .value l => l.all p

/-- the settings a valid document resolves to (`Settings::default()` without a block). -/
def settingsOf (d : DocumentS) : Option Settings :=
  match d.settings with
  | .absent => some {}
  | .null => none
  | .value s => match s.unserialize with
    | .ok st => some st
    | .error _ => none

/-- `settings:` may be absent (all defaults) but not `null`. -/
def settingsPartValid (d : DocumentS) : Bool :=
  match d.settings with
  | .null => false
  | .absent => true
  | .value s => settingsValid s

def documentValid (d : DocumentS) : Bool :=
  settingsPartValid d
  && !d.segments.isEmpty
  && listValid d.vramClasses classValid
  && (match settingsOf d with
      | some st => d.segments.all (segmentValid st)
      | none => false)
  && notNull d.entry
  && listValid d.symbolAssignments assignmentValid
  && listValid d.requiredSymbols requiredValid
  && listValid d.asserts assertValid

/-- **the acceptance predicate of the documentation** on a canonical value tree: the tree is
well typed for the records (known keys only, no duplicate keys, scalar types) and every
record satisfies its table. -/
def validDoc (y : Y) : Bool :=
  match dDocumentS y with
  | .error _ => false
  | .ok ds => documentValid ds

end C16
end Slinky
