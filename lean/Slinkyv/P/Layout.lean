/-
  Slinkyv.P.Layout — projections of a script onto what each layout property talks about
  (C01–C05, C09–C11). Both sides of a comparison are parsed by the same `parseScript`.
-/
import Slinkyv.Monitor
namespace Slinky
namespace Layout

def contains (needle hay : Str) : Bool := (splitFirst needle hay).isSome

/-- every line rendered without indentation, with the name of the enclosing output section. -/
def withOutSec : Option Str → Nat → List Line → List (Option Str × Nat × Line)
  | _, _, [] => []
  | _, n, (.outHdr name nl a l s) :: rest => (none, n, .outHdr name nl a l s) :: withOutSec (some name) n rest
  | cur, n, .blockOpen :: rest => (cur, n, .blockOpen) :: withOutSec cur (n + 1) rest
  | cur, n, .blockClose :: rest => (cur, n - 1, .blockClose) :: withOutSec (if n - 1 ≤ 1 then none else cur) (n - 1) rest
  | cur, n, l :: rest => (cur, n, l) :: withOutSec cur n rest

def perScript (f : List Line → List Str) (o : Obs) : List Str :=
  f o.lines ++ (o.partialLines.map fun p => (c!"== " ++ p.1) :: f p.2).flatten

/-- C01: the input statements with their output section. -/
def placements (ls : List Line) : List Str :=
  (withOutSec none 0 ls).filterMap fun (x : Option Str × Nat × Line) =>
    match x.2.2 with
    | .input _ p m s w => some ((x.1.getD c!"?") ++ c!" <- " ++ p ++ c!":" ++ (m.getD []) ++ c!"(" ++ s ++ (if w then c!"*" else []) ++ c!")")
    | _ => none

/-- C02: everything that occupies space or marks a position, in order. -/
def layoutOrder (ls : List Line) : List Str :=
  (withOutSec none 0 ls).filterMap fun (x : Option Str × Nat × Line) =>
    match x.2.2 with
    | .input _ p m s _ => some (c!"in " ++ p ++ c!":" ++ (m.getD []) ++ c!"(" ++ s ++ c!")")
    | .addAssign s e => if s = c!"." then some (c!"pad " ++ e.render) else none
    | .outHdr name _ _ _ _ => some (c!"sec " ++ name)
    | .assign s .dot _ _ _ => if x.2.1 ≥ 2 then some (c!"mark " ++ s) else none
    | _ => none

/-- C03: address requests. -/
def addressLines (ls : List Line) : List Str :=
  (withOutSec none 0 ls).filterMap fun (x : Option Str × Nat × Line) =>
    match x.2.2 with
    | .outHdr name nl a _ _ => some (c!"sec " ++ name ++ (if nl then c!" noload" else []) ++ c!" @ " ++ (a.getD c!"-"))
    | .assign s (.addr sec) _ _ _ => some (s ++ c!" = ADDR(" ++ sec ++ c!")")
    | .assign s e _ _ _ =>
      if x.2.1 ≤ 1 ∧ (s = c!"." ∨ e = .dot) then some (s ++ c!" = " ++ e.render) else none
    | _ => none

/-- C04: every statement that touches the ROM counter, `AT(…)` and `(NOLOAD)`. -/
def romLines (ls : List Line) : List Str :=
  ls.filterMap fun l =>
    match l with
    | .outHdr name nl _ lma _ => some (c!"sec " ++ name ++ (if nl then c!" NOLOAD" else []) ++ c!" AT " ++ (lma.getD c!"-"))
    | .assign s e _ _ _ =>
      if contains c!"__romPos" s || contains c!"__romPos" e.render || contains c!"SIZEOF" e.render
      then some (s ++ c!" = " ++ e.render) else none
    | .addAssign s e => if s = c!"." then none else some (s ++ c!" += " ++ e.render)
    | _ => none

/-- C05: every symbol definition inside `SECTIONS`, with its expression. -/
def symbolDefs (ls : List Line) : List Str :=
  (withDepth 0 ls).filterMap fun (dl : Nat × Line) =>
    match dl with
    | (n, .assign s e p h _) =>
      if n ≥ 1 ∧ s ≠ c!"." ∧ !p ∧ !h then some (s ++ c!" = " ++ e.render) else none
    | _ => none

/-- C09: alignment statements and `SUBALIGN`, each with the statement that follows it. -/
def alignLines : List Line → List Str
  | [] => []
  | (.assign s (.alignE o n) _ _ _) :: rest =>
    (c!"align " ++ s ++ c!" " ++ o ++ c!" " ++ toHex n ++ c!" then " ++
      (match rest.find? (fun l => l ≠ .blank) with | some l => l.renderBody | none => [])) :: alignLines rest
  | (.outHdr name _ _ _ (some k)) :: rest => (c!"subalign " ++ name ++ c!" " ++ toDec k) :: alignLines rest
  | (.outHdr name _ _ _ none) :: rest => (c!"nosubalign " ++ name) :: alignLines rest
  | _ :: rest => alignLines rest

/-- C10: every statement that mentions a class symbol, and the address of every segment. -/
def classLines (ls : List Line) : List Str :=
  ls.filterMap fun l =>
    match l with
    | .assign s e _ _ _ =>
      let t := s ++ c!" = " ++ e.render
      if contains c!"VRAM_CLASS" t || contains c!"VramClass" t then some t else none
    | .outHdr name false a _ _ => some (c!"sec " ++ name ++ c!" @ " ++ (a.getD c!"-"))
    | _ => none

def proj (p : String) (o : Obs) : List Str :=
  match p with
  | "C01" => perScript placements o
  | "C02" => perScript layoutOrder o
  | "C03" => perScript addressLines o
  | "C04" => perScript romLines o
  | "C05" => perScript symbolDefs o ++ o.symbols
  | "C09" => perScript alignLines o
  | "C10" => perScript classLines o
  | _ => []

end Layout
end Slinky
