/-
  Slinkyv.P.C01 — the declarative reading of "every listed input section is placed exactly
  once, in the group of that section or of the destination its `section_order` names", and of
  the ordering rules of C02, evaluated on parsed scripts.
-/
import Slinkyv.Monitor
import Slinkyv.P.C06
import Slinkyv.P.C07
namespace Slinky
namespace C01

/-- an included object / archive leaf of a segment, with the path it is emitted under. -/
structure Leaf where
  idx : Nat
  path : Str
  member : Option Str
  order : List (Str × Str)
  deriving DecidableEq

/-- a pad or linker-offset entry. -/
structure Mark where
  idx : Nat
  isPad : Bool
  sect : Str
  text : Str     -- the rendered statement

inductive Item | leaf (l : Leaf) | mark (m : Mark)

mutual
  /-- depth-first list of the included entries below a file entry; `n` numbers them. -/
  def itemsOf (o : Opts) (st : Style) (base : Str) (n : Nat) : FileInfo → (List Item × Nat)
    | .mk p kind sf pa se lo so fs dir c _ =>
      if !C06.specEmit o c then ([], n + 1) else
      match kind with
      | .object => (match C07.escapePathSpec o p with
          | .ok q => [.leaf ⟨n, display (pathPush base q), none, so⟩]
          | .error _ => [], n + 1)
      | .archive => (match C07.escapePathSpec o p with
          | .ok q => [.leaf ⟨n, display (pathPush base q), some sf, so⟩]
          | .error _ => [], n + 1)
      | .pad => ([.mark ⟨n, true, se, c!". += 0x" ++ toHex pa ++ c!";"⟩], n + 1)
      | .linkerOffset => ([.mark ⟨n, false, se, st.linkerOffset lo ++ c!" = .;"⟩], n + 1)
      | .group =>
        match C07.escapePathSpec o dir with
        | .ok d => itemsOfList o st (pathPush base d) (n + 1) fs
        | .error _ => ([], n + 1)
  def itemsOfList (o : Opts) (st : Style) (base : Str) (n : Nat) : List FileInfo → (List Item × Nat)
    | [] => ([], n)
    | f :: fs =>
      let (a, n₁) := itemsOf o st base n f
      let (b, n₂) := itemsOfList o st base n₁ fs
      (a ++ b, n₂)
end

/-- the sub-group parent of a section, if any. -/
def parentOf (seg : Segment) (c : Str) : Option Str :=
  (seg.sectionsSubgroups.find? (fun kv => c ∈ kv.2)).map (·.1)

/-- where the statement for section `c` of a leaf with `order` sits: `loc c = slot (dest c)`,
`slot v` = the group of `v` when `v` is listed, else the place of its sub-group parent. -/
def locOf (seg : Segment) (order : List (Str × Str)) : Nat → Str → Option Str
  | 0, _ => none
  | fuel + 1, c =>
    let v := (lookup c order).getD c
    if v ∈ seg.allocSections ++ seg.noloadSections then some v
    else match parentOf seg v with
      | some k => locOf seg order fuel k
      | none => none

/-- the configured sections of a segment: its lists and everything reachable through sub-groups. -/
def confOf (seg : Segment) : List Str :=
  let rec close (fuel : Nat) (front acc : List Str) : List Str :=
    match fuel with
    | 0 => acc
    | fuel + 1 =>
      let next := (front.map (subgroupsOf seg)).flatten.filter (fun x => x ∉ acc)
      if next.isEmpty then acc else close fuel next (acc ++ next)
  close (seg.sectionsSubgroups.length + 1) (seg.allocSections ++ seg.noloadSections) (seg.allocSections ++ seg.noloadSections)

structure Placement where
  group : Str
  path : Str
  member : Option Str
  sec : Str
  wild : Bool      -- the statement names `sec*` (the segment's `wildcard_sections`) or exactly `sec`
  deriving DecidableEq

def Placement.show (p : Placement) : Str :=
  p.group ++ c!" <- " ++ p.path ++ c!":" ++ (p.member.getD []) ++ c!"(" ++ p.sec ++ (if p.wild then c!"*" else []) ++ c!")"

/-- the items of a segment under a given base directory. -/
def segItems (d : Document) (o : Opts) (seg : Segment) (withDir : Bool) : List Item :=
  match C07.escapePathSpec o d.settings.basePath with
  | .error _ => []
  | .ok b =>
    let base := if withDir then
        (match C07.escapePathSpec o seg.dir with | .ok sd => pathPush b sd | .error _ => b)
      else b
    (itemsOfList o d.settings.style base 0 seg.files).1

/-- **the specification of C01** for one segment: every configured section of every included
leaf, once, in the group `locOf` names. -/
def expected (d : Document) (o : Opts) (seg : Segment) : List Placement :=
  let conf := confOf seg
  let fuel := seg.sectionsSubgroups.length + 2
  (segItems d o seg true).flatMap fun it =>
    match it with
    | .leaf l => conf.filterMap fun c =>
        match locOf seg l.order fuel c with
        | some g => some ⟨g, l.path, l.member, c, seg.wildcardSections⟩
        | none => none
    | .mark _ => []

/-- the well-formedness hypotheses of the C01 theorems (decidable). -/
def wellFormed (seg : Segment) (items : List Item) : Bool :=
  let lists := seg.allocSections ++ seg.noloadSections
  let subVals := (seg.sectionsSubgroups.map (·.2)).flatten
  let conf := confOf seg
  lists.Nodup && subVals.Nodup && subVals.all (fun x => x ∉ lists)
  && (seg.sectionsSubgroups.all fun kv => kv.1 ∈ conf)
  && items.all fun it => match it with
      | .leaf l => l.order.all fun kv => kv.1 ∈ conf ∧ kv.2 ∈ conf
      | .mark _ => true

/-- statements of one script with the group they sit in: the group is named by the last
section start symbol seen (ordinary scripts) or is the output section itself (single-segment
layout of partial sub-scripts and `single_segment_mode`). -/
def groupedInputs (startSyms : List (Str × Str)) (byOutSec : Bool) (ls : List Line) : List (Str × Line) :=
  let rec go (cur : Str) : List Line → List (Str × Line)
    | [] => []
    | (.assign s .dot false false _) :: rest =>
      (match lookup s startSyms with
       | some sec => go sec rest
       | none => (cur, .assign s .dot false false false) :: go cur rest)
    | (.outHdr name nl a l sub) :: rest => if byOutSec then go name rest else go cur rest
    | l :: rest => (cur, l) :: go cur rest
  go [] ls

def placementsIn (startSyms : List (Str × Str)) (byOutSec : Bool) (ls : List Line) : List Placement :=
  (groupedInputs startSyms byOutSec ls).filterMap fun (gl : Str × Line) =>
    match gl.2 with
    | .input _ p m s w => some ⟨gl.1, p, m, s, w⟩
    | _ => none

def startSymsOf (st : Style) (seg : Segment) : List (Str × Str) :=
  (seg.allocSections ++ seg.noloadSections).map fun sec => (st.secStart seg.name sec, sec)

/-- the lines of one segment inside an ordinary script: from its ROM start symbol to its ROM size symbol. -/
def segmentSlice (st : Style) (seg : Segment) (ls : List Line) : List Line :=
  let after := ls.dropWhile (fun l => match l with
    | .assign s _ _ _ _ => s ≠ st.segRomStart seg.name
    | _ => true)
  let rec upto : List Line → List Line
    | [] => []
    | l :: rest => match l with
      | .assign s _ _ _ _ => if s = st.segRomSize seg.name then [l] else l :: upto rest
      | _ => l :: upto rest
  upto after

def insertP (lt : Placement → Placement → Bool) (x : Placement) : List Placement → List Placement
  | [] => [x]
  | y :: ys => if lt x y then x :: y :: ys else y :: insertP lt x ys

def pLt (a b : Placement) : Bool :=
  let ka := a.show
  let kb := b.show
  strLt ka kb

def sortP (l : List Placement) : List Placement := l.foldr (insertP pLt) []

structure SegReport where
  name : Str
  inDomain : Bool
  expected : List Placement
  found : List Placement

def emittedSegments (d : Document) (o : Opts) : List Segment :=
  if d.settings.singleSegmentMode then d.segments else d.segments.filter (fun s => C06.specEmit o s.cond)

/-- per emitted segment: the expected and the found placements (sorted), for the scripts that
carry the segment's own files: the ordinary script, or the segment's partial sub-script. -/
def reports (d : Document) (o : Opts) (m : Mode) (ob : Obs) : List SegReport :=
  let st := d.settings.style
  (emittedSegments d o).map fun seg =>
    let items := segItems d o seg true
    let found : List Placement :=
      match m with
      | .normal =>
        if d.settings.singleSegmentMode then placementsIn [] true ob.lines
        else placementsIn (startSymsOf st seg) false (segmentSlice st seg ob.lines)
      | .partialLink =>
        match lookup seg.name ob.partialLines with
        | some ls => placementsIn [] true ls
        | none => []
    { name := seg.name, inDomain := wellFormed seg items,
      expected := sortP (expected d o seg), found := sortP found }

/-- partial mode: the sections of an emitted segment whose partial object the main script does not place exactly once
(one statement `<folder>/<segment>.o(<section>)` between the segment's ROM start and ROM size symbols per section of
its two lists). A segment missing from the main script is missing with all its sections. -/
def unplacedPartial (d : Document) (o : Opts) (ob : Obs) : List (Str × Str) :=
  let st := d.settings.style
  ((emittedSegments d o).map fun seg =>
    let slice := segmentSlice st seg ob.lines
    let obj := seg.name ++ c!".o"
    ((seg.allocSections ++ seg.noloadSections).filter fun sec =>
      (slice.filter fun l => match l with
        | .input _ p none s _ => decide (s = sec) && (decide (p = obj) || endsWith (c!"/" ++ obj) p)
        | _ => false).length ≠ 1).map fun sec => (seg.name, sec)).flatten

def holds (d : Document) (o : Opts) (m : Mode) (ob : Obs) : Bool × Bool × String :=
  let rs := reports d o m ob
  let inDom := rs.all (·.inDomain)
  match rs.find? (fun r => r.expected ≠ r.found) with
  | none =>
    (match m, unplacedPartial d o ob with
     | .partialLink, (sn, sec) :: _ =>
       if inDom && !d.settings.singleSegmentMode then
         (false, inDom, s!"main script of partial mode: the partial object of segment {String.ofList sn} is not placed exactly once for {String.ofList sec}")
       else (true, inDom, "")
     | _, _ => (true, inDom, ""))
  | some r =>
    let missing := r.expected.filter (fun p => p ∉ r.found)
    let extra := r.found.filter (fun p => p ∉ r.expected)
    let showL (l : List Placement) := String.intercalate ", " ((l.take 3).map fun p => String.ofList p.show)
    (false, inDom, s!"segment {String.ofList r.name}: missing [{showL missing}] unexpected/duplicated [{showL extra}]")

end C01
end Slinky
