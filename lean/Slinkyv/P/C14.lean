/-
  Slinkyv.P.C14 — nearest-ancestor inheritance of `keep_sections`, written top-down.
-/
import Slinkyv.Unserialize
import Slinkyv.Monitor
namespace Slinky
namespace C14

mutual
  /-- effective `keep_sections` of an entry: its own value, else the inherited one; a group
  hands its effective value to its children. -/
  def resolveFile (inh : Keep) : FileInfo → FileInfo
    | .mk p kind sf pa se lo so fs dir c keep =>
      .mk p kind sf pa se lo so
        (if kind = .group then resolveFiles (if keep = .absent then inh else keep) fs else fs)
        dir c (if keep = .absent then inh else keep)
  def resolveFiles (inh : Keep) : List FileInfo → List FileInfo
    | [] => []
    | f :: fs => resolveFile inh f :: resolveFiles inh fs
end

/-- the value a segment inherits from its vram class (first class of that name). -/
def classKeep (classes : List VramClass) (seg : Segment) : Keep :=
  match seg.vramClass with
  | none => .absent
  | some cn =>
    match classes.find? (fun c => c.name = cn) with
    | none => .absent
    | some vc => vc.keep

def resolveSegment (classes : List VramClass) (seg : Segment) : Segment :=
  let eff := if seg.keep = .absent then classKeep classes seg else seg.keep
  { seg with keep := eff, files := resolveFiles eff seg.files }

/-- the document whose `keep_sections` are resolved by the nearest-ancestor rule from the
explicitly written values only. -/
def resolveDoc (d : Document) : Document :=
  { d with segments := d.segments.map (resolveSegment d.vramClasses) }

/-- parse without the push-down passes, then resolve top-down. -/
def specParse (y : Y) : D Document :=
  match dDocumentS y with
  | .error e => .error e
  | .ok ds => match ds.unserialize false with
    | .error e => .error e
    | .ok d => .ok (resolveDoc d)

def keepProj (ls : List Line) : List Str :=
  ls.filterMap fun l => match l with
    | .input k p m s _ => some ((if k then c!"KEEP " else c!"     ") ++ p ++ c!":" ++ (m.getD []) ++ c!"(" ++ s ++ c!")")
    | _ => none

def proj (o : Obs) : List Str :=
  keepProj o.lines ++ (o.partialLines.map fun p => (c!"== " ++ p.1) :: keepProj p.2).flatten

end C14
end Slinky
