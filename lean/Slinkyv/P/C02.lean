/-
  Slinkyv.P.C02 — the ordering rules of the documentation, checked as invariants of a parsed
  script: groups follow the section lists (allocatable before noload), inside a group the
  statements follow the depth-first order of the file list, pads and linker offsets sit at
  their list position and only in their own section, the sections one entry contributes to a
  group are ordered by list position (ties by name) with sub-group sections right after their
  lead.
-/
import Slinkyv.P.C01
namespace Slinky
namespace C02
open C01

/-- is `a` a subsequence of `b`? -/
def isSubseq : List Str → List Str → Bool
  | [], _ => true
  | _ :: _, [] => false
  | x :: xs, y :: ys => if x = y then isSubseq xs ys else isSubseq (x :: xs) ys

def dedupConsecutive : List Str → List Str
  | [] => []
  | [x] => [x]
  | x :: y :: rest => if x = y then dedupConsecutive (y :: rest) else x :: dedupConsecutive (y :: rest)

/-- what a statement line is for the ordering rules. -/
inductive Stmt
  | input (path : Str) (member : Option Str) (sec : Str)
  | other (text : Str)

def stmtsIn (startSyms : List (Str × Str)) (byOutSec : Bool) (ls : List Line) : List (Str × Stmt) :=
  (groupedInputs startSyms byOutSec ls).filterMap fun (gl : Str × Line) =>
    match gl.2 with
    | .input _ p m s _ => some (gl.1, .input p m s)
    | .addAssign s e => if s = c!"." then some (gl.1, .other (c!". += " ++ e.render ++ c!";")) else none
    | .assign s .dot false false _ => some (gl.1, .other (s ++ c!" = .;"))
    | _ => none

/-- does statement `s` belong to item `it`? -/
def belongs (s : Stmt) (it : Item) : Bool :=
  match s, it with
  | .input p m _, .leaf l => p = l.path && m = l.member
  | .other t, .mark mk => t = mk.text
  | _, _ => false

/-- walk the statements of one group along the depth-first item list: every statement must
belong to the current item (which has not placed that section yet) or to a later one.
Returns every way of doing so (statements with their item index) — two entries may name the
same file, and then a statement can be the last one of the first or the first one of the
second; the alternatives are explored only while fewer than `cap` are in hand. -/
def assignGo : List Str → List Item → List Stmt → List (List (Nat × Stmt))
  | _, _, [] => [[]]
  | _, [], _ :: _ => []
  | seen, it :: its, s :: ss =>
    let fresh : Bool := match s with
      | .input _ _ sec => sec ∉ seen
      | .other _ => seen.isEmpty
    if belongs s it && fresh then
      let seen' := match s with | .input _ _ sec => sec :: seen | .other t => t :: seen
      let here := (assignGo seen' (it :: its) ss).map fun r =>
        ((match it with | .leaf l => l.idx | .mark m => m.idx), s) :: r
      -- a later entry with the same file may be the owner instead
      if its.any (belongs s) then (here ++ assignGo [] its (s :: ss)).take 64 else here
    else assignGo [] its (s :: ss)
termination_by _ its ss => its.length + ss.length

def assign (items : List Item) (ss : List Stmt) : List (List (Nat × Stmt)) := assignGo [] items ss

/-- within one entry and one group: sections that are here on their own right (listed, or moved
here by `section_order`) come in `(list position, name)` order; a sub-group section follows
its parent (or an earlier sibling under the same parent). -/
def entryOrderOk (seg : Segment) (sections : List Str) (order : List (Str × Str)) (secs : List Str) : Bool :=
  let isChild (c : Str) : Bool := (lookup c order).isNone && (parentOf seg c).isSome && c ∉ seg.allocSections ++ seg.noloadSections
  let tops := secs.filter (fun c => !isChild c)
  let dest (c : Str) : Str := (lookup c order).getD c
  -- the sections that share one slot (a section and everything `section_order` moves to it)
  -- appear in `(list position, name)` order
  let rec pairsOk : List Str → Bool
    | [] => true
    | a :: rest => rest.all (fun b => dest a ≠ dest b || keyLe sections a b) && pairsOk rest
  pairsOk tops
  && (secs.zipIdx.all fun (ci : Str × Nat) =>
        if isChild ci.1 then
          match parentOf seg ci.1 with
          | some k => (secs.take ci.2).any (fun x => x = k)
          | none => false
        else true)

structure Report where
  ok : Bool
  why : String

def checkSegment (d : Document) (o : Opts) (seg : Segment) (stmts : List (Str × Stmt)) : Report :=
  let items := segItems d o seg true
  let lists := seg.allocSections ++ seg.noloadSections
  let groupsSeen := dedupConsecutive (stmts.map (·.1))
  if !isSubseq groupsSeen lists then
    { ok := false, why := s!"groups of segment {String.ofList seg.name} appear as {groupsSeen.map String.ofList}, not in the order of its section lists {lists.map String.ofList}" }
  else
    let perGroup := lists.map fun g => (g, (stmts.filter (·.1 = g)).map (·.2))
    match perGroup.find? (fun gs =>
        -- no way of attributing the statements to the entries satisfies the rules
        !(assign items gs.2).any fun withIdx =>
          -- pads / offsets only in their own section; per-entry section order
          !((withIdx.any fun (x : Nat × Stmt) => match x.2 with
            | .other t => !(items.any fun it => match it with
                | .mark mk => mk.text = t && (locOf seg [] (seg.sectionsSubgroups.length + 2) mk.sect = some gs.1)
                | _ => false)
            | _ => false)
          || (items.any fun it => match it with
              | .leaf l =>
                let secs := withIdx.filterMap fun (x : Nat × Stmt) => match x.2 with
                  | .input _ _ s => if x.1 = l.idx then some s else none
                  | _ => none
                let sections := if gs.1 ∈ seg.allocSections then seg.allocSections else seg.noloadSections
                !entryOrderOk seg sections l.order secs
              | _ => false))) with
    | some gs => { ok := false, why := s!"segment {String.ofList seg.name}, group {String.ofList gs.1}: statements do not follow the depth-first file order / list positions" }
    | none =>
      -- every included pad / linker offset whose section is configured sits in that section's group
      let fuel := seg.sectionsSubgroups.length + 2
      match items.find? (fun it => match it with
          | .mark mk =>
            (match locOf seg [] fuel mk.sect with
             | some g => !(stmts.any fun (x : Str × Stmt) => x.1 = g && (match x.2 with | .other t => t = mk.text | _ => false))
             | none => false)
          | _ => false) with
      | some (.mark mk) => { ok := false, why := s!"segment {String.ofList seg.name}: `{String.ofList mk.text}` is missing from the group of {String.ofList mk.sect}" }
      | _ => { ok := true, why := "" }

def holds (d : Document) (o : Opts) (m : Mode) (ob : Obs) : Bool × String :=
  let st := d.settings.style
  let segs := emittedSegments d o
  let rs := segs.map fun seg =>
    let stmts : List (Str × Stmt) :=
      match m with
      | .normal =>
        if d.settings.singleSegmentMode then stmtsIn [] true ob.lines
        else stmtsIn (startSymsOf st seg) false (segmentSlice st seg ob.lines)
      | .partialLink =>
        match lookup seg.name ob.partialLines with
        | some ls => stmtsIn [] true ls
        | none => []
    -- section start/end symbols are not layout statements of the group
    let syms := (seg.allocSections ++ seg.noloadSections).flatMap fun sec =>
      [st.secStart seg.name sec ++ c!" = .;", st.secEnd seg.name sec ++ c!" = .;"]
    let kinds := [st.segVramStart (kindName seg false) ++ c!" = .;", st.segVramEnd (kindName seg false) ++ c!" = .;",
                  st.segVramStart (kindName seg true) ++ c!" = .;", st.segVramEnd (kindName seg true) ++ c!" = .;",
                  st.segVramEnd seg.name ++ c!" = .;"]
    checkSegment d o seg (stmts.filter fun (x : Str × Stmt) => match x.2 with
      | .other t => t ∉ syms && t ∉ kinds
      | _ => true)
  -- segments in document order: their output sections appear in the order of the document
  let hdrs := ob.lines.filterMap fun l => match l with | .outHdr n _ _ _ _ => some n | _ => none
  let wantHdrs := if d.settings.singleSegmentMode then hdrs else
    segs.flatMap fun s => [c!"." ++ s.name, c!"." ++ s.name ++ c!".noload"]
  if m = .normal ∧ hdrs ≠ wantHdrs then (false, "output sections are not in document order (allocatable then noload per segment)")
  else match rs.find? (fun r => !r.ok) with
    | some r => (false, r.why)
    | none => (true, "")

end C02
end Slinky
