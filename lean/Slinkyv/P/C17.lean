/-
  Slinkyv.P.C17 / C18 — top-level statements, `_gp`, and the tail of a script
  (allowlists, denylist, discard), written as the texts the documentation prescribes.
-/
import Slinkyv.Monitor
import Slinkyv.P.C06
namespace Slinky
namespace C17

def wrap (provide hidden : Bool) (core : Str) : Str :=
  match provide, hidden with
  | true, true => c!"PROVIDE_HIDDEN(" ++ core ++ c!");"
  | true, false => c!"PROVIDE(" ++ core ++ c!");"
  | false, true => c!"HIDDEN(" ++ core ++ c!");"
  | false, false => core ++ c!";"

/-- the statements that follow the `SECTIONS` block, as texts, in the documented order. -/
def expectedTop (d : Document) (o : Opts) : List Str :=
  (match d.entry with | some e => [c!"ENTRY(" ++ e ++ c!");"] | none => [])
  ++ (d.symbolAssignments.filter (fun a => C06.specEmit o a.cond)).map
      (fun a => wrap a.provide a.hidden (a.name ++ c!" = " ++ a.value))
  ++ ((d.requiredSymbols.filter (fun a => C06.specEmit o a.cond)).map
      (fun a => [c!"EXTERN(" ++ a.name ++ c!");",
                 c!"ASSERT((DEFINED(" ++ a.name ++ c!")), \"Error: Required symbol '" ++ a.name ++ c!"' was not linked\");"])).flatten
  ++ (d.asserts.filter (fun a => C06.specEmit o a.cond)).map
      (fun a => c!"ASSERT((" ++ a.check ++ c!"), \"Error: " ++ a.errorMessage ++ c!"\");")

/-- text lines of a script with their block depth. -/
def depthLines : Nat → List Str → List (Nat × Str)
  | _, [] => []
  | n, l :: rest =>
    let t := dropSpaces l
    if t = c!"{" then (n, t) :: depthLines (n + 1) rest
    else if t = c!"}" then (n - 1, t) :: depthLines (n - 1) rest
    else (n, t) :: depthLines n rest

/-- the non-blank, non-comment statements at depth 0 other than the `SECTIONS` block itself. -/
def topStatements (script : Str) : List Str :=
  (depthLines 0 (lines script)).filterMap fun (nl : Nat × Str) =>
    if nl.1 = 0 ∧ nl.2 ≠ [] ∧ nl.2 ≠ c!"SECTIONS" ∧ nl.2 ≠ c!"{" ∧ nl.2 ≠ c!"}" ∧ !(c!"/*").isPrefixOf nl.2
    then some nl.2 else none

def isGpDef (t : Str) : Bool :=
  (c!"_gp = ").isPrefixOf t || (c!"PROVIDE(_gp = ").isPrefixOf t || (c!"HIDDEN(_gp = ").isPrefixOf t
    || (c!"PROVIDE_HIDDEN(_gp = ").isPrefixOf t

/-- the segments that are emitted and carry an included `gp_info`. -/
def gpSegments (d : Document) (o : Opts) (single : Bool) : List (Segment × GpInfo) :=
  d.segments.filterMap fun s =>
    match s.gpInfo with
    | some g => if (single || C06.specEmit o s.cond) && C06.specEmit o g.cond then some (s, g) else none
    | none => none

/-- the `_gp` definitions the document asks for, as texts. -/
def expectedGp (d : Document) (o : Opts) : List Str :=
  match d.settings.hardcodedGpValue with
  | some v => [c!"_gp = 0x" ++ toHex8 v ++ c!";"]
  | none =>
    (gpSegments d o d.settings.singleSegmentMode).flatMap fun (sg : Segment × GpInfo) =>
      -- once per occurrence of the section in the segment's lists
      ((sg.1.allocSections ++ sg.1.noloadSections).filter (· = sg.2.sect)).map fun _ =>
        wrap sg.2.provide sg.2.hidden (c!"_gp = . + 0x" ++ toHexI32 sg.2.offset)

/-- every `_gp` definition of the script with the statement that follows it. -/
def gpWithNext (script : Str) : List (Str × Str) :=
  let ls := ((lines script).map dropSpaces).filter (· ≠ [])
  let rec go : List Str → List (Str × Str)
    | [] => []
    | [x] => if isGpDef x then [(x, [])] else []
    | x :: y :: rest => if isGpDef x then (x, y) :: go (y :: rest) else go (y :: rest)
  go ls

/-- a `gp_info` `_gp` is directly followed by the start symbol of its section group. -/
def gpPositionsOk (d : Document) (o : Opts) (script : Str) : Bool :=
  match d.settings.hardcodedGpValue with
  | some _ => true
  | none =>
    let want := (gpSegments d o d.settings.singleSegmentMode).flatMap fun (sg : Segment × GpInfo) =>
      ((sg.1.allocSections ++ sg.1.noloadSections).filter (· = sg.2.sect)).map fun _ =>
        d.settings.style.secStart sg.1.name sg.2.sect ++ c!" = .;"
    (gpWithNext script).map (·.2) = want

def holds (d : Document) (o : Opts) (m : Mode) (ob : Obs) : Bool :=
  topStatements ob.script = expectedTop d o
  && (gpWithNext ob.script).map (·.1) = expectedGp d o
  && gpPositionsOk d o ob.script
  && (match m with
      | .normal => true
      | .partialLink => ob.partials.all fun p => (gpWithNext p.2).isEmpty && (topStatements p.2).isEmpty)

def proj (ob : Obs) : List Str :=
  topStatements ob.script ++ [c!"-- gp"] ++ ((gpWithNext ob.script).map fun x => x.1 ++ c!" >> " ++ x.2)
    ++ (ob.partials.map fun p => (c!"== " ++ p.1) :: (topStatements p.2 ++ (gpWithNext p.2).map (·.1))).flatten

end C17

namespace C18

/-- the statements a script must end with inside `SECTIONS`, after the last segment and the
class sizes: allowlist, extra allowlist, then the discard block (if any). -/
def expectedTail (s : Settings) : List Str :=
  s.sectionsAllowlist.map (fun x => x ++ c!" 0 : { *(" ++ x ++ c!"); }")
  ++ s.sectionsAllowlistExtra.map (fun x => x ++ c!" 0 : { *(" ++ x ++ c!"); }")
  ++ (if s.discardWildcardSection || !s.sectionsDenylist.isEmpty then
        [c!"/DISCARD/ :", c!"{"] ++ s.sectionsDenylist.map (fun x => c!"*(" ++ x ++ c!");")
        ++ (if s.discardWildcardSection then [c!"*(*);"] else []) ++ [c!"}"]
      else [])
  ++ [c!"}"]

def nonBlank (script : Str) : List Str := ((lines script).map dropSpaces).filter (· ≠ [])

/-- the statements inside `SECTIONS` (depth ≥ 1) up to and including its closing brace. -/
def sectionsBody (script : Str) : List Str :=
  ((C17.depthLines 0 (lines script)).filter fun (nl : Nat × Str) =>
      nl.2 ≠ [] ∧ (nl.1 ≥ 1 ∨ nl.2 = c!"}")).map (·.2)

def takeLast {α} (n : Nat) (l : List α) : List α := l.drop (l.length - n)

def isSingleEntry (t : Str) : Bool := endsWith c!"); }" t
def isTailLine (t : Str) : Bool :=
  isSingleEntry t || t = c!"/DISCARD/ :" || ((c!"*(").isPrefixOf t && endsWith c!");" t)

/-- the tail is exactly the prescribed one and nothing like it occurs earlier. -/
def tailOk (s : Settings) (script : Str) : Bool :=
  let body := sectionsBody script
  let want := expectedTail s
  takeLast want.length body = want
  && (body.take (body.length - want.length)).all (fun t => !isTailLine t)

def holds (d : Document) (ob : Obs) : Bool :=
  tailOk d.settings ob.script && ob.partials.all (fun p => tailOk d.settings p.2)

def proj (ob : Obs) : List Str :=
  let tl (sc : Str) := (sectionsBody sc).filter (fun t => isTailLine t || t = c!"}" || t = c!"{")
  tl ob.script ++ (ob.partials.map fun p => (c!"== " ++ p.1) :: tl p.2).flatten

end C18
end Slinky
