/-
  Slinkyv.P.C11 — partial linking against one-step linking, on parsed scripts.
-/
import Slinkyv.P.C02
namespace Slinky
namespace C11
open C01

/-- the body statements of a script or script slice: inputs (with KEEP), pads, linker offsets, by group. -/
def body (startSyms : List (Str × Str)) (byOutSec : Bool) (skip : List Str) (ls : List Line) : List Str :=
  (groupedInputs startSyms byOutSec ls).filterMap fun (gl : Str × Line) =>
    match gl.2 with
    | .input k p m s w => some (gl.1 ++ c!" | " ++ (Line.input k p m s w).renderBody)
    | .addAssign s e => if s = c!"." then some (gl.1 ++ c!" | . += " ++ e.render) else none
    | .assign s .dot false false _ => if s ∈ skip then none else some (gl.1 ++ c!" | " ++ s ++ c!" = .")
    | _ => none

def isOffsetDef (offs : List Str) (l : Line) : Bool :=
  match l with
  | .assign s .dot false false _ => s ∈ offs
  | _ => false

/-- a script with its input statements, linker-offset definitions and blank lines erased. -/
def skeleton (offs : List Str) (ls : List Line) : List Str :=
  (ls.filter fun l => match l with
    | .input .. => false
    | .blank => false
    | .addAssign s _ => s ≠ c!"."
    | l => !isOffsetDef offs l).map Line.renderBody

mutual
  def offsetNames (st : Style) : FileInfo → List Str
    | .mk _ kind _ _ _ lo _ fs _ _ _ => (if kind = .linkerOffset then [st.linkerOffset lo] else []) ++ offsetNamesL st fs
  def offsetNamesL (st : Style) : List FileInfo → List Str
    | [] => []
    | f :: fs => offsetNames st f ++ offsetNamesL st fs
end

def holds (d : Document) (o : Opts) (normal partialO : Obs) : Bool × String :=
  let st := d.settings.style
  let segs := emittedSegments d o
  let offs := (d.segments.map fun s => offsetNamesL st s.files).flatten
  -- (1) one partial script per emitted segment, in order, by name
  if partialO.partials.map (·.1) ≠ segs.map (·.name) then
    (false, s!"partial scripts {partialO.partials.map (fun p => String.ofList p.1)} vs emitted segments {segs.map (fun s => String.ofList s.name)}")
  else
    -- (2) same input statements, pads and offsets per segment and group
    let kindSyms (seg : Segment) : List Str :=
      (seg.allocSections ++ seg.noloadSections).flatMap (fun sec => [st.secStart seg.name sec, st.secEnd seg.name sec])
      ++ [st.segVramStart (kindName seg false), st.segVramEnd (kindName seg false),
          st.segVramStart (kindName seg true), st.segVramEnd (kindName seg true), st.segVramEnd seg.name]
    match segs.find? (fun seg =>
        body (startSymsOf st seg) false (kindSyms seg) (segmentSlice st seg normal.lines)
          ≠ body [] true [] ((lookup seg.name partialO.partialLines).getD [])) with
    | some seg => (false, s!"segment {String.ofList seg.name}: the statements of its partial script differ from those of the ordinary script")
    | none =>
      -- (3) the main script is the ordinary script without input statements and offsets …
      if skeleton offs partialO.lines ≠ skeleton offs normal.lines then
        (false, "the main script differs from the ordinary script in something other than input statements and linker offsets: "
          ++ firstDiffS (skeleton offs partialO.lines) (skeleton offs normal.lines))
      else
        -- … and places exactly the one partial object in every group
        match d.settings.partialBuildSegmentsFolder, C07.escapePathSpec o d.settings.basePath with
        | some folder, .ok base =>
          match segs.find? (fun seg =>
              match C07.escapePathSpec o (pathPush folder (seg.name ++ c!".o")) with
              | .error _ => true
              | .ok p =>
                let obj := display (pathPush base p)
                let want := (seg.allocSections ++ seg.noloadSections).map fun sec =>
                  (⟨sec, obj, none, sec, seg.wildcardSections⟩ : Placement)
                placementsIn (startSymsOf st seg) false (segmentSlice st seg partialO.lines) ≠ want) with
          | some seg => (false, s!"segment {String.ofList seg.name}: the main script does not place exactly its partial object in every group")
          | none =>
            -- (4) symbols: main ∪ offsets of the partial scripts = ordinary
            let subOffs := (partialO.partialLines.map fun p => p.2.filterMap fun l =>
              if isOffsetDef offs l then (match l with | .assign s _ _ _ _ => some s | _ => none) else none).flatten
            let a := partialO.symbols ++ subOffs
            if a.all (· ∈ normal.symbols) && normal.symbols.all (· ∈ a) then (true, "")
            else (false, "linker symbols of the main script plus the offsets of the partial scripts differ from those of the ordinary script")
        | _, _ => (false, "partial folder or base path unavailable")
where
  firstDiffS (a b : List Str) : String :=
    match (a.zip b).find? (fun (x : Str × Str) => x.1 ≠ x.2) with
    | some x => s!"`{String.ofList x.1}` vs `{String.ofList x.2}`"
    | none => s!"lengths {a.length} vs {b.length}"

end C11
end Slinky
