/-
  Slinkyv.P.C08 — "segment overrides global overrides default", written as one table.
-/
import Slinkyv.Unserialize
import Slinkyv.Monitor
namespace Slinky
namespace C08

/-- the twelve overridable options after resolution. -/
structure Resolved where
  allocSections : List Str
  noloadSections : List Str
  subalign : Option Nat
  segmentStartAlign : Option Nat
  segmentEndAlign : Option Nat
  sectionStartAlign : Option Nat
  sectionEndAlign : Option Nat
  sectionsStartAlignment : List (Str × Nat)
  sectionsEndAlignment : List (Str × Nat)
  wildcardSections : Bool
  fillValue : Option Nat
  sectionsSubgroups : List (Str × List Str)
  deriving DecidableEq

/-- a nullable option: own value, explicit `null` disables, absent inherits. -/
def nullable {α} (own : AN α) (inherited : Option α) : Option α :=
  match own with
  | .value v => some v
  | .null => none
  | .absent => inherited

/-- a non-nullable option: own value, `null` is rejected, absent inherits. -/
def nonNullable {α} (own : AN α) (inherited : α) : D α :=
  match own with
  | .value v => .ok v
  | .null => .error .nullValueOnNonNull
  | .absent => .ok inherited

/-- resolution of one level against the level above it. -/
def resolve (up : Resolved) (o : OverS) : D Resolved :=
  match nonNullable o.allocSections up.allocSections, nonNullable o.noloadSections up.noloadSections,
        nonNullable o.sectionsStartAlignment up.sectionsStartAlignment,
        nonNullable o.sectionsEndAlignment up.sectionsEndAlignment,
        nonNullable o.wildcardSections up.wildcardSections,
        nonNullable o.sectionsSubgroups up.sectionsSubgroups with
  | .ok a, .ok n, .ok ssa, .ok sea, .ok wc, .ok sub =>
    .ok { allocSections := a, noloadSections := n,
          subalign := nullable o.subalign up.subalign,
          segmentStartAlign := nullable o.segmentStartAlign up.segmentStartAlign,
          segmentEndAlign := nullable o.segmentEndAlign up.segmentEndAlign,
          sectionStartAlign := nullable o.sectionStartAlign up.sectionStartAlign,
          sectionEndAlign := nullable o.sectionEndAlign up.sectionEndAlign,
          sectionsStartAlignment := ssa, sectionsEndAlignment := sea, wildcardSections := wc,
          fillValue := nullable o.fillValue up.fillValue, sectionsSubgroups := sub }
  | _, _, _, _, _, _ => .error .nullValueOnNonNull

/-- the documented defaults (docs/file_format/settings.md). -/
def defaults : Resolved :=
  { allocSections := [c!".text", c!".data", c!".rodata", c!".sdata"],
    noloadSections := [c!".sbss", c!".scommon", c!".bss", c!"COMMON"],
    subalign := none, segmentStartAlign := none, segmentEndAlign := none,
    sectionStartAlign := none, sectionEndAlign := none,
    sectionsStartAlignment := [], sectionsEndAlignment := [], wildcardSections := true,
    fillValue := some 0, sectionsSubgroups := [] }

def ofSettings (s : Settings) : Resolved :=
  { allocSections := s.allocSections, noloadSections := s.noloadSections, subalign := s.subalign,
    segmentStartAlign := s.segmentStartAlign, segmentEndAlign := s.segmentEndAlign,
    sectionStartAlign := s.sectionStartAlign, sectionEndAlign := s.sectionEndAlign,
    sectionsStartAlignment := s.sectionsStartAlignment, sectionsEndAlignment := s.sectionsEndAlignment,
    wildcardSections := s.wildcardSections, fillValue := s.fillValue, sectionsSubgroups := s.sectionsSubgroups }

def ofSegment (s : Segment) : Resolved :=
  { allocSections := s.allocSections, noloadSections := s.noloadSections, subalign := s.subalign,
    segmentStartAlign := s.segmentStartAlign, segmentEndAlign := s.segmentEndAlign,
    sectionStartAlign := s.sectionStartAlign, sectionEndAlign := s.sectionEndAlign,
    sectionsStartAlignment := s.sectionsStartAlignment, sectionsEndAlignment := s.sectionsEndAlignment,
    wildcardSections := s.wildcardSections, fillValue := s.fillValue, sectionsSubgroups := s.sectionsSubgroups }

/-- writing a resolved value back explicitly (`null` for a disabled nullable option). -/
def explicitOpt {α} (v : Option α) : AN α :=
  match v with
  | some x => .value x
  | none => .null

def explicit (r : Resolved) : OverS :=
  { allocSections := .value r.allocSections, noloadSections := .value r.noloadSections,
    subalign := explicitOpt r.subalign, segmentStartAlign := explicitOpt r.segmentStartAlign,
    segmentEndAlign := explicitOpt r.segmentEndAlign, sectionStartAlign := explicitOpt r.sectionStartAlign,
    sectionEndAlign := explicitOpt r.sectionEndAlign,
    sectionsStartAlignment := .value r.sectionsStartAlignment,
    sectionsEndAlignment := .value r.sectionsEndAlignment, wildcardSections := .value r.wildcardSections,
    fillValue := explicitOpt r.fillValue, sectionsSubgroups := .value r.sectionsSubgroups }

/-- the lines of a script that the twelve options shape, with paths and symbol names erased:
SUBALIGN, ALIGN, FILL, the section and wildcard of every input statement. -/
def skeleton (ls : List Line) : List Str :=
  ls.filterMap fun l => match l with
    | .outHdr _ nl _ _ sub => some (c!"hdr " ++ (if nl then c!"N " else c!"A ") ++ (match sub with | some k => toDec k | none => c!"-"))
    | .assign _ (.alignE o n) _ _ _ => some (c!"align " ++ o ++ c!" " ++ toHex n)
    | .fill n => some (c!"fill " ++ toHex8 n)
    | .input _ _ _ s w => some (c!"in " ++ s ++ (if w then c!"*" else []))
    | _ => none

def proj (o : Obs) : List Str :=
  skeleton o.lines ++ (o.partialLines.map fun p => (c!"== " ++ p.1) :: skeleton p.2).flatten

end C08
end Slinky
