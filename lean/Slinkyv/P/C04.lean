/-
  Slinkyv.P.C04 — the ROM view of a script: every statement that reads or writes the ROM
  counter `__romPos`, and every output-section header (load address, NOLOAD), in order; and a
  small machine that gives these statements their linker meaning.
-/
import Slinkyv.Writer
namespace Slinky
namespace C04

def romPos : Str := c!"__romPos"

inductive RomStmt
  | init                                  -- __romPos = 0x0;
  | alignRom (n : Nat)                    -- __romPos = ALIGN(__romPos, n);
  | readRom (s : Str)                     -- s = __romPos;
  | addSize (sec : Str)                   -- __romPos += SIZEOF(sec);
  | hdr (name : Str) (noload : Bool) (lma : Option Str)
  | other (t : Str)                       -- any other statement that touches __romPos
  deriving DecidableEq, Repr

def romView : Line → Option RomStmt
  | .assign s e _ _ _ =>
    if s = romPos then
      (match e with
       | .hex 0 => some .init
       | .alignE o n => if o = romPos then some (.alignRom n) else some (.other e.render)
       | e => some (.other e.render))
    else
      (match e with
       | .sym v => if v = romPos then some (.readRom s) else none
       | .alignE o _ => if o = romPos then some (.other s) else none
       | _ => none)
  | .addAssign s e =>
    if s = romPos then
      (match e with
       | .sizeofE sec => some (.addSize sec)
       | e => some (.other e.render))
    else none
  | .outHdr name noload _ lma _ => some (.hdr name noload lma)
  | _ => none

/-- the machine: ROM counter, recorded symbols, the load address and kind of every output
section; `size sec` is what the link gives `SIZEOF(sec)`. -/
structure RomState where
  pos : Nat := 0
  syms : List (Str × Nat) := []
  loads : List (Str × Bool × Option Nat) := []   -- section, noload, LMA

def alignUp (x a : Nat) : Nat := if a ≤ 1 then x else ((x + a - 1) / a) * a

def stepRom (size : Str → Nat) (st : RomState) : RomStmt → RomState
  | .init => { st with pos := 0 }
  | .alignRom n => { st with pos := alignUp st.pos n }
  | .readRom s => { st with syms := st.syms ++ [(s, st.pos)] }
  | .addSize sec => { st with pos := st.pos + size sec }
  | .hdr name nl lma => { st with loads := st.loads ++ [(name, nl, lma.bind (fun l => lookupLast l st.syms))] }
  | .other _ => st

def runRom (size : Str → Nat) (st : RomState) (l : List RomStmt) : RomState := l.foldl (stepRom size) st

/-- the ROM statements of one emitted segment, as the documentation prescribes them. -/
def segmentRom (st : Style) (seg : Segment) : List RomStmt :=
  (match seg.segmentStartAlign with | some a => [.alignRom a] | none => [])
  ++ [.readRom (st.segRomStart seg.name),
      .hdr (c!"." ++ seg.name) false (some (st.segRomStart seg.name)),
      .hdr (c!"." ++ seg.name ++ c!".noload") true none,
      .addSize (c!"." ++ seg.name)]
  ++ (match seg.segmentEndAlign with | some a => [.alignRom a] | none => [])
  ++ [.readRom (st.segRomEnd seg.name)]


/-- the documented recurrence: each emitted segment loads at the previous ROM end rounded up
to its start alignment, and ends at start + size of its allocatable part rounded up to its
end alignment. Returns (ROM start, ROM end) per segment and the final position. -/
def chain (size : Str → Nat) : Nat → List Segment → List (Str × Nat × Nat) × Nat
  | r, [] => ([], r)
  | r, seg :: rest =>
    let s := match seg.segmentStartAlign with | some a => alignUp r a | none => r
    let e₀ := s + size (c!"." ++ seg.name)
    let e := match seg.segmentEndAlign with | some a => alignUp e₀ a | none => e₀
    let (l, fin) := chain size e rest
    ((seg.name, s, e) :: l, fin)

end C04
end Slinky
