/-
  Slinkyv.Monitor — what is observed of one generation (implementation or model), the
  shared projections, and the per-property run-time predicates that are small enough to
  live here (C12, C13). Larger ones have their own module under Slinkyv/P/.
-/
import Slinkyv.Exports
import Slinkyv.Parse
import Slinkyv.Unserialize
namespace Slinky

/-- one generation as seen through the public API, texts parsed back into lines. -/
structure Obs where
  script : Str
  joined : Str
  header : Str
  deps : Option Str
  symbols : List Str
  partials : List (Str × Str)
  lines : List Line
  partialLines : List (Str × List Line)

def Obs.ofTexts (script joined header : Str) (deps : Option Str) (symbols : List Str)
    (partials : List (Str × Str)) : Obs :=
  { script := script, joined := joined, header := header, deps := deps, symbols := symbols,
    partials := partials, lines := parseScript script,
    partialLines := partials.map (fun p => (p.1, parseScript p.2)) }

def Obs.ofOutputs (o : Outputs) : Obs :=
  Obs.ofTexts o.script o.joined o.header o.deps o.symbols o.partials

/-- verdict of one property on one case. -/
structure Verdict where
  holdsImpl : Bool
  holdsModel : Bool
  projEqual : Bool
  domain : Bool := true
  why : String := ""

/-- lines annotated with their block depth (0 = top level, 1 = inside SECTIONS, 2 = inside an output section). -/
def withDepth : Nat → List Line → List (Nat × Line)
  | _, [] => []
  | n, .blockOpen :: rest => (n, .blockOpen) :: withDepth (n + 1) rest
  | n, .blockClose :: rest => (n - 1, .blockClose) :: withDepth (n - 1) rest
  | n, l :: rest => (n, l) :: withDepth n rest

def inputPaths (ls : List Line) : List Str := ls.filterMap Line.inputPath?

namespace C12
/-- the dependency text names `target` and lists exactly the distinct input paths of `ls`. -/
def depsOk (text : Str) (target : Str) (ls : List Line) : Bool :=
  let d := parseDeps text
  d.wellFormed && d.target = target && d.prereqs = dedup (inputPaths ls) && d.rules = d.prereqs

def expectedTarget (d : Document) (o : Opts) : Option Str :=
  match d.settings.targetPath with
  | none => none
  | some t => match escapePath o t with
    | .ok p => some (display p)
    | .error _ => none

def holds (d : Document) (o : Opts) (obs : Obs) : Bool :=
  match obs.deps, expectedTarget d o with
  | some text, some t => depsOk text t obs.lines
  | none, none => true
  | _, _ => false

def proj (obs : Obs) : List Str :=
  match obs.deps with
  | none => [c!"<none>"]
  | some t => let d := parseDeps t
    [d.target] ++ [c!"--"] ++ d.prereqs ++ [c!"--"] ++ d.rules
end C12

namespace C13
def reserved : List Str := [c!".", c!"__romPos", c!"_gp"]

/-- the symbols the script itself generates: plain assignments inside `SECTIONS`, other than
the location counter, the ROM counter and `_gp`. -/
def generatedSyms (ls : List Line) : List Str :=
  dedup ((withDepth 0 ls).filterMap fun (dl : Nat × Line) =>
    match dl with
    | (n, .assign s _ false false _) => if n ≥ 1 ∧ s ∉ reserved then some s else none
    | _ => none)

def holds (d : Document) (obs : Obs) : Bool :=
  let h := parseHeader obs.header
  h.framed
  && h.decls.map (fun x => x.2.1) = generatedSyms obs.lines
  && h.decls.all (fun x => x.1 = d.settings.symbolsHeaderType && x.2.2 = d.settings.symbolsHeaderAsArray)
  && obs.symbols = generatedSyms obs.lines

def proj (obs : Obs) : List Str :=
  let h := parseHeader obs.header
  (if h.framed then c!"framed" else c!"unframed") ::
    h.decls.map (fun x => x.1 ++ c!" " ++ x.2.1 ++ (if x.2.2 then c!"[]" else []))
end C13

end Slinky

namespace Slinky
namespace C06m
/-- which entries left a trace: names of everything a script line defines or references. -/
def traceOf (ls : List Line) : List Str :=
  ls.filterMap fun l =>
    match l with
    | .assign s _ _ _ _ => some (c!"sym " ++ s)
    | .outHdr n _ _ _ _ => some (c!"sec " ++ n)
    | .input _ p m s _ => some (c!"in " ++ p ++ c!":" ++ (m.getD []) ++ c!"(" ++ s)
    | .addAssign s _ => some (c!"add " ++ s)
    | .entry e => some (c!"entry " ++ e)
    | .extern n => some (c!"extern " ++ n)
    | .assertL c _ => some (c!"assert " ++ c)
    | _ => none

def proj (o : Obs) : List Str :=
  traceOf o.lines ++ (o.partialLines.map fun p => (c!"== " ++ p.1) :: traceOf p.2).flatten
    ++ (match o.deps with | some d => (parseDeps d).prereqs | none => [])
    ++ o.symbols
end C06m
end Slinky
