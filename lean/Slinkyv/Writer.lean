/-
  Slinkyv.Writer — `LinkerWriter` and `PartialLinkerWriter`
  (slinky/src/linker_writer.rs, partial_linker_writer.rs), function by function.
  Every writer function returns the lines it appends; the two ordered sets the real writer
  maintains (`linker_symbols`, `files_paths`) are recovered from the lines
  (`linkerSymbols`, `filesPaths`).
-/
import Slinkyv.Script
namespace Slinky

inductive Fail
  | err (k : ErrKind)
  | diverge
  deriving DecidableEq, Repr

abbrev R (α : Type) := Except Fail α

def liftPath (r : Except ErrKind Str) : R Str :=
  match r with
  | .ok p => .ok p
  | .error k => .error (.err k)

structure Ctx where
  d : Document
  o : Opts
  refPartial : Bool := false
  emitKindSyms : Bool := true
  emitSecSyms : Bool := true
  /-- `RuntimeSettings::escape_path`; a parameter so that C07 can run the writer on the
  declarative path expansion as well (proved equal). -/
  esc : Opts → Str → Except ErrKind Str := escapePath

def linkerSym (s : Str) (e : Expr) : Line := .assign s e false false true

def alignSymbol (s : Str) (n : Nat) : Line := .assign s (.alignE s n) false false false

def maxSelf (s other : Str) : Line := .assign s (.maxE s other) false false false

/-- `write_sym_end_size`. -/
def symEndSize (start end_ size : Str) (value : Expr) : List Line :=
  [linkerSym end_ value, linkerSym size (.absSub end_ start)]

def keepFor (k : Keep) (sec : Str) : Bool :=
  match k with
  | .absent => false
  | .all b => b
  | .which l => sec ∈ l

/-- sort key of `sections_to_emit_here`: `(position in the current list, name)`;
`None < Some _` as in Rust. -/
def keyLe (sections : List Str) (a b : Str) : Bool :=
  match position a sections, position b sections with
  | none, none => !strLt b a
  | none, some _ => true
  | some _, none => false
  | some i, some j => i < j || (i = j && !strLt b a)

def insertSorted (le : Str → Str → Bool) (x : Str) : List Str → List Str
  | [] => [x]
  | y :: ys => if le x y then x :: y :: ys else y :: insertSorted le x ys

def sortBy (le : Str → Str → Bool) : List Str → List Str
  | [] => []
  | x :: xs => insertSorted le x (sortBy le xs)

/-- the sections a file contributes to the group of `sec`
(`emit_section_for_file`, the `section_order` branch). -/
def sectionsToEmitHere (order : List (Str × Str)) (sec : Str) (sections : List Str) : List Str :=
  if order.isEmpty then [sec]
  else
    let here := if (lookup sec order).isSome then [] else [sec]
    let moved := order.filterMap (fun kv => if kv.2 = sec then some kv.1 else none)
    sortBy (keyLe sections) (here ++ moved)

def subgroupsOf (seg : Segment) (k : Str) : List Str :=
  match lookup k seg.sectionsSubgroups with
  | some l => l
  | none => []

/-- `emit_section_for_file` + `emit_file`, one function structurally recursive on the fuel
(both the descent into a group and the descent into a sub-group consume one unit). -/
def emitEntry (cx : Ctx) (seg : Segment) (sections : List Str) :
    Nat → FileInfo → Str → Str → List Str → R (List Line)
  | 0, _, _, _, _ => .error .diverge
  | fuel + 1, file, sec, base, parents =>
    if !shouldEmit cx.o file.cond then .ok [] else
    if sec ∈ parents then .error (.err .cyclicSubgroups) else
    concatMapE (fun k =>
      -- emit_file(file, segment, k, sections, base)
      let body : R (List Line) :=
        if !shouldEmit cx.o file.cond then .ok []
        else
          let keep := keepFor file.keep k
          match file.kind with
          | .object =>
            match liftPath (cx.esc cx.o file.path) with
            | .error e => .error e
            | .ok p => .ok [.input keep (display (pathPush base p)) none k seg.wildcardSections]
          | .archive =>
            match liftPath (cx.esc cx.o file.path) with
            | .error e => .error e
            | .ok p => .ok [.input keep (display (pathPush base p)) (some file.subfile) k seg.wildcardSections]
          | .pad =>
            .ok (if file.sect = k then [.addAssign c!"." (.hex file.padAmount)] else [])
          | .linkerOffset =>
            .ok (if file.sect = k
                 then [linkerSym (cx.d.settings.style.linkerOffset file.linkerOffsetName) .dot] else [])
          | .group =>
            match liftPath (cx.esc cx.o file.dir) with
            | .error e => .error e
            | .ok dir =>
              concatMapE (fun child => emitEntry cx seg sections fuel child k (pathPush base dir) []) file.files
      match body with
      | .error e => .error e
      | .ok a =>
        let subs : R (List Line) :=
          if cx.refPartial || (file.sectionOrder.isEmpty && file.kind = .group) then .ok []
          else concatMapE (fun other => emitEntry cx seg sections fuel file other base (sec :: parents)) (subgroupsOf seg k)
        match subs with
        | .error e => .error e
        | .ok b => .ok (a ++ b))
      (sectionsToEmitHere file.sectionOrder sec sections)

mutual
  def FileInfo.depth : FileInfo → Nat
    | .mk _ _ _ _ _ _ _ fs _ _ _ => FileInfo.depthList fs + 1
  def FileInfo.depthList : List FileInfo → Nat
    | [] => 0
    | f :: fs => max (FileInfo.depth f) (FileInfo.depthList fs)
end

/-- every section that occurs as a sub-group of some section. -/
def subgroupValues (seg : Segment) : List Str := (seg.sectionsSubgroups.map (·.2)).flatten

/-- enough fuel for every call chain: below one file the chain of sub-group descents cannot be
longer than the number of sub-group sections + 1 (the cycle guard stops a repeated section),
and every descent into a group starts a new chain (`C19.never_diverges`). -/
def fuelFor (seg : Segment) : Nat :=
  FileInfo.depthList seg.files * ((subgroupValues seg).length + 2) + 1

/-- `emit_section`. -/
def emitSection (cx : Ctx) (seg : Segment) (sec : Str) (sections : List Str) : R (List Line) :=
  match liftPath (cx.esc cx.o cx.d.settings.basePath) with
  | .error e => .error e
  | .ok base0 =>
    let baseR : R Str :=
      if cx.refPartial then .ok base0
      else match liftPath (cx.esc cx.o seg.dir) with
        | .error e => .error e
        | .ok d => .ok (pathPush base0 d)
    match baseR with
    | .error e => .error e
    | .ok base =>
      concatMapE (fun file => emitEntry cx seg sections (fuelFor seg) file sec base []) seg.files

def kindName (seg : Segment) (noload : Bool) : Str :=
  seg.name ++ c!"_" ++ (if noload then c!"noload" else c!"alloc")

/-- `write_sections_kind_start`. -/
def kindStart (cx : Ctx) (seg : Segment) (noload : Bool) : List Line :=
  if cx.emitKindSyms then
    [linkerSym (cx.d.settings.style.segVramStart (kindName seg noload)) .dot, .blank]
  else []

/-- `write_sections_kind_end`. -/
def kindEnd (cx : Ctx) (seg : Segment) (noload : Bool) : List Line :=
  if cx.emitKindSyms then
    let st := cx.d.settings.style
    let n := kindName seg noload
    .blank :: symEndSize (st.segVramStart n) (st.segVramEnd n) (st.segVramSize n) .dot
  else []

def gpLine (cx : Ctx) (seg : Segment) (sec : Str) : List Line :=
  match seg.gpInfo with
  | none => []
  | some gp =>
    if shouldEmit cx.o gp.cond && gp.sect = sec then
      [.assign c!"_gp" (.dotPlus (toHexI32 gp.offset)) gp.provide gp.hidden false]
    else []

/-- `write_section_symbol_start`. -/
def sectionSymStart (cx : Ctx) (seg : Segment) (sec : Str) : List Line :=
  if cx.emitSecSyms then
    (match seg.sectionStartAlign with | some a => [alignSymbol c!"." a] | none => [])
    ++ (match lookup sec seg.sectionsStartAlignment with | some a => [alignSymbol c!"." a] | none => [])
    ++ gpLine cx seg sec
    ++ [linkerSym (cx.d.settings.style.secStart seg.name sec) .dot]
  else []

/-- `write_section_symbol_end`. -/
def sectionSymEnd (cx : Ctx) (seg : Segment) (sec : Str) : List Line :=
  if cx.emitSecSyms then
    let st := cx.d.settings.style
    (match seg.sectionEndAlign with | some a => [alignSymbol c!"." a] | none => [])
    ++ (match lookup sec seg.sectionsEndAlignment with | some a => [alignSymbol c!"." a] | none => [])
    ++ symEndSize (st.secStart seg.name sec) (st.secEnd seg.name sec) (st.secSize seg.name sec) .dot
  else []

/-- the address expression of the allocatable output sec (`write_segment_start`). -/
def segAddr (cx : Ctx) (seg : Segment) : Option Str :=
  let st := cx.d.settings.style
  match seg.fixedVram with
  | some v => some (c!"0x" ++ toHex8 v)
  | none =>
    match seg.fixedSymbol with
    | some s => some s
    | none =>
      match seg.followsSegment with
      | some f => some (st.segVramEnd f)
      | none =>
        match seg.vramClass with
        | some c => some (st.classStart c)
        | none => none

/-- `write_segment_start`. -/
def segmentStart (cx : Ctx) (seg : Segment) (noload : Bool) : List Line :=
  kindStart cx seg noload
  ++ [ if noload then .outHdr (c!"." ++ seg.name ++ c!".noload") true none none seg.subalign
       else .outHdr (c!"." ++ seg.name) false (segAddr cx seg)
              (some (cx.d.settings.style.segRomStart seg.name)) seg.subalign,
       .blockOpen ]

/-- the per-sec loop shared by `write_segment` and `write_single_segment`;
`i + 1 < sections.len()` decides the separating blank line. -/
def sectionLoop (f : Str → R (List Line)) : List Str → R (List Line)
  | [] => .ok []
  | [s] => f s
  | s :: rest =>
    match f s with
    | .error e => .error e
    | .ok a =>
      match sectionLoop f rest with
      | .error e => .error e
      | .ok b => .ok (a ++ [.blank] ++ b)

/-- `write_segment`. -/
def writeSegment (cx : Ctx) (seg : Segment) (sections : List Str) (noload : Bool) : R (List Line) :=
  match sectionLoop (fun sec =>
      match emitSection cx seg sec sections with
      | .error e => .error e
      | .ok body => .ok (sectionSymStart cx seg sec ++ body ++ sectionSymEnd cx seg sec))
      sections with
  | .error e => .error e
  | .ok body =>
    .ok (segmentStart cx seg noload
      ++ (match seg.fillValue with | some v => [.fill v] | none => [])
      ++ body
      ++ [.blockClose] ++ kindEnd cx seg noload)

/-- `write_single_segment`. -/
def writeSingleSegment (cx : Ctx) (seg : Segment) (sections : List Str) (noload : Bool) : R (List Line) :=
  match sectionLoop (fun sec =>
      match emitSection cx seg sec sections with
      | .error e => .error e
      | .ok body =>
        .ok (sectionSymStart cx seg sec
          ++ [.outHdr sec noload none none seg.subalign, .blockOpen]
          ++ (match seg.fillValue with | some v => [.fill v] | none => [])
          ++ body ++ [.blockClose] ++ sectionSymEnd cx seg sec))
      sections with
  | .error e => .error e
  | .ok body => .ok (kindStart cx seg noload ++ body ++ kindEnd cx seg noload)

def findClass (d : Document) (n : Str) : Option VramClass :=
  d.vramClasses.reverse.find? (fun c => c.name = n)

/-- the followed classes whose end symbol exists: those that some emitted segment of the
document uses (a class nobody uses gets no symbols, so its end is not referenced). -/
def followedUsed (cx : Ctx) (vc : VramClass) : List Str :=
  vc.followsClasses.filter fun other =>
    cx.d.segments.any fun s => decide (s.vramClass = some other) && shouldEmit cx.o s.cond

/-- the class-symbol block written before the first emitted member of a class. -/
def classIntro (cx : Ctx) (cname : Str) (vc : VramClass) : List Line :=
  let st := cx.d.settings.style
  let s := st.classStart cname
  (match vc.fixedVram with
   | some v => [linkerSym s (.hex8 v)]
   | none =>
     match vc.fixedSymbol with
     | some fs => [linkerSym s (.sym fs)]
     | none => linkerSym s (.hex8 0) :: (followedUsed cx vc).map (fun other => maxSelf s (st.classEnd other)))
  ++ [linkerSym (st.classEnd cname) (.hex8 0), .blank]

/-- the vram-class prologue of `add_segment`: error for an undeclared class, the class symbols
before the first emitted member, nothing otherwise. -/
def classPart (cx : Ctx) (emitted : List Str) (seg : Segment) : R (List Line × List Str) :=
  match seg.vramClass with
  | none => .ok ([], emitted)
  | some cname =>
    match findClass cx.d cname with
    | none => .error (.err .missingVramClassForSegment)
    | some vc =>
      if cname ∈ emitted then .ok ([], emitted)
      else .ok (classIntro cx cname vc, emitted ++ [cname])

/-- everything `add_segment` writes for an emitted segment, given its class prologue and its
two output sections. -/
def segmentLines (cx : Ctx) (seg : Segment) (cls alloc noload : List Line) : List Line :=
  cls
  ++ (match seg.segmentStartAlign with
      | some a => [alignSymbol c!"__romPos" a, alignSymbol c!"." a] | none => [])
  ++ [linkerSym (cx.d.settings.style.segRomStart seg.name) (.sym c!"__romPos"),
      linkerSym (cx.d.settings.style.segVramStart seg.name) (.addr (c!"." ++ seg.name))]
  ++ alloc ++ [.blank] ++ noload ++ [.blank]
  ++ [.addAssign c!"__romPos" (.sizeofE (c!"." ++ seg.name))]
  ++ (match seg.segmentEndAlign with
      | some a => [alignSymbol c!"__romPos" a, alignSymbol c!"." a] | none => [])
  ++ symEndSize (cx.d.settings.style.segVramStart seg.name) (cx.d.settings.style.segVramEnd seg.name)
      (cx.d.settings.style.segVramSize seg.name) .dot
  ++ symEndSize (cx.d.settings.style.segRomStart seg.name) (cx.d.settings.style.segRomEnd seg.name)
      (cx.d.settings.style.segRomSize seg.name) (.sym c!"__romPos")
  ++ (match seg.vramClass with
      | some cname => [.blank, maxSelf (cx.d.settings.style.classEnd cname) (cx.d.settings.style.segVramEnd seg.name)]
      | none => [])
  ++ [.blank]

/-- `add_segment`: returns the lines and the updated list of emitted classes. -/
def addSegment (cx : Ctx) (emitted : List Str) (seg : Segment) : R (List Line × List Str) :=
  if !shouldEmit cx.o seg.cond then .ok ([], emitted)
  else
    match classPart cx emitted seg with
    | .error e => .error e
    | .ok (cls, emitted') =>
      match writeSegment cx seg seg.allocSections false with
      | .error e => .error e
      | .ok alloc =>
        match writeSegment cx seg seg.noloadSections true with
        | .error e => .error e
        | .ok noload => .ok (segmentLines cx seg cls alloc noload, emitted')

/-- `begin_sections`. -/
def beginSections (cx : Ctx) : List Line :=
  [.sectionsKw, .blockOpen, .assign c!"__romPos" (.hex 0) false false false]
  ++ (match cx.d.settings.hardcodedGpValue with
      | some v => [.assign c!"_gp" (.hex8 v) false false false] | none => [])
  ++ [.blank]

/-- `end_sections`; `emitted` lists the classes with an emitted member in the order the
`IndexMap` iterates them (declaration order, later duplicates replacing earlier ones in place). -/
def endSections (cx : Ctx) (emitted : List Str) : List Line :=
  let st := cx.d.settings.style
  let s := cx.d.settings
  let classNames := dedup (cx.d.vramClasses.map (·.name))
  let sizes := (classNames.filter (· ∈ emitted)).map
      (fun n => linkerSym (st.classSize n) (.sub (st.classEnd n) (st.classStart n)))
  let ln₁ := !sizes.isEmpty
  let allow := if s.sectionsAllowlist.isEmpty then []
    else (if ln₁ then [Line.blank] else []) ++ s.sectionsAllowlist.map (fun x => Line.singleEntry x c!"0")
  let ln₂ := ln₁ || !s.sectionsAllowlist.isEmpty
  let extra := if s.sectionsAllowlistExtra.isEmpty then []
    else (if ln₂ then [Line.blank] else []) ++ s.sectionsAllowlistExtra.map (fun x => Line.singleEntry x c!"0")
  let ln₃ := ln₂ || !s.sectionsAllowlistExtra.isEmpty
  let discard := if s.discardWildcardSection || !s.sectionsDenylist.isEmpty then
      (if ln₃ then [Line.blank] else []) ++ [Line.discardHdr, Line.blockOpen]
      ++ s.sectionsDenylist.map Line.discardPat
      ++ (if s.discardWildcardSection then [Line.discardPat c!"*"] else [])
      ++ [Line.blockClose]
    else []
  sizes ++ allow ++ extra ++ discard ++ [.blockClose]

/-- the fold of `add_segment` over the segments. -/
def addSegments (cx : Ctx) : List Str → List Segment → R (List Line × List Str)
  | emitted, [] => .ok ([], emitted)
  | emitted, seg :: rest =>
    match addSegment cx emitted seg with
    | .error e => .error e
    | .ok (a, em) =>
      match addSegments cx em rest with
      | .error e => .error e
      | .ok (b, em') => .ok (a ++ b, em')

/-- `add_single_segment`. -/
def addSingleSegment (cx : Ctx) (seg : Segment) : R (List Line) :=
  match writeSingleSegment cx seg seg.allocSections false with
  | .error e => .error e
  | .ok alloc =>
    match writeSingleSegment cx seg seg.noloadSections true with
    | .error e => .error e
    | .ok noload =>
      .ok ([.sectionsKw, .blockOpen]
        ++ (if cx.emitSecSyms then
              match cx.d.settings.hardcodedGpValue with
              | some v => [.assign c!"_gp" (.hex8 v) false false false, .blank] | none => []
            else [])
        ++ (match seg.fixedVram with
            | some v => [.assign c!"." (.hex8 v) false false false, .blank] | none => [])
        ++ alloc ++ [.blank] ++ noload ++ [.blank]
        ++ endSections cx [])

def versionComment (emit : Bool) : List Line :=
  if emit then [.comment c!"Generated by slinky 0.3.1", .blank] else []

/-- `LinkerWriter::add_all_segments`. -/
def addAllSegments (cx : Ctx) : R (List Line) :=
  if cx.d.settings.singleSegmentMode then
    match cx.d.segments with
    | [seg] => addSingleSegment cx seg
    | _ => .error (.err .invalidSegmentCount)
  else
    match addSegments cx [] cx.d.segments with
    | .error e => .error e
    | .ok (ls, emitted) => .ok (beginSections cx ++ ls ++ endSections cx emitted)

/-- everything `add_whole_document` writes after the segments. -/
def topLevel (d : Document) (o : Opts) : List Line :=
  (match d.entry with | some e => [.blank, .entry e] | none => [])
  ++ (if d.symbolAssignments.isEmpty then [] else
        .blank :: (d.symbolAssignments.filter (fun a => shouldEmit o a.cond)).map
          (fun a => .assign a.name (.sym a.value) a.provide a.hidden false))
  ++ (if d.requiredSymbols.isEmpty then [] else
        .blank :: ((d.requiredSymbols.filter (fun a => shouldEmit o a.cond)).map
          (fun a => [Line.extern a.name,
                     Line.assertL (c!"DEFINED(" ++ a.name ++ c!")")
                       (c!"Required symbol '" ++ a.name ++ c!"' was not linked")])).flatten)
  ++ (if d.asserts.isEmpty then [] else
        .blank :: (d.asserts.filter (fun a => shouldEmit o a.cond)).map
          (fun a => .assertL a.check a.errorMessage))

/-- `LinkerWriter::new` + `add_whole_document`. -/
def generateNormal (d : Document) (o : Opts) (versionC : Bool)
    (esc : Opts → Str → Except ErrKind Str := escapePath) : R (List Line) :=
  match addAllSegments { d := d, o := o, esc := esc } with
  | .error e => .error e
  | .ok ls => .ok (versionComment versionC ++ ls ++ topLevel d o)

structure PartialOut where
  main : List Line
  partials : List (Str × List Line)

/-- the segment handed to the main writer: `clone_with_new_files([new_object(folder/<name>.o)])`. -/
def partialSegment (folder : Str) (seg : Segment) : Segment :=
  { seg with files := [FileInfo.newObject (pathPush folder (seg.name ++ c!".o"))] }

def partialSegments (d : Document) (o : Opts) (versionC : Bool) (folder : Str)
    (esc : Opts → Str → Except ErrKind Str := escapePath) :
    List Str → List Segment → R (List Line × List Str × List (Str × List Line))
  | emitted, [] => .ok ([], emitted, [])
  | emitted, seg :: rest =>
    if !shouldEmit o seg.cond then partialSegments d o versionC folder esc emitted rest
    else
      match addSingleSegment { d := d, o := o, emitKindSyms := false, emitSecSyms := false, esc := esc } seg with
      | .error e => .error e
      | .ok sub =>
        match addSegment { d := d, o := o, refPartial := true, esc := esc } emitted (partialSegment folder seg) with
        | .error e => .error e
        | .ok (a, em) =>
          match partialSegments d o versionC folder esc em rest with
          | .error e => .error e
          | .ok (b, em', ps) => .ok (a ++ b, em', (seg.name, versionComment versionC ++ sub) :: ps)

/-- `PartialLinkerWriter::new` + `add_whole_document`. -/
def generatePartial (d : Document) (o : Opts) (versionC : Bool)
    (esc : Opts → Str → Except ErrKind Str := escapePath) : R PartialOut :=
  match d.settings.partialBuildSegmentsFolder with
  | none => .error (.err .missingRequiredField)
  | some folder =>
    let cx : Ctx := { d := d, o := o, refPartial := true, esc := esc }
    match partialSegments d o versionC folder esc [] d.segments with
    | .error e => .error e
    | .ok (ls, emitted, ps) =>
      .ok { main := versionComment versionC ++ beginSections cx ++ ls ++ endSections cx emitted ++ topLevel d o,
            partials := ps }

/-! ### what the writer remembers besides the text -/

def Line.linkerSym? : Line → Option Str
  | .assign s _ false false true => some s
  | _ => none

def Line.inputPath? : Line → Option Str
  | .input _ p _ _ _ => some p
  | _ => none

/-- `ScriptBuffer::linker_symbols`: first-occurrence order of `write_linker_symbol` calls. -/
def linkerSymbols (ls : List Line) : List Str := dedup (ls.filterMap Line.linkerSym?)

/-- `LinkerWriter::files_paths`. -/
def filesPaths (ls : List Line) : List Str := dedup (ls.filterMap Line.inputPath?)

end Slinky
