/-
  Slinkyv.Unserialize — every `*Serial::unserialize` and the `AbsentNullable` getters
  (slinky/src/absent_nullable.rs, settings.rs, segment.rs, file_info.rs, gp_info.rs,
  vram_class.rs, symbol_assignment.rs, required_symbol.rs, assert_entry.rs, document.rs).
-/
import Slinkyv.Serial
namespace Slinky

namespace AN
/-- `get_non_null`. -/
def nonNull {α} (a : AN α) (dflt : α) : D α :=
  match a with
  | .absent => .ok dflt
  | .null => .error .nullValueOnNonNull
  | .value v => .ok v

/-- `get_non_null_not_empty` for lists. -/
def nonNullNotEmpty {α} (a : AN (List α)) : D (List α) :=
  match a with
  | .absent => .ok []
  | .null => .error .nullValueOnNonNull
  | .value v => if v.isEmpty then .error .emptyValue else .ok v

/-- `get_non_null_no_default`. -/
def nonNullNoDefault {α} (a : AN α) : D (Option α) :=
  match a with
  | .absent => .ok none
  | .null => .error .nullValueOnNonNull
  | .value v => .ok (some v)

/-- `get_optional_nullable`. -/
def optionalNullable {α} (a : AN α) (dflt : Option α) : Option α :=
  match a with
  | .absent => dflt
  | .null => none
  | .value v => some v

/-- `get`. -/
def get {α} (a : AN α) : D α :=
  match a with
  | .value v => .ok v
  | _ => .error .missingRequiredField

def hasValue {α} (a : AN α) : Bool :=
  match a with
  | .value _ => true
  | _ => false

/-- `is_present`: written on the document, with a value or with an explicit `null`. -/
def isPresent {α} (a : AN α) : Bool :=
  match a with
  | .absent => false
  | _ => true
end AN

def CondS.unserialize (c : CondS) : D Cond :=
  match c.includeIfAny.nonNullNotEmpty with
  | .error e => .error e
  | .ok ia =>
    match c.includeIfAll.nonNullNotEmpty with
    | .error e => .error e
    | .ok il =>
      match c.excludeIfAny.nonNullNotEmpty with
      | .error e => .error e
      | .ok ea =>
        match c.excludeIfAll.nonNullNotEmpty with
        | .error e => .error e
        | .ok el => .ok { includeIfAny := ia, includeIfAll := il, excludeIfAny := ea, excludeIfAll := el }

/-- `FileKind::from_path`. -/
def kindFromPath (p : Str) : FileKind :=
  match extension p with
  | some e => if e = c!"a" then .archive else .object
  | none => .object

mutual
  /-- `FileInfo::pass_down_keep_sections`. -/
  def passDownFile (k : Keep) : FileInfo → FileInfo
    | .mk p kind sf pa se lo so fs dir c keep =>
      if k = .absent then .mk p kind sf pa se lo so fs dir c keep
      else if keep = .absent then
        .mk p kind sf pa se lo so (if kind = .group then passDownFiles k fs else fs) dir c k
      else .mk p kind sf pa se lo so fs dir c keep
  def passDownFiles (k : Keep) : List FileInfo → List FileInfo
    | [] => []
    | f :: fs => passDownFile k f :: passDownFiles k fs
end

/-- path and kind of a file entry (the kind is guessed from the path when not given). -/
def pathKindR (path : AN Str) (kindA : AN FileKind) : D (Str × FileKind) :=
  match kindA.nonNullNoDefault with
  | .error e => .error e
  | .ok (some k) =>
    if k = .object ∨ k = .archive then
      match path.get with
      | .error e => .error e
      | .ok p => if p = [] then .error .emptyValue else .ok (p, k)
    else if path.isPresent then .error .invalidFieldCombo else .ok ([], k)
  | .ok none =>
    match path.get with
    | .error e => .error e
    | .ok p => if p = [] then .error .emptyValue else .ok (p, kindFromPath p)

def subfileR (kind : FileKind) (subfile : AN Str) : D Str :=
  if kind = .archive then subfile.nonNull c!"*"
  else if subfile.isPresent then .error .invalidFieldCombo else .ok c!"*"

def padR (kind : FileKind) (padAmount : AN Nat) : D Nat :=
  if kind = .pad then padAmount.get
  else if padAmount.isPresent then .error .invalidFieldCombo else .ok 0

def sectR (kind : FileKind) (sect : AN Str) : D Str :=
  if kind = .pad ∨ kind = .linkerOffset then sect.get
  else if sect.isPresent then .error .invalidFieldCombo else .ok []

def loR (kind : FileKind) (lo : AN Str) : D Str :=
  if kind = .linkerOffset then lo.get
  else if lo.isPresent then .error .invalidFieldCombo else .ok []

def soR (kind : FileKind) (so : AN (List (Str × Str))) : D (List (Str × Str)) :=
  if kind = .object ∨ kind = .archive then so.nonNull []
  else if so.isPresent then .error .invalidFieldCombo else .ok []

/-- first half of `FileInfoSerial::unserialize`: path and kind, then `subfile`, `pad_amount`,
`section`, `linker_offset_name`, `section_order`, each required / optional / forbidden by the kind. -/
def filePre (path : AN Str) (kindA : AN FileKind) (subfile : AN Str) (padAmount : AN Nat)
    (sect : AN Str) (lo : AN Str) (so : AN (List (Str × Str))) :
    D (Str × FileKind × Str × Nat × Str × Str × List (Str × Str)) :=
  match pathKindR path kindA with
  | .error e => .error e
  | .ok (p, kind) =>
    match subfileR kind subfile with
    | .error e => .error e
    | .ok sf =>
      match padR kind padAmount with
      | .error e => .error e
      | .ok pa =>
        match sectR kind sect with
        | .error e => .error e
        | .ok se =>
          match loR kind lo with
          | .error e => .error e
          | .ok lon =>
            match soR kind so with
            | .error e => .error e
            | .ok sord => .ok (p, kind, sf, pa, se, lon, sord)

def dirR (kind : FileKind) (dir : AN Str) : D Str :=
  if kind = .group then dir.nonNull []
  else if dir.isPresent then .error .invalidFieldCombo else .ok []

/-- last part of `FileInfoSerial::unserialize`: `dir` and the four condition lists. -/
def filePost (kind : FileKind) (dir : AN Str) (c : CondS) : D (Str × Cond) :=
  match dirR kind dir with
  | .error e => .error e
  | .ok dr =>
    match c.unserialize with
    | .error e => .error e
    | .ok cond => .ok (dr, cond)

def filesR {α} (kind : FileKind) (filesHas filesPresent : Bool) (children : D (List α)) : D (List α) :=
  if kind = .group then
    (if filesHas then children else .error .missingRequiredField)
  else if filesPresent then .error .invalidFieldCombo else .ok []

/-- the kind-specific field rules of `FileInfoSerial::unserialize`, for an already decoded
list of children. `pass = true` is the code; `pass = false` omits the three `keep_sections`
push-down passes (used to state C14: the passes compute the nearest explicit ancestor). -/
def fileFields (pass : Bool) (path : AN Str) (kindA : AN FileKind) (subfile : AN Str) (padAmount : AN Nat)
    (sect : AN Str) (lo : AN Str) (so : AN (List (Str × Str))) (filesHas filesPresent : Bool)
    (children : D (List FileInfo)) (dir : AN Str) (c : CondS) (keep : Keep) : D FileInfo :=
  match filePre path kindA subfile padAmount sect lo so with
  | .error e => .error e
  | .ok (p, kind, sf, pa, se, lon, sord) =>
    match filesR kind filesHas filesPresent children with
    | .error e => .error e
    | .ok fs =>
      match filePost kind dir c with
      | .error e => .error e
      | .ok (dr, cond) =>
        let fs' := if pass ∧ kind = .group ∧ keep ≠ .absent then passDownFiles keep fs else fs
        .ok (.mk p kind sf pa se lon sord fs' dr cond keep)

mutual
  /-- `FileInfoSerial::unserialize`. Children are unserialised only when the entry is a
  group that has a `files` value (as in the code, where `files.get()?.unserialize()` runs
  in the group arm only). -/
  def FileS.unserialize (pass : Bool) : FileS → D FileInfo
    | .mk path kindA subfile padAmount sect lo so files dir c keep =>
      fileFields pass path kindA subfile padAmount sect lo so (AN.hasValue files) (AN.isPresent files)
        (match files with
         | .value l => FileS.unserializeList pass l
         | _ => .ok [])
        dir c keep
  def FileS.unserializeList (pass : Bool) : List FileS → D (List FileInfo)
    | [] => .ok []
    | f :: fs =>
      match FileS.unserialize pass f with
      | .error e => .error e
      | .ok x =>
        match FileS.unserializeList pass fs with
        | .error e => .error e
        | .ok xs => .ok (x :: xs)
end

def GpInfoS.unserialize (g : GpInfoS) : D GpInfo :=
  match g.sect.nonNull c!".sdata" with
  | .error e => .error e
  | .ok s =>
    if s = [] then .error .emptyValue
    else
      match g.offset.nonNull 0x7FF0, g.provide.nonNull false, g.hidden.nonNull false with
      | .ok off, .ok p, .ok h =>
        match g.cond.unserialize with
        | .error e => .error e
        | .ok c => .ok { sect := s, offset := off, provide := p, hidden := h, cond := c }
      | .error e, _, _ => .error e
      | _, .error e, _ => .error e
      | _, _, .error e => .error e

/-- `SettingsSerial::unserialize` (`None` settings → `Settings::default()`). -/
def SettingsS.unserialize (s : SettingsS) : D Settings :=
  let dflt : Settings := {}
  match s.basePath.nonNull dflt.basePath, s.style.nonNull dflt.style with
  | .error e, _ => .error e
  | _, .error e => .error e
  | .ok basePath, .ok style =>
    let hardcodedGpValue := s.hardcodedGpValue.optionalNullable none
    let dPath := s.dPath.optionalNullable none
    let targetPath := s.targetPath.optionalNullable none
    let symbolsHeaderPath := s.symbolsHeaderPath.optionalNullable none
    match s.symbolsHeaderType.nonNull dflt.symbolsHeaderType,
          s.symbolsHeaderAsArray.nonNull dflt.symbolsHeaderAsArray,
          s.sectionsAllowlist.nonNull dflt.sectionsAllowlist,
          s.sectionsAllowlistExtra.nonNull dflt.sectionsAllowlistExtra,
          s.sectionsDenylist.nonNull dflt.sectionsDenylist,
          s.discardWildcardSection.nonNull dflt.discardWildcardSection,
          s.singleSegmentMode.nonNull dflt.singleSegmentMode with
    | .ok hty, .ok harr, .ok allow, .ok extra, .ok deny, .ok wild, .ok single =>
      if dPath.isSome && targetPath.isNone then .error .missingRequiredFieldCombo
      else
        match s.over.allocSections.nonNull dflt.allocSections,
              s.over.noloadSections.nonNull dflt.noloadSections,
              s.over.sectionsStartAlignment.nonNull dflt.sectionsStartAlignment,
              s.over.sectionsEndAlignment.nonNull dflt.sectionsEndAlignment,
              s.over.wildcardSections.nonNull dflt.wildcardSections,
              s.over.sectionsSubgroups.nonNull dflt.sectionsSubgroups with
        | .ok alloc, .ok noload, .ok ssa, .ok sea, .ok wc, .ok sub =>
          .ok { basePath := basePath, style := style, hardcodedGpValue := hardcodedGpValue,
                dPath := dPath, targetPath := targetPath, symbolsHeaderPath := symbolsHeaderPath,
                symbolsHeaderType := hty, symbolsHeaderAsArray := harr,
                sectionsAllowlist := allow, sectionsAllowlistExtra := extra, sectionsDenylist := deny,
                discardWildcardSection := wild, singleSegmentMode := single,
                partialScriptsFolder := s.partialScriptsFolder.optionalNullable none,
                partialBuildSegmentsFolder := s.partialBuildSegmentsFolder.optionalNullable none,
                allocSections := alloc, noloadSections := noload,
                subalign := s.over.subalign.optionalNullable dflt.subalign,
                segmentStartAlign := s.over.segmentStartAlign.optionalNullable dflt.segmentStartAlign,
                segmentEndAlign := s.over.segmentEndAlign.optionalNullable dflt.segmentEndAlign,
                sectionStartAlign := s.over.sectionStartAlign.optionalNullable dflt.sectionStartAlign,
                sectionEndAlign := s.over.sectionEndAlign.optionalNullable dflt.sectionEndAlign,
                sectionsStartAlignment := ssa, sectionsEndAlignment := sea,
                wildcardSections := wc,
                fillValue := s.over.fillValue.optionalNullable dflt.fillValue,
                sectionsSubgroups := sub }
        | .error e, _, _, _, _, _ => .error e
        | _, .error e, _, _, _, _ => .error e
        | _, _, .error e, _, _, _ => .error e
        | _, _, _, .error e, _, _ => .error e
        | _, _, _, _, .error e, _ => .error e
        | _, _, _, _, _, .error e => .error e
    | .error e, _, _, _, _, _, _ => .error e
    | _, .error e, _, _, _, _, _ => .error e
    | _, _, .error e, _, _, _, _ => .error e
    | _, _, _, .error e, _, _, _ => .error e
    | _, _, _, _, .error e, _, _ => .error e
    | _, _, _, _, _, .error e, _ => .error e
    | _, _, _, _, _, _, .error e => .error e

/-- is `sec` reachable from itself through `sections_subgroups`? fuel = number of keys + 1. -/
def reachesSelf (m : List (Str × List Str)) (target : Str) : Nat → Str → Bool
  | 0, _ => true
  | fuel + 1, cur =>
    match lookup cur m with
    | none => false
    | some others => others.any (fun o => o = target || reachesSelf m target fuel o)

/-- everything reachable from `frontier` through `sections_subgroups` (breadth first; every round adds
something new or stops, so as many rounds as there are names suffice). -/
def subClosure (m : List (Str × List Str)) : Nat → List Str → List Str → List Str
  | 0, _, acc => acc
  | fuel + 1, frontier, acc =>
    let next := dedup ((frontier.map fun s => (lookup s m).getD []).flatten.filter fun x => x ∉ acc)
    if next.isEmpty then acc else subClosure m fuel next (acc ++ next)

/-- `find_sections_subgroups_cycle(...).is_some()`: some section is reachable from itself. (Equivalent to
`reachesSelf` for some key — a cycle exists iff a key on it reaches itself — but linear in the size of the table
instead of in the number of paths, which a table with re-converging sub-groups makes exponential.) -/
def hasSubgroupCycle (m : List (Str × List Str)) : Bool :=
  m.any fun kv =>
    let kids := dedup ((lookup kv.1 m).getD [])
    kv.1 ∈ subClosure m ((m.map (·.2)).flatten.length + m.length + 1) kids kids

def atMostOne (l : List Bool) : Bool := (l.filter id).length ≤ 1

/-- the segment's `gp_info`, unserialised. -/
def gpOf (s : SegmentS) : D (Option GpInfo) :=
  match s.gpInfo.nonNullNoDefault with
  | .error e => .error e
  | .ok none => .ok none
  | .ok (some g) => match g.unserialize with
    | .ok x => .ok (some x)
    | .error e => .error e

/-- `gp_info.section` must be one of the segment's sections. -/
def gpSectionOk (gp : Option GpInfo) (alloc noload : List Str) : Bool :=
  match gp with
  | some g => g.sect ∈ alloc || g.sect ∈ noload
  | none => true

/-- the last part of `SegmentSerial::unserialize`: conditions, the overridable options and the
checks that need them (`gp_info.section`, cyclic sub-groups). -/
def segmentTail (st : Settings) (s : SegmentS) (fv : Option Nat) (fs fol vc : Option Str) (dir : Str)
    (gp : Option GpInfo) : D Segment :=
  match s.cond.unserialize with
  | .error e => .error e
  | .ok cond =>
    match s.over.allocSections.nonNull st.allocSections,
          s.over.noloadSections.nonNull st.noloadSections with
    | .ok alloc, .ok noload =>
      if !gpSectionOk gp alloc noload then .error .missingSectionForSegment
      else
        match s.over.sectionsStartAlignment.nonNull st.sectionsStartAlignment,
              s.over.sectionsEndAlignment.nonNull st.sectionsEndAlignment,
              s.over.wildcardSections.nonNull st.wildcardSections,
              s.over.sectionsSubgroups.nonNull st.sectionsSubgroups with
        | .ok ssa, .ok sea, .ok wc, .ok sub =>
          if hasSubgroupCycle sub then .error .cyclicSubgroups
          else
            .ok { name := s.name,
                  files := [],
                  fixedVram := fv, fixedSymbol := fs, followsSegment := fol, vramClass := vc,
                  dir := dir, gpInfo := gp, cond := cond,
                  allocSections := alloc, noloadSections := noload,
                  subalign := s.over.subalign.optionalNullable st.subalign,
                  segmentStartAlign := s.over.segmentStartAlign.optionalNullable st.segmentStartAlign,
                  segmentEndAlign := s.over.segmentEndAlign.optionalNullable st.segmentEndAlign,
                  sectionStartAlign := s.over.sectionStartAlign.optionalNullable st.sectionStartAlign,
                  sectionEndAlign := s.over.sectionEndAlign.optionalNullable st.sectionEndAlign,
                  sectionsStartAlignment := ssa, sectionsEndAlignment := sea,
                  wildcardSections := wc,
                  fillValue := s.over.fillValue.optionalNullable st.fillValue,
                  sectionsSubgroups := sub, keep := s.keep }
        | .error e, _, _, _ => .error e
        | _, .error e, _, _ => .error e
        | _, _, .error e, _ => .error e
        | _, _, _, .error e => .error e
    | .error e, _ => .error e
    | _, .error e => .error e

/-- everything `SegmentSerial::unserialize` does after its files are unserialised (the result
carries no files yet). -/
def segmentRest (st : Settings) (s : SegmentS) : D Segment :=
  match s.fixedVram.nonNullNoDefault, s.fixedSymbol.nonNullNoDefault,
        s.followsSegment.nonNullNoDefault, s.vramClass.nonNullNoDefault with
  | .ok fv, .ok fs, .ok fol, .ok vc =>
    if !atMostOne [fv.isSome, fs.isSome, fol.isSome, vc.isSome] then .error .invalidFieldCombo
    else
      match s.dir.nonNull [] with
      | .error e => .error e
      | .ok dir =>
        match gpOf s with
        | .error e => .error e
        | .ok gp =>
          if gp.isSome && st.hardcodedGpValue.isSome then .error .invalidFieldCombo
          else segmentTail st s fv fs fol vc dir gp
  | .error e, _, _, _ => .error e
  | _, .error e, _, _ => .error e
  | _, _, .error e, _ => .error e
  | _, _, _, .error e => .error e

/-- `SegmentSerial::unserialize`. -/
def SegmentS.unserialize (pass : Bool) (st : Settings) (s : SegmentS) : D Segment :=
  if s.name = [] then .error .emptyValue
  else if s.files.isEmpty then .error .emptyValue
  else
    match FileS.unserializeList pass s.files with
    | .error e => .error e
    | .ok files =>
      match segmentRest st s with
      | .error e => .error e
      | .ok seg => .ok { seg with keep := s.keep, files := if pass ∧ s.keep ≠ .absent then passDownFiles s.keep files else files }

/-- `VramClassSerial::unserialize`. -/
def VramClassS.unserialize (v : VramClassS) : D VramClass :=
  if v.name = [] then .error .emptyValue
  else
    match v.fixedVram.nonNullNoDefault, v.fixedSymbol.nonNullNoDefault, v.followsClasses.nonNull [] with
    | .ok fv, .ok fs, .ok fc =>
      if fv.isSome && (fs.isSome || !fc.isEmpty) then .error .invalidFieldCombo
      else if fs.isSome && !fc.isEmpty then .error .invalidFieldCombo
      else if fv.isNone && fs.isNone && fc.isEmpty then .error .missingAnyOfOptionalFields
      else .ok { name := v.name, fixedVram := fv, fixedSymbol := fs, followsClasses := fc, keep := v.keep }
    | .error e, _, _ => .error e
    | _, .error e, _ => .error e
    | _, _, .error e => .error e

def SymbolAssignmentS.unserialize (a : SymbolAssignmentS) : D SymbolAssignment :=
  if a.name = [] then .error .emptyValue
  else if a.value = [] then .error .emptyValue
  else
    match a.provide.nonNull false, a.hidden.nonNull false with
    | .ok p, .ok h =>
      match a.cond.unserialize with
      | .error e => .error e
      | .ok c => .ok { name := a.name, value := a.value, provide := p, hidden := h, cond := c }
    | .error e, _ => .error e
    | _, .error e => .error e

def RequiredSymbolS.unserialize (a : RequiredSymbolS) : D RequiredSymbol :=
  if a.name = [] then .error .emptyValue
  else match a.cond.unserialize with
    | .error e => .error e
    | .ok c => .ok { name := a.name, cond := c }

def AssertS.unserialize (a : AssertS) : D AssertEntry :=
  if a.check = [] then .error .emptyValue
  else if a.errorMessage = [] then .error .emptyValue
  else match a.cond.unserialize with
    | .error e => .error e
    | .ok c => .ok { check := a.check, errorMessage := a.errorMessage, cond := c }

/-- `Segment::pass_down_keep_sections` as called from `DocumentSerial::unserialize`. -/
def Segment.passDownKeep (seg : Segment) (k : Keep) : Segment :=
  if k = .absent then seg
  else if seg.keep = .absent then { seg with keep := k, files := passDownFiles k seg.files }
  else seg

def applyClassKeep (classes : List VramClass) (seg : Segment) : Segment :=
  match seg.vramClass with
  | none => seg
  | some cn =>
    match classes.find? (fun c => c.name = cn) with
    | none => seg
    | some vc => seg.passDownKeep vc.keep

/-- first part of `DocumentSerial::unserialize`: settings, the non-empty check, the classes. -/
def documentPre (d : DocumentS) : D (Settings × List VramClass) :=
  let settingsR : D Settings :=
    match d.settings.nonNullNoDefault with
    | .error e => .error e
    | .ok none => .ok {}
    | .ok (some s) => s.unserialize
  match settingsR with
  | .error e => .error e
  | .ok settings =>
    if d.segments.isEmpty then .error .emptyValue
    else
      match d.vramClasses.nonNull [] with
      | .error e => .error e
      | .ok vcs =>
        match mapE VramClassS.unserialize vcs with
        | .error e => .error e
        | .ok classes => .ok (settings, classes)

/-- last part: `entry` and the three top-level lists. -/
def documentPost (d : DocumentS) :
    D (Option Str × List SymbolAssignment × List RequiredSymbol × List AssertEntry) :=
  match d.entry.nonNullNoDefault with
  | .error e => .error e
  | .ok entry =>
    match d.symbolAssignments.nonNull [] with
    | .error e => .error e
    | .ok sas =>
      match mapE SymbolAssignmentS.unserialize sas with
      | .error e => .error e
      | .ok symbolAssignments =>
        match d.requiredSymbols.nonNull [] with
        | .error e => .error e
        | .ok rss =>
          match mapE RequiredSymbolS.unserialize rss with
          | .error e => .error e
          | .ok requiredSymbols =>
            match d.asserts.nonNull [] with
            | .error e => .error e
            | .ok as_ =>
              match mapE AssertS.unserialize as_ with
              | .error e => .error e
              | .ok asserts => .ok (entry, symbolAssignments, requiredSymbols, asserts)

/-- `DocumentSerial::unserialize`. -/
def DocumentS.unserialize (d : DocumentS) (pass : Bool := true) : D Document :=
  match documentPre d with
  | .error e => .error e
  | .ok (settings, classes) =>
    match mapE (SegmentS.unserialize pass settings) d.segments with
    | .error e => .error e
    | .ok segments =>
      match documentPost d with
      | .error e => .error e
      | .ok (entry, symbolAssignments, requiredSymbols, asserts) =>
        .ok { settings := settings, vramClasses := classes,
              segments := if pass then segments.map (applyClassKeep classes) else segments,
              entry := entry, symbolAssignments := symbolAssignments,
              requiredSymbols := requiredSymbols, asserts := asserts }

/-- `Document::read_file` from the canonical tree. -/
def parseDocument (y : Y) : D Document :=
  match dDocumentS y with
  | .error e => .error e
  | .ok ds => ds.unserialize

end Slinky
