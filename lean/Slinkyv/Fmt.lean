/-
  Slinkyv.Fmt — Rust's `format!` for the three placeholders slinky uses. `Piece` is one element of a
  format template, `Arg` one argument (a text, printed as is by `{}`; an unsigned number, printed in
  decimal by `{}`, in upper-case hexadecimal by `{:X}` and zero-padded to eight digits by `{:08X}`; an `i32`, printed
  by `{:X}` in two's complement).
  lean/Src/Formats.lean (generated from the sources on every run) holds the templates of the code.
-/
import Slinkyv.Basic
namespace Slinky

inductive Piece
  | lit (s : Str)
  | disp
  | hex
  | hex8
  deriving DecidableEq, Repr

inductive Arg
  | s (x : Str)
  | n (x : Nat)
  | i (x : Int)
  deriving DecidableEq, Repr

/-- `format!(template, args…)`. A template and an argument list that do not fit (which `rustc` rejects)
give a marker text no script contains. -/
def fmt : List Piece → List Arg → Str
  | [], [] => []
  | .lit s :: ps, as => s ++ fmt ps as
  | .disp :: ps, .s x :: as => x ++ fmt ps as
  | .disp :: ps, .n x :: as => toDec x ++ fmt ps as
  | .hex :: ps, .n x :: as => toHex x ++ fmt ps as
  | .hex8 :: ps, .n x :: as => toHex8 x ++ fmt ps as
  | .hex :: ps, .i x :: as => toHexI32 x ++ fmt ps as
  | _, _ => c!"<format error>"

end Slinky
