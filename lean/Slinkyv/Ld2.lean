/-
  Slinkyv.Ld2 — which input sections the statements of a script take, in which order
  (`takes`: the placement part of `Ld.exec` without addresses — `Props/TwoStep.lean` proves
  that `exec` places exactly this list), and on top of it the two-step link of partial mode:

    * `relink`  — `ld -r` with a partial script: every output section of the script becomes one
                  section of the partial object (a *composite*), holding what its statements take,
                  in order; output sections that take nothing do not exist in the object;
    * `twoStep` — the final link: the main script's statements select composites of the partial
                  objects by name (first match wins, `*` is a prefix match, object order =
                  script order of the partial link); a selected composite brings its contents
                  along as one block.

  Like `Slinkyv.Ld` this is a model of the linker; the order it predicts is compared with the
  order of the marker symbols in real two-step links (`ld -r` per segment, then the main
  script) on every linked case of the C11 check.
-/
import Slinkyv.Ld
namespace Slinky
namespace Ld

def isTaken (taken : List InSec) (i : InSec) : Bool := taken.any fun x => x = i

/-- the input sections the statements take, in order. State: inside an output section,
inside `/DISCARD/`, what is already taken (placed or discarded). -/
def takes (objs : List InSec) : Bool → Bool → List InSec → List Line → List InSec
  | _, _, _, [] => []
  | inBlk, inDis, taken, l :: rest =>
    match l with
    | .outHdr _ _ _ _ _ => takes objs true inDis taken rest
    | .input _ p m s w =>
      if inBlk then
        sel objs p m s w taken ++ takes objs inBlk inDis (taken ++ sel objs p m s w taken) rest
      else takes objs inBlk inDis taken rest
    | .singleEntry sec _ =>
      selSec objs sec taken ++ takes objs inBlk inDis (taken ++ selSec objs sec taken) rest
    | .discardHdr => takes objs inBlk true taken rest
    | .discardPat pat =>
      if inDis then takes objs inBlk inDis (taken ++ selPat objs pat taken) rest
      else takes objs inBlk inDis taken rest
    | .blockClose => if inBlk then takes objs false inDis taken rest else takes objs false false taken rest
    | _ => takes objs inBlk inDis taken rest
where
  sel (objs : List InSec) (p : Str) (m : Option Str) (s : Str) (w : Bool) (taken : List InSec) : List InSec :=
    objs.filter fun i => selects p m s w i && !isTaken taken i
  selSec (objs : List InSec) (sec : Str) (taken : List InSec) : List InSec :=
    objs.filter fun i => i.sec = sec && !isTaken taken i
  selPat (objs : List InSec) (pat : Str) (taken : List InSec) : List InSec :=
    objs.filter fun i => (pat = c!"*" || i.sec = pat) && !isTaken taken i

/-- what a list of input statements takes (the statements of one or more blocks, everything
else left out). -/
def takeSeq (objs : List InSec) : List InSec → List Line → List InSec
  | _, [] => []
  | taken, .input _ p m s w :: rest =>
    takes.sel objs p m s w taken ++ takeSeq objs (taken ++ takes.sel objs p m s w taken) rest
  | taken, _ :: rest => takeSeq objs taken rest

/-- the output sections of a script: name and the statements between its braces. -/
def blocksOf : List Line → List (Str × List Line)
  | [] => []
  | .outHdr name _ _ _ _ :: rest => (name, blockBody rest) :: blocksOf rest
  | _ :: rest => blocksOf rest

/-- a section of a partial object: the output section `name` of the relocatable link and the
input sections it is made of, in order. -/
structure Comp where
  obj : Str
  name : Str
  items : List InSec
  deriving Repr

/-- `ld -r -T partial.ld -o obj`: one composite per output section that takes something. -/
def relinkBlocks (objs : List InSec) (obj : Str) : List InSec → List (Str × List Line) → List Comp
  | _, [] => []
  | taken, (n, body) :: rest =>
    let c := takeSeq objs taken body
    if c.isEmpty then relinkBlocks objs obj taken rest
    else ⟨obj, n, c⟩ :: relinkBlocks objs obj (taken ++ c) rest

def relink (objs : List InSec) (obj : Str) (script : List Line) : List Comp :=
  relinkBlocks objs obj [] (blocksOf script)

/-- a composite as the final link sees it: a section `name` of the object `obj`. -/
def Comp.sec (c : Comp) : InSec := ⟨c.obj, none, c.name, 0, 1⟩

/-- the contents of the composites selected, each as one block. -/
def expand (comps : List Comp) (order : List InSec) : List InSec :=
  order.flatMap fun cs => (comps.filter fun c => c.sec = cs).flatMap (·.items)

/-- the two-step link: relocatable link of every partial script, then the main script over
the partial objects. The result is the order of the original input sections in the image. -/
def twoStep (objs : List InSec) (partials : List (Str × List Line)) (main : List Line) : List InSec :=
  let comps := partials.flatMap fun p => relink objs p.1 p.2
  expand comps (takes (comps.map (·.sec)) false false [] main)

/-- the one-step link: the order in which the ordinary script takes the input sections. -/
def oneStep (objs : List InSec) (script : List Line) : List InSec :=
  takes objs false false [] script

end Ld
end Slinky
