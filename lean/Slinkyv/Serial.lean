/-
  Slinkyv.Serial — the serde layer: a canonical YAML value tree `Y` and its typed
  deserialisation into the `*Serial` records, mirroring the `#[derive(Deserialize)]`
  attributes (`deny_unknown_fields`, `#[serde(default)]`, `AbsentNullable`, the untagged
  `KeepSections`, the `snake_case` enums). The YAML scanner (bytes → tree) is not modelled.
-/
import Slinkyv.Types
namespace Slinky

/-- canonical YAML value tree; mapping keys are texts. -/
inductive Y
  | null
  | bool (b : Bool)
  | int (i : Int)
  | float (raw : Str)
  | str (s : Str)
  | seq (l : List Y)
  | map (l : List (Str × Y))

/-- `AbsentNullable<T>`. -/
inductive AN (α : Type)
  | absent
  | null
  | value (a : α)
  deriving DecidableEq, Repr

abbrev D (α : Type) := Except ErrKind α

def yamlErr {α} : D α := .error .failedYamlParsing

def intRepr (i : Int) : Str :=
  if i < 0 then '-' :: toDec i.natAbs else toDec i.toNat

/-- a `String`/`PathBuf` target accepts any scalar and takes its source text. -/
def dStr : Y → D Str
  | .str s => .ok s
  | .int i => .ok (intRepr i)
  | .bool true => .ok c!"true"
  | .bool false => .ok c!"false"
  | .null => .ok c!"null"
  | .float raw => .ok raw
  | _ => yamlErr

/-- a required `String` field (`deserialize_non_null_string`): as `dStr`, but `null` is rejected. -/
def dStrNN : Y → D Str
  | .null => yamlErr
  | y => dStr y

def dU32 : Y → D Nat
  | .int i => if 0 ≤ i ∧ i < 4294967296 then .ok i.toNat else yamlErr
  | _ => yamlErr

def dI32 : Y → D Int
  | .int i => if -2147483648 ≤ i ∧ i < 2147483648 then .ok i else yamlErr
  | _ => yamlErr

def dBool : Y → D Bool
  | .bool b => .ok b
  | _ => yamlErr

def dStrList : Y → D (List Str)
  | .seq l => mapE dStr l
  | _ => yamlErr

def dPair : Y → D (Str × Str)
  | .seq [a, b] =>
    match dStr a, dStr b with
    | .ok x, .ok y => .ok (x, y)
    | _, _ => yamlErr
  | _ => yamlErr

def dPairs : Y → D (List (Str × Str))
  | .seq l => mapE dPair l
  | _ => yamlErr

/-- `HashMap` insertion: a later pair replaces an earlier one with the same key. -/
def insertKV {β} (k : Str) (v : β) : List (Str × β) → List (Str × β)
  | [] => [(k, v)]
  | (k', v') :: rest => if k' = k then (k, v) :: rest else (k', v') :: insertKV k v rest

def toMap {β} (l : List (Str × β)) : List (Str × β) :=
  l.foldl (fun acc kv => insertKV kv.1 kv.2 acc) []

def dMapWith {β} (f : Y → D β) : Y → D (List (Str × β))
  | .map l =>
    match mapE (fun (kv : Str × Y) => match f kv.2 with
        | .ok v => .ok (kv.1, v)
        | .error e => .error e) l with
    | .ok r => .ok (toMap r)
    | .error e => .error e
  | _ => yamlErr

/-- untagged `KeepSections`: a bool, or a sequence of (quoted or plain) *string* scalars. -/
def dKeep : Y → D Keep
  | .bool b => .ok (.all b)
  | .seq l =>
    match mapE (fun y => match y with | Y.str s => Except.ok s | _ => yamlErr) l with
    | .ok r => .ok (.which r)
    | .error e => .error e
  | _ => yamlErr

def dFileKind (y : Y) : D FileKind :=
  match dStr y with
  | .error e => .error e
  | .ok s =>
    if s = c!"object" then .ok .object
    else if s = c!"archive" then .ok .archive
    else if s = c!"pad" then .ok .pad
    else if s = c!"linker_offset" then .ok .linkerOffset
    else if s = c!"group" then .ok .group
    else yamlErr

def dStyle (y : Y) : D Style :=
  match dStr y with
  | .error e => .error e
  | .ok s =>
    if s = c!"splat" then .ok .splat
    else if s = c!"makerom" then .ok .makerom
    else yamlErr

/-- `Option<T>`-style field: `null` → `Null`. -/
def anOf {α} (f : Y → D α) (m : List (Str × Y)) (k : Str) : D (AN α) :=
  match lookup k m with
  | none => .ok .absent
  | some .null => .ok .null
  | some y => match f y with
    | .ok v => .ok (.value v)
    | .error e => .error e

/-- a field without `#[serde(default)]`: must be present. -/
def reqOf {α} (f : Y → D α) (m : List (Str × Y)) (k : Str) : D α :=
  match lookup k m with
  | none => yamlErr
  | some y => f y

/-- `#[serde(default)] keep_sections: KeepSections`. -/
def keepOf (m : List (Str × Y)) : D Keep :=
  match lookup c!"keep_sections" m with
  | none => .ok .absent
  | some y => dKeep y

def nodupKeys : List (Str × Y) → Bool
  | [] => true
  | (k, _) :: rest => (lookup k rest).isNone && nodupKeys rest

/-- `deny_unknown_fields` + serde's duplicate-field check. -/
def checkKeys (known : List Str) (m : List (Str × Y)) : D Unit :=
  if m.all (fun kv => kv.1 ∈ known) && nodupKeys m then .ok () else yamlErr

structure CondS where
  includeIfAny : AN (List (Str × Str))
  includeIfAll : AN (List (Str × Str))
  excludeIfAny : AN (List (Str × Str))
  excludeIfAll : AN (List (Str × Str))

def condKeys : List Str :=
  [c!"include_if_any", c!"include_if_all", c!"exclude_if_any", c!"exclude_if_all"]

/-- the keys serde accepts for the smaller records (`deny_unknown_fields`). -/
def gpKeys : List Str := [c!"section", c!"offset", c!"provide", c!"hidden"] ++ condKeys
def classKeys : List Str := [c!"name", c!"fixed_vram", c!"fixed_symbol", c!"follows_classes", c!"keep_sections"]
def assignKeys : List Str := [c!"name", c!"value", c!"provide", c!"hidden"] ++ condKeys
def requiredKeys : List Str := [c!"name"] ++ condKeys
def assertKeys : List Str := [c!"check", c!"error_message"] ++ condKeys
def documentKeys : List Str :=
  [c!"settings", c!"vram_classes", c!"segments", c!"entry", c!"symbol_assignments", c!"required_symbols", c!"asserts"]

def dCondS (m : List (Str × Y)) : D CondS :=
  match anOf dPairs m c!"include_if_any", anOf dPairs m c!"include_if_all",
        anOf dPairs m c!"exclude_if_any", anOf dPairs m c!"exclude_if_all" with
  | .ok a, .ok b, .ok c, .ok d => .ok ⟨a, b, c, d⟩
  | _, _, _, _ => yamlErr

/-- `FileInfoSerial`. -/
inductive FileS
  | mk (path : AN Str) (kind : AN FileKind) (subfile : AN Str) (padAmount : AN Nat)
       (sect : AN Str) (linkerOffsetName : AN Str) (sectionOrder : AN (List (Str × Str)))
       (files : AN (List FileS)) (dir : AN Str) (cond : CondS) (keep : Keep)

def fileKeys : List Str :=
  [c!"path", c!"kind", c!"subfile", c!"pad_amount", c!"section", c!"linker_offset_name",
   c!"section_order", c!"files", c!"dir", c!"keep_sections"] ++ condKeys

mutual
  def Y.size : Y → Nat
    | .seq l => Y.sizeList l + 1
    | .map l => Y.sizeMap l + 1
    | _ => 1
  def Y.sizeList : List Y → Nat
    | [] => 0
    | y :: ys => Y.size y + Y.sizeList ys
  def Y.sizeMap : List (Str × Y) → Nat
    | [] => 0
    | (_, y) :: ys => Y.size y + Y.sizeMap ys
end

/-- `FileInfoSerial::deserialize`, fuel-indexed (the fuel `Y.size` always suffices). -/
def dFileS : Nat → Y → D FileS
  | 0, _ => yamlErr
  | fuel + 1, .map m =>
    match checkKeys fileKeys m with
    | .error e => .error e
    | .ok () =>
      let filesR : D (AN (List FileS)) :=
        match lookup c!"files" m with
        | none => .ok .absent
        | some .null => .ok .null
        | some (.seq l) =>
          match mapE (dFileS fuel) l with
          | .ok r => .ok (.value r)
          | .error e => .error e
        | some _ => yamlErr
      match anOf dStr m c!"path", anOf dFileKind m c!"kind", anOf dStr m c!"subfile",
            anOf dU32 m c!"pad_amount", anOf dStr m c!"section", anOf dStr m c!"linker_offset_name",
            anOf (dMapWith dStr) m c!"section_order", filesR, anOf dStr m c!"dir",
            dCondS m, keepOf m with
      | .ok p, .ok k, .ok sf, .ok pa, .ok se, .ok lo, .ok so, .ok fs, .ok dir, .ok c, .ok kp =>
        .ok (.mk p k sf pa se lo so fs dir c kp)
      | _, _, _, _, _, _, _, _, _, _, _ => yamlErr
  | _ + 1, _ => yamlErr

structure GpInfoS where
  sect : AN Str
  offset : AN Int
  provide : AN Bool
  hidden : AN Bool
  cond : CondS

def dGpInfoS : Y → D GpInfoS
  | .map m =>
    match checkKeys gpKeys m with
    | .error e => .error e
    | .ok () =>
      match anOf dStr m c!"section", anOf dI32 m c!"offset", anOf dBool m c!"provide",
            anOf dBool m c!"hidden", dCondS m with
      | .ok s, .ok o, .ok p, .ok h, .ok c => .ok ⟨s, o, p, h, c⟩
      | _, _, _, _, _ => yamlErr
  | _ => yamlErr

/-- the twelve per-segment overridable options, at either level. -/
structure OverS where
  allocSections : AN (List Str)
  noloadSections : AN (List Str)
  subalign : AN Nat
  segmentStartAlign : AN Nat
  segmentEndAlign : AN Nat
  sectionStartAlign : AN Nat
  sectionEndAlign : AN Nat
  sectionsStartAlignment : AN (List (Str × Nat))
  sectionsEndAlignment : AN (List (Str × Nat))
  wildcardSections : AN Bool
  fillValue : AN Nat
  sectionsSubgroups : AN (List (Str × List Str))

def overKeys : List Str :=
  [c!"alloc_sections", c!"noload_sections", c!"subalign", c!"segment_start_align",
   c!"segment_end_align", c!"section_start_align", c!"section_end_align",
   c!"sections_start_alignment", c!"sections_end_alignment", c!"wildcard_sections",
   c!"fill_value", c!"sections_subgroups"]

def dOverS (m : List (Str × Y)) : D OverS :=
  match anOf dStrList m c!"alloc_sections", anOf dStrList m c!"noload_sections",
        anOf dU32 m c!"subalign", anOf dU32 m c!"segment_start_align",
        anOf dU32 m c!"segment_end_align", anOf dU32 m c!"section_start_align",
        anOf dU32 m c!"section_end_align", anOf (dMapWith dU32) m c!"sections_start_alignment",
        anOf (dMapWith dU32) m c!"sections_end_alignment", anOf dBool m c!"wildcard_sections",
        anOf dU32 m c!"fill_value", anOf (dMapWith dStrList) m c!"sections_subgroups" with
  | .ok a, .ok b, .ok c, .ok d, .ok e, .ok f, .ok g, .ok h, .ok i, .ok j, .ok k, .ok l =>
    .ok ⟨a, b, c, d, e, f, g, h, i, j, k, l⟩
  | _, _, _, _, _, _, _, _, _, _, _, _ => yamlErr

structure SegmentS where
  name : Str
  files : List FileS
  fixedVram : AN Nat
  fixedSymbol : AN Str
  followsSegment : AN Str
  vramClass : AN Str
  dir : AN Str
  gpInfo : AN GpInfoS
  cond : CondS
  over : OverS
  keep : Keep

def segmentKeys : List Str :=
  [c!"name", c!"files", c!"fixed_vram", c!"fixed_symbol", c!"follows_segment", c!"vram_class",
   c!"dir", c!"gp_info", c!"keep_sections"] ++ condKeys ++ overKeys

def dSegmentS : Y → D SegmentS
  | .map m =>
    match checkKeys segmentKeys m with
    | .error e => .error e
    | .ok () =>
      let filesR : D (List FileS) :=
        match lookup c!"files" m with
        | some (.seq l) => mapE (fun y => dFileS (Y.size y) y) l
        | _ => yamlErr
      match reqOf dStrNN m c!"name", filesR, anOf dU32 m c!"fixed_vram", anOf dStr m c!"fixed_symbol",
            anOf dStr m c!"follows_segment", anOf dStr m c!"vram_class", anOf dStr m c!"dir",
            anOf dGpInfoS m c!"gp_info", dCondS m, dOverS m, keepOf m with
      | .ok n, .ok fs, .ok fv, .ok fsy, .ok fol, .ok vc, .ok dir, .ok gp, .ok c, .ok ov, .ok kp =>
        .ok ⟨n, fs, fv, fsy, fol, vc, dir, gp, c, ov, kp⟩
      | _, _, _, _, _, _, _, _, _, _, _ => yamlErr
  | _ => yamlErr

structure VramClassS where
  name : Str
  fixedVram : AN Nat
  fixedSymbol : AN Str
  followsClasses : AN (List Str)
  keep : Keep

def dVramClassS : Y → D VramClassS
  | .map m =>
    match checkKeys classKeys m with
    | .error e => .error e
    | .ok () =>
      match reqOf dStrNN m c!"name", anOf dU32 m c!"fixed_vram", anOf dStr m c!"fixed_symbol",
            anOf dStrList m c!"follows_classes", keepOf m with
      | .ok n, .ok fv, .ok fs, .ok fc, .ok kp => .ok ⟨n, fv, fs, fc, kp⟩
      | _, _, _, _, _ => yamlErr
  | _ => yamlErr

structure SymbolAssignmentS where
  name : Str
  value : Str
  provide : AN Bool
  hidden : AN Bool
  cond : CondS

def dSymbolAssignmentS : Y → D SymbolAssignmentS
  | .map m =>
    match checkKeys assignKeys m with
    | .error e => .error e
    | .ok () =>
      match reqOf dStrNN m c!"name", reqOf dStrNN m c!"value", anOf dBool m c!"provide",
            anOf dBool m c!"hidden", dCondS m with
      | .ok n, .ok v, .ok p, .ok h, .ok c => .ok ⟨n, v, p, h, c⟩
      | _, _, _, _, _ => yamlErr
  | _ => yamlErr

structure RequiredSymbolS where
  name : Str
  cond : CondS

def dRequiredSymbolS : Y → D RequiredSymbolS
  | .map m =>
    match checkKeys requiredKeys m with
    | .error e => .error e
    | .ok () =>
      match reqOf dStrNN m c!"name", dCondS m with
      | .ok n, .ok c => .ok ⟨n, c⟩
      | _, _ => yamlErr
  | _ => yamlErr

structure AssertS where
  check : Str
  errorMessage : Str
  cond : CondS

def dAssertS : Y → D AssertS
  | .map m =>
    match checkKeys assertKeys m with
    | .error e => .error e
    | .ok () =>
      match reqOf dStrNN m c!"check", reqOf dStrNN m c!"error_message", dCondS m with
      | .ok n, .ok v, .ok c => .ok ⟨n, v, c⟩
      | _, _, _ => yamlErr
  | _ => yamlErr

structure SettingsS where
  basePath : AN Str
  style : AN Style
  hardcodedGpValue : AN Nat
  dPath : AN Str
  targetPath : AN Str
  symbolsHeaderPath : AN Str
  symbolsHeaderType : AN Str
  symbolsHeaderAsArray : AN Bool
  sectionsAllowlist : AN (List Str)
  sectionsAllowlistExtra : AN (List Str)
  sectionsDenylist : AN (List Str)
  discardWildcardSection : AN Bool
  singleSegmentMode : AN Bool
  partialScriptsFolder : AN Str
  partialBuildSegmentsFolder : AN Str
  over : OverS

def settingsKeys : List Str :=
  [c!"base_path", c!"linker_symbols_style", c!"hardcoded_gp_value", c!"d_path", c!"target_path",
   c!"symbols_header_path", c!"symbols_header_type", c!"symbols_header_as_array",
   c!"sections_allowlist", c!"sections_allowlist_extra", c!"sections_denylist",
   c!"discard_wildcard_section", c!"single_segment_mode", c!"partial_scripts_folder",
   c!"partial_build_segments_folder"] ++ overKeys

def dSettingsS : Y → D SettingsS
  | .map m =>
    match checkKeys settingsKeys m with
    | .error e => .error e
    | .ok () =>
      match anOf dStr m c!"base_path", anOf dStyle m c!"linker_symbols_style",
            anOf dU32 m c!"hardcoded_gp_value", anOf dStr m c!"d_path", anOf dStr m c!"target_path",
            anOf dStr m c!"symbols_header_path", anOf dStr m c!"symbols_header_type",
            anOf dBool m c!"symbols_header_as_array", anOf dStrList m c!"sections_allowlist",
            anOf dStrList m c!"sections_allowlist_extra", anOf dStrList m c!"sections_denylist",
            anOf dBool m c!"discard_wildcard_section", anOf dBool m c!"single_segment_mode",
            anOf dStr m c!"partial_scripts_folder", anOf dStr m c!"partial_build_segments_folder",
            dOverS m with
      | .ok a, .ok b, .ok c, .ok d, .ok e, .ok f, .ok g, .ok h, .ok i, .ok j, .ok k, .ok l,
        .ok mm, .ok n, .ok o, .ok p => .ok ⟨a, b, c, d, e, f, g, h, i, j, k, l, mm, n, o, p⟩
      | _, _, _, _, _, _, _, _, _, _, _, _, _, _, _, _ => yamlErr
  | _ => yamlErr

structure DocumentS where
  settings : AN SettingsS
  vramClasses : AN (List VramClassS)
  segments : List SegmentS
  entry : AN Str
  symbolAssignments : AN (List SymbolAssignmentS)
  requiredSymbols : AN (List RequiredSymbolS)
  asserts : AN (List AssertS)

def dSeqOf {α} (f : Y → D α) : Y → D (List α)
  | .seq l => mapE f l
  | _ => yamlErr

def dDocumentS : Y → D DocumentS
  | .map m =>
    match checkKeys documentKeys m with
    | .error e => .error e
    | .ok () =>
      match anOf dSettingsS m c!"settings", anOf (dSeqOf dVramClassS) m c!"vram_classes",
            reqOf (dSeqOf dSegmentS) m c!"segments", anOf dStr m c!"entry",
            anOf (dSeqOf dSymbolAssignmentS) m c!"symbol_assignments",
            anOf (dSeqOf dRequiredSymbolS) m c!"required_symbols",
            anOf (dSeqOf dAssertS) m c!"asserts" with
      | .ok s, .ok v, .ok sg, .ok e, .ok sa, .ok rs, .ok a => .ok ⟨s, v, sg, e, sa, rs, a⟩
      | _, _, _, _, _, _, _ => yamlErr
  | _ => yamlErr

end Slinky
