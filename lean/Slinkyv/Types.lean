/-
  Slinkyv.Types — the parsed `Document` (slinky/src/{document,settings,segment,file_info,
  gp_info,vram_class,symbol_assignment,required_symbol,assert_entry,keep_sections}.rs)
  and `RuntimeSettings::should_emit_entry`.
-/
import Slinkyv.Path
namespace Slinky

/-- `KeepSections`. -/
inductive Keep
  | absent
  | all (b : Bool)
  | which (l : List Str)
  deriving DecidableEq, Repr

/-- the four condition lists every conditional entry carries. -/
structure Cond where
  excludeIfAny : List (Str × Str) := []
  excludeIfAll : List (Str × Str) := []
  includeIfAny : List (Str × Str) := []
  includeIfAll : List (Str × Str) := []
  deriving DecidableEq, Repr

def pairMatches (o : Opts) (p : Str × Str) : Bool := optGet o p.1 = some p.2

/-- `RuntimeSettings::should_emit_entry`, line for line. -/
def shouldEmit (o : Opts) (c : Cond) : Bool :=
  if c.excludeIfAny.any (pairMatches o) then false
  else if !c.excludeIfAll.isEmpty && c.excludeIfAll.all (pairMatches o) then false
  else if !c.includeIfAny.isEmpty || !c.includeIfAll.isEmpty then
    let exit₁ := if !c.includeIfAny.isEmpty then !c.includeIfAny.any (pairMatches o) else false
    let exit₂ :=
      if (exit₁ || c.includeIfAny.isEmpty) && !c.includeIfAll.isEmpty
      then !c.includeIfAll.all (pairMatches o) else exit₁
    !exit₂
  else true

inductive FileKind
  | object | archive | pad | linkerOffset | group
  deriving DecidableEq, Repr

/-- `FileInfo` (a nested inductive: groups contain files). -/
inductive FileInfo
  | mk (path : Str) (kind : FileKind) (subfile : Str) (padAmount : Nat) (sect : Str)
       (linkerOffsetName : Str) (sectionOrder : List (Str × Str))
       (files : List FileInfo) (dir : Str) (cond : Cond) (keep : Keep)

namespace FileInfo
def path : FileInfo → Str | mk p _ _ _ _ _ _ _ _ _ _ => p
def kind : FileInfo → FileKind | mk _ k _ _ _ _ _ _ _ _ _ => k
def subfile : FileInfo → Str | mk _ _ s _ _ _ _ _ _ _ _ => s
def padAmount : FileInfo → Nat | mk _ _ _ a _ _ _ _ _ _ _ => a
def sect : FileInfo → Str | mk _ _ _ _ s _ _ _ _ _ _ => s
def linkerOffsetName : FileInfo → Str | mk _ _ _ _ _ n _ _ _ _ _ => n
def sectionOrder : FileInfo → List (Str × Str) | mk _ _ _ _ _ _ so _ _ _ _ => so
def files : FileInfo → List FileInfo | mk _ _ _ _ _ _ _ fs _ _ _ => fs
def dir : FileInfo → Str | mk _ _ _ _ _ _ _ _ d _ _ => d
def cond : FileInfo → Cond | mk _ _ _ _ _ _ _ _ _ c _ => c
def keep : FileInfo → Keep | mk _ _ _ _ _ _ _ _ _ _ k => k

/-- `FileInfo::new_object`. -/
def newObject (p : Str) : FileInfo :=
  mk p .object [] 0 [] [] [] [] [] {} .absent
end FileInfo

structure GpInfo where
  sect : Str
  offset : Int
  provide : Bool
  hidden : Bool
  cond : Cond

inductive Style | splat | makerom
  deriving DecidableEq, Repr

structure Segment where
  name : Str
  files : List FileInfo
  fixedVram : Option Nat := none
  fixedSymbol : Option Str := none
  followsSegment : Option Str := none
  vramClass : Option Str := none
  dir : Str := []
  gpInfo : Option GpInfo := none
  cond : Cond := {}
  allocSections : List Str
  noloadSections : List Str
  subalign : Option Nat := none
  segmentStartAlign : Option Nat := none
  segmentEndAlign : Option Nat := none
  sectionStartAlign : Option Nat := none
  sectionEndAlign : Option Nat := none
  sectionsStartAlignment : List (Str × Nat) := []
  sectionsEndAlignment : List (Str × Nat) := []
  wildcardSections : Bool := true
  fillValue : Option Nat := none
  sectionsSubgroups : List (Str × List Str) := []
  keep : Keep := .absent

structure VramClass where
  name : Str
  fixedVram : Option Nat := none
  fixedSymbol : Option Str := none
  followsClasses : List Str := []
  keep : Keep := .absent

structure SymbolAssignment where
  name : Str
  value : Str
  provide : Bool := false
  hidden : Bool := false
  cond : Cond := {}

structure RequiredSymbol where
  name : Str
  cond : Cond := {}

structure AssertEntry where
  check : Str
  errorMessage : Str
  cond : Cond := {}

structure Settings where
  basePath : Str := []
  style : Style := .splat
  hardcodedGpValue : Option Nat := none
  dPath : Option Str := none
  targetPath : Option Str := none
  symbolsHeaderPath : Option Str := none
  symbolsHeaderType : Str := c!"char"
  symbolsHeaderAsArray : Bool := true
  sectionsAllowlist : List Str := []
  sectionsAllowlistExtra : List Str := [c!".symtab", c!".strtab", c!".shstrtab"]
  sectionsDenylist : List Str :=
    [c!".reginfo", c!".MIPS.abiflags", c!".MIPS.options", c!".note.gnu.build-id",
     c!".interp", c!".eh_frame", c!".got"]
  discardWildcardSection : Bool := true
  singleSegmentMode : Bool := false
  partialScriptsFolder : Option Str := none
  partialBuildSegmentsFolder : Option Str := none
  allocSections : List Str := [c!".text", c!".data", c!".rodata", c!".sdata"]
  noloadSections : List Str := [c!".sbss", c!".scommon", c!".bss", c!"COMMON"]
  subalign : Option Nat := none
  segmentStartAlign : Option Nat := none
  segmentEndAlign : Option Nat := none
  sectionStartAlign : Option Nat := none
  sectionEndAlign : Option Nat := none
  sectionsStartAlignment : List (Str × Nat) := []
  sectionsEndAlignment : List (Str × Nat) := []
  wildcardSections : Bool := true
  fillValue : Option Nat := some 0
  sectionsSubgroups : List (Str × List Str) := []

structure Document where
  settings : Settings := {}
  vramClasses : List VramClass := []
  segments : List Segment
  entry : Option Str := none
  symbolAssignments : List SymbolAssignment := []
  requiredSymbols : List RequiredSymbol := []
  asserts : List AssertEntry := []

end Slinky
