/-
  Slinkyv.Cli — slinky-cli/src/main.rs: how the `-c` / `--custom-options` arguments become the
  option map (clap splits every occurrence on `,`, `parse_key_val` splits each piece at its
  first `=`, `add_custom_options` extends a `HashMap` so the last value per key wins), and
  the whole run `cliRun` over the abstract file system of `Slinkyv.Files`.
  clap's own grammar and process exit codes beyond zero / non-zero are not modelled.
-/
import Slinkyv.Files
import Slinkyv.Parse
import Slinkyv.Unserialize
namespace Slinky

/-- `parse_key_val`: split at the first `=`; `none` when there is no `=` (clap reports a usage error). -/
def parseKeyVal (s : Str) : Option (Str × Str) := splitFirst ['='] s

/-- every `-c` occurrence, split on `,`, each piece parsed; `none` if any piece has no `=`. -/
def parseOptArgs (args : List Str) : Option (List (Str × Str)) :=
  let pieces := (args.map (splitOn ',')).flatten
  pieces.foldr (fun p acc => match parseKeyVal p, acc with
    | some kv, some l => some (kv :: l)
    | _, _ => none) (some [])

structure CliArgs where
  customOptions : List Str      -- the values of every `-c` occurrence, in order
  output : Option Str
  partialLinking : Bool
  omitVersionComment : Bool

inductive ExitClass | zero | nonZero
  deriving DecidableEq, Repr

structure CliResult where
  exit : ExitClass
  fs : Fs
  stdout : Option Str

/-- `main`: any error of any step ends in a non-zero exit status (the binary `expect`s).
On success standard output is the script followed by one extra line break (`println!`). -/
def cliRun (doc : D Document) (a : CliArgs) (fs : Fs) : CliResult :=
  match parseOptArgs a.customOptions with
  | none => { exit := .nonZero, fs := fs, stdout := none }
  | some pairs =>
    match doc with
    | .error _ => { exit := .nonZero, fs := fs, stdout := none }
    | .ok d =>
      match fileRun d (optsOfList pairs) (if a.partialLinking then .partialLink else .normal)
              (!a.omitVersionComment) a.output fs with
      | .error _ => { exit := .nonZero, fs := fs, stdout := none }
      | .ok r => { exit := .zero, fs := r.fs, stdout := r.stdout.map (· ++ ['\n']) }

end Slinky
