/-
  C17 — top-level statements and `_gp` are emitted exactly as specified.
-/
import Props.Lemmas
import Props.C06
import Props.ImageGroup
namespace Slinky.C17
open Slinky

def nonBlank (l : Line) : Bool := match l with | .blank => false | _ => true

theorem render_assign (n v : Str) (p h lk : Bool) :
    (Line.assign n (.sym v) p h lk).renderBody = wrap p h (n ++ c!" = " ++ v) := by
  cases p <;> cases h <;> rfl

theorem filter_map_nonBlank {α} (f : α → Line) (l : List α) (hf : ∀ a, nonBlank (f a) = true) :
    (l.map f).filter nonBlank = l.map f := by
  induction l with
  | nil => rfl
  | cons a as ih => simp [List.filter, hf a, ih]

/-- **statements after `SECTIONS`.** Ignoring blank lines, what `add_whole_document` writes
after the segments is, as text and in this order: one `ENTRY` if `entry` is given; one
assignment per *included* symbol assignment, in document order, wrapped per its two flags;
`EXTERN(n)` followed by `ASSERT((DEFINED(n)), …)` per included required symbol; one
`ASSERT((check), "Error: msg")` per included assert. -/
theorem top_statements (d : Document) (o : Opts) :
    ((topLevel d o).filter nonBlank).map Line.renderBody = expectedTop d o := by
  unfold topLevel expectedTop
  simp only [List.filter_append, List.map_append]
  congr 1
  congr 1
  congr 1
  · cases d.entry <;> simp [List.filter, nonBlank, Line.renderBody]
  · have hp : (fun a : SymbolAssignment => shouldEmit o a.cond) = (fun a => C06.specEmit o a.cond) := by
      funext a; exact C06.predicate o a.cond
    split
    · rename_i h
      have : d.symbolAssignments = [] := by simpa using h
      simp [this]
    · simp only [List.filter, nonBlank]
      rw [filter_map_nonBlank _ _ (fun a => rfl), hp]
      simp [List.map_map, Function.comp_def, render_assign]
  · have hp : (fun a : RequiredSymbol => shouldEmit o a.cond) = (fun a => C06.specEmit o a.cond) := by
      funext a; exact C06.predicate o a.cond
    split
    · rename_i h
      have : d.requiredSymbols = [] := by simpa using h
      simp [this]
    · simp only [List.filter, nonBlank, hp]
      generalize d.requiredSymbols.filter (fun a => C06.specEmit o a.cond) = l
      induction l with
      | nil => rfl
      | cons a as ih => simp [List.filter, nonBlank, Line.renderBody] at ih ⊢; exact ih
  · have hp : (fun a : AssertEntry => shouldEmit o a.cond) = (fun a => C06.specEmit o a.cond) := by
      funext a; exact C06.predicate o a.cond
    split
    · rename_i h
      have : d.asserts = [] := by simpa using h
      simp [this]
    · simp only [List.filter, nonBlank]
      rw [filter_map_nonBlank _ _ (fun a => rfl), hp]
      simp [List.map_map, Function.comp_def, Line.renderBody]

/-- **`_gp` from `gp_info`.** Inside a segment that emits section symbols, the statements that
open the group of `sec` are: the global then the per-section start alignment, then — iff the
segment's `gp_info` is included and names `sec` — `_gp = . + 0x<offset as u32>` with the
requested wrapper, then the start symbol of the group. -/
theorem gp_position (cx : Ctx) (seg : Segment) (sec : Str) (h : cx.emitSecSyms = true) :
    sectionSymStart cx seg sec =
      (match seg.sectionStartAlign with | some a => [alignSymbol c!"." a] | none => [])
      ++ (match lookup sec seg.sectionsStartAlignment with | some a => [alignSymbol c!"." a] | none => [])
      ++ (match seg.gpInfo with
          | some gp => if C06.specEmit cx.o gp.cond ∧ gp.sect = sec
                       then [Line.assign c!"_gp" (.dotPlus (toHexI32 gp.offset)) gp.provide gp.hidden false] else []
          | none => [])
      ++ [linkerSym (cx.d.settings.style.secStart seg.name sec) .dot] := by
  unfold sectionSymStart gpLine
  simp only [h, if_true]
  congr 2
  cases seg.gpInfo with
  | none => rfl
  | some gp => simp [C06.predicate]

/-- a partial sub-script (section symbols off) never defines `_gp` through `gp_info`, and the
hardcoded `_gp` of single-segment mode is not written there either. -/
theorem no_gp_in_partial_scripts (cx : Ctx) (seg : Segment) (sec : Str) (h : cx.emitSecSyms = false) :
    sectionSymStart cx seg sec = [] := by
  simp [sectionSymStart, h]

/-- the hardcoded `_gp` is written once at the head of `SECTIONS` (multi-segment and main
partial scripts) iff `hardcoded_gp_value` is set. -/
theorem hardcoded_gp (cx : Ctx) :
    beginSections cx = [.sectionsKw, .blockOpen, .assign c!"__romPos" (.hex 0) false false false]
      ++ (match cx.d.settings.hardcodedGpValue with
          | some v => [.assign c!"_gp" (.hex8 v) false false false] | none => [])
      ++ [.blank] := rfl


/-! ### in the linked image (the linker semantics `Slinkyv.Ld`) -/

open Ld in
/-- **C17, image clause for `gp_info`**: when the segment's `gp_info` is included and names the
section, then behind that section group's statements `_gp` holds the start of the group — the
location counter after both start alignments, the value of the group's start symbol
(`C05.image_group_symbols`) — plus `offset`, as a 32-bit value; for every object table and every
state of the link inside the output section. -/
theorem image_gp_value (objs : List InSec) (cx : Ctx) (seg : Segment) (sec : Str) (hsy : cx.emitSecSyms = true)
    (body : List Line) (hb : ∀ l ∈ body, W.BodyLine cx.d.settings.style seg.wildcardSections l)
    (gp : GpInfo) (hgp : seg.gpInfo = some gp) (hem : shouldEmit cx.o gp.cond = true) (hsec : gp.sect = sec)
    (off : Nat) (hoff : parseHex (toHexI32 gp.offset) = some off)
    (c : Cur) (st : St) (hin : Inside c st) (k : List Line) :
    lookupLast c!"_gp" (execK objs st (sectionSymStart cx seg sec ++ body ++ sectionSymEnd cx seg sec) k).syms
      = some (.num ((c.addr + alignO (lookup sec seg.sectionsStartAlignment) (alignO seg.sectionStartAlign (st.dot - c.addr)) + off) % M32)) :=
  group_gp_image objs cx seg sec hsy body hb gp hgp hem hsec off hoff c st hin k

/-- the offsets `toHexI32` prints are read back as the 32-bit two's complement value (checked
on the values the documentation mentions; a test, not a theorem about all offsets). -/
example : parseHex (toHexI32 0x7FF0) = some 0x7FF0 := by decide
example : parseHex (toHexI32 (-16)) = some 0xFFFFFFF0 := by decide
example : parseHex (toHexI32 0) = some 0 := by decide

end Slinky.C17
