/-
  C08, how the resolved `fill_value` and `wildcard_sections` reach the text — tied to the source text
  (lean/Src/Formats.lean, regenerated from linker_writer.rs on every run).
-/
import Src.Formats
import Props.C08
namespace Slinky.C08

/-- `FILL(0x%08X);` in `write_segment` and in `write_single_segment`. -/
theorem fill_src (v : Nat) : (Line.fill v).renderBody = fmt Src.lw__write_segment_0 [.n v]
    ∧ Src.lw__write_segment_0 = Src.lw__write_single_segment_4 := by
  constructor
  · simp [Line.renderBody, fmt, Src.lw__write_segment_0]
  · decide

theorem counts_src : Src.lw__write_segment_count = 1 ∧ Src.lw__write_single_segment_count = 5 := by decide

end Slinky.C08
