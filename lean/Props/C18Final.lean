/-
  C18 in the image `Ld.link` returns: every allowlisted section has an output section of its name — for the whole
  ordinary script of a document and for the main script of partial mode.

  Behind the segments the link is outside every output section (`C03.segments_vram_end`); the class sizes are symbol
  assignments; every `x 0 : { *(x); }` of the two allowlists then records an output section `x`
  (`run_singleEntries`), and output sections are never removed (`Ld.execK_secs`).
-/
import Props.C03Hdr
import Props.C18
namespace Slinky.C18
open Slinky W Ld

theorem placeAll_nd (out : Str) (sub : Option Nat) : ∀ (l : List InSec) (st : St), (placeAll out sub st l).inDiscard = st.inDiscard := by
  intro l
  induction l with
  | nil => intro st; rfl
  | cons i r ih => intro st; simp only [placeAll]; rw [ih]

/-- a run of single-entry sections, reached outside an output section, records an output section for every entry. -/
theorem run_singleEntries (objs : List InSec) : ∀ (l : List Str) (st : St) (_ : Outside st) (k : List Line),
    Outside (execK objs st (l.map fun x => Line.singleEntry x c!"0") k) ∧
    (∃ extra, (execK objs st (l.map fun x => Line.singleEntry x c!"0") k).secs = st.secs ++ extra) ∧
    ∀ x ∈ l, ∃ os ∈ (execK objs st (l.map fun x => Line.singleEntry x c!"0") k).secs, os.name = x ∧ os.noload = false := by
  intro l
  induction l with
  | nil => intro st ho k; exact ⟨ho, ⟨[], by simp [execK]⟩, fun _ h => nomatch h⟩
  | cons x xs ih =>
    intro st ho k
    simp only [List.map_cons, execK]
    generalize hst1 : step objs st (Line.singleEntry x c!"0") (xs.map (fun x => Line.singleEntry x c!"0") ++ k) = st1
    have ho1 : Outside st1 := by
      rw [← hst1]
      simp only [step]
      exact ⟨by simp only [placeAll_cur]; exact ho.cur, by simp only [placeAll_nd]; exact ho.nd⟩
    have hs1 : ∃ os, st1.secs = st.secs ++ [os] ∧ os.name = x ∧ os.noload = false := by
      rw [← hst1]
      simp only [step]
      exact ⟨_, by rw [placeAll_secs], rfl, rfl⟩
    obtain ⟨os, hsecs1, hn1, hl1⟩ := hs1
    obtain ⟨o2, ⟨extra, he⟩, hall⟩ := ih st1 ho1 k
    refine ⟨o2, ⟨[os] ++ extra, by rw [he, hsecs1, List.append_assoc]⟩, ?_⟩
    intro y hy
    rcases List.mem_cons.1 hy with rfl | hy
    · exact ⟨os, by rw [he, hsecs1]; simp, hn1, hl1⟩
    · exact hall y hy

/-- the class size statements of `end_sections`. -/
def sizeLines (cx : Ctx) (emitted : List Str) : List Line :=
  ((dedup (cx.d.vramClasses.map (·.name))).filter (· ∈ emitted)).map
    (fun n => linkerSym (cx.d.settings.style.classSize n) (.sub (cx.d.settings.style.classEnd n) (cx.d.settings.style.classStart n)))

theorem sizeLines_outer (cx : Ctx) (emitted : List Str) : ∀ l ∈ sizeLines cx emitted, OuterLine l := by
  intro l hl
  obtain ⟨n, _, rfl⟩ := List.mem_map.1 hl
  exact .sym _ _ _ _ _ (endsOk_ne_dot _ (classSize_ok _ _))

theorem allow_eq (l : List Str) (b : Bool) :
    (if l.isEmpty then [] else (if b then [Line.blank] else []) ++ l.map (fun x => Line.singleEntry x c!"0"))
      = (if l.isEmpty then [] else if b then [Line.blank] else []) ++ l.map (fun x => Line.singleEntry x c!"0") := by
  cases l <;> simp

theorem blank_or (b c : Bool) : (if b then ([] : List Line) else if c then [Line.blank] else []) = [] ∨
    (if b then ([] : List Line) else if c then [Line.blank] else []) = [Line.blank] := by
  cases b <;> cases c <;> simp

/-- `end_sections`: the class sizes, then — each behind at most one empty line — the single-entry sections of the two
allowlists, then the rest. -/
theorem endSections_shape (cx : Ctx) (emitted : List Str) :
    ∃ (B1 B2 D : List Line), (B1 = [] ∨ B1 = [.blank]) ∧ (B2 = [] ∨ B2 = [.blank]) ∧
      endSections cx emitted = sizeLines cx emitted ++ (B1 ++ (cx.d.settings.sectionsAllowlist.map (fun x => Line.singleEntry x c!"0")
        ++ (B2 ++ (cx.d.settings.sectionsAllowlistExtra.map (fun x => Line.singleEntry x c!"0") ++ D)))) := by
  unfold endSections
  simp only [allow_eq]
  refine ⟨_, _, _, ?_, ?_, by simp only [sizeLines, List.append_assoc]; rfl⟩
  · exact blank_or _ _
  · exact blank_or _ _

theorem execK_blank_opt (objs : List InSec) (B : List Line) (hB : B = [] ∨ B = [.blank]) (st : St) (k : List Line) :
    execK objs st B k = st := by
  rcases hB with rfl | rfl <;> simp [execK, step]

/-- every allowlisted section has an output section of its name in the image — for any writer context. -/
theorem allowlisted_core (objs : List InSec) (cx : Ctx) (hsy : cx.emitSecSyms = true) (vc : Bool)
    (segs : List Segment) (ls : List Line) (emitted : List Str) (T : List Line)
    (hsegs : addSegments cx [] segs = .ok (ls, emitted))
    (hall : ∀ s ∈ segs, shouldEmit cx.o s.cond = true → s.allocSections ≠ [])
    (defsyms : List (Str × Nat)) (x : Str)
    (hx : x ∈ cx.d.settings.sectionsAllowlist ∨ x ∈ cx.d.settings.sectionsAllowlistExtra) :
    ∃ os ∈ (link objs defsyms (versionComment vc ++ (beginSections cx ++ ls ++ (endSections cx emitted ++ T)))).secs,
      os.name = x ∧ os.noload = false := by
  obtain ⟨B1, B2, D, hB1, hB2, hshape⟩ := endSections_shape cx emitted
  rw [hshape, link_eq]
  generalize carry _ = S0
  generalize hA : cx.d.settings.sectionsAllowlist.map (fun x => Line.singleEntry x c!"0") = A at *
  generalize hE : cx.d.settings.sectionsAllowlistExtra.map (fun x => Line.singleEntry x c!"0") = E at *
  have hform : versionComment vc ++ (beginSections cx ++ ls ++ (sizeLines cx emitted ++ (B1 ++ (A ++ (B2 ++ (E ++ D)))) ++ T))
      = versionComment vc ++ (beginSections cx ++ (ls ++ (sizeLines cx emitted ++ (B1 ++ (A ++ (B2 ++ (E ++ (D ++ T)))))))) := by
    simp [List.append_assoc]
  rw [hform]
  rw [execK_append, Slinky.C04.execK_quiet objs _ (Slinky.C04.versionComment_quiet vc)]
  rw [execK_append, execK_append, execK_append, execK_append, execK_append, execK_append, execK_append]
  have hb : ∃ st1, st1 = execK objs { syms := S0 } (beginSections cx)
        (ls ++ (sizeLines cx emitted ++ (B1 ++ (A ++ (B2 ++ (E ++ (D ++ T)))))) ++ []) ∧ Outside st1 ∧
      lookupLast Ld.romPos st1.syms = some (.num 0) := by
    refine ⟨_, rfl, ?_, ?_⟩
    · unfold beginSections
      cases cx.d.settings.hardcodedGpValue <;> simp [execK, step, setSym] <;> exact ⟨rfl, rfl⟩
    · unfold beginSections
      cases cx.d.settings.hardcodedGpValue <;> simp [execK, step, setSym, eval, lookupLast_snoc, lookupLast_snoc2, Ld.romPos]
  obtain ⟨st1, e1, o1, r1⟩ := hb
  rw [← e1]
  obtain ⟨_, st2, r2, e2, o2, _, _, _⟩ := C03.segments_vram_end objs cx hsy segs [] ls emitted hsegs hall st1 o1 0 r1
    (sizeLines cx emitted ++ (B1 ++ (A ++ (B2 ++ (E ++ (D ++ T))))) ++ [])
  rw [← e2]
  obtain ⟨o3, _, _, _⟩ := run_outer objs (sizeLines cx emitted) (sizeLines_outer cx emitted) st2 o2 (B1 ++ (A ++ (B2 ++ (E ++ (D ++ T)))) ++ [])
  generalize execK objs st2 (sizeLines cx emitted) _ = st3 at *
  rw [execK_blank_opt objs B1 hB1]
  rw [← hA] at *
  obtain ⟨o4, ⟨x4, hx4⟩, hall4⟩ := run_singleEntries objs cx.d.settings.sectionsAllowlist st3 o3 (B2 ++ (E ++ (D ++ T)) ++ [])
  generalize execK objs st3 (cx.d.settings.sectionsAllowlist.map fun x => Line.singleEntry x c!"0") _ = st4 at *
  rw [execK_blank_opt objs B2 hB2]
  rw [← hE] at *
  obtain ⟨o5, ⟨x5, hx5⟩, hall5⟩ := run_singleEntries objs cx.d.settings.sectionsAllowlistExtra st4 o4 (D ++ T ++ [])
  generalize execK objs st4 (cx.d.settings.sectionsAllowlistExtra.map fun x => Line.singleEntry x c!"0") _ = st5 at *
  obtain ⟨x6, hx6⟩ := execK_secs objs (D ++ T) st5 []
  simp only [imageOf]
  rw [hx6]
  rcases hx with hx | hx
  · obtain ⟨os, hos, h1, h2⟩ := hall4 x hx
    exact ⟨os, List.mem_append_left _ (by rw [hx5]; exact List.mem_append_left _ hos), h1, h2⟩
  · obtain ⟨os, hos, h1, h2⟩ := hall5 x hx
    exact ⟨os, List.mem_append_left _ hos, h1, h2⟩

/-- **C18 in the linked image, for the whole ordinary script of a document: allowlisted sections have an output section
of their name.** -/
theorem final_allowlisted_sections (objs : List InSec) (d : Document) (o : Opts) (vc : Bool) (script : List Line)
    (hmulti : d.settings.singleSegmentMode = false)
    (h : generateNormal d o vc = .ok script)
    (hall : ∀ s ∈ d.segments, shouldEmit o s.cond = true → s.allocSections ≠ [])
    (defsyms : List (Str × Nat)) (x : Str)
    (hx : x ∈ d.settings.sectionsAllowlist ∨ x ∈ d.settings.sectionsAllowlistExtra) :
    ∃ os ∈ (link objs defsyms script).secs, os.name = x ∧ os.noload = false := by
  unfold generateNormal at h
  split at h
  · contradiction
  · rename_i body hbody
    injection h with h
    subst h
    unfold addAllSegments at hbody
    simp only [hmulti, Bool.false_eq_true, if_false] at hbody
    split at hbody
    · contradiction
    · rename_i ls emitted hsegs
      injection hbody with hbody
      subst hbody
      have hform : versionComment vc ++ (beginSections { d := d, o := o } ++ ls ++ endSections { d := d, o := o } emitted) ++ topLevel d o
          = versionComment vc ++ (beginSections { d := d, o := o } ++ ls ++ (endSections { d := d, o := o } emitted ++ topLevel d o)) := by
        simp [List.append_assoc]
      rw [hform]
      exact allowlisted_core objs { d := d, o := o } rfl vc d.segments ls emitted _ hsegs hall defsyms x hx

/-- the same for the main script of partial mode. -/
theorem final_allowlisted_sections_partial (objs : List InSec) (d : Document) (o : Opts) (vc : Bool) (out : PartialOut)
    (h : generatePartial d o vc = .ok out)
    (hall : ∀ s ∈ d.segments, shouldEmit o s.cond = true → s.allocSections ≠ [])
    (defsyms : List (Str × Nat)) (x : Str)
    (hx : x ∈ d.settings.sectionsAllowlist ∨ x ∈ d.settings.sectionsAllowlistExtra) :
    ∃ os ∈ (link objs defsyms out.main).secs, os.name = x ∧ os.noload = false := by
  obtain ⟨folder, ls, emitted, _, hsegs, hmain⟩ := C03.partial_main_shape d o vc out h
  rw [hmain]
  exact allowlisted_core objs (C03.partialCx d o) rfl vc _ ls emitted _ hsegs (C03.partialSegs_alloc d o folder hall) defsyms x hx

/-- the hypotheses are met: the defaults allowlist `.symtab`, `.strtab` and `.shstrtab`, and the image of the example
document of `C04Final` has an output section for each. -/
example : (match generateNormal C04.exDoc C04.exOpts false with
    | .ok script =>
      decide (C04.exDoc.settings.sectionsAllowlistExtra = [c!".symtab", c!".strtab", c!".shstrtab"])
      && [c!".symtab", c!".strtab", c!".shstrtab"].all (fun x => (link C04.exObjs [] script).secs.any (fun os => os.name = x))
    | .error _ => false) = true := by decide +kernel

end Slinky.C18
