/-
  C01, the text of an input-section statement, a pad and a linker offset — tied to the source text
  (lean/Src/Formats.lean, regenerated from linker_writer.rs `emit_file` on every run).
-/
import Src.Formats
import Props.C01
namespace Slinky.C01

/-- `("KEEP(", ")")` or `("", "")`, as `emit_file` picks them. -/
def srcKeepLeft (keep : Bool) : Str := if keep then fmt Src.lw__emit_file_4 [] else fmt Src.lw__emit_file_2 []
def srcKeepRight (keep : Bool) : Str := if keep then fmt Src.lw__emit_file_5 [] else fmt Src.lw__emit_file_3 []
/-- `if segment.wildcard_sections { "*" } else { "" }`. -/
def srcWildcard (wild : Bool) : Str := if wild then fmt Src.lw__emit_file_0 [] else fmt Src.lw__emit_file_1 []

theorem object_statement_src (keep wild : Bool) (path sec : Str) :
    (Line.input keep path none sec wild).renderBody
      = fmt Src.lw__emit_file_12 [.s (srcKeepLeft keep), .s path, .s sec, .s (srcWildcard wild), .s (srcKeepRight keep)] := by
  cases keep <;> cases wild <;>
    simp [Line.renderBody, fmt, Src.lw__emit_file_12, srcKeepLeft, srcKeepRight, srcWildcard, Src.lw__emit_file_0,
      Src.lw__emit_file_1, Src.lw__emit_file_2, Src.lw__emit_file_3, Src.lw__emit_file_4, Src.lw__emit_file_5]

theorem archive_statement_src (keep wild : Bool) (path member sec : Str) :
    (Line.input keep path (some member) sec wild).renderBody
      = fmt Src.lw__emit_file_13 [.s (srcKeepLeft keep), .s path, .s member, .s sec, .s (srcWildcard wild), .s (srcKeepRight keep)] := by
  cases keep <;> cases wild <;>
    simp [Line.renderBody, fmt, Src.lw__emit_file_13, srcKeepLeft, srcKeepRight, srcWildcard, Src.lw__emit_file_0,
      Src.lw__emit_file_1, Src.lw__emit_file_2, Src.lw__emit_file_3, Src.lw__emit_file_4, Src.lw__emit_file_5]

/-- the three `KeepSections` arms of `emit_file` use the same two pairs of literals. -/
theorem keep_arms_src : Src.lw__emit_file_2 = Src.lw__emit_file_6 ∧ Src.lw__emit_file_3 = Src.lw__emit_file_7
    ∧ Src.lw__emit_file_4 = Src.lw__emit_file_8 ∧ Src.lw__emit_file_5 = Src.lw__emit_file_9
    ∧ Src.lw__emit_file_2 = Src.lw__emit_file_10 ∧ Src.lw__emit_file_3 = Src.lw__emit_file_11 := by decide

theorem pad_src (amount : Nat) :
    (Line.addAssign c!"." (.hex amount)).renderBody = fmt Src.lw__emit_file_14 [.n amount] := by
  simp [Line.renderBody, Expr.render, fmt, Src.lw__emit_file_14]

theorem linker_offset_src (name : Str) :
    (linkerSym name .dot).renderBody = fmt Src.sb__write_symbol_assignment_3 [.s name, .s (fmt Src.lw__emit_file_15 [])] := by
  simp [linkerSym, Line.renderBody, Expr.render, fmt, Src.sb__write_symbol_assignment_3, Src.lw__emit_file_15]

theorem counts_src : Src.lw__emit_file_count = 16 := by decide

end Slinky.C01
