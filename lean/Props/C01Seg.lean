/-
  C01, the lift from one entry to a whole segment.

  `Props/C01Sub.lean` proves, for ONE object / archive entry, that its sections are placed once
  (per group and over the groups) and where.  A segment's file list is a forest: groups nest,
  each adding its directory.  Here the forest is flattened: `leaves` lists the included entries
  that are not plain groups, depth-first, each with the base directory it is emitted under, and

  * `emitEntry_flatten` / `emitSection_flatten`: what `emit_section` writes for a group of a
    segment is the concatenation, in that order, of what each leaf writes for that group
    (any fuel that does not run out, any section, success only: an error is an error);
  * `group_inputs_nodup`: when no group carries a `section_order` of its own and the leaves'
    (path, member) pairs are pairwise different, the input statements of a group are pairwise
    different — nothing is placed twice in a group;
  * `segment_inputs_once`: and no input statement occurs in two different groups that are
    nobody's sub-group — nothing is placed twice in the segment.

  With `leaf_placed_iff` (placed in `g` iff a chain leads from `g` to the section) this is
  "every listed input section is placed exactly once" for the segment as a whole.  What stays
  outside: two entries naming the same path and member (the statements are then equal texts;
  the first one takes the input sections when linking), and groups with their own
  `section_order` (treated as opaque leaves by the first two theorems, excluded by hypothesis
  in the last two; the evaluated specification `C01.expected` covers them on every case).
-/
import Props.C01Sub
import Props.C06Trace
import Props.C11Gen
namespace Slinky.C01
open Slinky W C11 C06

/-- a group that only groups: no `section_order` of its own. -/
def plainGroup (f : FileInfo) : Bool := decide (f.kind = .group) && f.sectionOrder.isEmpty

/-- the included entries below an entry that are not plain groups, depth-first, each with the
base directory it is emitted under. -/
def leaves (cx : Ctx) : Nat → FileInfo → Str → R (List (FileInfo × Str))
  | 0, _, _ => .error .diverge
  | n + 1, f, base =>
    if !shouldEmit cx.o f.cond then .ok []
    else if plainGroup f then
      match liftPath (cx.esc cx.o f.dir) with
      | .error e => .error e
      | .ok d => concatMapE (fun child => leaves cx n child (pathPush base d)) f.files
    else .ok [(f, base)]

theorem concatMapE_append_ok {α β ε} (F : α → Except ε (List β)) (a b : List α) (x y : List β)
    (ha : concatMapE F a = .ok x) (hb : concatMapE F b = .ok y) : concatMapE F (a ++ b) = .ok (x ++ y) := by
  induction a generalizing x with
  | nil => simp [concatMapE] at ha; subst ha; simpa using hb
  | cons h t ih =>
    simp only [List.cons_append]
    unfold concatMapE at ha ⊢
    split at ha
    · contradiction
    · rename_i u hu
      split at ha
      · contradiction
      · rename_i v hv
        injection ha with ha
        subst ha
        simp only [hu, ih v hv, List.append_assoc]

/-- a plain group contributes the concatenation of its children under its directory (the
general form of `group_is_concatenation`: whatever the other fields of the entry hold). -/
theorem plain_group (cx : Ctx) (seg : Segment) (secs : List Str) (n : Nat) (f : FileInfo) (sec base : Str)
    (hinc : shouldEmit cx.o f.cond = true) (hg : plainGroup f = true) :
    emitEntry cx seg secs (n + 1) f sec base []
      = match liftPath (cx.esc cx.o f.dir) with
        | .error e => .error e
        | .ok d => concatMapE (fun child => emitEntry cx seg secs n child sec (pathPush base d) []) f.files := by
  unfold plainGroup at hg
  simp only [Bool.and_eq_true, decide_eq_true_eq] at hg
  obtain ⟨hk, hso⟩ := hg
  rw [emitEntry]
  simp only [hinc, Bool.not_true, Bool.false_eq_true, if_false, List.not_mem_nil, sectionsToEmitHere, hso, if_true, hk]
  rw [concatMapE_singleton]
  cases liftPath (cx.esc cx.o f.dir) with
  | error e => rfl
  | ok d =>
    simp only [decide_true, Bool.and_self, Bool.or_true, if_true]
    cases concatMapE (fun child => emitEntry cx seg secs n child sec (pathPush base d) []) f.files with
    | error e => rfl
    | ok a => simp

theorem concatMapE_ok_each {α β ε} (F : α → Except ε (List β)) : ∀ (l : List α) (r : List β), concatMapE F l = .ok r →
    ∀ a ∈ l, ∃ x, F a = .ok x := by
  intro l
  induction l with
  | nil => intro _ _ a ha; cases ha
  | cons h t ih =>
    intro r hr a ha
    unfold concatMapE at hr
    split at hr
    · contradiction
    · rename_i u hu
      split at hr
      · contradiction
      · rename_i v hv
        rcases List.mem_cons.1 ha with rfl | ha
        · exact ⟨u, hu⟩
        · exact ih v hv a ha

/-- more fuel for every leaf of a successful run changes nothing. -/
theorem leaves_fuel_succ (cx : Ctx) (seg : Segment) (secs : List Str) (n : Nat) (sec : Str)
    (lv : List (FileInfo × Str)) (ls : List Line)
    (h : concatMapE (fun fb => emitEntry cx seg secs n fb.1 sec fb.2 []) lv = .ok ls) :
    concatMapE (fun fb => emitEntry cx seg secs (n + 1) fb.1 sec fb.2 []) lv = .ok ls := by
  rw [← h]
  apply concatMapE_congr_on
  intro fb hfb
  obtain ⟨x, hx⟩ := concatMapE_ok_each _ lv ls h fb hfb
  exact emitEntry_fuel_succ cx seg secs n fb.1 sec fb.2 [] (by rw [hx]; intro e; cases e)

/-- **an entry writes what its leaves write, in order.** -/
theorem emitEntry_flatten (cx : Ctx) (seg : Segment) (secs : List Str) (sec : Str) :
    ∀ (n : Nat) (f : FileInfo) (base : Str) (ls : List Line),
      emitEntry cx seg secs n f sec base [] = .ok ls →
      ∃ lv, leaves cx n f base = .ok lv ∧
        concatMapE (fun fb => emitEntry cx seg secs n fb.1 sec fb.2 []) lv = .ok ls := by
  intro n
  induction n with
  | zero => intro f base ls h; simp [emitEntry] at h
  | succ n ih =>
    intro f base ls h
    by_cases hinc : shouldEmit cx.o f.cond = true
    · by_cases hg : plainGroup f = true
      · rw [plain_group cx seg secs n f sec base hinc hg] at h
        unfold leaves
        simp only [hinc, Bool.not_true, Bool.false_eq_true, if_false, hg, if_true]
        cases hd : liftPath (cx.esc cx.o f.dir) with
        | error e => rw [hd] at h; cases h
        | ok d =>
          rw [hd] at h
          simp only at h ⊢
          -- the children, one after the other
          have key : ∀ (files : List FileInfo) (ls : List Line),
              concatMapE (fun child => emitEntry cx seg secs n child sec (pathPush base d) []) files = .ok ls →
              ∃ lv, concatMapE (fun child => leaves cx n child (pathPush base d)) files = .ok lv ∧
                concatMapE (fun fb => emitEntry cx seg secs n fb.1 sec fb.2 []) lv = .ok ls := by
            intro files
            induction files with
            | nil =>
              intro ls h
              simp only [concatMapE] at h
              injection h with h
              exact ⟨[], rfl, by simp [concatMapE, h]⟩
            | cons c cs ihf =>
              intro ls h
              unfold concatMapE at h
              split at h
              · contradiction
              · rename_i u hu
                split at h
                · contradiction
                · rename_i v hv
                  injection h with h
                  subst h
                  obtain ⟨l1, e1, r1⟩ := ih c (pathPush base d) u hu
                  obtain ⟨l2, e2, r2⟩ := ihf v hv
                  refine ⟨l1 ++ l2, ?_, concatMapE_append_ok _ l1 l2 u v r1 r2⟩
                  unfold concatMapE
                  simp only [e1, e2]
          obtain ⟨lv, e, r⟩ := key f.files ls h
          exact ⟨lv, e, leaves_fuel_succ cx seg secs n sec lv ls r⟩
      · refine ⟨[(f, base)], ?_, ?_⟩
        · unfold leaves
          simp [hinc, hg]
        · rw [concatMapE_singleton, h]
    · have hex : shouldEmit cx.o f.cond = false := by
        cases hh : shouldEmit cx.o f.cond
        · rfl
        · exact absurd hh hinc
      rw [emitEntry] at h
      simp only [hex, Bool.not_false, if_true] at h
      injection h with h
      subst h
      exact ⟨[], by unfold leaves; simp [hex], rfl⟩

/-- the leaves of a segment: those of its files, under `base_path`/`dir`. -/
def segLeaves (cx : Ctx) (seg : Segment) (base : Str) : R (List (FileInfo × Str)) :=
  concatMapE (fun file => leaves cx (fuelFor seg) file base) seg.files

/-- the base directory `emit_section` hands to the files of a segment. -/
def segBase (cx : Ctx) (seg : Segment) : R Str :=
  match liftPath (cx.esc cx.o cx.d.settings.basePath) with
  | .error e => .error e
  | .ok base0 =>
    if cx.refPartial then .ok base0
    else match liftPath (cx.esc cx.o seg.dir) with
      | .error e => .error e
      | .ok d => .ok (pathPush base0 d)

/-- **a group of a segment holds what the segment's leaves write for it, in order.** -/
theorem emitSection_flatten (cx : Ctx) (seg : Segment) (sec : Str) (secs : List Str) (ls : List Line)
    (h : emitSection cx seg sec secs = .ok ls) :
    ∃ base lv, segBase cx seg = .ok base ∧ segLeaves cx seg base = .ok lv ∧
      concatMapE (fun fb => emitEntry cx seg secs (fuelFor seg) fb.1 sec fb.2 []) lv = .ok ls := by
  unfold emitSection at h
  unfold segBase
  cases hb0 : liftPath (cx.esc cx.o cx.d.settings.basePath) with
  | error e => rw [hb0] at h; cases h
  | ok base0 =>
    rw [hb0] at h
    simp only at h ⊢
    have key : ∀ (base : Str) (files : List FileInfo) (ls : List Line),
        concatMapE (fun file => emitEntry cx seg secs (fuelFor seg) file sec base []) files = .ok ls →
        ∃ lv, concatMapE (fun file => leaves cx (fuelFor seg) file base) files = .ok lv ∧
          concatMapE (fun fb => emitEntry cx seg secs (fuelFor seg) fb.1 sec fb.2 []) lv = .ok ls := by
      intro base files
      induction files with
      | nil =>
        intro ls h
        simp only [concatMapE] at h
        injection h with h
        exact ⟨[], rfl, by simp [concatMapE, h]⟩
      | cons c cs ihf =>
        intro ls h
        unfold concatMapE at h
        split at h
        · contradiction
        · rename_i u hu
          split at h
          · contradiction
          · rename_i v hv
            injection h with h
            subst h
            obtain ⟨l1, e1, r1⟩ := emitEntry_flatten cx seg secs sec (fuelFor seg) c base u hu
            obtain ⟨l2, e2, r2⟩ := ihf v hv
            refine ⟨l1 ++ l2, ?_, concatMapE_append_ok _ l1 l2 u v r1 r2⟩
            unfold concatMapE
            simp only [e1, e2]
    by_cases hrp : cx.refPartial = true
    · simp only [hrp, if_true] at h ⊢
      obtain ⟨lv, e, r⟩ := key base0 seg.files ls h
      exact ⟨base0, lv, rfl, e, r⟩
    · simp only [hrp, Bool.false_eq_true, if_false] at h ⊢
      cases hd : liftPath (cx.esc cx.o seg.dir) with
      | error e => rw [hd] at h; cases h
      | ok d =>
        rw [hd] at h
        simp only at h ⊢
        obtain ⟨lv, e, r⟩ := key (pathPush base0 d) seg.files ls h
        exact ⟨_, lv, rfl, e, r⟩

/-! ### nothing is placed twice -/

/-- what an object / archive leaf is called in its statements: the emitted path and the member. -/
def stmtKey (cx : Ctx) (fb : FileInfo × Str) : Option (Str × Option Str) :=
  if fb.1.kind = .object ∨ fb.1.kind = .archive then
    match cx.esc cx.o fb.1.path with
    | .ok q => some (display (pathPush fb.2 q), if fb.1.kind = .archive then some fb.1.subfile else none)
    | .error _ => none
  else none

/-- the hypotheses on a segment and its leaves: the script carries the entries themselves, no
section is listed as a sub-group twice, no group carries a `section_order` of its own, the paths
of the included object / archive entries expand, and their `section_order` keys are pairwise
different (a YAML mapping). -/
structure SegOk (cx : Ctx) (seg : Segment) (lv : List (FileInfo × Str)) : Prop where
  own : cx.refPartial = false
  subs : (subgroupValues seg).Nodup
  nogroup : ∀ fb ∈ lv, fb.1.kind ≠ .group
  inc : ∀ fb ∈ lv, shouldEmit cx.o fb.1.cond = true
  esc : ∀ fb ∈ lv, fb.1.kind = .object ∨ fb.1.kind = .archive → ∃ q, cx.esc cx.o fb.1.path = .ok q
  keys : ∀ fb ∈ lv, (fb.1.sectionOrder.map (·.1)).Nodup

/-- different leaves are called differently. -/
def DistinctLeaves (cx : Ctx) (lv : List (FileInfo × Str)) : Prop :=
  lv.Pairwise fun a b => stmtKey cx a = none ∨ stmtKey cx b = none ∨ stmtKey cx a ≠ stmtKey cx b

theorem kind_cases (f : FileInfo) : f.kind = .object ∨ f.kind = .archive ∨ f.kind = .pad ∨ f.kind = .linkerOffset ∨ f.kind = .group := by
  cases f.kind <;> simp

theorem markLine_not_input (cx : Ctx) (f : FileInfo) : isInputB (markLine cx f) = false := by
  unfold markLine
  split <;> rfl

/-- what one leaf writes for a group: an object / archive leaf writes pairwise different
statements, each its `leafLine`; a pad or linker offset writes no input statement. -/
theorem leaf_inputs (cx : Ctx) (seg : Segment) (secs : List Str) (lv : List (FileInfo × Str)) (ok : SegOk cx seg lv)
    (fb : FileInfo × Str) (hfb : fb ∈ lv) (n : Nat) (g : Str) (u : List Line)
    (h : emitEntry cx seg secs n fb.1 g fb.2 [] = .ok u) :
    (u.filter isInputB).Nodup ∧
      ∀ L ∈ u, isInputB L = true → ∃ q c, (fb.1.kind = .object ∨ fb.1.kind = .archive) ∧ cx.esc cx.o fb.1.path = .ok q ∧
        L = leafLine seg fb.1 fb.2 q c := by
  rcases kind_cases fb.1 with hk | hk | hk | hk | hk
  · obtain ⟨q, hq⟩ := ok.esc fb hfb (Or.inl hk)
    have lo : LeafOk cx seg fb.1 q := ⟨Or.inl hk, ok.inc fb hfb, hq, ok.own, ok.keys fb hfb, ok.subs⟩
    obtain ⟨hnd, hall⟩ := leaf_once_per_group cx seg secs fb.1 fb.2 q lo n g u h
    exact ⟨hnd.filter _, fun L hL _ => by obtain ⟨c, rfl⟩ := hall L hL; exact ⟨q, c, Or.inl hk, hq, rfl⟩⟩
  · obtain ⟨q, hq⟩ := ok.esc fb hfb (Or.inr hk)
    have lo : LeafOk cx seg fb.1 q := ⟨Or.inr hk, ok.inc fb hfb, hq, ok.own, ok.keys fb hfb, ok.subs⟩
    obtain ⟨hnd, hall⟩ := leaf_once_per_group cx seg secs fb.1 fb.2 q lo n g u h
    exact ⟨hnd.filter _, fun L hL _ => by obtain ⟨c, rfl⟩ := hall L hL; exact ⟨q, c, Or.inr hk, hq, rfl⟩⟩
  · have hm := mark_eq_secsE cx seg secs fb.1 fb.2 (Or.inl hk) (ok.inc fb hfb) ok.own n g []
    rw [hm] at h
    have hno : ∀ L ∈ u, isInputB L = false := by
      cases hw : secsE (fun s => sectionsToEmitHere fb.1.sectionOrder s secs) (subgroupsOf seg) n g [] with
      | error e => rw [hw] at h; cases h
      | ok l =>
        rw [hw] at h
        simp only [flatMapR] at h
        injection h with h
        subst h
        intro L hL
        obtain ⟨k, _, hk'⟩ := List.mem_flatMap.1 hL
        split at hk'
        · simp only [List.mem_singleton] at hk'; subst hk'; exact markLine_not_input cx fb.1
        · cases hk'
    refine ⟨?_, fun L hL hi => ?_⟩
    · rw [List.filter_eq_nil_iff.2 (fun L hL => by simp [hno L hL])]; exact List.nodup_nil
    · rw [hno L hL] at hi; cases hi
  · have hm := mark_eq_secsE cx seg secs fb.1 fb.2 (Or.inr hk) (ok.inc fb hfb) ok.own n g []
    rw [hm] at h
    have hno : ∀ L ∈ u, isInputB L = false := by
      cases hw : secsE (fun s => sectionsToEmitHere fb.1.sectionOrder s secs) (subgroupsOf seg) n g [] with
      | error e => rw [hw] at h; cases h
      | ok l =>
        rw [hw] at h
        simp only [flatMapR] at h
        injection h with h
        subst h
        intro L hL
        obtain ⟨k, _, hk'⟩ := List.mem_flatMap.1 hL
        split at hk'
        · simp only [List.mem_singleton] at hk'; subst hk'; exact markLine_not_input cx fb.1
        · cases hk'
    refine ⟨?_, fun L hL hi => ?_⟩
    · rw [List.filter_eq_nil_iff.2 (fun L hL => by simp [hno L hL])]; exact List.nodup_nil
    · rw [hno L hL] at hi; cases hi
  · exact absurd hk (ok.nogroup fb hfb)

/-- every input statement of a group comes from an object / archive leaf and is its `leafLine`. -/
theorem inputs_from_leaves (cx : Ctx) (seg : Segment) (secs : List Str) (n : Nat) (g : Str) :
    ∀ (lv : List (FileInfo × Str)) (all : List (FileInfo × Str)) (_ : SegOk cx seg all) (_ : ∀ fb ∈ lv, fb ∈ all) (ls : List Line),
      concatMapE (fun fb => emitEntry cx seg secs n fb.1 g fb.2 []) lv = .ok ls →
      ∀ L ∈ ls, isInputB L = true → ∃ fb ∈ lv, ∃ q c u, (fb.1.kind = .object ∨ fb.1.kind = .archive) ∧
        cx.esc cx.o fb.1.path = .ok q ∧ L = leafLine seg fb.1 fb.2 q c ∧
        emitEntry cx seg secs n fb.1 g fb.2 [] = .ok u ∧ L ∈ u := by
  intro lv
  induction lv with
  | nil => intro all _ _ ls h L hL; simp [concatMapE] at h; subst h; cases hL
  | cons fb rest ih =>
    intro all ok hsub ls h L hL hi
    unfold concatMapE at h
    split at h
    · contradiction
    · rename_i u hu
      split at h
      · contradiction
      · rename_i v hv
        injection h with h
        subst h
        rcases List.mem_append.1 hL with hL | hL
        · obtain ⟨_, hall⟩ := leaf_inputs cx seg secs all ok fb (hsub fb List.mem_cons_self) n g u hu
          obtain ⟨q, c, hk, hq, rfl⟩ := hall L hL hi
          exact ⟨fb, List.mem_cons_self, q, c, u, hk, hq, rfl, hu, hL⟩
        · obtain ⟨fb', hm, r⟩ := ih all ok (fun x hx => hsub x (List.mem_cons_of_mem _ hx)) v hv L hL hi
          exact ⟨fb', List.mem_cons_of_mem _ hm, r⟩

theorem stmtKey_of_leafLine (cx : Ctx) (seg : Segment) (fb : FileInfo × Str) (q c : Str)
    (hk : fb.1.kind = .object ∨ fb.1.kind = .archive) (hq : cx.esc cx.o fb.1.path = .ok q) :
    stmtKey cx fb = some (match leafLine seg fb.1 fb.2 q c with
      | .input _ p m _ _ => (p, m)
      | _ => ([], none)) := by
  unfold stmtKey leafLine
  simp [hk, hq]

/-- two leaves that write the same statement are called the same. -/
theorem same_line_same_key (cx : Ctx) (seg : Segment) (a b : FileInfo × Str) (qa ca qb cb : Str)
    (ha : a.1.kind = .object ∨ a.1.kind = .archive) (hqa : cx.esc cx.o a.1.path = .ok qa)
    (hb : b.1.kind = .object ∨ b.1.kind = .archive) (hqb : cx.esc cx.o b.1.path = .ok qb)
    (e : leafLine seg a.1 a.2 qa ca = leafLine seg b.1 b.2 qb cb) :
    stmtKey cx a = stmtKey cx b ∧ stmtKey cx a ≠ none := by
  rw [stmtKey_of_leafLine cx seg a qa ca ha hqa, stmtKey_of_leafLine cx seg b qb cb hb hqb, e]
  exact ⟨rfl, by simp⟩

/-- **nothing is placed twice in a group**: the input statements of a group of a segment are
pairwise different. -/
theorem group_inputs_nodup (cx : Ctx) (seg : Segment) (secs : List Str) (n : Nat) (g : Str) :
    ∀ (lv : List (FileInfo × Str)) (all : List (FileInfo × Str)) (_ : SegOk cx seg all) (_ : ∀ fb ∈ lv, fb ∈ all)
      (_ : DistinctLeaves cx lv) (ls : List Line),
      concatMapE (fun fb => emitEntry cx seg secs n fb.1 g fb.2 []) lv = .ok ls → (ls.filter isInputB).Nodup := by
  intro lv
  induction lv with
  | nil => intro all _ _ _ ls h; simp [concatMapE] at h; subst h; exact List.nodup_nil
  | cons fb rest ih =>
    intro all ok hsub hd ls h
    unfold concatMapE at h
    split at h
    · contradiction
    · rename_i u hu
      split at h
      · contradiction
      · rename_i v hv
        injection h with h
        subst h
        have hd' := List.pairwise_cons.1 hd
        rw [List.filter_append, List.nodup_append]
        refine ⟨(leaf_inputs cx seg secs all ok fb (hsub fb List.mem_cons_self) n g u hu).1,
          ih all ok (fun x hx => hsub x (List.mem_cons_of_mem _ hx)) hd'.2 v hv, ?_⟩
        intro L hLu L' hLv e
        subst e
        obtain ⟨hLu, hi⟩ := List.mem_filter.1 hLu
        obtain ⟨hLv, _⟩ := List.mem_filter.1 hLv
        obtain ⟨qa, ca, hka, hqa, ea⟩ := (leaf_inputs cx seg secs all ok fb (hsub fb List.mem_cons_self) n g u hu).2 L hLu hi
        obtain ⟨fb', hm, qb, cb, _, hkb, hqb, eb, _, _⟩ :=
          inputs_from_leaves cx seg secs n g rest all ok (fun x hx => hsub x (List.mem_cons_of_mem _ hx)) v hv L hLv hi
        obtain ⟨hsame, hsome⟩ := same_line_same_key cx seg fb fb' qa ca qb cb hka hqa hkb hqb (ea.symm.trans eb)
        rcases hd'.1 fb' hm with h1 | h1 | h1
        · exact hsome h1
        · exact hsome (hsame.trans h1)
        · exact h1 hsame

theorem pairwise_ne {α} (R : α → α → Prop) (hs : ∀ a b, R a b → R b a) : ∀ (l : List α), l.Pairwise R →
    ∀ a ∈ l, ∀ b ∈ l, a ≠ b → R a b := by
  intro l
  induction l with
  | nil => intro _ a ha; cases ha
  | cons x xs ih =>
    intro hp a ha b hb hne
    obtain ⟨h1, h2⟩ := List.pairwise_cons.1 hp
    rcases List.mem_cons.1 ha with ea | ha'
    · rcases List.mem_cons.1 hb with eb | hb'
      · exact absurd (ea.trans eb.symm) hne
      · rw [ea]; exact h1 b hb'
    · rcases List.mem_cons.1 hb with eb | hb'
      · rw [eb]; exact hs _ _ (h1 a ha')
      · exact ih h2 a ha' b hb' hne

/-- **nothing is placed twice in a segment**: two different groups that are nobody's sub-group
(the listed sections of a segment whose sub-group sections are not listed themselves) never hold
the same input statement. -/
theorem segment_inputs_once (cx : Ctx) (seg : Segment) (secs : List Str) (n1 n2 : Nat) (g1 g2 : Str)
    (lv : List (FileInfo × Str)) (ok : SegOk cx seg lv) (hd : DistinctLeaves cx lv) (ls1 ls2 : List Line)
    (h1 : concatMapE (fun fb => emitEntry cx seg secs n1 fb.1 g1 fb.2 []) lv = .ok ls1)
    (h2 : concatMapE (fun fb => emitEntry cx seg secs n2 fb.1 g2 fb.2 []) lv = .ok ls2)
    (ht1 : g1 ∉ subgroupValues seg) (ht2 : g2 ∉ subgroupValues seg)
    (L : Line) (hi : isInputB L = true) (hL1 : L ∈ ls1) (hL2 : L ∈ ls2) : g1 = g2 := by
  obtain ⟨a, ha, qa, ca, ua, hka, hqa, ea, hua, hLa⟩ := inputs_from_leaves cx seg secs n1 g1 lv lv ok (fun _ h => h) ls1 h1 L hL1 hi
  obtain ⟨b, hb, qb, cb, ub, hkb, hqb, eb, hub, hLb⟩ := inputs_from_leaves cx seg secs n2 g2 lv lv ok (fun _ h => h) ls2 h2 L hL2 hi
  obtain ⟨hsame, hsome⟩ := same_line_same_key cx seg a b qa ca qb cb hka hqa hkb hqb (ea.symm.trans eb)
  by_cases hab : a = b
  · subst hab
    have hq : qa = qb := by rw [hqa] at hqb; injection hqb
    subst hq
    have hc : ca = cb := leafLine_inj seg a.1 a.2 qa ca cb (ea.symm.trans eb)
    subst hc
    have lo : LeafOk cx seg a.1 qa := ⟨hka, ok.inc a ha, hqa, ok.own, ok.keys a ha, ok.subs⟩
    exact leaf_once_over_groups cx seg secs a.1 a.2 qa lo n1 n2 g1 g2 ua ub hua hub ht1 ht2 ca (ea ▸ hLa) (ea ▸ hLb)
  · have := pairwise_ne _ (fun x y h => by
        rcases h with h | h | h
        · exact Or.inr (Or.inl h)
        · exact Or.inl h
        · exact Or.inr (Or.inr (fun e => h e.symm))) lv hd a ha b hb hab
    rcases this with h | h | h
    · exact absurd h hsome
    · exact absurd (hsame.trans h) hsome
    · exact absurd hsame h

/-! ### the hypotheses are met by a segment with a nested group, `section_order` and sub-groups -/

def exObj (p : Str) (so : List (Str × Str)) : FileInfo := .mk p .object [] 0 [] [] so [] [] ({} : Cond) .absent
def exGroup (dir : Str) (fs : List FileInfo) : FileInfo := .mk [] .group [] 0 [] [] [] fs dir ({} : Cond) .absent
def exSeg : Segment :=
  { name := c!"a", allocSections := [c!".text", c!".data", c!".rodata"], noloadSections := [c!".bss"],
    sectionsSubgroups := [(c!".rodata", [c!".rdata"])],
    files := [exGroup c!"lib" [exObj c!"x.o" [(c!".rdata", c!".data")], exObj c!"y.o" []], exObj c!"z.o" []] }
def exCx : Ctx := { d := { segments := [exSeg] }, o := fun _ => none }
def exLeaves : List (FileInfo × Str) :=
  [(exObj c!"x.o" [(c!".rdata", c!".data")], c!"lib"), (exObj c!"y.o" [], c!"lib"), (exObj c!"z.o" [], [])]

example : segBase exCx exSeg = .ok [] ∧ segLeaves exCx exSeg [] = .ok exLeaves := ⟨by rfl, by rfl⟩

example : DistinctLeaves exCx exLeaves := by
  unfold DistinctLeaves exLeaves
  decide

example : SegOk exCx exSeg exLeaves where
  own := rfl
  subs := by decide
  nogroup := by decide
  inc := by decide
  esc := by
    intro fb hfb _
    simp only [exLeaves, List.mem_cons, List.mem_nil_iff, or_false] at hfb
    rcases hfb with rfl | rfl | rfl
    · exact ⟨c!"x.o", by decide⟩
    · exact ⟨c!"y.o", by decide⟩
    · exact ⟨c!"z.o", by decide⟩
  keys := by decide

end Slinky.C01
