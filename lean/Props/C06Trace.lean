/-
  C06, "an excluded entry leaves no trace": what the emitter returns for a list of entries is
  what it returns for the list with every excluded entry (at every nesting depth) deleted.
  Needs two facts about the recursion bound: more fuel never changes a result that is not
  "fuel exhausted", and the real bound is always enough (C19).
-/
import Props.C06
import Props.C19
namespace Slinky.C06
open Slinky

/-! ### more fuel changes nothing -/

theorem concatMapE_mono {α β} (f g : α → R (List β)) :
    ∀ (l : List α), (∀ a ∈ l, f a ≠ .error .diverge → g a = f a) → concatMapE f l ≠ .error .diverge →
      concatMapE g l = concatMapE f l := by
  intro l
  induction l with
  | nil => intro _ _; rfl
  | cons a as ih =>
    intro h hnd
    unfold concatMapE at hnd ⊢
    cases hfa : f a with
    | error e =>
      have hne : f a ≠ .error .diverge := by
        intro he
        rw [he] at hnd
        exact hnd rfl
      rw [h a List.mem_cons_self hne, hfa]
    | ok x =>
      rw [h a List.mem_cons_self (by rw [hfa]; exact fun hh => nomatch hh), hfa]
      simp only [hfa] at hnd
      have hrest : concatMapE f as ≠ .error .diverge := by
        intro he
        rw [he] at hnd
        exact hnd rfl
      rw [ih (fun b hb => h b (List.mem_cons_of_mem _ hb)) hrest]

def comb (B S : R (List Line)) : R (List Line) :=
  match B with
  | .error e => .error e
  | .ok a => match S with
    | .error e => .error e
    | .ok b => .ok (a ++ b)

theorem combine_eq {B₁ B₀ S₁ S₀ : R (List Line)} (hB : B₀ ≠ .error .diverge → B₁ = B₀)
    (hS : S₀ ≠ .error .diverge → S₁ = S₀) (hk : comb B₀ S₀ ≠ .error .diverge) :
    comb B₁ S₁ = comb B₀ S₀ := by
  unfold comb at *
  cases hb : B₀ with
  | error e =>
    have : B₀ ≠ .error .diverge := by
      intro he; rw [he] at hk; exact hk rfl
    rw [hB this, hb]
  | ok a =>
    rw [hB (by rw [hb]; exact fun hh => nomatch hh), hb]
    simp only [hb] at hk
    have : S₀ ≠ .error .diverge := by
      intro he; rw [he] at hk; exact hk rfl
    rw [hS this]

/-- a result that is not "fuel exhausted" is the result for every larger fuel. -/
theorem emitEntry_fuel_succ (cx : Ctx) (seg : Segment) (secs : List Str) :
    ∀ (n : Nat) (f : FileInfo) (sec base : Str) (parents : List Str),
      emitEntry cx seg secs n f sec base parents ≠ .error .diverge →
      emitEntry cx seg secs (n + 1) f sec base parents = emitEntry cx seg secs n f sec base parents := by
  intro n
  induction n with
  | zero => intro f sec base parents h; exact absurd rfl h
  | succ n ih =>
    intro f sec base parents h
    rw [emitEntry] at h ⊢
    conv => rhs; rw [emitEntry]
    split
    · rfl
    · split
      · rfl
      · rename_i h1 h2
        simp only [h1, h2, if_false] at h
        apply concatMapE_mono _ _ _ _ h
        intro k _ hk
        -- the body for one section: group children and sub-groups, each with one unit less
        have hgroup : ∀ base', concatMapE (fun child => emitEntry cx seg secs n child k base' []) f.files ≠ .error .diverge →
            concatMapE (fun child => emitEntry cx seg secs (n + 1) child k base' []) f.files
              = concatMapE (fun child => emitEntry cx seg secs n child k base' []) f.files := by
          intro base' hb
          exact concatMapE_mono _ _ _ (fun c _ hc => ih c k base' [] hc) hb
        have hsubs : concatMapE (fun other => emitEntry cx seg secs n f other base (sec :: parents)) (subgroupsOf seg k) ≠ .error .diverge →
            concatMapE (fun other => emitEntry cx seg secs (n + 1) f other base (sec :: parents)) (subgroupsOf seg k)
              = concatMapE (fun other => emitEntry cx seg secs n f other base (sec :: parents)) (subgroupsOf seg k) := by
          intro hb
          exact concatMapE_mono _ _ _ (fun o _ ho => ih f o base (sec :: parents) ho) hb
        simp only [Bool.false_eq_true, if_false] at hk ⊢
        refine @combine_eq _ _ _ _ ?_ ?_ hk
        · -- the body
          intro hb
          cases hkind : f.kind with
          | group =>
            simp only [hkind] at hb ⊢
            cases hd : liftPath (cx.esc cx.o f.dir) with
            | error e => rfl
            | ok dir =>
              simp only [hd] at hb ⊢
              exact hgroup _ hb
          | object => rfl
          | archive => rfl
          | pad => rfl
          | linkerOffset => rfl
        · -- the sub-groups
          intro hs
          split
          · rfl
          · rename_i hc
            simp only [hc, if_false] at hs
            exact hsubs hs

theorem emitEntry_fuel_le (cx : Ctx) (seg : Segment) (secs : List Str) (n : Nat) :
    ∀ (d : Nat) (f : FileInfo) (sec base : Str) (parents : List Str),
      emitEntry cx seg secs n f sec base parents ≠ .error .diverge →
      emitEntry cx seg secs (n + d) f sec base parents = emitEntry cx seg secs n f sec base parents := by
  intro d
  induction d with
  | zero => intro f sec base parents _; rfl
  | succ d ih =>
    intro f sec base parents h
    have h1 := ih f sec base parents h
    rw [← Nat.add_assoc, emitEntry_fuel_succ cx seg secs (n + d) f sec base parents (by rw [h1]; exact h), h1]

/-! ### deleting the excluded entries -/

mutual
  /-- the entry with every excluded entry below it deleted. -/
  def dropFile (o : Opts) : FileInfo → FileInfo
    | .mk p k sf pa se lo so fs dir c keep => .mk p k sf pa se lo so (dropFiles o fs) dir c keep
  /-- the list with every excluded entry, at every depth, deleted. -/
  def dropFiles (o : Opts) : List FileInfo → List FileInfo
    | [] => []
    | f :: fs => if shouldEmit o f.cond then dropFile o f :: dropFiles o fs else dropFiles o fs
end

theorem dropFile_fields (o : Opts) (f : FileInfo) :
    (dropFile o f).cond = f.cond ∧ (dropFile o f).kind = f.kind ∧ (dropFile o f).path = f.path ∧
    (dropFile o f).dir = f.dir ∧ (dropFile o f).keep = f.keep ∧ (dropFile o f).sect = f.sect ∧
    (dropFile o f).padAmount = f.padAmount ∧ (dropFile o f).linkerOffsetName = f.linkerOffsetName ∧
    (dropFile o f).subfile = f.subfile ∧ (dropFile o f).sectionOrder = f.sectionOrder ∧
    (dropFile o f).files = dropFiles o f.files := by
  obtain ⟨p, k, sf, pa, se, lo, so, fs, dir, c, keep⟩ := f
  unfold dropFile
  exact ⟨rfl, rfl, rfl, rfl, rfl, rfl, rfl, rfl, rfl, rfl, rfl⟩

/-- an excluded entry emits nothing (given any fuel at all). -/
theorem excluded_emits_nothing (cx : Ctx) (seg : Segment) (secs : List Str) (n : Nat) (f : FileInfo) (sec base : Str)
    (parents : List Str) (h : shouldEmit cx.o f.cond = false) :
    emitEntry cx seg secs (n + 1) f sec base parents = .ok [] := by
  rw [emitEntry]
  simp [h]

/-- over a list: deleting the excluded entries (and, by `hrec`, pruning inside the kept ones)
does not change the concatenation, as long as that is not "fuel exhausted". -/
theorem concat_drop (cx : Ctx) (seg : Segment) (secs : List Str) (n : Nat) (k base : Str)
    (hrec : ∀ (c : FileInfo), emitEntry cx seg secs n c k base [] ≠ .error .diverge →
      emitEntry cx seg secs n (dropFile cx.o c) k base [] = emitEntry cx seg secs n c k base []) :
    ∀ (fs : List FileInfo),
      concatMapE (fun c => emitEntry cx seg secs n c k base []) fs ≠ .error .diverge →
      concatMapE (fun c => emitEntry cx seg secs n c k base []) (dropFiles cx.o fs)
        = concatMapE (fun c => emitEntry cx seg secs n c k base []) fs := by
  intro fs
  induction fs with
  | nil => intro _; rfl
  | cons c rest ih =>
    intro h
    unfold dropFiles
    by_cases hc : shouldEmit cx.o c.cond = true
    · simp only [hc, if_true]
      unfold concatMapE at h ⊢
      cases hE : emitEntry cx seg secs n c k base [] with
      | error e =>
        have hne : emitEntry cx seg secs n c k base [] ≠ .error .diverge := by
          intro he; rw [he] at h; exact h rfl
        rw [hrec c hne, hE]
      | ok x =>
        rw [hrec c (by rw [hE]; exact fun hh => nomatch hh), hE]
        simp only [hE] at h
        have hr : concatMapE (fun c => emitEntry cx seg secs n c k base []) rest ≠ .error .diverge := by
          intro he; rw [he] at h; exact h rfl
        rw [ih hr]
    · have hf : shouldEmit cx.o c.cond = false := by
        cases hh : shouldEmit cx.o c.cond
        · rfl
        · exact absurd hh hc
      simp only [hf, Bool.false_eq_true, if_false]
      cases n with
      | zero =>
        exfalso
        unfold concatMapE at h
        simp only [emitEntry] at h
        exact h rfl
      | succ m =>
        unfold concatMapE at h
        conv => rhs; unfold concatMapE
        rw [excluded_emits_nothing cx seg secs m c k base [] hf] at h ⊢
        simp only at h ⊢
        have hr : concatMapE (fun c => emitEntry cx seg secs (m + 1) c k base []) rest ≠ .error .diverge := by
          intro he; rw [he] at h; exact h rfl
        rw [ih hr]
        cases concatMapE (fun c => emitEntry cx seg secs (m + 1) c k base []) rest with
        | error e => rfl
        | ok r => simp

/-- **an excluded entry leaves no trace below an entry**: what an entry emits is what the
entry emits with every excluded entry below it deleted. -/
theorem emitEntry_drop (cx : Ctx) (seg : Segment) (secs : List Str) :
    ∀ (n : Nat) (f : FileInfo) (sec base : Str) (parents : List Str),
      emitEntry cx seg secs n f sec base parents ≠ .error .diverge →
      emitEntry cx seg secs n (dropFile cx.o f) sec base parents = emitEntry cx seg secs n f sec base parents := by
  intro n
  induction n with
  | zero => intro f sec base parents h; exact absurd rfl h
  | succ n ih =>
    intro f sec base parents h
    obtain ⟨c1, c2, c3, c4, c5, c6, c7, c8, c9, c10, c11⟩ := dropFile_fields cx.o f
    rw [emitEntry] at h ⊢
    conv => rhs; rw [emitEntry]
    simp only [c1, c2, c3, c4, c5, c6, c7, c8, c9, c10, c11]
    split
    · rfl
    · split
      · rfl
      · rename_i h1 h2
        simp only [h1, h2, if_false] at h
        apply concatMapE_mono _ _ _ _ h
        intro k _ hk
        simp only [Bool.false_eq_true, if_false] at hk ⊢
        refine @combine_eq _ _ _ _ ?_ ?_ hk
        · intro hb
          cases hkind : f.kind with
          | group =>
            simp only [hkind] at hb ⊢
            cases hd : liftPath (cx.esc cx.o f.dir) with
            | error e => rfl
            | ok dir =>
              simp only [hd] at hb ⊢
              exact concat_drop cx seg secs n k (pathPush base dir) (fun c hc => ih c k (pathPush base dir) [] hc) f.files hb
          | object => rfl
          | archive => rfl
          | pad => rfl
          | linkerOffset => rfl
        · intro hs
          split
          · rfl
          · rename_i hc
            simp only [hc, if_false] at hs
            exact concatMapE_mono _ _ _ (fun o _ ho => ih f o base (sec :: parents) ho) hs

/-! ### one section of a segment -/

theorem depth_drop (o : Opts) : ∀ (f : FileInfo), FileInfo.depth (dropFile o f) ≤ FileInfo.depth f
  | .mk p k sf pa se lo so fs dir c keep => by
    unfold dropFile FileInfo.depth
    exact Nat.succ_le_succ (depthList_drop fs)
where
  depthList_drop : ∀ (l : List FileInfo), FileInfo.depthList (dropFiles o l) ≤ FileInfo.depthList l
  | [] => Nat.le_refl _
  | f :: fs => by
    unfold dropFiles
    split
    · unfold FileInfo.depthList
      have h1 := depth_drop o f
      have h2 := depthList_drop fs
      omega
    · have h2 := depthList_drop fs
      conv => rhs; unfold FileInfo.depthList
      omega

/-- the concatenation over a segment's entries, with the real fuel, is never "exhausted". -/
theorem entries_never_diverge (cx : Ctx) (seg : Segment) (secs : List Str) (sec base : Str) :
    concatMapE (fun file => emitEntry cx seg secs (fuelFor seg) file sec base []) seg.files ≠ .error .diverge := by
  intro hc
  obtain ⟨file, hfile, hf⟩ := C19.concatMapE_error _ _ _ hc
  refine C19.emitEntry_never_diverges cx seg secs _ file sec base [] ⟨List.nodup_nil, by simp, by simp⟩ ?_ hf
  have := C19.depth_le_of_mem file seg.files hfile
  simp only [fuelFor, subgroupValues, List.length_nil, Nat.add_zero]
  exact Nat.le_trans (Nat.mul_le_mul_right _ this) (Nat.le_succ _)

/-- **an excluded entry leaves no trace in a section of its segment**: `emit_section` on the
segment whose file list has every excluded entry (at every depth) deleted returns exactly
what it returns on the segment itself — statements, pads, offsets, and errors alike. -/
theorem emitSection_drop (cx : Ctx) (seg : Segment) (sec : Str) (sections : List Str) :
    emitSection cx { seg with files := dropFiles cx.o seg.files } sec sections = emitSection cx seg sec sections := by
  unfold emitSection
  have hcore : ∀ base, concatMapE (fun file => emitEntry cx { seg with files := dropFiles cx.o seg.files } sections
        (fuelFor { seg with files := dropFiles cx.o seg.files }) file sec base []) (dropFiles cx.o seg.files)
      = concatMapE (fun file => emitEntry cx seg sections (fuelFor seg) file sec base []) seg.files := by
    intro base
    -- with the segment's own fuel: deleting changes nothing
    have h1 := concat_drop cx seg sections (fuelFor seg) sec base
      (fun c hc => emitEntry_drop cx seg sections (fuelFor seg) c sec base [] hc) seg.files
      (entries_never_diverge cx seg sections sec base)
    rw [← h1]
    -- the pruned segment's smaller fuel gives the same
    have hle : fuelFor { seg with files := dropFiles cx.o seg.files } ≤ fuelFor seg := by
      unfold fuelFor subgroupValues
      have := depth_drop.depthList_drop cx.o seg.files
      exact Nat.succ_le_succ (Nat.mul_le_mul_right _ this)
    obtain ⟨d, hd⟩ := Nat.exists_eq_add_of_le hle
    apply concatMapE_congr_mem
    intro a ha
    have hirr : ∀ n, emitEntry cx { seg with files := dropFiles cx.o seg.files } sections n a sec base []
        = emitEntry cx seg sections n a sec base [] := fun n =>
      C15.emitEntry_irrelevant cx seg sections cx.d.segments (dropFiles cx.o seg.files) n a sec base []
    rw [hirr, hd]
    have hnd : emitEntry cx seg sections (fuelFor { seg with files := dropFiles cx.o seg.files }) a sec base [] ≠ .error .diverge := by
      rw [← hirr]
      refine C19.emitEntry_never_diverges cx _ sections _ a sec base [] ⟨List.nodup_nil, by simp, by simp⟩ ?_
      have := C19.depth_le_of_mem a (dropFiles cx.o seg.files) ha
      simp only [fuelFor, subgroupValues, List.length_nil, Nat.add_zero]
      exact Nat.le_trans (Nat.mul_le_mul_right _ this) (Nat.le_succ _)
    exact (emitEntry_fuel_le cx seg sections _ d a sec base [] hnd).symm
  simp only [hcore]

/-! ### whole documents -/

/-- an excluded `gp_info` is removed. -/
def dropGp (o : Opts) (g : Option GpInfo) : Option GpInfo :=
  match g with
  | some g => if shouldEmit o g.cond then some g else none
  | none => none

/-- the segment with its excluded entries deleted and an excluded `gp_info` removed. -/
def dropSeg (o : Opts) (seg : Segment) : Segment :=
  { seg with files := dropFiles o seg.files, gpInfo := dropGp o seg.gpInfo }

/-- the emitter does not read `gp_info`. -/
theorem emitEntry_gp_irrelevant (cx : Ctx) (seg : Segment) (secs : List Str) (g : Option GpInfo) :
    ∀ (n : Nat) (f : FileInfo) (sec base : Str) (parents : List Str),
      emitEntry cx { seg with gpInfo := g } secs n f sec base parents = emitEntry cx seg secs n f sec base parents := by
  intro n
  induction n with
  | zero => intro f sec base parents; rfl
  | succ n ih =>
    intro f sec base parents
    unfold emitEntry
    simp only [ih, subgroupsOf]

/-- **the document with every excluded entry deleted**: excluded segments, excluded file
entries at every depth, an excluded `gp_info`, excluded symbol assignments, required symbols
and asserts. -/
def dropDoc (o : Opts) (d : Document) : Document :=
  { d with segments := (d.segments.filter fun s => shouldEmit o s.cond).map (dropSeg o),
           symbolAssignments := d.symbolAssignments.filter fun a => shouldEmit o a.cond,
           requiredSymbols := d.requiredSymbols.filter fun a => shouldEmit o a.cond,
           asserts := d.asserts.filter fun a => shouldEmit o a.cond }

theorem gpLine_dropSeg (cx : Ctx) (seg : Segment) (sec : Str) :
    gpLine cx (dropSeg cx.o seg) sec = gpLine cx seg sec := by
  unfold gpLine dropSeg dropGp
  cases hg : seg.gpInfo with
  | none => rfl
  | some g =>
    simp only []
    by_cases he : shouldEmit cx.o g.cond = true
    · simp [he]
    · have : shouldEmit cx.o g.cond = false := by
        cases hh : shouldEmit cx.o g.cond
        · rfl
        · exact absurd hh he
      simp [this]

theorem emitSection_dropSeg (cx : Ctx) (seg : Segment) (sec : Str) (sections : List Str) :
    emitSection cx (dropSeg cx.o seg) sec sections = emitSection cx seg sec sections := by
  rw [← emitSection_drop cx seg sec sections]
  unfold emitSection dropSeg
  have hfuel : fuelFor { seg with files := dropFiles cx.o seg.files, gpInfo := dropGp cx.o seg.gpInfo }
      = fuelFor { seg with files := dropFiles cx.o seg.files } := rfl
  simp only [hfuel]
  have := emitEntry_gp_irrelevant cx { seg with files := dropFiles cx.o seg.files } sections (dropGp cx.o seg.gpInfo)
  simp only at this
  simp only [this]

theorem writeSegment_dropSeg (cx : Ctx) (seg : Segment) (sections : List Str) (noload : Bool) :
    writeSegment cx (dropSeg cx.o seg) sections noload = writeSegment cx seg sections noload := by
  unfold writeSegment sectionSymStart
  simp only [emitSection_dropSeg, gpLine_dropSeg]
  rfl

theorem writeSingleSegment_dropSeg (cx : Ctx) (seg : Segment) (sections : List Str) (noload : Bool) :
    writeSingleSegment cx (dropSeg cx.o seg) sections noload = writeSingleSegment cx seg sections noload := by
  unfold writeSingleSegment sectionSymStart
  simp only [emitSection_dropSeg, gpLine_dropSeg]
  rfl

theorem addSegment_dropSeg (cx : Ctx) (seg : Segment) (em : List Str) :
    addSegment cx em (dropSeg cx.o seg) = addSegment cx em seg := by
  unfold addSegment
  simp only [writeSegment_dropSeg]
  rfl

/-- **excluded segments leave no trace**: the fold over the segments is the fold over the
included ones with their excluded entries deleted. -/
theorem addSegments_drop (cx : Ctx) : ∀ (l : List Segment) (em : List Str),
    addSegments cx em ((l.filter fun s => shouldEmit cx.o s.cond).map (dropSeg cx.o)) = addSegments cx em l := by
  intro l
  induction l with
  | nil => intro em; rfl
  | cons a as ih =>
    intro em
    by_cases ha : shouldEmit cx.o a.cond = true
    · simp only [List.filter_cons, ha, if_true, List.map_cons]
      unfold addSegments
      rw [addSegment_dropSeg]
      simp only [ih]
    · have hf : shouldEmit cx.o a.cond = false := by
        cases hh : shouldEmit cx.o a.cond
        · rfl
        · exact absurd hh ha
      simp only [List.filter_cons, hf, Bool.false_eq_true, if_false]
      rw [ih]
      conv => rhs; unfold addSegments
      have : addSegment cx em a = .ok ([], em) := by
        unfold addSegment; simp [hf]
      rw [this]
      simp only [List.nil_append]
      cases addSegments cx em as with
      | error e => rfl
      | ok r => rfl

/-! #### the writer does not read the lists that `dropDoc` changes -/

section irrelevant
variable (cx : Ctx) (S : List Segment) (A : List SymbolAssignment) (Rq : List RequiredSymbol) (T : List AssertEntry)

/-- the context whose document has other segment and top-level lists. -/
def withLists : Ctx :=
  { cx with d := { cx.d with segments := S, symbolAssignments := A, requiredSymbols := Rq, asserts := T } }

theorem emitEntry_lists (seg : Segment) (secs : List Str) :
    ∀ (n : Nat) (f : FileInfo) (sec base : Str) (parents : List Str),
      emitEntry (withLists cx S A Rq T) seg secs n f sec base parents = emitEntry cx seg secs n f sec base parents := by
  intro n
  induction n with
  | zero => intro f sec base parents; rfl
  | succ n ih =>
    intro f sec base parents
    unfold emitEntry
    simp only [ih]
    rfl

theorem emitSection_lists (seg : Segment) (sec : Str) (sections : List Str) :
    emitSection (withLists cx S A Rq T) seg sec sections = emitSection cx seg sec sections := by
  unfold emitSection
  simp only [emitEntry_lists]
  rfl

theorem writeSegment_lists (seg : Segment) (sections : List Str) (noload : Bool) :
    writeSegment (withLists cx S A Rq T) seg sections noload = writeSegment cx seg sections noload := by
  unfold writeSegment
  simp only [emitSection_lists]
  rfl

theorem writeSingleSegment_lists (seg : Segment) (sections : List Str) (noload : Bool) :
    writeSingleSegment (withLists cx S A Rq T) seg sections noload = writeSingleSegment cx seg sections noload := by
  unfold writeSingleSegment
  simp only [emitSection_lists]
  rfl

/-- the segment list `S` has an emitted member of a class exactly when the document's has. -/
def SameUse : Prop :=
  ∀ other : Str, S.any (fun s => decide (s.vramClass = some other) && shouldEmit cx.o s.cond)
    = cx.d.segments.any (fun s => decide (s.vramClass = some other) && shouldEmit cx.o s.cond)

theorem classPart_lists (hS : SameUse cx S) (seg : Segment) (em : List Str) :
    classPart (withLists cx S A Rq T) em seg = classPart cx em seg := by
  have hf : ∀ vc, followedUsed (withLists cx S A Rq T) vc = followedUsed cx vc := by
    intro vc
    unfold followedUsed
    apply List.filter_congr
    intro other _
    exact hS other
  unfold classPart classIntro
  simp only [hf]
  rfl

theorem addSegment_lists (hS : SameUse cx S) (seg : Segment) (em : List Str) :
    addSegment (withLists cx S A Rq T) em seg = addSegment cx em seg := by
  unfold addSegment
  simp only [writeSegment_lists, classPart_lists cx S A Rq T hS]
  rfl

theorem addSegments_lists (hS : SameUse cx S) : ∀ (l : List Segment) (em : List Str),
    addSegments (withLists cx S A Rq T) em l = addSegments cx em l := by
  intro l
  induction l with
  | nil => intro em; rfl
  | cons a as ih =>
    intro em
    unfold addSegments
    rw [addSegment_lists cx S A Rq T hS]
    simp only [ih]

theorem addSingleSegment_lists (seg : Segment) :
    addSingleSegment (withLists cx S A Rq T) seg = addSingleSegment cx seg := by
  unfold addSingleSegment
  simp only [writeSingleSegment_lists]
  rfl

end irrelevant

/-- deleting the excluded segments (and the excluded entries inside the others) does not change
which classes have an emitted member. -/
theorem sameUse_drop (cx : Ctx) : SameUse cx ((cx.d.segments.filter fun s => shouldEmit cx.o s.cond).map (dropSeg cx.o)) := by
  intro other
  generalize cx.d.segments = l
  induction l with
  | nil => rfl
  | cons a as ih =>
    by_cases ha : shouldEmit cx.o a.cond = true
    · simp only [List.filter_cons, ha, if_true, List.map_cons, List.any_cons, ih]
      have h1 : (dropSeg cx.o a).vramClass = a.vramClass := rfl
      have h2 : (dropSeg cx.o a).cond = a.cond := rfl
      rw [h1, h2, ha]
    · have hf : shouldEmit cx.o a.cond = false := by
        cases hh : shouldEmit cx.o a.cond
        · rfl
        · exact absurd hh ha
      simp only [List.filter_cons, hf, Bool.false_eq_true, if_false, List.any_cons, Bool.and_false, Bool.false_or, ih]

/-! #### the outputs -/

/-- a script without its empty lines. -/
def noBlank (ls : List Line) : List Line := ls.filter (fun l => l ≠ .blank)

theorem noBlank_append (a b : List Line) : noBlank (a ++ b) = noBlank a ++ noBlank b := by
  unfold noBlank; simp

theorem noBlank_guard (c : Bool) (X : List Line) (h : c = true → X = []) :
    noBlank (if c then [] else Line.blank :: X) = noBlank X := by
  cases c with
  | true => simp [h rfl, noBlank]
  | false => simp [noBlank]

theorem filter_filter_self {α} (p : α → Bool) (l : List α) : (l.filter p).filter p = l.filter p := by
  induction l with
  | nil => rfl
  | cons a as ih =>
    by_cases h : p a = true
    · simp [List.filter_cons, h, ih]
    · simp [List.filter_cons, h, ih]

/-- the top-level statements of the pruned document are those of the document, up to the
empty line that introduces a block all of whose entries are excluded. -/
theorem topLevel_drop (d : Document) (o : Opts) : noBlank (topLevel (dropDoc o d) o) = noBlank (topLevel d o) := by
  unfold topLevel dropDoc
  simp only [noBlank_append, filter_filter_self]
  have e1 : ∀ (l : List SymbolAssignment) (g : SymbolAssignment → Line),
      noBlank (if (l.filter fun a => shouldEmit o a.cond).isEmpty then [] else Line.blank :: (l.filter fun a => shouldEmit o a.cond).map g)
      = noBlank (if l.isEmpty then [] else Line.blank :: (l.filter fun a => shouldEmit o a.cond).map g) := by
    intro l g
    rw [noBlank_guard _ _ (fun h => by simp [List.isEmpty_iff.1 h]), noBlank_guard _ _ (fun h => by simp [List.isEmpty_iff.1 h])]
  have e2 : ∀ (l : List RequiredSymbol) (g : RequiredSymbol → List Line),
      noBlank (if (l.filter fun a => shouldEmit o a.cond).isEmpty then [] else Line.blank :: ((l.filter fun a => shouldEmit o a.cond).map g).flatten)
      = noBlank (if l.isEmpty then [] else Line.blank :: ((l.filter fun a => shouldEmit o a.cond).map g).flatten) := by
    intro l g
    rw [noBlank_guard _ _ (fun h => by simp [List.isEmpty_iff.1 h]), noBlank_guard _ _ (fun h => by simp [List.isEmpty_iff.1 h])]
  have e3 : ∀ (l : List AssertEntry) (g : AssertEntry → Line),
      noBlank (if (l.filter fun a => shouldEmit o a.cond).isEmpty then [] else Line.blank :: (l.filter fun a => shouldEmit o a.cond).map g)
      = noBlank (if l.isEmpty then [] else Line.blank :: (l.filter fun a => shouldEmit o a.cond).map g) := by
    intro l g
    rw [noBlank_guard _ _ (fun h => by simp [List.isEmpty_iff.1 h]), noBlank_guard _ _ (fun h => by simp [List.isEmpty_iff.1 h])]
  rw [e1, e2, e3]

theorem addSingleSegment_dropSeg (cx : Ctx) (seg : Segment) :
    addSingleSegment cx (dropSeg cx.o seg) = addSingleSegment cx seg := by
  unfold addSingleSegment
  simp only [writeSingleSegment_dropSeg]
  rfl

/-- the segments block of the pruned document is that of the document (multi-segment layout). -/
theorem addAllSegments_drop (d : Document) (o : Opts) (hm : d.settings.singleSegmentMode = false) :
    addAllSegments { d := dropDoc o d, o := o } = addAllSegments { d := d, o := o } := by
  unfold addAllSegments
  have hd : (dropDoc o d).settings.singleSegmentMode = false := hm
  simp only [hd, hm, Bool.false_eq_true, if_false]
  have h1 := addSegments_lists { d := d, o := o } ((d.segments.filter fun s => shouldEmit o s.cond).map (dropSeg o))
    (d.symbolAssignments.filter fun a => shouldEmit o a.cond) (d.requiredSymbols.filter fun a => shouldEmit o a.cond)
    (d.asserts.filter fun a => shouldEmit o a.cond) (sameUse_drop { d := d, o := o }) ((d.segments.filter fun s => shouldEmit o s.cond).map (dropSeg o)) []
  have h2 := addSegments_drop { d := d, o := o } d.segments []
  have h3 : addSegments { d := dropDoc o d, o := o } [] (dropDoc o d).segments = addSegments { d := d, o := o } [] d.segments :=
    h1.trans h2
  rw [h3]
  rfl

/-- **C06, "an excluded entry leaves no trace" (ordinary scripts, multi-segment layout)**: the
script generated from the document with every excluded entry deleted — excluded segments,
file entries at every depth, `gp_info`, symbol assignments, required symbols, asserts — is the
script generated from the document, up to empty lines; and so are the recorded linker symbols
and file paths (header and dependency file). Errors are the same too. -/
theorem no_trace (d : Document) (o : Opts) (vc : Bool) (hm : d.settings.singleSegmentMode = false) :
    (generateNormal (dropDoc o d) o vc).map noBlank = (generateNormal d o vc).map noBlank := by
  unfold generateNormal
  rw [addAllSegments_drop d o hm]
  cases addAllSegments { d := d, o := o } with
  | error e => rfl
  | ok ls =>
    simp only [Except.map, noBlank_append, topLevel_drop]

/-! #### partial mode -/

/-- the document with other segment and top-level lists. -/
def listsDoc (d : Document) (S : List Segment) (A : List SymbolAssignment) (Rq : List RequiredSymbol) (T : List AssertEntry) : Document :=
  { d with segments := S, symbolAssignments := A, requiredSymbols := Rq, asserts := T }

theorem dropFiles_newObject (o : Opts) (p : Str) : dropFiles o [FileInfo.newObject p] = [FileInfo.newObject p] := by
  unfold dropFiles FileInfo.newObject
  simp [FileInfo.cond, shouldEmit, dropFile, dropFiles]

theorem partialSegment_dropSeg (o : Opts) (folder : Str) (seg : Segment) :
    partialSegment folder (dropSeg o seg) = dropSeg o (partialSegment folder seg) := by
  unfold partialSegment dropSeg
  simp only [dropFiles_newObject]

theorem partialSegments_drop (d : Document) (o : Opts) (vc : Bool) (folder : Str)
    (S : List Segment) (A : List SymbolAssignment) (Rq : List RequiredSymbol) (T : List AssertEntry)
    (hS : SameUse { d := d, o := o, refPartial := true, esc := escapePath } S) :
    ∀ (l : List Segment) (em : List Str),
      partialSegments (listsDoc d S A Rq T) o vc folder escapePath em
          ((l.filter fun s => shouldEmit o s.cond).map (dropSeg o))
        = partialSegments d o vc folder escapePath em l := by
  intro l
  induction l with
  | nil => intro em; rfl
  | cons a as ih =>
    intro em
    by_cases ha : shouldEmit o a.cond = true
    · simp only [List.filter_cons, ha, if_true, List.map_cons]
      unfold partialSegments
      have hc : shouldEmit o (dropSeg o a).cond = true := ha
      simp only [hc, ha, Bool.not_true, Bool.false_eq_true, if_false]
      have h1 : addSingleSegment { d := listsDoc d S A Rq T, o := o, emitKindSyms := false, emitSecSyms := false, esc := escapePath } (dropSeg o a)
          = addSingleSegment { d := d, o := o, emitKindSyms := false, emitSecSyms := false, esc := escapePath } a :=
        (addSingleSegment_lists { d := d, o := o, emitKindSyms := false, emitSecSyms := false, esc := escapePath } S A Rq T _).trans
          (addSingleSegment_dropSeg { d := d, o := o, emitKindSyms := false, emitSecSyms := false, esc := escapePath } a)
      have h2 : ∀ em, addSegment { d := listsDoc d S A Rq T, o := o, refPartial := true, esc := escapePath } em (partialSegment folder (dropSeg o a))
          = addSegment { d := d, o := o, refPartial := true, esc := escapePath } em (partialSegment folder a) := by
        intro em
        rw [partialSegment_dropSeg]
        exact (addSegment_lists { d := d, o := o, refPartial := true, esc := escapePath } S A Rq T hS _ em).trans
          (addSegment_dropSeg { d := d, o := o, refPartial := true, esc := escapePath } _ em)
      simp only [h1, h2, ih]
      rfl
    · have hf : shouldEmit o a.cond = false := by
        cases hh : shouldEmit o a.cond
        · rfl
        · exact absurd hh ha
      simp only [List.filter_cons, hf, Bool.false_eq_true, if_false]
      rw [ih]
      conv => rhs; unfold partialSegments
      simp [hf]

/-- **C06, "an excluded entry leaves no trace" (partial linking)**: the main script of the
pruned document equals that of the document up to empty lines, and the per-segment partial
scripts are the same — one per included segment, none for an excluded one. -/
theorem no_trace_partial (d : Document) (o : Opts) (vc : Bool) :
    (generatePartial (dropDoc o d) o vc).map (fun po => (noBlank po.main, po.partials))
      = (generatePartial d o vc).map (fun po => (noBlank po.main, po.partials)) := by
  unfold generatePartial
  have hs : (dropDoc o d).settings = d.settings := rfl
  rw [hs]
  cases hf : d.settings.partialBuildSegmentsFolder with
  | none => rfl
  | some folder =>
    simp only []
    have h := partialSegments_drop d o vc folder ((d.segments.filter fun s => shouldEmit o s.cond).map (dropSeg o))
      (d.symbolAssignments.filter fun a => shouldEmit o a.cond) (d.requiredSymbols.filter fun a => shouldEmit o a.cond)
      (d.asserts.filter fun a => shouldEmit o a.cond) (sameUse_drop { d := d, o := o, refPartial := true, esc := escapePath }) d.segments []
    have h' : partialSegments (dropDoc o d) o vc folder escapePath [] (dropDoc o d).segments
        = partialSegments d o vc folder escapePath [] d.segments := h
    rw [h']
    cases partialSegments d o vc folder escapePath [] d.segments with
    | error e => rfl
    | ok r =>
      obtain ⟨ls, emitted, ps⟩ := r
      simp only [Except.map, noBlank_append, topLevel_drop]
      rfl

/-- empty lines carry no linker symbol and no file path: scripts that agree up to empty lines
have the same header and the same dependency file. -/
theorem same_header_and_deps (l₁ l₂ : List Line) (h : noBlank l₁ = noBlank l₂) :
    linkerSymbols l₁ = linkerSymbols l₂ ∧ filesPaths l₁ = filesPaths l₂ := by
  have key : ∀ (f : Line → Option Str), f .blank = none → ∀ l : List Line, (noBlank l).filterMap f = l.filterMap f := by
    intro f hf l
    induction l with
    | nil => rfl
    | cons a as ih =>
      by_cases ha : a = .blank
      · subst ha
        simp only [noBlank, List.filter_cons, ne_eq, not_true_eq_false, decide_false, Bool.false_eq_true, if_false,
          List.filterMap_cons, hf]
        exact ih
      · simp only [noBlank, List.filter_cons, ne_eq, ha, not_false_eq_true, decide_true, if_true, List.filterMap_cons]
        cases f a with
        | none => exact ih
        | some x => simp only [List.cons.injEq, true_and]; exact ih
  unfold linkerSymbols filesPaths
  rw [← key Line.linkerSym? rfl l₁, ← key Line.linkerSym? rfl l₂, ← key Line.inputPath? rfl l₁, ← key Line.inputPath? rfl l₂, h]
  exact ⟨rfl, rfl⟩

end Slinky.C06
