/-
  C13 in the image `Ld.link` returns: every name the header declares is in the symbol table of the image — for the whole
  ordinary script of a document and for the main script of partial mode.

  The declared names are the symbols written through `write_linker_symbol` (`C13.header_of_symbols`). All of them are
  written in front of the tail of `end_sections` (`linker_lines_front`: the single-entry sections, the `/DISCARD/` block
  and the top-level statements record none), that front part has no `/DISCARD/` header
  (`addSegments_no_discardHdr`), and an assignment outside `/DISCARD/` always defines its symbol
  (`C13.image_declared_are_defined`).
-/
import Props.C18Discard
import Props.C13
namespace Slinky.C13
open Slinky W Ld

theorem inner_ne_discardHdr {sty : Style} {wild : Bool} {l : Line} (h : InnerLine sty wild l) : l ≠ .discardHdr := by
  cases h with
  | body hb => cases hb <;> (intro e; cases e)
  | blank => intro e; cases e
  | alignDot a => intro e; cases e
  | gp off p h => intro e; cases e
  | symDot s hs => intro e; cases e
  | symSize s a b hs => intro e; cases e

theorem outer_ne_discardHdr {l : Line} (h : OuterLine l) : l ≠ .discardHdr := by
  cases h <;> (intro e; cases e)

theorem writeSegment_no_discardHdr (cx : Ctx) (seg : Segment) (secs : List Str) (noload : Bool) (ls : List Line)
    (h : writeSegment cx seg secs noload = .ok ls) : ∀ l ∈ ls, l ≠ .discardHdr := by
  obtain ⟨fill, body, hls, hfill, hbody⟩ := writeSegment_shape' cx seg secs noload ls h
  subst hls
  intro l hl
  simp only [List.mem_append, List.mem_cons, List.mem_nil_iff, or_false, segmentStart] at hl
  rcases hl with ((((hl | hl) | hl) | hl) | rfl) | hl
  · exact outer_ne_discardHdr (kindStart_outer cx seg noload l hl)
  · rcases hl with rfl | rfl
    · cases noload <;> (intro e; cases e)
    · intro e; cases e
  · rcases hfill with rfl | ⟨v, rfl⟩
    · cases hl
    · rw [List.mem_singleton.1 hl]; intro e; cases e
  · exact inner_ne_discardHdr (hbody l hl)
  · intro e; cases e
  · exact outer_ne_discardHdr (kindEnd_outer cx seg noload l hl)

theorem segTail_no_discardHdr (cx : Ctx) (seg : Segment) : ∀ l ∈ segTail cx seg, l ≠ .discardHdr := by
  intro l hl
  unfold segTail at hl
  simp only [List.mem_append, List.mem_cons, List.mem_nil_iff, or_false, symEndSize] at hl
  rcases hl with ((((rfl | hl) | hl) | hl) | hl) | rfl
  · intro e; cases e
  · split at hl
    · simp only [List.mem_cons, List.mem_nil_iff, or_false] at hl; rcases hl with rfl | rfl <;> (intro e; cases e)
    · cases hl
  · rcases hl with rfl | rfl <;> (intro e; cases e)
  · rcases hl with rfl | rfl <;> (intro e; cases e)
  · split at hl
    · simp only [List.mem_cons, List.mem_nil_iff, or_false] at hl; rcases hl with rfl | rfl <;> (intro e; cases e)
    · cases hl
  · intro e; cases e

theorem addSegment_no_discardHdr (cx : Ctx) (em : List Str) (seg : Segment) (a : List Line) (em1 : List Str)
    (h : addSegment cx em seg = .ok (a, em1)) : ∀ l ∈ a, l ≠ .discardHdr := by
  rcases Slinky.C10.addSegment_cases cx em seg a em1 h with ⟨_, rfl, _⟩ | ⟨_, cls, alloc, noload, rfl, ha, hn, hcl⟩
  · intro l hl; cases hl
  · intro l hl
    rw [C03.segmentLines_split] at hl
    simp only [List.mem_append, List.mem_cons, List.mem_nil_iff, or_false] at hl
    rcases hl with (hl | hl | rfl) | rfl | hl | rfl | hl | rfl | hl
    · rcases hcl with ⟨rfl, _⟩ | ⟨cname, vc', _, _, _, rfl, _⟩
      · cases hl
      · exact outer_ne_discardHdr (classIntro_outer cx cname vc' l hl).1
    · rcases C03.startAligns_assign seg l hl with rfl | ⟨s, e, p, h', lk, rfl⟩ <;> (intro e; cases e)
    · intro e; cases e
    · intro e; cases e
    · exact writeSegment_no_discardHdr cx seg _ false alloc ha l hl
    · intro e; cases e
    · exact writeSegment_no_discardHdr cx seg _ true noload hn l hl
    · intro e; cases e
    · exact segTail_no_discardHdr cx seg l hl

theorem addSegments_no_discardHdr (cx : Ctx) : ∀ (segs : List Segment) (em : List Str) (ls : List Line) (em' : List Str)
    (_ : addSegments cx em segs = .ok (ls, em')), ∀ l ∈ ls, l ≠ .discardHdr := by
  intro segs
  induction segs with
  | nil =>
    intro em ls em' h
    simp only [addSegments] at h
    injection h with h
    simp only [Prod.mk.injEq] at h
    obtain ⟨rfl, _⟩ := h
    intro l hl; cases hl
  | cons seg rest ih =>
    intro em ls em' h
    simp only [addSegments] at h
    split at h
    · contradiction
    · rename_i a em1 hadd
      split at h
      · contradiction
      · rename_i b em2 hrest
        injection h with h
        simp only [Prod.mk.injEq] at h
        obtain ⟨rfl, _⟩ := h
        intro l hl
        rcases List.mem_append.1 hl with hl | hl
        · exact addSegment_no_discardHdr cx em seg a em1 hadd l hl
        · exact ih em1 b em2 hrest l hl

/-- no statement of `end_sections` behind the class sizes records a linker symbol. -/
theorem endSections_linker (cx : Ctx) (emitted : List Str) :
    (endSections cx emitted).filterMap Line.linkerSym? = (C18.sizeLines cx emitted).filterMap Line.linkerSym? := by
  unfold endSections
  have h2 : ∀ l : List Str, (l.map Line.discardPat).filterMap Line.linkerSym? = [] := by
    intro l; induction l with
    | nil => rfl
    | cons x xs ih => simp [List.filterMap_cons, Line.linkerSym?, ih]
  have h3 : ∀ l : List Str, (l.map fun x => Line.singleEntry x c!"0").filterMap Line.linkerSym? = [] := by
    intro l; induction l with
    | nil => rfl
    | cons x xs ih => simp [List.filterMap_cons, Line.linkerSym?, ih]
  have hb : ∀ b : Bool, (if b then [Line.blank] else []).filterMap Line.linkerSym? = [] := by intro b; cases b <;> rfl
  simp only [List.filterMap_append, h2, h3, hb, apply_ite (List.filterMap Line.linkerSym?),
    List.filterMap_nil, List.filterMap_cons, Line.linkerSym?, List.nil_append, List.append_nil, C18.sizeLines]
  cases cx.d.settings.sectionsAllowlist.isEmpty <;> cases cx.d.settings.sectionsAllowlistExtra.isEmpty <;>
    cases cx.d.settings.discardWildcardSection <;> cases cx.d.settings.sectionsDenylist.isEmpty <;> simp

theorem topLevel_linker (d : Document) (o : Opts) : ∀ l ∈ topLevel d o, Line.linkerSym? l = none := by
  intro l hl
  unfold topLevel at hl
  simp only [List.mem_append] at hl
  rcases hl with ((hl | hl) | hl) | hl
  · split at hl
    · simp only [List.mem_cons, List.mem_nil_iff, or_false] at hl; rcases hl with rfl | rfl <;> rfl
    · cases hl
  · split at hl
    · cases hl
    · rcases List.mem_cons.1 hl with rfl | hl
      · rfl
      · obtain ⟨a, _, rfl⟩ := List.mem_map.1 hl
        cases a.provide <;> cases a.hidden <;> rfl
  · split at hl
    · cases hl
    · rcases List.mem_cons.1 hl with rfl | hl
      · rfl
      · obtain ⟨x, hx, hlx⟩ := List.mem_flatten.1 hl
        obtain ⟨a, _, rfl⟩ := List.mem_map.1 hx
        simp only [List.mem_cons, List.mem_nil_iff, or_false] at hlx
        rcases hlx with rfl | rfl <;> rfl
  · split at hl
    · cases hl
    · rcases List.mem_cons.1 hl with rfl | hl
      · rfl
      · obtain ⟨a, _, rfl⟩ := List.mem_map.1 hl; rfl

/-- every declared name is in the symbol table of the image — for any writer context. -/
theorem declared_core (objs : List InSec) (cx : Ctx) (vc : Bool)
    (segs : List Segment) (ls : List Line) (emitted : List Str) (d : Document) (o : Opts)
    (hsegs : addSegments cx [] segs = .ok (ls, emitted))
    (defsyms : List (Str × Nat)) (s : Str) (hne : s ≠ c!".")
    (hs : s ∈ linkerSymbols (versionComment vc ++ (beginSections cx ++ ls ++ (endSections cx emitted ++ topLevel d o)))) :
    s ∈ (link objs defsyms (versionComment vc ++ (beginSections cx ++ ls ++ (endSections cx emitted ++ topLevel d o)))).syms.map (·.1) := by
  obtain ⟨B1, B2, D, _, _, hshape⟩ := C18.endSections_shape cx emitted
  generalize hR : B1 ++ (cx.d.settings.sectionsAllowlist.map (fun x => Line.singleEntry x c!"0")
        ++ (B2 ++ (cx.d.settings.sectionsAllowlistExtra.map (fun x => Line.singleEntry x c!"0") ++ D))) = R at hshape
  have hRl : R.filterMap Line.linkerSym? = [] := by
    have h := endSections_linker cx emitted
    rw [hshape, List.filterMap_append] at h
    exact List.append_right_eq_self.1 h
  obtain ⟨e, he⟩ := (declared_once_and_defined _).2 s |>.1 hs
  rw [hshape] at he ⊢
  generalize hA : versionComment vc ++ (beginSections cx ++ (ls ++ C18.sizeLines cx emitted)) = A
  have hform : versionComment vc ++ (beginSections cx ++ ls ++ (C18.sizeLines cx emitted ++ R ++ topLevel d o)) = A ++ (R ++ topLevel d o) := by
    rw [← hA]; simp [List.append_assoc]
  rw [hform] at he ⊢
  have heA : Line.assign s e false false true ∈ A := by
    rcases List.mem_append.1 he with h | h
    · exact h
    · exfalso
      rcases List.mem_append.1 h with h | h
      · have : s ∈ R.filterMap Line.linkerSym? := List.mem_filterMap.2 ⟨_, h, rfl⟩
        rw [hRl] at this; cases this
      · have := topLevel_linker d o _ h
        simp [Line.linkerSym?] at this
  have hAd : ∀ l ∈ A, l ≠ .discardHdr := by
    intro l hl
    rw [← hA] at hl
    simp only [List.mem_append] at hl
    rcases hl with hl | hl | hl | hl
    · unfold versionComment at hl
      split at hl
      · simp only [List.mem_cons, List.mem_nil_iff, or_false] at hl; rcases hl with rfl | rfl <;> (intro e; cases e)
      · cases hl
    · unfold beginSections at hl
      simp only [List.mem_append, List.mem_cons, List.mem_nil_iff, or_false] at hl
      rcases hl with ((rfl | rfl | rfl) | hl) | rfl
      · intro e; cases e
      · intro e; cases e
      · intro e; cases e
      · split at hl
        · rw [List.mem_singleton.1 hl]; intro e; cases e
        · cases hl
      · intro e; cases e
    · exact addSegments_no_discardHdr cx segs [] ls emitted hsegs l hl
    · exact outer_ne_discardHdr (C18.sizeLines_outer cx emitted l hl)
  rw [link_eq]
  generalize carry _ = S0
  have hdef := assigned_is_defined objs A (R ++ topLevel d o) { syms := S0 } rfl hAd s e false false true hne heA
  rw [exec_eq_execK] at hdef
  unfold names at hdef
  simp only [imageOf, carry, List.map_map, Function.comp_def, List.map_id']
  exact (mem_dedup _ _).2 hdef

/-- **C13 in the linked image, for the whole ordinary script of a document: every declared name is defined.** The names
the header declares are the linker symbols of the script (`C13.header_of_symbols`); each of them is in the symbol table
of the image `Ld.link` computes, for every object table and `--defsym` table. -/
theorem final_declared_in_image (objs : List InSec) (d : Document) (o : Opts) (vc : Bool) (script : List Line)
    (hmulti : d.settings.singleSegmentMode = false)
    (h : generateNormal d o vc = .ok script)
    (defsyms : List (Str × Nat)) (s : Str) (hne : s ≠ c!".") (hs : s ∈ linkerSymbols script) :
    s ∈ (link objs defsyms script).syms.map (·.1) := by
  unfold generateNormal at h
  split at h
  · contradiction
  · rename_i body hbody
    injection h with h
    subst h
    unfold addAllSegments at hbody
    simp only [hmulti, Bool.false_eq_true, if_false] at hbody
    split at hbody
    · contradiction
    · rename_i ls emitted hsegs
      injection hbody with hbody
      subst hbody
      have hform : versionComment vc ++ (beginSections { d := d, o := o } ++ ls ++ endSections { d := d, o := o } emitted) ++ topLevel d o
          = versionComment vc ++ (beginSections { d := d, o := o } ++ ls ++ (endSections { d := d, o := o } emitted ++ topLevel d o)) := by
        simp [List.append_assoc]
      rw [hform] at hs ⊢
      exact declared_core objs { d := d, o := o } vc d.segments ls emitted d o hsegs defsyms s hne hs

/-- the same for the main script of partial mode. -/
theorem final_declared_in_image_partial (objs : List InSec) (d : Document) (o : Opts) (vc : Bool) (out : PartialOut)
    (h : generatePartial d o vc = .ok out)
    (defsyms : List (Str × Nat)) (s : Str) (hne : s ≠ c!".") (hs : s ∈ linkerSymbols out.main) :
    s ∈ (link objs defsyms out.main).syms.map (·.1) := by
  obtain ⟨folder, ls, emitted, _, hsegs, hmain⟩ := C03.partial_main_shape d o vc out h
  rw [hmain] at hs ⊢
  exact declared_core objs (C03.partialCx d o) vc _ ls emitted d o hsegs defsyms s hne hs

/-- the hypotheses are met: the script of the example document of `C04Final` records 42 linker symbols, each in the
symbol table of its image. -/
example : (match generateNormal C04.exDoc C04.exOpts false with
    | .ok script =>
      decide ((linkerSymbols script).length = 42)
      && (linkerSymbols script).all (fun s => (link C04.exObjs [] script).syms.any (fun kv => kv.1 = s))
    | .error _ => false) = true := by decide +kernel

end Slinky.C13
