/-
  C09, the alignment statements — tied to the source text (lean/Src/Formats.lean, regenerated from
  script_buffer.rs / linker_writer.rs on every run).
-/
import Src.Formats
import Props.C09
namespace Slinky.C09

/-- `align_symbol(sym, a)`: `sym = ALIGN(sym, 0x{:X});`. -/
theorem align_symbol_src (s : Str) (a : Nat) :
    (alignSymbol s a).renderBody = fmt Src.sb__align_symbol_0 [.s s, .s s, .n a] := by
  simp [alignSymbol, Line.renderBody, Expr.render, fmt, Src.sb__align_symbol_0]

/-- the location counter is the `.` of the calls in `add_segment` (start, end), `write_section_symbol_start`
and `write_section_symbol_end` (option for all sections, then the per-section table). -/
theorem dot_src : (c!"." : Str) = fmt Src.lw__add_segment_4 [] ∧ (c!"." : Str) = fmt Src.lw__add_segment_9 []
    ∧ (c!"." : Str) = fmt Src.lw__write_section_symbol_start_0 [] ∧ (c!"." : Str) = fmt Src.lw__write_section_symbol_start_1 []
    ∧ (c!"." : Str) = fmt Src.lw__write_section_symbol_end_0 [] ∧ (c!"." : Str) = fmt Src.lw__write_section_symbol_end_1 [] := by
  decide

/-- ` SUBALIGN(n)` with `n` in decimal, in both kinds of header. -/
theorem subalign_src (name : Str) (noload : Bool) (k : Nat) :
    ∃ front, (Line.outHdr name noload none none (some k)).renderBody = front ++ fmt Src.lw__write_segment_start_9 [.n k]
      ∧ Src.lw__write_segment_start_9 = Src.lw__write_single_segment_3 := by
  refine ⟨name ++ (if noload then c!" (NOLOAD) :" else c!" :"), ?_, by decide⟩
  cases noload <;> simp [Line.renderBody, fmt, Src.lw__write_segment_start_9]

theorem counts_src : Src.sb__align_symbol_count = 1 := by decide

end Slinky.C09
