/-
  GENERATED-BY-HAND-ONCE from the proofs of the whole-script theorems (the generator was a throw-away script): the same
  proofs with the writer context `cx`, the segment list and the statements `T` that follow the segments left open.
  ``final_class_fixed_vram_partial`` instantiates them for the main script of partial mode (`generatePartial`), whose segment part is `add_segment` in
  the reference-to-partial-object context over the emitted segments with their file lists replaced by the partial object
  (`C04.partialSegments_main`).
-/
import Props.C10Final
import Props.C05Core
namespace Slinky.C10
open Slinky W Ld

/-- `final_class_fixed_vram` for any writer context. -/
theorem class_fixed_vram_core (objs : List InSec) (cx : Ctx) (hsy : cx.emitSecSyms = true) (vc : Bool)
    (segs : List Segment) (ls : List Line) (emitted : List Str) (T : List Line)
    (hsegs : addSegments cx [] segs = .ok (ls, emitted))
    (hall : ∀ s ∈ segs, shouldEmit cx.o s.cond = true → s.allocSections ≠ [])
    (defsyms : List (Str × Nat))
    (pre post : List Segment) (seg : Segment) (hsplit : segs = pre ++ seg :: post)
    (hinc : shouldEmit cx.o seg.cond = true)
    (c : Str) (vcl : VramClass) (v : Nat)
    (hfv : seg.fixedVram = none) (hfs : seg.fixedSymbol = none) (hfol : seg.followsSegment = none) (hcl : seg.vramClass = some c)
    (hfind : findClass cx.d c = some vcl) (hcv : vcl.fixedVram = some v)
    (hcnt : assignCount (cx.d.settings.style.classStart c) (versionComment vc ++ (beginSections cx ++ ls ++ T)) ≤ 1) :
    ∃ os ∈ (link objs defsyms (versionComment vc ++ (beginSections cx ++ ls ++ T))).secs, os.name = c!"." ++ seg.name ∧ os.noload = false ∧ os.addr = v ∧
      (link objs defsyms (versionComment vc ++ (beginSections cx ++ ls ++ T))).sym (cx.d.settings.style.classStart c) = some v := by
  generalize hd : cx.d = d at *
  generalize ho' : cx.o = o at *
  rw [hsplit] at hsegs
  obtain ⟨lsPre, em1, lsSeg, em2, lsPost, hpre, hseg, hpost, rfl⟩ := C03.addSegments_split cx pre seg post [] ls emitted hsegs
  have hallc : ∀ s ∈ pre ++ seg :: post, shouldEmit cx.o s.cond = true → s.allocSections ≠ [] := by
    rw [ho', ← hsplit]; exact hall
  have hform : versionComment vc ++ (beginSections cx ++ (lsPre ++ (lsSeg ++ lsPost)) ++ T)
      = versionComment vc ++ (beginSections cx ++ (lsPre ++ (lsSeg ++ (lsPost ++ T)))) := by
    simp [List.append_assoc]
  rw [hform] at hcnt ⊢
  have hb0 : ∀ n, assignCount n (versionComment vc) = 0 := fun n => Slinky.C04.assignCount_quiet n _ (Slinky.C04.versionComment_quiet vc)
  simp only [assignCount_append, hb0] at hcnt
  rw [← hd] at hcnt hfind ⊢
  generalize hcs : cx.d.settings.style.classStart c = cs at *
  have hcsdot : cs ≠ c!"." := by rw [← hcs]; exact endsOk_ne_dot _ (classStart_ok _ _)
  have hcsrom : cs ≠ romPos := by rw [← hcs]; exact ne_romPos (classStart_ok _ _)
  rw [link_eq]
  generalize carry _ = S0
  rw [execK_append, Slinky.C04.execK_quiet objs _ (Slinky.C04.versionComment_quiet vc)]
  rw [execK_append, execK_append, execK_append]
  have hb : ∃ st1, st1 = execK objs { syms := S0 } (beginSections cx) (lsPre ++ (lsSeg ++ (lsPost ++ T)) ++ []) ∧ Outside st1 ∧
      lookupLast Ld.romPos st1.syms = some (.num 0) := by
    refine ⟨_, rfl, ?_, ?_⟩
    · unfold beginSections
      cases cx.d.settings.hardcodedGpValue <;> simp [execK, step, setSym] <;> exact ⟨rfl, rfl⟩
    · unfold beginSections
      cases cx.d.settings.hardcodedGpValue <;> simp [execK, step, setSym, eval, lookupLast_snoc, lookupLast_snoc2, Ld.romPos]
  obtain ⟨st1, e1, o1, r1⟩ := hb
  rw [← e1]
  -- the segments in front
  obtain ⟨st2, r2, e2, o2, hr2, hinv2, hcnt2⟩ := class_start_kept objs cx hsy c vcl v hfind hcv pre [] lsPre em1 hpre
    (fun s hs => hallc s (List.mem_append_left _ hs)) st1 o1 0 r1 (lsSeg ++ (lsPost ++ T) ++ [])
    (fun hm => nomatch hm) (by rw [hcs]; omega) (fun hm => nomatch hm)
  rw [hcs] at hinv2 hcnt2
  rw [← e2]
  -- the segment itself: the class start symbol holds `v` behind it
  obtain ⟨hval3, hfirst3⟩ := class_start_step objs cx c vcl v hfind hcv em1 seg lsSeg em2 hseg st2 o2 (lsPost ++ T ++ [])
    (by rw [hcs]; exact hinv2) (by rw [hcs]; omega)
    (fun hm => by rw [hcs]; have := hcnt2 hm (fun h => nomatch h); omega)
  rw [hcs] at hval3 hfirst3
  have hsa : segAddr cx seg = some cs := by
    unfold segAddr; simp [hfv, hfs, hfol, hcl, hcs]
  have hincx : shouldEmit cx.o seg.cond = true := by rw [ho']; exact hinc
  have hne := hallc seg (List.mem_append_right _ List.mem_cons_self) hincx
  have hem2 : c ∈ em2 ∧ ∃ os ∈ (execK objs st2 lsSeg (lsPost ++ T ++ [])).secs, os.name = c!"." ++ seg.name ∧ os.addr = v ∧ os.noload = false := by
    by_cases hin1 : c ∈ em1
    · -- a later member: its own statements do not assign the class start symbol
      have h0 : assignCount cs lsSeg = 0 := by have := hcnt2 hin1 (fun h => nomatch h); omega
      have hmem : c ∈ em2 := by
        unfold addSegment at hseg
        simp only [hincx, Bool.not_true, Bool.false_eq_true, if_false, classPart_of_class cx em1 seg c vcl hcl hfind, hin1, if_true] at hseg
        split at hseg
        · contradiction
        · split at hseg
          · contradiction
          · injection hseg with hseg
            simp only [Prod.mk.injEq] at hseg
            rw [← hseg.2]; exact hin1
      exact ⟨hmem, C03.segment_sym_addr objs cx hsy em1 seg lsSeg em2 hseg hincx hne st2 o2 r2 hr2 (lsPost ++ T ++ []) cs hsa hcsdot hcsrom
        v (hinv2 hin1) h0⟩
    · -- the first emitted member: the prologue stands in front of it
      unfold addSegment at hseg
      simp only [hincx, Bool.not_true, Bool.false_eq_true, if_false, classPart_of_class cx em1 seg c vcl hcl hfind, hin1, if_false] at hseg
      split at hseg
      · contradiction
      · rename_i alloc halloc
        split at hseg
        · contradiction
        · rename_i noload hnoload
          injection hseg with hseg
          simp only [Prod.mk.injEq] at hseg
          obtain ⟨rfl, rfl⟩ := hseg
          refine ⟨by simp, ?_⟩
          rw [segmentLines_cls, execK_append]
          obtain ⟨o3, _, _, _, hval⟩ := class_intro_image objs cx c vcl st2 o2 (fun _ => 0)
            (segmentLines cx seg [] alloc noload ++ (lsPost ++ T ++ []))
            (by intro fs h1; rw [hcv] at h1; cases h1) (by intro h1; rw [hcv] at h1; cases h1)
          rw [hcv, hcs] at hval
          have hr3 := run_outer_keeps objs romPos (classIntro cx c vcl) (fun l hl => (classIntro_outer cx c vcl l hl).1)
            (fun l hl => (classIntro_outer cx c vcl l hl).2) st2 o2 (segmentLines cx seg [] alloc noload ++ (lsPost ++ T ++ []))
          obtain ⟨aE, al, lmaV, hsec⟩ := member_starts_at_class objs cx seg alloc noload c (by rw [hcs]; exact hsa) halloc hnoload hne hsy
            _ o3 r2 (hr3.trans hr2) v (by rw [hcs]; exact hval) (lsPost ++ T ++ [])
          exact ⟨_, hsec, rfl, rfl, rfl⟩
  obtain ⟨hmem2, os, hos, g1, g2, g3⟩ := hem2
  obtain ⟨extra, hxs⟩ := execK_secs objs (lsPost ++ T) (execK objs st2 lsSeg (lsPost ++ T ++ [])) []
  refine ⟨os, by simp only [imageOf]; rw [hxs]; exact List.mem_append_left _ hos, g1, g3, g2, ?_⟩
  have hrest0 : assignCount cs (lsPost ++ T) = 0 := by
    rw [assignCount_append]
    by_cases hin1 : c ∈ em1
    · have := hcnt2 hin1 (fun h => nomatch h); omega
    · have := hfirst3 hmem2 hin1; omega
  rw [imageOf_sym, execK_keeps_count objs cs (lsPost ++ T) _ [] hrest0, hval3 hmem2]
  rfl

end Slinky.C10
