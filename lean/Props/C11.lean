/-
  C11 — partial linking produces the same layout as one-step linking.
-/
import Props.C01
import Props.C04
namespace Slinky.C11
open Slinky W

/-- the per-file emitter reads the writer context only through the options, the path
expansion, the symbol style and `reference_partial_objects`: the two flags that distinguish a
partial sub-script writer (`emit_sections_kind_symbols`, `emit_section_symbols`) do not matter. -/
theorem emitEntry_flags (cx : Ctx) (k s : Bool) (seg : Segment) (secs : List Str) :
    ∀ (n : Nat) (f : FileInfo) (sec base : Str) (parents : List Str),
      emitEntry { cx with emitKindSyms := k, emitSecSyms := s } seg secs n f sec base parents
        = emitEntry cx seg secs n f sec base parents := by
  intro n
  induction n with
  | zero => intro f sec base parents; rfl
  | succ n ih =>
    intro f sec base parents
    rw [emitEntry, emitEntry]
    simp only [ih]

/-- **same input statements.** For every section, the statements the partial sub-script of a
segment holds (inputs with `KEEP`, pads, linker offsets, in order) are exactly those the
ordinary script holds for that segment and section. -/
theorem same_statements (d : Document) (o : Opts) (esc : Opts → Str → Except ErrKind Str) (seg : Segment) (sec : Str) (secs : List Str) :
    emitSection { d := d, o := o, emitKindSyms := false, emitSecSyms := false, esc := esc } seg sec secs
      = emitSection { d := d, o := o, esc := esc } seg sec secs := by
  unfold emitSection
  have := emitEntry_flags { d := d, o := o, esc := esc } false false seg secs
  simp only at this
  simp only [this]

/-- **one partial script per emitted segment, in order, by name; none for an excluded one.** -/
theorem one_script_per_emitted_segment (d : Document) (o : Opts) (vc : Bool) (folder : Str)
    (esc : Opts → Str → Except ErrKind Str) :
    ∀ (segs : List Segment) (em : List Str) (ls : List Line) (em' : List Str) (ps : List (Str × List Line)),
      partialSegments d o vc folder esc em segs = .ok (ls, em', ps) →
      ps.map (·.1) = (segs.filter (fun s => shouldEmit o s.cond)).map (·.name) := by
  intro segs
  induction segs with
  | nil =>
    intro em ls em' ps h
    simp [partialSegments] at h
    simp [h.2.2.symm]
  | cons seg rest ih =>
    intro em ls em' ps h
    unfold partialSegments at h
    split at h
    · rename_i hx
      have : shouldEmit o seg.cond = false := by
        cases hh : shouldEmit o seg.cond
        · rfl
        · simp [hh] at hx
      simp [List.filter_cons, this, ih em ls em' ps h]
    · rename_i hx
      have hs : shouldEmit o seg.cond = true := by
        cases hh : shouldEmit o seg.cond
        · simp [hh] at hx
        · rfl
      split at h
      · contradiction
      · split at h
        · contradiction
        · split at h
          · contradiction
          · rename_i b em2 ps2 hrest
            injection h with h
            simp only [Prod.mk.injEq] at h
            rw [← h.2.2]
            simp [List.filter_cons, hs, ih _ _ _ _ hrest]

/-- **the main script places exactly the one partial object in every group**: with
`reference_partial_objects` the segment handed to the main writer has the single file
`<partial_build_segments_folder>/<name>.o`, and each of its sections gets one statement for it
(no `KEEP`, no sub-groups, the segment's own wildcard flag), under `base_path` without the
segment `dir`. -/
theorem main_places_partial_object (d : Document) (o : Opts) (esc : Opts → Str → Except ErrKind Str)
    (folder : Str) (seg : Segment) (sec : Str) (secs : List Str) (base q : Str)
    (hb : esc o d.settings.basePath = .ok base)
    (hq : esc o (pathPush folder (seg.name ++ c!".o")) = .ok q) :
    emitSection { d := d, o := o, refPartial := true, esc := esc } (partialSegment folder seg) sec secs
      = .ok [.input false (display (pathPush base q)) none sec seg.wildcardSections] := by
  unfold emitSection
  simp only [hb, liftPath, if_true, partialSegment, FileInfo.newObject]
  rw [C01.concatMapE_singleton]
  have := C01.object_placed_once { d := d, o := o, refPartial := true, esc := esc }
    { seg with files := [FileInfo.mk (pathPush folder (seg.name ++ c!".o")) .object [] 0 [] [] [] [] [] {} .absent] }
    secs (fuelFor { seg with files := [FileInfo.mk (pathPush folder (seg.name ++ c!".o")) .object [] 0 [] [] [] [] [] {} .absent] } - 1)
    (pathPush folder (seg.name ++ c!".o")) {} .absent sec base [] q (C01.shouldEmit_empty o) (by simp) hq (Or.inl rfl)
  have hf : fuelFor { seg with files := [FileInfo.mk (pathPush folder (seg.name ++ c!".o")) .object [] 0 [] [] [] [] [] {} .absent] }
      = (fuelFor { seg with files := [FileInfo.mk (pathPush folder (seg.name ++ c!".o")) .object [] 0 [] [] [] [] [] {} .absent] } - 1) + 1 := by
    simp [fuelFor]
  rw [hf, this]
  simp [keepFor]

/-- **the main script has the same ROM statements as the ordinary script** (same segments,
same alignments, same load addresses): both are `C04.sections_rom` of the same document, the
segment handed to the main writer differing from the original only in its file list. -/
theorem main_same_rom (st : Style) (folder : Str) (seg : Segment) :
    C04.segmentRom st (partialSegment folder seg) = C04.segmentRom st seg := rfl

/-- missing `partial_build_segments_folder` is an error, not a silent default. -/
theorem missing_folder_is_error (d : Document) (o : Opts) (vc : Bool) (h : d.settings.partialBuildSegmentsFolder = none) :
    generatePartial d o vc = .error (.err .missingRequiredField) := by
  simp [generatePartial, h]

end Slinky.C11
