import Props.Lemmas
namespace Slinky.C11
theorem placeholder : True := trivial
end Slinky.C11
