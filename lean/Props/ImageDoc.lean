/-
  Props.ImageDoc — the linker semantics applied to everything `add_segment` writes for one
  emitted segment, and to the fold over the segments of a document: the ROM counter follows
  the documented recurrence with the sizes the link itself recorded, the allocatable part
  opens at the requested address, the noload part follows it, the VRAM end is the end of the
  noload part rounded up to the end alignment.
-/
import Props.ImageSegment
namespace Slinky
namespace Ld
open W

/-! ### statements between output sections -/

/-- `. = ALIGN(., a);` outside an output section aligns the absolute location counter. -/
theorem step_outer_alignDot (objs : List InSec) (st : St) (ho : Outside st) (a : Nat) (r : List Line) :
    step objs st (alignSymbol c!"." a) r = { st with dot := Ld.alignUp st.dot a } := by
  unfold alignSymbol
  simp [step, ho.nd, eval, base, relDot, ho.cur]

/-- `s = ALIGN(s, a);` on a symbol that holds a number. -/
theorem step_outer_alignSym (objs : List InSec) (st : St) (ho : Outside st) (s : Str) (hs : s ≠ c!".") (v a : Nat)
    (hv : lookupLast s st.syms = some (.num v)) (r : List Line) :
    step objs st (alignSymbol s a) r = { st with syms := st.syms ++ [(s, Val.num (Ld.alignUp v a))] } := by
  unfold alignSymbol
  rw [step_assign_sym objs st s _ _ _ _ r hs ho.nd]
  simp [eval, hs, operand_num st s v hs hv]

/-- `s += SIZEOF(sec);` on a symbol that holds a number. -/
theorem step_outer_addSize (objs : List InSec) (st : St) (ho : Outside st) (s : Str) (hs : s ≠ c!".") (v : Nat)
    (hv : lookupLast s st.syms = some (.num v)) (sec : Str) (r : List Line) :
    step objs st (.addAssign s (.sizeofE sec)) r
      = { st with syms := st.syms ++ [(s, Val.num (v + ((findSec st sec).map (·.size) |>.getD 0)))] } := by
  simp [step, ho.nd, hs, operand_num st s v hs hv, eval, setSym]

/-- the two optional start (or end) alignments of a segment: the ROM counter and the location
counter are both rounded up. -/
theorem seg_aligns (objs : List InSec) (o : Option Nat) (st : St) (ho : Outside st) (r : Nat)
    (hr : lookupLast romPos st.syms = some (.num r)) (k : List Line) :
    ∃ st', st' = execK objs st (match o with | some a => [alignSymbol c!"__romPos" a, alignSymbol c!"." a] | none => []) k ∧
      Outside st' ∧ st'.dot = alignO o st.dot ∧ lookupLast romPos st'.syms = some (.num (alignO o r)) ∧
      st'.secs = st.secs ∧ st'.placed = st.placed ∧
      (∀ n, n ≠ romPos → lookupLast n st'.syms = lookupLast n st.syms) := by
  cases o with
  | none => exact ⟨st, rfl, ho, rfl, hr, rfl, rfl, fun _ _ => rfl⟩
  | some a =>
    have e1 := step_outer_alignSym objs st ho romPos romPos_ne_dot r a hr ([alignSymbol c!"." a] ++ k)
    have ho1 : Outside { st with syms := st.syms ++ [(romPos, Val.num (Ld.alignUp r a))] } := ⟨ho.cur, ho.nd⟩
    have e2 := step_outer_alignDot objs _ ho1 a ([] ++ k)
    have hfin : execK objs st [alignSymbol c!"__romPos" a, alignSymbol c!"." a] k
        = { st with syms := st.syms ++ [(romPos, Val.num (Ld.alignUp r a))], dot := Ld.alignUp st.dot a } := by
      simp only [execK]
      have e1' : step objs st (alignSymbol c!"__romPos" a) ([alignSymbol c!"." a] ++ k) = _ := e1
      rw [e1', e2]
    refine ⟨_, rfl, ?_, ?_, ?_, ?_, ?_, ?_⟩ <;> simp only [hfin]
    · exact ⟨ho.cur, ho.nd⟩
    · rfl
    · simp [lookupLast_snoc, alignO]
    · intro n hn
      simp [lookupLast_snoc, Ne.symm hn]

/-! ### names -/

def lastN (k : Nat) (s : Str) : List Char := s.reverse.take k

theorem lastN_append (k : Nat) (a suf : Str) (h : k ≤ suf.length) : lastN k (a ++ suf) = lastN k suf := by
  unfold lastN
  rw [List.reverse_append, List.take_append_of_le_length (by simpa using h)]

theorem ne_of_lastN (k : Nat) {s t : Str} (h : lastN k s ≠ lastN k t) : s ≠ t := fun e => h (by rw [e])

theorem last6_segVramEnd (sty : Style) (n : Str) : lastN 6 (sty.segVramEnd n) = (match sty with | .splat => c!"DNE_MA" | .makerom => c!"dnEtne") := by
  cases sty <;> (unfold Style.segVramEnd; simp only []; rw [lastN_append _ _ _ (by decide)]; decide)
theorem last6_segRomEnd (sty : Style) (n : Str) : lastN 6 (sty.segRomEnd n) = (match sty with | .splat => c!"DNE_MO" | .makerom => c!"dnEmoR") := by
  cases sty <;> (unfold Style.segRomEnd; simp only []; rw [lastN_append _ _ _ (by decide)]; decide)
theorem last6_classEnd (sty : Style) (n : Str) : lastN 6 (sty.classEnd n) = (match sty with | .splat => c!"DNE_SS" | .makerom => c!"dnEssa") := by
  cases sty <;> (unfold Style.classEnd; simp only []; rw [lastN_append _ _ _ (by decide)]; decide)
theorem last1_segVramSize (sty : Style) (n : Str) : lastN 1 (sty.segVramSize n) = (match sty with | .splat => c!"E" | .makerom => c!"e") := by
  cases sty <;> (unfold Style.segVramSize; simp only []; rw [lastN_append _ _ _ (by decide)]; decide)
theorem last1_segRomSize (sty : Style) (n : Str) : lastN 1 (sty.segRomSize n) = (match sty with | .splat => c!"E" | .makerom => c!"e") := by
  cases sty <;> (unfold Style.segRomSize; simp only []; rw [lastN_append _ _ _ (by decide)]; decide)
theorem last1_segVramEnd (sty : Style) (n : Str) : lastN 1 (sty.segVramEnd n) = (match sty with | .splat => c!"D" | .makerom => c!"d") := by
  cases sty <;> (unfold Style.segVramEnd; simp only []; rw [lastN_append _ _ _ (by decide)]; decide)
theorem last1_segRomEnd (sty : Style) (n : Str) : lastN 1 (sty.segRomEnd n) = (match sty with | .splat => c!"D" | .makerom => c!"d") := by
  cases sty <;> (unfold Style.segRomEnd; simp only []; rw [lastN_append _ _ _ (by decide)]; decide)

theorem vramEnd_ne_romEnd (sty : Style) (n n' : Str) : sty.segVramEnd n ≠ sty.segRomEnd n' :=
  ne_of_lastN 6 (by rw [last6_segVramEnd, last6_segRomEnd]; cases sty <;> decide)
theorem vramEnd_ne_classEnd (sty : Style) (n c : Str) : sty.segVramEnd n ≠ sty.classEnd c :=
  ne_of_lastN 6 (by rw [last6_segVramEnd, last6_classEnd]; cases sty <;> decide)
theorem romEnd_ne_classEnd (sty : Style) (n c : Str) : sty.segRomEnd n ≠ sty.classEnd c :=
  ne_of_lastN 6 (by rw [last6_segRomEnd, last6_classEnd]; cases sty <;> decide)
theorem vramEnd_ne_vramSize (sty : Style) (n n' : Str) : sty.segVramEnd n ≠ sty.segVramSize n' :=
  ne_of_lastN 1 (by rw [last1_segVramEnd, last1_segVramSize]; cases sty <;> decide)
theorem vramEnd_ne_romSize (sty : Style) (n n' : Str) : sty.segVramEnd n ≠ sty.segRomSize n' :=
  ne_of_lastN 1 (by rw [last1_segVramEnd, last1_segRomSize]; cases sty <;> decide)
theorem romEnd_ne_romSize (sty : Style) (n n' : Str) : sty.segRomEnd n ≠ sty.segRomSize n' :=
  ne_of_lastN 1 (by rw [last1_segRomEnd, last1_segRomSize]; cases sty <;> decide)

/-! ### the statements after the two output sections of a segment -/

/-- the lines `add_segment` writes after the noload output section. -/
def segTail (cx : Ctx) (seg : Segment) : List Line :=
  [.addAssign c!"__romPos" (.sizeofE (c!"." ++ seg.name))]
  ++ (match seg.segmentEndAlign with
      | some a => [alignSymbol c!"__romPos" a, alignSymbol c!"." a] | none => [])
  ++ symEndSize (cx.d.settings.style.segVramStart seg.name) (cx.d.settings.style.segVramEnd seg.name)
      (cx.d.settings.style.segVramSize seg.name) .dot
  ++ symEndSize (cx.d.settings.style.segRomStart seg.name) (cx.d.settings.style.segRomEnd seg.name)
      (cx.d.settings.style.segRomSize seg.name) (.sym c!"__romPos")
  ++ (match seg.vramClass with
      | some cname => [.blank, maxSelf (cx.d.settings.style.classEnd cname) (cx.d.settings.style.segVramEnd seg.name)]
      | none => [])
  ++ [.blank]

theorem eval_sym_num (st : St) (s : Str) (v : Nat) (h : lookupLast s st.syms = some (.num v)) :
    eval st (.sym s) = .num v := by
  simp [eval, h, resolve]

/-- in a run of outer statements, a symbol holds the value its last assignment computed. -/
theorem outer_assign_then_keep (objs : List InSec) (A B : List Line) (s : Str) (e : Expr) (p h lk : Bool) (hs : s ≠ c!".")
    (hA : ∀ l ∈ A, OuterLine l) (hB : ∀ l ∈ B, OuterLine l) (hBs : ∀ l ∈ B, symOf l ≠ some s)
    (st : St) (ho : Outside st) (k : List Line) :
    lookupLast s (execK objs st (A ++ [Line.assign s e p h lk] ++ B) k).syms
      = some (eval (execK objs st A ([Line.assign s e p h lk] ++ B ++ k)) e) := by
  rw [execK_append, execK_append]
  obtain ⟨o1, _, _, _⟩ := run_outer objs A hA st ho ([Line.assign s e p h lk] ++ B ++ k)
  simp only [List.append_assoc] at o1 ⊢
  generalize execK objs st A ([Line.assign s e p h lk] ++ (B ++ k)) = st1 at *
  have e1 : execK objs st1 [Line.assign s e p h lk] (B ++ k) = { st1 with syms := st1.syms ++ [(s, eval st1 e)] } := by
    simp only [execK, List.nil_append]
    exact step_assign_sym objs st1 s e p h lk _ hs o1.nd
  rw [e1, run_outer_keeps objs s B hB hBs { st1 with syms := st1.syms ++ [(s, eval st1 e)] } ⟨o1.cur, o1.nd⟩ k]
  simp [lookupLast_snoc]

/-- the symbol lines at the end of a segment are outer statements. -/
theorem segTail_syms_outer (sty : Style) (seg : Segment) :
    ∀ l ∈ symEndSize (sty.segVramStart seg.name) (sty.segVramEnd seg.name) (sty.segVramSize seg.name) Expr.dot
      ++ symEndSize (sty.segRomStart seg.name) (sty.segRomEnd seg.name) (sty.segRomSize seg.name) (.sym c!"__romPos")
      ++ (match seg.vramClass with
          | some cname => [Line.blank, maxSelf (sty.classEnd cname) (sty.segVramEnd seg.name)]
          | none => [])
      ++ [Line.blank], OuterLine l ∧ symOf l ≠ some romPos := by
  intro l hl
  simp only [symEndSize, List.mem_append, List.mem_cons, List.mem_nil_iff, or_false] at hl
  rcases hl with ((((rfl | rfl) | (rfl | rfl)) | hl) | rfl)
  · exact ⟨.sym _ _ _ _ _ (endsOk_ne_dot _ (segVramEnd_ok _ _)), by simp [symOf, linkerSym, endsOk_ne_dot _ (segVramEnd_ok sty seg.name), ne_romPos (segVramEnd_ok sty seg.name)]⟩
  · exact ⟨.sym _ _ _ _ _ (endsOk_ne_dot _ (segVramSize_ok _ _)), by simp [symOf, linkerSym, endsOk_ne_dot _ (segVramSize_ok sty seg.name), ne_romPos (segVramSize_ok sty seg.name)]⟩
  · exact ⟨.sym _ _ _ _ _ (endsOk_ne_dot _ (segRomEnd_ok _ _)), by simp [symOf, linkerSym, endsOk_ne_dot _ (segRomEnd_ok sty seg.name), ne_romPos (segRomEnd_ok sty seg.name)]⟩
  · exact ⟨.sym _ _ _ _ _ (endsOk_ne_dot _ (segRomSize_ok _ _)), by simp [symOf, linkerSym, endsOk_ne_dot _ (segRomSize_ok sty seg.name), ne_romPos (segRomSize_ok sty seg.name)]⟩
  · cases hvc : seg.vramClass with
    | none => simp [hvc] at hl
    | some cname =>
      simp only [hvc, List.mem_cons, List.mem_nil_iff, or_false] at hl
      rcases hl with rfl | rfl
      · exact ⟨.blank, by simp [symOf]⟩
      · exact ⟨.sym _ _ _ _ _ (endsOk_ne_dot _ (classEnd_ok _ _)), by simp [symOf, maxSelf, endsOk_ne_dot _ (classEnd_ok sty cname), ne_romPos (classEnd_ok sty cname)]⟩
  · exact ⟨.blank, by simp [symOf]⟩

/-- **after the output sections**: the ROM counter advances by the size the link recorded for
the allocatable output section and is rounded up to the end alignment, like the location
counter; the segment's VRAM end symbol is that location counter and its ROM end symbol that
ROM counter; no output section is touched. -/
theorem tail_image (objs : List InSec) (cx : Ctx) (seg : Segment) (st : St) (ho : Outside st) (r0 : Nat)
    (hr : lookupLast romPos st.syms = some (.num r0)) (k : List Line) :
    ∃ st', st' = execK objs st (segTail cx seg) k ∧ Outside st' ∧
      st'.dot = alignO seg.segmentEndAlign st.dot ∧
      lookupLast romPos st'.syms
        = some (.num (alignO seg.segmentEndAlign (r0 + ((findSec st (c!"." ++ seg.name)).map (·.size) |>.getD 0)))) ∧
      lookupLast (cx.d.settings.style.segVramEnd seg.name) st'.syms = some (.num st'.dot) ∧
      lookupLast (cx.d.settings.style.segRomEnd seg.name) st'.syms
        = some (.num (alignO seg.segmentEndAlign (r0 + ((findSec st (c!"." ++ seg.name)).map (·.size) |>.getD 0)))) ∧
      st'.secs = st.secs ∧ st'.placed = st.placed := by
  generalize hsty : cx.d.settings.style = sty
  generalize hz : ((findSec st (c!"." ++ seg.name)).map (·.size) |>.getD 0) = z
  unfold segTail
  rw [hsty]
  -- `__romPos += SIZEOF(.seg)`
  have e1 := step_outer_addSize objs st ho romPos romPos_ne_dot r0 hr (c!"." ++ seg.name)
  rw [hz] at e1
  generalize hst1 : ({ st with syms := st.syms ++ [(romPos, Val.num (r0 + z))] } : St) = st1 at e1
  have ho1 : Outside st1 := by rw [← hst1]; exact ⟨ho.cur, ho.nd⟩
  have hr1 : lookupLast romPos st1.syms = some (.num (r0 + z)) := by rw [← hst1]; simp [lookupLast_snoc]
  have hd1 : st1.dot = st.dot := by rw [← hst1]
  have hs1 : st1.secs = st.secs := by rw [← hst1]
  have hp1 : st1.placed = st.placed := by rw [← hst1]
  -- the symbol lines
  generalize hO : (symEndSize (sty.segVramStart seg.name) (sty.segVramEnd seg.name) (sty.segVramSize seg.name) Expr.dot
      ++ symEndSize (sty.segRomStart seg.name) (sty.segRomEnd seg.name) (sty.segRomSize seg.name) (.sym c!"__romPos")
      ++ (match seg.vramClass with
          | some cname => [Line.blank, maxSelf (sty.classEnd cname) (sty.segVramEnd seg.name)]
          | none => [])
      ++ [Line.blank]) = O
  have hOall := segTail_syms_outer sty seg
  rw [hO] at hOall
  obtain ⟨st2, e2, ho2, hd2, hr2, hs2, hp2, _⟩ := seg_aligns objs seg.segmentEndAlign st1 ho1 (r0 + z) hr1 (O ++ k)
  have hsplit : execK objs st ([Line.addAssign c!"__romPos" (.sizeofE (c!"." ++ seg.name))]
      ++ (match seg.segmentEndAlign with
          | some a => [alignSymbol c!"__romPos" a, alignSymbol c!"." a] | none => [])
      ++ symEndSize (sty.segVramStart seg.name) (sty.segVramEnd seg.name) (sty.segVramSize seg.name) Expr.dot
      ++ symEndSize (sty.segRomStart seg.name) (sty.segRomEnd seg.name) (sty.segRomSize seg.name) (.sym c!"__romPos")
      ++ (match seg.vramClass with
          | some cname => [Line.blank, maxSelf (sty.classEnd cname) (sty.segVramEnd seg.name)]
          | none => [])
      ++ [Line.blank]) k = execK objs st2 O k := by
    have : ([Line.addAssign c!"__romPos" (.sizeofE (c!"." ++ seg.name))]
      ++ (match seg.segmentEndAlign with
          | some a => [alignSymbol c!"__romPos" a, alignSymbol c!"." a] | none => [])
      ++ symEndSize (sty.segVramStart seg.name) (sty.segVramEnd seg.name) (sty.segVramSize seg.name) Expr.dot
      ++ symEndSize (sty.segRomStart seg.name) (sty.segRomEnd seg.name) (sty.segRomSize seg.name) (.sym c!"__romPos")
      ++ (match seg.vramClass with
          | some cname => [Line.blank, maxSelf (sty.classEnd cname) (sty.segVramEnd seg.name)]
          | none => [])
      ++ [Line.blank]) = [Line.addAssign c!"__romPos" (.sizeofE (c!"." ++ seg.name))]
      ++ ((match seg.segmentEndAlign with
          | some a => [alignSymbol c!"__romPos" a, alignSymbol c!"." a] | none => []) ++ O) := by
      rw [← hO]; simp only [List.append_assoc]
    rw [this, execK_append]
    have e1' : execK objs st [Line.addAssign c!"__romPos" (.sizeofE (c!"." ++ seg.name))]
        (((match seg.segmentEndAlign with
          | some a => [alignSymbol c!"__romPos" a, alignSymbol c!"." a] | none => []) ++ O) ++ k) = st1 := by
      simp only [execK]
      exact e1 _
    rw [e1', execK_append, ← e2]
  obtain ⟨o3, d3, s3, p3⟩ := run_outer objs O (fun l hl => (hOall l hl).1) st2 ho2 k
  have k3 := run_outer_keeps objs romPos O (fun l hl => (hOall l hl).1) (fun l hl => (hOall l hl).2) st2 ho2 k
  -- the VRAM end symbol
  have hVE : lookupLast (sty.segVramEnd seg.name) (execK objs st2 O k).syms = some (.num st2.dot) := by
    have hform : O = [] ++ [Line.assign (sty.segVramEnd seg.name) .dot false false true]
        ++ ([linkerSym (sty.segVramSize seg.name) (.absSub (sty.segVramEnd seg.name) (sty.segVramStart seg.name))]
          ++ symEndSize (sty.segRomStart seg.name) (sty.segRomEnd seg.name) (sty.segRomSize seg.name) (.sym c!"__romPos")
          ++ (match seg.vramClass with
              | some cname => [Line.blank, maxSelf (sty.classEnd cname) (sty.segVramEnd seg.name)]
              | none => [])
          ++ [Line.blank]) := by
      rw [← hO]; simp [symEndSize, linkerSym]
    have hB : ∀ l ∈ ([linkerSym (sty.segVramSize seg.name) (.absSub (sty.segVramEnd seg.name) (sty.segVramStart seg.name))]
          ++ symEndSize (sty.segRomStart seg.name) (sty.segRomEnd seg.name) (sty.segRomSize seg.name) (.sym c!"__romPos")
          ++ (match seg.vramClass with
              | some cname => [Line.blank, maxSelf (sty.classEnd cname) (sty.segVramEnd seg.name)]
              | none => [])
          ++ [Line.blank]), OuterLine l ∧ symOf l ≠ some (sty.segVramEnd seg.name) := by
      intro l hl
      refine ⟨(hOall l (by rw [hform]; exact List.mem_append_right _ hl)).1, ?_⟩
      rcases List.mem_append.1 hl with hl | hl
      · rcases List.mem_append.1 hl with hl | hl
        · rcases List.mem_append.1 hl with hl | hl
          · simp only [List.mem_cons, List.mem_nil_iff, or_false] at hl
            subst hl
            simp [symOf, linkerSym, endsOk_ne_dot _ (segVramSize_ok sty seg.name), Ne.symm (vramEnd_ne_vramSize sty seg.name seg.name)]
          · simp only [symEndSize, List.mem_cons, List.mem_nil_iff, or_false] at hl
            rcases hl with rfl | rfl
            · simp [symOf, linkerSym, endsOk_ne_dot _ (segRomEnd_ok sty seg.name), Ne.symm (vramEnd_ne_romEnd sty seg.name seg.name)]
            · simp [symOf, linkerSym, endsOk_ne_dot _ (segRomSize_ok sty seg.name), Ne.symm (vramEnd_ne_romSize sty seg.name seg.name)]
        · cases hvc : seg.vramClass with
          | none => simp [hvc] at hl
          | some cname =>
            simp only [hvc, List.mem_cons, List.mem_nil_iff, or_false] at hl
            rcases hl with rfl | rfl
            · simp [symOf]
            · simp [symOf, maxSelf, endsOk_ne_dot _ (classEnd_ok sty cname), Ne.symm (vramEnd_ne_classEnd sty seg.name cname)]
      · simp only [List.mem_cons, List.mem_nil_iff, or_false] at hl
        subst hl
        simp [symOf]
    rw [hform, outer_assign_then_keep objs [] _ _ _ _ _ _ (endsOk_ne_dot _ (segVramEnd_ok sty seg.name))
      (fun _ h => by cases h) (fun l hl => (hB l hl).1) (fun l hl => (hB l hl).2) st2 ho2 k]
    simp [execK, eval]
  -- the ROM end symbol
  have hRE : lookupLast (sty.segRomEnd seg.name) (execK objs st2 O k).syms
      = some (.num (alignO seg.segmentEndAlign (r0 + z))) := by
    have hform : O = symEndSize (sty.segVramStart seg.name) (sty.segVramEnd seg.name) (sty.segVramSize seg.name) Expr.dot
        ++ [Line.assign (sty.segRomEnd seg.name) (.sym c!"__romPos") false false true]
        ++ ([linkerSym (sty.segRomSize seg.name) (.absSub (sty.segRomEnd seg.name) (sty.segRomStart seg.name))]
          ++ (match seg.vramClass with
              | some cname => [Line.blank, maxSelf (sty.classEnd cname) (sty.segVramEnd seg.name)]
              | none => [])
          ++ [Line.blank]) := by
      rw [← hO]; simp [symEndSize, linkerSym]
    have hA : ∀ l ∈ symEndSize (sty.segVramStart seg.name) (sty.segVramEnd seg.name) (sty.segVramSize seg.name) Expr.dot,
        OuterLine l ∧ symOf l ≠ some romPos := by
      intro l hl
      exact hOall l (by rw [hform]; exact List.mem_append_left _ (List.mem_append_left _ hl))
    have hB : ∀ l ∈ ([linkerSym (sty.segRomSize seg.name) (.absSub (sty.segRomEnd seg.name) (sty.segRomStart seg.name))]
          ++ (match seg.vramClass with
              | some cname => [Line.blank, maxSelf (sty.classEnd cname) (sty.segVramEnd seg.name)]
              | none => [])
          ++ [Line.blank]), OuterLine l ∧ symOf l ≠ some (sty.segRomEnd seg.name) := by
      intro l hl
      refine ⟨(hOall l (by rw [hform]; exact List.mem_append_right _ hl)).1, ?_⟩
      rcases List.mem_append.1 hl with hl | hl
      · rcases List.mem_append.1 hl with hl | hl
        · simp only [List.mem_cons, List.mem_nil_iff, or_false] at hl
          subst hl
          simp [symOf, linkerSym, endsOk_ne_dot _ (segRomSize_ok sty seg.name), Ne.symm (romEnd_ne_romSize sty seg.name seg.name)]
        · cases hvc : seg.vramClass with
          | none => simp [hvc] at hl
          | some cname =>
            simp only [hvc, List.mem_cons, List.mem_nil_iff, or_false] at hl
            rcases hl with rfl | rfl
            · simp [symOf]
            · simp [symOf, maxSelf, endsOk_ne_dot _ (classEnd_ok sty cname), Ne.symm (romEnd_ne_classEnd sty seg.name cname)]
      · simp only [List.mem_cons, List.mem_nil_iff, or_false] at hl
        subst hl
        simp [symOf]
    rw [hform, outer_assign_then_keep objs _ _ _ _ _ _ _ (endsOk_ne_dot _ (segRomEnd_ok sty seg.name))
      (fun l hl => (hA l hl).1) (fun l hl => (hB l hl).1) (fun l hl => (hB l hl).2) st2 ho2 k]
    congr 1
    apply eval_sym_num
    exact (run_outer_keeps objs romPos _ (fun l hl => (hA l hl).1) (fun l hl => (hA l hl).2) st2 ho2 _).trans hr2
  refine ⟨_, rfl, ?_, ?_, ?_, ?_, ?_, ?_, ?_⟩ <;> rw [hsplit]
  · exact o3
  · rw [d3, hd2, hd1]
  · rw [k3]; exact hr2
  · rw [hVE, d3]
  · exact hRE
  · rw [s3, hs2, hs1]
  · rw [p3, hp2, hp1]

/-- the symbol lines at the end of a segment (`segTail` without the ROM advance and the end
alignments). -/
def tailSyms (sty : Style) (seg : Segment) : List Line :=
  symEndSize (sty.segVramStart seg.name) (sty.segVramEnd seg.name) (sty.segVramSize seg.name) Expr.dot
  ++ symEndSize (sty.segRomStart seg.name) (sty.segRomEnd seg.name) (sty.segRomSize seg.name) (.sym c!"__romPos")
  ++ (match seg.vramClass with
      | some cname => [Line.blank, maxSelf (sty.classEnd cname) (sty.segVramEnd seg.name)]
      | none => [])
  ++ [Line.blank]

/-- `segTail` = the ROM advance, the end alignments, then `tailSyms`, and the first two leave
every symbol but the ROM counter alone. -/
theorem tail_split (objs : List InSec) (cx : Ctx) (seg : Segment) (st : St) (ho : Outside st) (r0 : Nat)
    (hr : lookupLast romPos st.syms = some (.num r0)) (k : List Line) :
    ∃ st2, execK objs st (segTail cx seg) k = execK objs st2 (tailSyms cx.d.settings.style seg) k ∧ Outside st2 ∧
      st2.dot = alignO seg.segmentEndAlign st.dot ∧
      (∀ n, n ≠ romPos → lookupLast n st2.syms = lookupLast n st.syms) := by
  generalize hsty : cx.d.settings.style = sty
  have e1 := step_outer_addSize objs st ho romPos romPos_ne_dot r0 hr (c!"." ++ seg.name)
  generalize hz : ((findSec st (c!"." ++ seg.name)).map (·.size) |>.getD 0) = z at e1
  generalize hst1 : ({ st with syms := st.syms ++ [(romPos, Val.num (r0 + z))] } : St) = st1 at e1
  have ho1 : Outside st1 := by rw [← hst1]; exact ⟨ho.cur, ho.nd⟩
  have hr1 : lookupLast romPos st1.syms = some (.num (r0 + z)) := by rw [← hst1]; simp [lookupLast_snoc]
  have hd1 : st1.dot = st.dot := by rw [← hst1]
  have hk1 : ∀ n, n ≠ romPos → lookupLast n st1.syms = lookupLast n st.syms := by
    intro n hn; rw [← hst1]; simp [lookupLast_snoc, Ne.symm hn]
  obtain ⟨st2, e2, ho2, hd2, _, _, _, hk2⟩ := seg_aligns objs seg.segmentEndAlign st1 ho1 (r0 + z) hr1 (tailSyms sty seg ++ k)
  refine ⟨st2, ?_, ho2, by rw [hd2, hd1], fun n hn => by rw [hk2 n hn, hk1 n hn]⟩
  have : segTail cx seg = [Line.addAssign c!"__romPos" (.sizeofE (c!"." ++ seg.name))]
      ++ ((match seg.segmentEndAlign with
          | some a => [alignSymbol c!"__romPos" a, alignSymbol c!"." a] | none => []) ++ tailSyms sty seg) := by
    unfold segTail tailSyms
    rw [hsty]
    cases seg.segmentEndAlign <;> cases seg.vramClass <;> simp
  rw [this, execK_append]
  have e1' : execK objs st [Line.addAssign c!"__romPos" (.sizeofE (c!"." ++ seg.name))]
      (((match seg.segmentEndAlign with
        | some a => [alignSymbol c!"__romPos" a, alignSymbol c!"." a] | none => []) ++ tailSyms sty seg) ++ k) = st1 := by
    simp only [execK]
    exact e1 _
  rw [e1', execK_append, ← e2]

/-! ### one emitted segment -/

theorem segmentLines_eq (cx : Ctx) (seg : Segment) (cls alloc noload : List Line) :
    segmentLines cx seg cls alloc noload =
      cls
      ++ (match seg.segmentStartAlign with
          | some a => [alignSymbol c!"__romPos" a, alignSymbol c!"." a] | none => [])
      ++ [linkerSym (cx.d.settings.style.segRomStart seg.name) (.sym c!"__romPos"),
          linkerSym (cx.d.settings.style.segVramStart seg.name) (.addr (c!"." ++ seg.name))]
      ++ alloc ++ [.blank] ++ noload ++ [.blank] ++ segTail cx seg := by
  unfold segmentLines segTail
  cases seg.segmentStartAlign <;> cases seg.segmentEndAlign <;> cases seg.vramClass <;> simp

theorem findSec_snoc (st : St) (o : OutSec) (n : Str) (secs : List OutSec) (h : st.secs = secs ++ [o]) :
    findSec st n = if o.name = n then some o else secs.reverse.find? (fun s => s.name = n) := by
  unfold findSec
  rw [h, List.reverse_append]
  simp only [List.reverse_cons, List.reverse_nil, List.nil_append, List.singleton_append, List.find?_cons]
  by_cases hn : o.name = n <;> simp [hn]

theorem noload_name_ne (n : Str) : c!"." ++ n ++ c!".noload" ≠ c!"." ++ n := by
  intro h
  have := congrArg List.length h
  simp at this

/-- **one emitted segment in the linked image** (with at least one allocatable section). For
every object table, every state of the link outside an output section in which the ROM counter
holds `r`, and whatever follows:

* the allocatable output section opens at the requested address — the value of `fixed_vram`,
  `fixed_symbol`, the followed segment's end symbol or the class start symbol — or, without a
  request, at the location counter rounded up to the segment start alignment and to the
  alignment `al ≥ 1` of its contents; it is recorded with that address `aS` and size `aE - aS`;
* the noload part follows it (`aE ≤ dN`, where `dN` is the location counter behind it);
* the location counter and the VRAM end symbol are `dN` rounded up to the end alignment;
* the ROM counter and the ROM end symbol are `r` rounded up to the start alignment, plus the
  size of the allocatable section only, rounded up to the end alignment. -/
theorem segment_image (objs : List InSec) (cx : Ctx) (seg : Segment) (cls alloc noload : List Line)
    (hcls : ∀ l ∈ cls, OuterLine l ∧ symOf l ≠ some romPos)
    (ha : writeSegment cx seg seg.allocSections false = .ok alloc)
    (hn : writeSegment cx seg seg.noloadSections true = .ok noload)
    (hne : seg.allocSections ≠ []) (hsy : cx.emitSecSyms = true)
    (st : St) (ho : Outside st) (r : Nat) (hr : lookupLast romPos st.syms = some (.num r)) (k : List Line) :
    ∃ (aS aE al dN : Nat) (st' : St) (lmaV : Option Nat),
      st' = execK objs st (segmentLines cx seg cls alloc noload) k ∧ Outside st' ∧ 1 ≤ al ∧
      (∀ a, segAddr cx seg = some a → ∃ st₁ : St, st₁.dot = alignO seg.segmentStartAlign st.dot ∧ st₁.secs = st.secs ∧
          (∀ n, n ≠ romPos → (∀ l ∈ cls, symOf l ≠ some n) → n ≠ cx.d.settings.style.segRomStart seg.name →
            n ≠ cx.d.settings.style.segVramStart seg.name → (∀ l ∈ kindStart cx seg false, symOf l ≠ some n) →
            lookupLast n st₁.syms = lookupLast n st.syms) ∧
          aS = (operand st₁ a).getD (alignO seg.segmentStartAlign st.dot)) ∧
      (segAddr cx seg = none → aS = Ld.alignUp (alignO seg.segmentStartAlign st.dot) al) ∧
      aS ≤ aE ∧ aE ≤ dN ∧
      st'.dot = alignO seg.segmentEndAlign dN ∧
      lookupLast romPos st'.syms
        = some (.num (alignO seg.segmentEndAlign (alignO seg.segmentStartAlign r + (aE - aS)))) ∧
      lookupLast (cx.d.settings.style.segRomEnd seg.name) st'.syms
        = some (.num (alignO seg.segmentEndAlign (alignO seg.segmentStartAlign r + (aE - aS)))) ∧
      lookupLast (cx.d.settings.style.segVramEnd seg.name) st'.syms = some (.num st'.dot) ∧
      (⟨c!"." ++ seg.name, aS, aE - aS, lmaV, false, al⟩ : OutSec) ∈ st'.secs ∧
      (∃ extra, st'.secs = st.secs ++ extra) := by
  rw [segmentLines_eq]
  generalize hsty : cx.d.settings.style = sty
  -- split the run
  generalize hL3 : [linkerSym (sty.segRomStart seg.name) (.sym c!"__romPos"),
          linkerSym (sty.segVramStart seg.name) (.addr (c!"." ++ seg.name))] = L3
  have hL3o : ∀ l ∈ L3, OuterLine l ∧ symOf l ≠ some romPos := by
    intro l hl
    rw [← hL3] at hl
    simp only [List.mem_cons, List.mem_nil_iff, or_false] at hl
    rcases hl with rfl | rfl
    · exact ⟨.sym _ _ _ _ _ (endsOk_ne_dot _ (segRomStart_ok _ _)), by simp [symOf, linkerSym, endsOk_ne_dot _ (segRomStart_ok sty seg.name), ne_romPos (segRomStart_ok sty seg.name)]⟩
    · exact ⟨.sym _ _ _ _ _ (endsOk_ne_dot _ (segVramStart_ok _ _)), by simp [symOf, linkerSym, endsOk_ne_dot _ (segVramStart_ok sty seg.name), ne_romPos (segVramStart_ok sty seg.name)]⟩
  simp only [execK_append, List.append_assoc]
  -- the class prologue
  obtain ⟨o1, d1, s1, p1⟩ := run_outer objs cls (fun l hl => (hcls l hl).1) st ho
    ((match seg.segmentStartAlign with
          | some a => [alignSymbol c!"__romPos" a, alignSymbol c!"." a] | none => []) ++
      (L3 ++ (alloc ++ ([Line.blank] ++ (noload ++ ([Line.blank] ++ (segTail cx seg ++ k)))))))
  have r1 := run_outer_keeps objs romPos cls (fun l hl => (hcls l hl).1) (fun l hl => (hcls l hl).2) st ho
    ((match seg.segmentStartAlign with
          | some a => [alignSymbol c!"__romPos" a, alignSymbol c!"." a] | none => []) ++
      (L3 ++ (alloc ++ ([Line.blank] ++ (noload ++ ([Line.blank] ++ (segTail cx seg ++ k)))))))
  have g1 : ∀ n, (∀ l ∈ cls, symOf l ≠ some n) → lookupLast n (execK objs st cls
    ((match seg.segmentStartAlign with
          | some a => [alignSymbol c!"__romPos" a, alignSymbol c!"." a] | none => []) ++
      (L3 ++ (alloc ++ ([Line.blank] ++ (noload ++ ([Line.blank] ++ (segTail cx seg ++ k)))))))).syms = lookupLast n st.syms :=
    fun n hn => run_outer_keeps objs n cls (fun l hl => (hcls l hl).1) hn st ho _
  generalize execK objs st cls _ = st1 at *
  -- the start alignments
  obtain ⟨st2, e2, o2, d2, r2, s2, p2, g2⟩ := seg_aligns objs seg.segmentStartAlign st1 o1 r (r1.trans hr)
    (L3 ++ (alloc ++ ([Line.blank] ++ (noload ++ ([Line.blank] ++ (segTail cx seg ++ k))))))
  rw [← e2]
  -- ROM start and VRAM start symbols
  obtain ⟨o3, d3, s3, p3⟩ := run_outer objs L3 (fun l hl => (hL3o l hl).1) st2 o2
    (alloc ++ ([Line.blank] ++ (noload ++ ([Line.blank] ++ (segTail cx seg ++ k)))))
  have r3 := run_outer_keeps objs romPos L3 (fun l hl => (hL3o l hl).1) (fun l hl => (hL3o l hl).2) st2 o2
    (alloc ++ ([Line.blank] ++ (noload ++ ([Line.blank] ++ (segTail cx seg ++ k)))))
  have g3 : ∀ n, n ≠ sty.segRomStart seg.name → n ≠ sty.segVramStart seg.name →
      lookupLast n (execK objs st2 L3 (alloc ++ ([Line.blank] ++ (noload ++ ([Line.blank] ++ (segTail cx seg ++ k)))))).syms
        = lookupLast n st2.syms := by
    intro n hn1 hn2
    refine run_outer_keeps objs n L3 (fun l hl => (hL3o l hl).1) ?_ st2 o2 _
    intro l hl
    rw [← hL3] at hl
    simp only [List.mem_cons, List.mem_nil_iff, or_false] at hl
    rcases hl with rfl | rfl
    · simp [symOf, linkerSym, endsOk_ne_dot _ (segRomStart_ok sty seg.name), Ne.symm hn1]
    · simp [symOf, linkerSym, endsOk_ne_dot _ (segVramStart_ok sty seg.name), Ne.symm hn2]
  generalize execK objs st2 L3 _ = st3 at *
  -- the allocatable output section
  obtain ⟨aS, aE, al, newA, st4, nameA, addrA, lmaV, e4, hnA, haA, hal, hsA, hsN, hle, o4, p4, _, _, d4, s4⟩ :=
    section_image_kept objs cx seg seg.allocSections false alloc ha hne hsy st3 o3
      ([Line.blank] ++ (noload ++ ([Line.blank] ++ (segTail cx seg ++ k))))
  have r4 := section_image_rom objs cx seg seg.allocSections false alloc ha st3 o3
      ([Line.blank] ++ (noload ++ ([Line.blank] ++ (segTail cx seg ++ k))))
  rw [← e4] at r4 ⊢
  simp only [Bool.false_eq_true, if_false] at hnA haA
  subst hnA haA
  -- an empty line
  have e5 : execK objs st4 [Line.blank] (noload ++ ([Line.blank] ++ (segTail cx seg ++ k))) = st4 := by simp [execK, step]
  rw [e5]
  -- the noload output section
  obtain ⟨nS, nE, al2, newN, st6, nameN, addrN, e6, hnN, haN, _, _, hsNN, hleN, o6, p6, _, _, hbr⟩ :=
    section_image objs cx seg seg.noloadSections true noload hn st4 o4 ([Line.blank] ++ (segTail cx seg ++ k))
  have r6 := section_image_rom objs cx seg seg.noloadSections true noload hn st4 o4 ([Line.blank] ++ (segTail cx seg ++ k))
  rw [← e6] at r6 ⊢
  simp only [if_true] at hnN haN
  subst hnN
  have e7 : execK objs st6 [Line.blank] (segTail cx seg ++ k) = st6 := by simp [execK, step]
  rw [e7]
  -- where the location counter is, and which section `SIZEOF` finds
  have hdN : aE ≤ st6.dot ∧ findSec st6 (c!"." ++ seg.name) = some ⟨c!"." ++ seg.name, aS, aE - aS, lmaV, false, al⟩ ∧
      (⟨c!"." ++ seg.name, aS, aE - aS, lmaV, false, al⟩ : OutSec) ∈ st6.secs ∧ (∃ extra, st6.secs = st3.secs ++ extra) := by
    have hfA : findSec st4 (c!"." ++ seg.name) = some ⟨c!"." ++ seg.name, aS, aE - aS, lmaV, false, al⟩ := by
      rw [findSec_snoc st4 _ _ _ s4]; simp
    rcases hbr with ⟨hd, lm, hs⟩ | ⟨_, hd, hs⟩
    · refine ⟨?_, ?_, ?_, ?_⟩
      · have := hsNN haN
        rw [hd]
        have h1 := le_alignUp st4.dot al2
        omega
      · rw [findSec_snoc st6 _ _ _ hs]
        simp only [noload_name_ne seg.name, if_false]
        unfold findSec at hfA
        exact hfA
      · rw [hs, s4]; simp
      · exact ⟨_, by rw [hs, s4, List.append_assoc]⟩
    · refine ⟨by rw [hd, d4]; exact Nat.le_refl _, ?_, ?_, ?_⟩
      · unfold findSec at hfA ⊢; rw [hs]; exact hfA
      · rw [hs, s4]; simp
      · exact ⟨_, by rw [hs, s4]⟩
  -- the statements after the sections
  have r6' : lookupLast romPos st6.syms = some (.num (alignO seg.segmentStartAlign r)) := by
    rw [r6, r4, r3]; exact r2
  obtain ⟨st8, e8, o8, d8, r8, v8, re8, s8, p8⟩ := tail_image objs cx seg st6 o6 (alignO seg.segmentStartAlign r) r6' k
  rw [hdN.2.1] at r8 re8
  simp only [Option.map_some, Option.getD_some] at r8 re8
  rw [hsty] at v8 re8
  refine ⟨aS, aE, al, st6.dot, st8, lmaV, e8, o8, hal, ?_, ?_, hle, hdN.1, d8, r8, re8, v8, ?_, ?_⟩
  · intro a ha'
    obtain ⟨st₁, hd₁, hs₁, hk₁, hv⟩ := hsA a ha'
    refine ⟨st₁, ?_, ?_, ?_, ?_⟩
    · rw [hd₁, d3, d2, d1]
    · rw [hs₁, s3, s2, s1]
    · intro n hn0 hn1 hn2 hn3 hn4
      rw [hk₁ n hn4, g3 n (hsty ▸ hn2) (hsty ▸ hn3), g2 n hn0, g1 n hn1]
    · rw [hv, d3, d2, d1]
  · intro ha'
    rw [hsN ha', d3, d2, d1]
  · rw [s8]; exact hdN.2.2.1
  · obtain ⟨extra, hx⟩ := hdN.2.2.2
    exact ⟨extra, by rw [s8, hx, s3, s2, s1]⟩

/-! ### all segments of a document -/

theorem classIntro_outer (cx : Ctx) (cname : Str) (vc : VramClass) :
    ∀ l ∈ classIntro cx cname vc, OuterLine l ∧ symOf l ≠ some romPos := by
  intro l hl
  have hcs := classStart_ok cx.d.settings.style cname
  have hce := classEnd_ok cx.d.settings.style cname
  have ok : ∀ (e : Expr) (p h lk : Bool) (s : Str), endsOk s →
      OuterLine (Line.assign s e p h lk) ∧ symOf (Line.assign s e p h lk) ≠ some romPos := by
    intro e p h lk s hs
    exact ⟨.sym _ _ _ _ _ (endsOk_ne_dot _ hs), by simp [symOf, endsOk_ne_dot _ hs, ne_romPos hs]⟩
  unfold classIntro at hl
  simp only [List.mem_append, List.mem_cons, List.mem_nil_iff, or_false] at hl
  rcases hl with hl | rfl | rfl
  · cases hfv : vc.fixedVram with
    | some v =>
      simp only [hfv, List.mem_cons, List.mem_nil_iff, or_false] at hl
      subst hl; exact ok _ _ _ _ _ hcs
    | none =>
      cases hfs : vc.fixedSymbol with
      | some fs =>
        simp only [hfv, hfs, List.mem_cons, List.mem_nil_iff, or_false] at hl
        subst hl; exact ok _ _ _ _ _ hcs
      | none =>
        simp only [hfv, hfs, List.mem_cons, List.mem_map] at hl
        rcases hl with rfl | ⟨other, _, rfl⟩
        · exact ok _ _ _ _ _ hcs
        · exact ok _ _ _ _ _ hcs
  · exact ok _ _ _ _ _ hce
  · exact ⟨.blank, by simp [symOf]⟩

/-- the ROM recurrence of one segment: round up to the start alignment, add the size of the
allocatable part, round up to the end alignment. -/
def romStep (seg : Segment) (r size : Nat) : Nat :=
  alignO seg.segmentEndAlign (alignO seg.segmentStartAlign r + size)

def romFold : Nat → List (Segment × Nat) → Nat
  | r, [] => r
  | r, sz :: rest => romFold (romStep sz.1 r sz.2) rest

/-- **C04 in the linked image, for the whole list of segments**: linking the statements
`add_segment` writes for the segments of a document (each emitted one having at least one
allocatable section), from a state in which the ROM counter holds `r`, leaves the ROM counter
at the documented recurrence over the emitted segments in document order — each one loads at
the previous ROM end rounded up to its start alignment and ends at its start plus the size of
its allocatable output section, rounded up to its end alignment — where the sizes are those of
the output sections `.<segment>` the link itself recorded; noload parts never enter. -/
theorem segments_rom_image (objs : List InSec) (cx : Ctx) (hsy : cx.emitSecSyms = true) :
    ∀ (segs : List Segment) (em : List Str) (ls : List Line) (em' : List Str)
      (_ : addSegments cx em segs = .ok (ls, em'))
      (_ : ∀ s ∈ segs, shouldEmit cx.o s.cond = true → s.allocSections ≠ [])
      (st : St) (_ : Outside st) (r : Nat) (_ : lookupLast romPos st.syms = some (.num r)) (k : List Line),
      ∃ (zs : List (Segment × Nat)) (st' : St),
        st' = execK objs st ls k ∧ Outside st' ∧
        zs.map (·.1) = segs.filter (fun s => shouldEmit cx.o s.cond) ∧
        lookupLast romPos st'.syms = some (.num (romFold r zs)) ∧
        (∀ sz ∈ zs, ∃ o ∈ st'.secs, o.name = c!"." ++ sz.1.name ∧ o.size = sz.2 ∧ o.noload = false) ∧
        (∃ extra, st'.secs = st.secs ++ extra) := by
  intro segs
  induction segs with
  | nil =>
    intro em ls em' h _ st ho r hr k
    simp only [addSegments] at h
    injection h with h
    simp only [Prod.mk.injEq] at h
    obtain ⟨rfl, _⟩ := h
    exact ⟨[], st, rfl, ho, rfl, hr, (fun _ h => nomatch h), ⟨[], by simp⟩⟩
  | cons seg rest ih =>
    intro em ls em' h hall st ho r hr k
    simp only [addSegments] at h
    split at h
    · contradiction
    · rename_i a em1 hadd
      split at h
      · contradiction
      · rename_i b em2 hrest
        injection h with h
        simp only [Prod.mk.injEq] at h
        obtain ⟨rfl, _⟩ := h
        rw [execK_append]
        unfold addSegment at hadd
        split at hadd
        · -- excluded: nothing is written
          rename_i hx
          injection hadd with hadd
          simp only [Prod.mk.injEq] at hadd
          obtain ⟨rfl, rfl⟩ := hadd
          have hex : shouldEmit cx.o seg.cond = false := by
            cases hh : shouldEmit cx.o seg.cond
            · rfl
            · simp [hh] at hx
          obtain ⟨zs, st', e, o, hz, hrom, hsecs, hext⟩ := ih _ _ _ hrest (fun s hs => hall s (List.mem_cons_of_mem _ hs)) st ho r hr k
          exact ⟨zs, st', by simpa [execK] using e, o, by simp [List.filter_cons, hex, hz], hrom, hsecs, hext⟩
        · rename_i hinc
          have hem : shouldEmit cx.o seg.cond = true := by
            cases hh : shouldEmit cx.o seg.cond
            · simp [hh] at hinc
            · rfl
          split at hadd
          · contradiction
          · rename_i cls em3 hcp
            split at hadd
            · contradiction
            · rename_i alloc halloc
              split at hadd
              · contradiction
              · rename_i noload hnoload
                injection hadd with hadd
                simp only [Prod.mk.injEq] at hadd
                obtain ⟨rfl, rfl⟩ := hadd
                have hcls : ∀ l ∈ cls, OuterLine l ∧ symOf l ≠ some romPos := by
                  unfold classPart at hcp
                  split at hcp
                  · injection hcp with hcp; simp only [Prod.mk.injEq] at hcp; obtain ⟨rfl, _⟩ := hcp
                    intro l hl; cases hl
                  · split at hcp
                    · contradiction
                    · rename_i vc _
                      split at hcp
                      · injection hcp with hcp; simp only [Prod.mk.injEq] at hcp; obtain ⟨rfl, _⟩ := hcp
                        intro l hl; cases hl
                      · injection hcp with hcp; simp only [Prod.mk.injEq] at hcp; obtain ⟨rfl, _⟩ := hcp
                        exact classIntro_outer cx _ vc
                obtain ⟨aS, aE, al, dN, st1, lmaV, e1, o1, _, _, _, _, _, _, r1, _, _, hsec1, hext1⟩ :=
                  segment_image objs cx seg cls alloc noload hcls halloc hnoload
                    (hall seg List.mem_cons_self hem) hsy st ho r hr (b ++ k)
                obtain ⟨zs, st', e, o, hz, hrom, hsecs, hext⟩ := ih _ _ _ hrest (fun s hs => hall s (List.mem_cons_of_mem _ hs))
                  st1 o1 _ r1 k
                refine ⟨(seg, aE - aS) :: zs, st', by rw [e, e1], o, ?_, ?_, ?_, ?_⟩
                · simp [List.filter_cons, hem, hz]
                · simpa [romFold, romStep] using hrom
                · intro sz hsz
                  rcases List.mem_cons.1 hsz with rfl | hsz
                  · obtain ⟨extra, hx⟩ := hext
                    exact ⟨_, by rw [hx]; exact List.mem_append_left _ hsec1, rfl, rfl, rfl⟩
                  · exact hsecs sz hsz
                · obtain ⟨x1, hx1⟩ := hext1
                  obtain ⟨x2, hx2⟩ := hext
                  exact ⟨x1 ++ x2, by rw [hx2, hx1, List.append_assoc]⟩

end Ld
end Slinky
