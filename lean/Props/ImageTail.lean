/-
  Props.ImageTail — the end of the `SECTIONS` block in the linker semantics: single-entry
  sections of the allowlists and the `/DISCARD/` block.
-/
import Props.ImageDoc
namespace Slinky
namespace Ld
open W

/-- **an allowlisted section survives**: `sec 0 : { *(sec); }` places every input section of
that name that nothing has placed or discarded before, in an output section of that name. -/
theorem single_entry_image (objs : List InSec) (st : St) (sec addr : Str) (r : List Line) :
    ∀ i ∈ objs, i.sec = sec → isFree st i = true →
      ∃ p ∈ (step objs st (.singleEntry sec addr) r).placed, p.inp = i ∧ p.out = sec := by
  intro i hi hs hf
  simp only [step]
  obtain ⟨_, _, _, _, _, _, new, hp, hc, hm, _⟩ :=
    placeAll_spec sec none (objs.filter fun i => i.sec = sec && isFree st i) { st with dot := (operand st addr).getD st.dot }
  have hmem : i ∈ new.map (·.inp) := by
    rw [hm]
    simp [hi, hs, hf]
  obtain ⟨p, hp', hpi⟩ := List.mem_map.1 hmem
  refine ⟨p, ?_, hpi, (chainOk_mem _ _ _ _ hc p hp').2.2⟩
  show p ∈ (placeAll sec none { st with dot := (operand st addr).getD st.dot } _).placed
  rw [hp]
  exact List.mem_append_right _ hp'

/-- what a single-entry section places was free before: it never takes an input section that
a segment placed. -/
theorem single_entry_only_free (objs : List InSec) (st : St) (sec addr : Str) (r : List Line) :
    ∃ new, (step objs st (.singleEntry sec addr) r).placed = st.placed ++ new ∧
      ∀ p ∈ new, isFree st p.inp = true ∧ p.inp.sec = sec := by
  simp only [step]
  obtain ⟨_, _, _, _, _, _, new, hp, _, hm, _⟩ :=
    placeAll_spec sec none (objs.filter fun i => i.sec = sec && isFree st i) { st with dot := (operand st addr).getD st.dot }
  refine ⟨new, hp, ?_⟩
  intro p hp'
  have : p.inp ∈ new.map (·.inp) := List.mem_map.2 ⟨p, hp', rfl⟩
  rw [hm] at this
  simp only [List.mem_filter, Bool.and_eq_true, decide_eq_true_eq] at this
  exact ⟨this.2.2, this.2.1⟩

/-- **the discard block only takes what nothing placed**: a `*(pat);` line of `/DISCARD/`
discards exactly the input sections that match and are still free; with `*(*)` every free one. -/
theorem discard_pat_image (objs : List InSec) (st : St) (hd : st.inDiscard = true) (pat : Str) (r : List Line) :
    (step objs st (.discardPat pat) r).placed = st.placed ∧
    (step objs st (.discardPat pat) r).discarded
      = st.discarded ++ objs.filter (fun i => (pat = c!"*" || i.sec = pat) && isFree st i) ∧
    ∀ i ∈ objs, isFree st i = true → (pat = c!"*" ∨ i.sec = pat) → i ∈ (step objs st (.discardPat pat) r).discarded := by
  simp only [step, hd, if_true]
  refine ⟨trivial, trivial, ?_⟩
  intro i hi hf hp
  apply List.mem_append_right
  simp only [List.mem_filter, Bool.and_eq_true, Bool.or_eq_true, decide_eq_true_eq]
  exact ⟨hi, hp, hf⟩

/-- an input section that is placed is never free again, so no later `/DISCARD/` line takes it. -/
theorem placed_not_free (st : St) (p : Placed) (hp : p ∈ st.placed) : isFree st p.inp = false := by
  unfold isFree
  have : (st.placed.any fun q => q.inp = p.inp) = true := by
    rw [List.any_eq_true]; exact ⟨p, hp, by simp⟩
  simp [this]

end Ld
end Slinky
