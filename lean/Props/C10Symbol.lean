/-
  C10 in the image `Ld.link` returns: the members of a vram class with `fixed_symbol` — the same statement as
  `final_class_fixed_vram`, for a class whose start is a symbol given to the linker with `--defsym` and never assigned by the
  script: every emitted member is recorded at the value of that symbol and the class start symbol holds it.
  (The three theorems are `class_start_step`, `class_start_kept` and `final_class_fixed_vram` of Props/C10Final.lean with the
  literal replaced by the symbol, whose value is carried from the `--defsym` table through every evaluation of the script by
  `C03.passes_num` / `C03.carry_num` and through the statements by `Ld.execK_keeps_count`.)
-/
import Props.C10Partial
namespace Slinky.C10
open Slinky W Ld

/-- one segment: the class start symbol of a class with `fixed_symbol: fs` (a symbol that holds `v` and that these statements do not assign) that has been introduced holds `v`. -/
theorem class_start_step_sym (objs : List InSec) (cx : Ctx) (c : Str) (vc : VramClass) (v : Nat)
    (hfind : findClass cx.d c = some vc) (fs : Str) (hfn : vc.fixedVram = none) (hfsym : vc.fixedSymbol = some fs)
    (em : List Str) (seg : Segment) (a : List Line) (em1 : List Str) (hadd : addSegment cx em seg = .ok (a, em1))
    (st : St) (ho : Outside st) (k : List Line) (hfsv : lookupLast fs st.syms = some (.num v))
    (hinv : c ∈ em → lookupLast (cx.d.settings.style.classStart c) st.syms = some (.num v))
    (hc1 : assignCount (cx.d.settings.style.classStart c) a ≤ 1)
    (hc0 : c ∈ em → assignCount (cx.d.settings.style.classStart c) a = 0) :
    (c ∈ em1 → lookupLast (cx.d.settings.style.classStart c) (execK objs st a k).syms = some (.num v)) ∧
    (c ∈ em1 → c ∉ em → 1 ≤ assignCount (cx.d.settings.style.classStart c) a) := by
  rcases addSegment_cases cx em seg a em1 hadd with ⟨_, rfl, rfl⟩ | ⟨_, cls, alloc, noload, rfl, _, _, hcl⟩
  · exact ⟨fun hm => by simpa [execK] using hinv hm, fun hm hn => absurd hm hn⟩
  · rcases hcl with ⟨rfl, rfl⟩ | ⟨cname, vc', hcn, hfind', hnew, rfl, rfl⟩
    · refine ⟨fun hm => ?_, fun hm hn => absurd hm hn⟩
      rw [execK_keeps_count objs _ _ st k (hc0 hm)]
      exact hinv hm
    · by_cases hold : c ∈ em
      · refine ⟨fun _ => ?_, fun _ hn => absurd hold hn⟩
        rw [execK_keeps_count objs _ _ st k (hc0 hold)]
        exact hinv hold
      · by_cases hce : cname = c
        · rw [hce] at hfind' hc1 ⊢
          rw [hfind] at hfind'
          have hvc : vc = vc' := Option.some.inj hfind'
          rw [← hvc] at hc1 ⊢
          have hA := classIntro_assigns cx c vc
          rw [segmentLines_cls, assignCount_append] at hc1
          refine ⟨fun _ => ?_, fun _ _ => ?_⟩
          · rw [segmentLines_cls, execK_append]
            obtain ⟨_, _, _, _, hval⟩ := class_intro_image objs cx c vc st ho (fun _ => v)
              (segmentLines cx seg [] alloc noload ++ k)
              (by intro fs' _ h2; rw [hfsym] at h2; injection h2 with h2; subst h2; exact hfsv) (by intro _ h2; rw [hfsym] at h2; cases h2)
            simp only [hfn, hfsym] at hval
            rw [execK_keeps_count objs _ _ _ k (by omega)]
            exact hval
          · rw [segmentLines_cls, assignCount_append]; omega
        · have hnot : c ∉ em ++ [cname] := by
            intro hm
            rcases List.mem_append.1 hm with h1 | h1
            · exact hold h1
            · exact hce (List.mem_singleton.1 h1).symm
          exact ⟨fun hm => absurd hm hnot, fun hm _ => absurd hm hnot⟩

/-- **behind any number of segments a class with `fixed_symbol: fs` (a symbol that holds `v` and that these statements do not assign) that has been introduced holds `v` in its
start symbol** — when the statements of these segments assign that symbol at most once, and not at all if the
class was introduced before them. -/
theorem class_start_kept_sym (objs : List InSec) (cx : Ctx) (hsy : cx.emitSecSyms = true) (c : Str) (vc : VramClass) (v : Nat)
    (hfind : findClass cx.d c = some vc) (fs : Str) (hfn : vc.fixedVram = none) (hfsym : vc.fixedSymbol = some fs) :
    ∀ (segs : List Segment) (em : List Str) (ls : List Line) (em' : List Str)
      (_ : addSegments cx em segs = .ok (ls, em'))
      (_ : ∀ s ∈ segs, shouldEmit cx.o s.cond = true → s.allocSections ≠ [])
      (st : St) (_ : Outside st) (r : Nat) (_ : lookupLast Ld.romPos st.syms = some (.num r)) (k : List Line)
      (_ : c ∈ em → lookupLast (cx.d.settings.style.classStart c) st.syms = some (.num v))
      (_ : assignCount (cx.d.settings.style.classStart c) ls ≤ 1)
      (_ : c ∈ em → assignCount (cx.d.settings.style.classStart c) ls = 0)
      (_ : lookupLast fs st.syms = some (.num v)) (_ : assignCount fs ls = 0),
      ∃ (st' : St) (r' : Nat), st' = execK objs st ls k ∧ Outside st' ∧ lookupLast Ld.romPos st'.syms = some (.num r') ∧
        (c ∈ em' → lookupLast (cx.d.settings.style.classStart c) st'.syms = some (.num v)) ∧
        (c ∈ em' → c ∉ em → 1 ≤ assignCount (cx.d.settings.style.classStart c) ls) := by
  intro segs
  induction segs with
  | nil =>
    intro em ls em' h _ st ho r hr k hinv _ _ _ _
    simp only [addSegments] at h
    injection h with h
    simp only [Prod.mk.injEq] at h
    obtain ⟨rfl, rfl⟩ := h
    exact ⟨st, r, rfl, ho, hr, hinv, fun hm hn => absurd hm hn⟩
  | cons seg rest ih =>
    intro em ls em' h hall st ho r hr k hinv hc1 hc0 hfsv hfs0
    simp only [addSegments] at h
    split at h
    · contradiction
    · rename_i a em1 hadd
      split at h
      · contradiction
      · rename_i b em2 hrest
        injection h with h
        simp only [Prod.mk.injEq] at h
        obtain ⟨rfl, rfl⟩ := h
        rw [assignCount_append] at hc1 hc0 hfs0
        rw [execK_append]
        obtain ⟨_, st1, r1, e1, o1, hr1, _, _⟩ := C03.segments_vram_end objs cx hsy [seg] em a em1
          (by simp only [addSegments, hadd, List.append_nil])
          (fun s hs => hall s (by rw [List.mem_singleton.1 hs]; exact List.mem_cons_self)) st ho r hr (b ++ k)
        obtain ⟨hinv1, hfirst⟩ := class_start_step_sym objs cx c vc v hfind fs hfn hfsym em seg a em1 hadd st ho (b ++ k) hfsv hinv (by omega)
          (fun hm => by have := hc0 hm; omega)
        have hfsv1 : lookupLast fs st1.syms = some (.num v) := by
          rw [e1, execK_keeps_count objs fs a st (b ++ k) (by omega)]; exact hfsv
        rw [← e1] at hinv1 ⊢
        by_cases hin1 : c ∈ em1
        · have hb0 : assignCount (cx.d.settings.style.classStart c) b = 0 := by
            by_cases hold : c ∈ em
            · have := hc0 hold; omega
            · have := hfirst hin1 hold; omega
          obtain ⟨st', r', e', o', hr', hi', _⟩ := ih em1 b em2 hrest (fun s hs => hall s (List.mem_cons_of_mem _ hs)) st1 o1 r1 hr1 k hinv1
            (by omega) (fun _ => hb0) hfsv1 (by omega)
          refine ⟨st', r', e', o', hr', hi', fun _ hn => ?_⟩
          have := hfirst hin1 hn
          rw [assignCount_append]; omega
        · obtain ⟨st', r', e', o', hr', hi', hcnt'⟩ := ih em1 b em2 hrest (fun s hs => hall s (List.mem_cons_of_mem _ hs)) st1 o1 r1 hr1 k hinv1
            (by omega) (fun hm => absurd hm hin1) hfsv1 (by omega)
          refine ⟨st', r', e', o', hr', hi', fun hm _ => ?_⟩
          have := hcnt' hm hin1
          rw [assignCount_append]; omega

/-- **C10 in the linked image, for the whole ordinary script of a document: the members of a class with
`fixed_symbol`.** For every document in multi-segment mode whose emitted segments have an allocatable section, every
option set, object table and `--defsym` table: an emitted segment placed by its `vram_class` alone, the class having
`fixed_symbol: fs`, `fs` being given to the linker as `--defsym fs=v` and never assigned by the script, and the class start symbol being assigned once, has its output section `.<segment>` recorded
at `v` in the image `Ld.link` computes, and the class start symbol is `v` there — whether the segment is the first
emitted member of the class (the prologue stands in front of it) or a later one. -/
theorem final_class_fixed_symbol (objs : List InSec) (d : Document) (o : Opts) (vc : Bool) (script : List Line)
    (hmulti : d.settings.singleSegmentMode = false)
    (h : generateNormal d o vc = .ok script)
    (hall : ∀ s ∈ d.segments, shouldEmit o s.cond = true → s.allocSections ≠ [])
    (defsyms : List (Str × Nat))
    (pre post : List Segment) (seg : Segment) (hsplit : d.segments = pre ++ seg :: post)
    (hinc : shouldEmit o seg.cond = true)
    (c : Str) (vcl : VramClass) (v : Nat)
    (hfv : seg.fixedVram = none) (hfs : seg.fixedSymbol = none) (hfol : seg.followsSegment = none) (hcl : seg.vramClass = some c)
    (hfind : findClass d c = some vcl) (fs : Str) (hcn : vcl.fixedVram = none) (hcsym : vcl.fixedSymbol = some fs)
    (hds : lookupLast fs (defsyms.map fun kv => (kv.1, Val.num kv.2)) = some (.num v))
    (hfs0 : assignCount fs script = 0)
    (hcnt : assignCount (d.settings.style.classStart c) script ≤ 1) :
    ∃ os ∈ (link objs defsyms script).secs, os.name = c!"." ++ seg.name ∧ os.noload = false ∧ os.addr = v ∧
      (link objs defsyms script).sym (d.settings.style.classStart c) = some v := by
  have hstart : lookupLast fs (carry (passes objs script (defsyms.map fun kv => (kv.1, Val.num kv.2)) 1)) = some (.num v) :=
    C03.carry_num _ fs v (C03.passes_num objs script _ fs v hds hfs0 1)
  unfold generateNormal at h
  split at h
  · contradiction
  · rename_i body hbody
    injection h with h
    subst h
    unfold addAllSegments at hbody
    simp only [hmulti, Bool.false_eq_true, if_false] at hbody
    split at hbody
    · contradiction
    · rename_i ls emitted hsegs
      injection hbody with hbody
      subst hbody
      generalize hcx : ({ d := d, o := o } : Ctx) = cx at *
      have hd : cx.d = d := by rw [← hcx]
      have ho' : cx.o = o := by rw [← hcx]
      have hsy : cx.emitSecSyms = true := by rw [← hcx]
      rw [hsplit] at hsegs
      obtain ⟨lsPre, em1, lsSeg, em2, lsPost, hpre, hseg, hpost, rfl⟩ := C03.addSegments_split cx pre seg post [] ls emitted hsegs
      have hallc : ∀ s ∈ pre ++ seg :: post, shouldEmit cx.o s.cond = true → s.allocSections ≠ [] := by
        rw [ho', ← hsplit]; exact hall
      generalize hT : endSections cx emitted ++ topLevel d o = T
      have hform : versionComment vc ++ (beginSections cx ++ (lsPre ++ (lsSeg ++ lsPost)) ++ endSections cx emitted) ++ topLevel d o
          = versionComment vc ++ (beginSections cx ++ (lsPre ++ (lsSeg ++ (lsPost ++ T)))) := by
        rw [← hT]; simp [List.append_assoc]
      rw [hform] at hcnt hfs0 hstart ⊢
      have hb0 : ∀ n, assignCount n (versionComment vc) = 0 := fun n => Slinky.C04.assignCount_quiet n _ (Slinky.C04.versionComment_quiet vc)
      simp only [assignCount_append, hb0] at hcnt hfs0
      rw [← hd] at hcnt hfind ⊢
      generalize hcs : cx.d.settings.style.classStart c = cs at *
      have hcsdot : cs ≠ c!"." := by rw [← hcs]; exact endsOk_ne_dot _ (classStart_ok _ _)
      have hcsrom : cs ≠ romPos := by rw [← hcs]; exact ne_romPos (classStart_ok _ _)
      rw [link_eq]
      generalize carry _ = S0 at hstart ⊢
      rw [execK_append, Slinky.C04.execK_quiet objs _ (Slinky.C04.versionComment_quiet vc)]
      rw [execK_append, execK_append, execK_append]
      have hb : ∃ st1, st1 = execK objs { syms := S0 } (beginSections cx) (lsPre ++ (lsSeg ++ (lsPost ++ T)) ++ []) ∧ Outside st1 ∧
          lookupLast Ld.romPos st1.syms = some (.num 0) := by
        refine ⟨_, rfl, ?_, ?_⟩
        · unfold beginSections
          cases cx.d.settings.hardcodedGpValue <;> simp [execK, step, setSym] <;> exact ⟨rfl, rfl⟩
        · unfold beginSections
          cases cx.d.settings.hardcodedGpValue <;> simp [execK, step, setSym, eval, lookupLast_snoc, lookupLast_snoc2, Ld.romPos]
      obtain ⟨st1, e1, o1, r1⟩ := hb
      have hfs1 : lookupLast fs st1.syms = some (.num v) := by
        rw [e1, execK_keeps_count objs fs _ _ _ (by omega)]; exact hstart
      rw [← e1]
      -- the segments in front
      obtain ⟨st2, r2, e2, o2, hr2, hinv2, hcnt2⟩ := class_start_kept_sym objs cx hsy c vcl v hfind fs hcn hcsym pre [] lsPre em1 hpre
        (fun s hs => hallc s (List.mem_append_left _ hs)) st1 o1 0 r1 (lsSeg ++ (lsPost ++ T) ++ [])
        (fun hm => nomatch hm) (by rw [hcs]; omega) (fun hm => nomatch hm) hfs1 (by omega)
      have hfs2 : lookupLast fs st2.syms = some (.num v) := by
        rw [e2, execK_keeps_count objs fs _ _ _ (by omega)]; exact hfs1
      rw [hcs] at hinv2 hcnt2
      rw [← e2]
      -- the segment itself: the class start symbol holds `v` behind it
      obtain ⟨hval3, hfirst3⟩ := class_start_step_sym objs cx c vcl v hfind fs hcn hcsym em1 seg lsSeg em2 hseg st2 o2 (lsPost ++ T ++ []) hfs2
        (by rw [hcs]; exact hinv2) (by rw [hcs]; omega)
        (fun hm => by rw [hcs]; have := hcnt2 hm (fun h => nomatch h); omega)
      rw [hcs] at hval3 hfirst3
      have hsa : segAddr cx seg = some cs := by
        unfold segAddr; simp [hfv, hfs, hfol, hcl, hcs]
      have hincx : shouldEmit cx.o seg.cond = true := by rw [ho']; exact hinc
      have hne := hallc seg (List.mem_append_right _ List.mem_cons_self) hincx
      have hem2 : c ∈ em2 ∧ ∃ os ∈ (execK objs st2 lsSeg (lsPost ++ T ++ [])).secs, os.name = c!"." ++ seg.name ∧ os.addr = v ∧ os.noload = false := by
        by_cases hin1 : c ∈ em1
        · -- a later member: its own statements do not assign the class start symbol
          have h0 : assignCount cs lsSeg = 0 := by have := hcnt2 hin1 (fun h => nomatch h); omega
          have hmem : c ∈ em2 := by
            unfold addSegment at hseg
            simp only [hincx, Bool.not_true, Bool.false_eq_true, if_false, classPart_of_class cx em1 seg c vcl hcl hfind, hin1, if_true] at hseg
            split at hseg
            · contradiction
            · split at hseg
              · contradiction
              · injection hseg with hseg
                simp only [Prod.mk.injEq] at hseg
                rw [← hseg.2]; exact hin1
          exact ⟨hmem, C03.segment_sym_addr objs cx hsy em1 seg lsSeg em2 hseg hincx hne st2 o2 r2 hr2 (lsPost ++ T ++ []) cs hsa hcsdot hcsrom
            v (hinv2 hin1) h0⟩
        · -- the first emitted member: the prologue stands in front of it
          unfold addSegment at hseg
          simp only [hincx, Bool.not_true, Bool.false_eq_true, if_false, classPart_of_class cx em1 seg c vcl hcl hfind, hin1, if_false] at hseg
          split at hseg
          · contradiction
          · rename_i alloc halloc
            split at hseg
            · contradiction
            · rename_i noload hnoload
              injection hseg with hseg
              simp only [Prod.mk.injEq] at hseg
              obtain ⟨rfl, rfl⟩ := hseg
              refine ⟨by simp, ?_⟩
              rw [segmentLines_cls, execK_append]
              obtain ⟨o3, _, _, _, hval⟩ := class_intro_image objs cx c vcl st2 o2 (fun _ => v)
                (segmentLines cx seg [] alloc noload ++ (lsPost ++ T ++ []))
                (by intro fs' _ h2; rw [hcsym] at h2; injection h2 with h2; subst h2; exact hfs2) (by intro _ h2; rw [hcsym] at h2; cases h2)
              simp only [hcn, hcsym] at hval
              rw [hcs] at hval
              have hr3 := run_outer_keeps objs romPos (classIntro cx c vcl) (fun l hl => (classIntro_outer cx c vcl l hl).1)
                (fun l hl => (classIntro_outer cx c vcl l hl).2) st2 o2 (segmentLines cx seg [] alloc noload ++ (lsPost ++ T ++ []))
              obtain ⟨aE, al, lmaV, hsec⟩ := member_starts_at_class objs cx seg alloc noload c (by rw [hcs]; exact hsa) halloc hnoload hne hsy
                _ o3 r2 (hr3.trans hr2) v (by rw [hcs]; exact hval) (lsPost ++ T ++ [])
              exact ⟨_, hsec, rfl, rfl, rfl⟩
      obtain ⟨hmem2, os, hos, g1, g2, g3⟩ := hem2
      obtain ⟨extra, hxs⟩ := execK_secs objs (lsPost ++ T) (execK objs st2 lsSeg (lsPost ++ T ++ [])) []
      refine ⟨os, by simp only [imageOf]; rw [hxs]; exact List.mem_append_left _ hos, g1, g3, g2, ?_⟩
      have hrest0 : assignCount cs (lsPost ++ T) = 0 := by
        rw [assignCount_append]
        by_cases hin1 : c ∈ em1
        · have := hcnt2 hin1 (fun h => nomatch h); omega
        · have := hfirst3 hmem2 hin1; omega
      rw [imageOf_sym, execK_keeps_count objs cs (lsPost ++ T) _ [] hrest0, hval3 hmem2]
      rfl

/-- the hypotheses are met: the class `ovl` placed at the symbol `ovl_base`, given as 0x80300000. -/
def exDocCS : Document :=
  { exDocC with vramClasses := [{ name := c!"ovl", fixedSymbol := some c!"ovl_base" }] }

example : (match generateNormal exDocCS C04.exOpts false with
    | .ok script =>
      decide (assignCount c!"ovl_VRAM_CLASS_START" script = 1) && decide (assignCount c!"ovl_base" script = 0)
      && decide ((link C04.exObjs [(c!"ovl_base", 0x80300000)] script).sym c!"ovl_VRAM_CLASS_START" = some 0x80300000)
      && (link C04.exObjs [(c!"ovl_base", 0x80300000)] script).secs.any (fun os => os.name = c!".ovl_a" && os.addr = 0x80300000)
      && (link C04.exObjs [(c!"ovl_base", 0x80300000)] script).secs.any (fun os => os.name = c!".ovl_b" && os.addr = 0x80300000)
    | .error _ => false) = true := by decide +kernel

end Slinky.C10
