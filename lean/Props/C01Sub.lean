/-
  C01, the general case for one object / archive entry: `section_order` together with
  `sections_subgroups` (nested to any depth).

  `secsE` is the list of section names `emit_section_for_file` walks through for an entry, for
  one group; `emitEntry_eq_secsE` shows that an object or archive entry emits exactly one input
  statement per element of that list (own path, own member, that section).  The rest of the
  file is about `secsE` for arbitrary "sent here" and "sub-groups of" functions with four
  hypotheses (no repetition in either, a section is sent to one group only, a sub-group
  section has one parent), which `here_*` / `sub_*` establish for slinky's tables:

  * `secsE_nodup`     — within one group no section is placed twice;
  * `secsE_disjoint`  — two groups that are no sub-group sections share no section;
  * `secsE_mem_iff`   — a section is placed in a group iff a chain of "sent to / sub-group of"
                        leads from the group to the section.
-/
import Props.C01Order
namespace Slinky.C01
open Slinky W List

/-- the section names `emit_section_for_file` walks through for one entry and one group:
every section sent here, each followed by the walk through its sub-groups. -/
def secsE (here sub : Str → List Str) : Nat → Str → List Str → R (List Str)
  | 0, _, _ => .error .diverge
  | f + 1, sec, parents =>
    if sec ∈ parents then .error (.err .cyclicSubgroups) else
    concatMapE (fun k =>
      match concatMapE (fun o => secsE here sub f o (sec :: parents)) (sub k) with
      | .error e => .error e
      | .ok b => .ok (k :: b)) (here sec)

def mapR {α β} (g : α → β) : R (List α) → R (List β)
  | .ok l => .ok (l.map g)
  | .error e => .error e

theorem concatMapE_mapR {α β γ} (g : β → γ) (F : α → R (List β)) (l : List α) :
    concatMapE (fun a => mapR g (F a)) l = mapR g (concatMapE F l) := by
  induction l with
  | nil => rfl
  | cons a as ih =>
    unfold concatMapE
    rw [ih]
    cases F a with
    | error e => rfl
    | ok x =>
      cases concatMapE F as with
      | error e => rfl
      | ok y => simp [mapR]

/-- the statement an object / archive entry writes for section `k`. -/
def leafLine (seg : Segment) (file : FileInfo) (base q : Str) (k : Str) : Line :=
  .input (keepFor file.keep k) (display (pathPush base q))
    (if file.kind = .archive then some file.subfile else none) k seg.wildcardSections

/-- **an object or archive entry writes one statement per walked section, nothing else**:
in a script that carries the entry itself (not the main script of partial mode), for every
group, fuel and chain of parents, success and failure alike. -/
theorem emitEntry_eq_secsE (cx : Ctx) (seg : Segment) (secs : List Str) (file : FileInfo) (base q : Str)
    (hk : file.kind = .object ∨ file.kind = .archive)
    (hinc : shouldEmit cx.o file.cond = true) (hesc : cx.esc cx.o file.path = .ok q) (hrp : cx.refPartial = false) :
    ∀ (n : Nat) (sec : Str) (parents : List Str),
      emitEntry cx seg secs n file sec base parents
        = mapR (leafLine seg file base q)
            (secsE (fun s => sectionsToEmitHere file.sectionOrder s secs) (subgroupsOf seg) n sec parents) := by
  intro n
  induction n with
  | zero => intro sec parents; simp [emitEntry, secsE, mapR]
  | succ n ih =>
    intro sec parents
    unfold emitEntry secsE
    simp only [hinc, Bool.not_true, Bool.false_eq_true, if_false]
    by_cases hp : sec ∈ parents
    · simp [hp, mapR]
    · simp only [hp, if_false]
      rw [← concatMapE_mapR]
      apply concatMapE_congr_on
      intro k _
      have hsub : concatMapE (fun other => emitEntry cx seg secs n file other base (sec :: parents)) (subgroupsOf seg k)
          = mapR (leafLine seg file base q) (concatMapE (fun o => secsE (fun s => sectionsToEmitHere file.sectionOrder s secs)
              (subgroupsOf seg) n o (sec :: parents)) (subgroupsOf seg k)) := by
        rw [← concatMapE_mapR]
        apply concatMapE_congr_on
        intro o _
        exact ih o (sec :: parents)
      have hng : (file.kind = FileKind.group) = False := by
        rcases hk with h | h <;> simp [h]
      rcases hk with h | h
      · simp only [h, hesc, liftPath, hrp, hsub, Bool.false_or, reduceCtorEq, decide_false, Bool.and_false, Bool.false_eq_true, if_false]
        cases concatMapE (fun o => secsE (fun s => sectionsToEmitHere file.sectionOrder s secs) (subgroupsOf seg) n o (sec :: parents)) (subgroupsOf seg k) with
        | error e => rfl
        | ok b => simp [mapR, leafLine, h]
      · simp only [h, hesc, liftPath, hrp, hsub, Bool.false_or, reduceCtorEq, decide_false, Bool.and_false, Bool.false_eq_true, if_false]
        cases concatMapE (fun o => secsE (fun s => sectionsToEmitHere file.sectionOrder s secs) (subgroupsOf seg) n o (sec :: parents)) (subgroupsOf seg k) with
        | error e => rfl
        | ok b => simp [mapR, leafLine, h]

/-! ### the walk, abstractly -/

section walk
variable (here sub : Str → List Str)

/-- `o` is a sub-group of a section that is sent to group `s`. -/
def Link (s o : Str) : Prop := ∃ k, k ∈ here s ∧ o ∈ sub k

/-- a chain of groups from `top` down to `bot`; `nodes` lists every group of the chain. -/
inductive Path : Str → List Str → Str → Prop
  | one (s : Str) : Path s [s] s
  | cons {s o t : Str} {ns : List Str} : Link here sub s o → Path o ns t → Path s (s :: ns) t

theorem Path.head {here sub} {s t : Str} {ns : List Str} (h : Path here sub s ns t) : ∃ r, ns = s :: r := by
  cases h with
  | one => exact ⟨[], rfl⟩
  | cons _ _ => exact ⟨_, rfl⟩

theorem Path.bot_mem {here sub} {s t : Str} {ns : List Str} (h : Path here sub s ns t) : t ∈ ns := by
  induction h with
  | one s => exact List.mem_cons_self
  | cons _ _ ih => exact List.mem_cons_of_mem _ ih

theorem Path.ends {here sub} {s t : Str} {ns : List Str} (h : Path here sub s ns t) : ∃ r, ns = r ++ [t] := by
  induction h with
  | one s => exact ⟨[], rfl⟩
  | cons _ _ ih =>
    obtain ⟨r, hr⟩ := ih
    exact ⟨_ :: r, by rw [hr]; rfl⟩

/-- neighbours in a chain are linked. -/
theorem Path.adjacent {here sub} {s t : Str} {ns : List Str} (h : Path here sub s ns t) :
    ∀ (pre : List Str) (p o : Str) (rest : List Str), ns = pre ++ p :: o :: rest → Link here sub p o := by
  induction h with
  | one s =>
    intro pre p o rest he
    cases pre with
    | nil => simp at he
    | cons a as => simp at he
  | @cons s o' t ns hl hp ih =>
    intro pre p o rest he
    cases pre with
    | nil =>
      simp only [List.nil_append, List.cons.injEq] at he
      obtain ⟨r, hr⟩ := hp.head
      rw [hr] at he
      simp only [List.cons.injEq] at he
      rw [← he.1, ← he.2.1]
      exact hl
    | cons a as =>
      simp only [List.cons_append, List.cons.injEq] at he
      exact ih as p o rest he.2

variable (H2 : ∀ k s s', k ∈ here s → k ∈ here s' → s = s')
variable (H4 : ∀ o k k', o ∈ sub k → o ∈ sub k' → k = k')

include H2 H4 in
/-- a group has at most one group above it. -/
theorem Link.unique {s s' o : Str} (h : Link here sub s o) (h' : Link here sub s' o) : s = s' := by
  obtain ⟨k, hk, ho⟩ := h
  obtain ⟨k', hk', ho'⟩ := h'
  have := H4 o k k' ho ho'
  subst this
  exact H2 k s s' hk hk'

include H2 H4 in
/-- two chains that end in the same group: one is the lower part of the other. -/
theorem Path.suffix {s1 t : Str} {n1 : List Str} (h1 : Path here sub s1 n1 t) :
    ∀ {s2 : Str} {n2 : List Str}, Path here sub s2 n2 t → n1 <:+ n2 ∨ n2 <:+ n1 := by
  induction h1 with
  | one s =>
    intro s2 n2 h2
    obtain ⟨r, hr⟩ := h2.ends
    exact Or.inl ⟨r, hr.symm⟩
  | @cons s o t ns hl hp ih =>
    intro s2 n2 h2
    rcases ih h2 with hsuf | hsuf
    · obtain ⟨pre, hpre⟩ := hsuf
      obtain ⟨r, hr⟩ := hp.head
      rcases List.eq_nil_or_concat pre with hnil | ⟨pre', p, hcat⟩
      · subst hnil
        right
        exact ⟨[s], by rw [← hpre]; rfl⟩
      · left
        have hn2 : n2 = pre' ++ p :: o :: r := by
          rw [← hpre, hcat, hr]; simp
        have hlp : Link here sub p o := h2.adjacent pre' p o r hn2
        have : p = s := Link.unique here sub H2 H4 hlp hl
        subst this
        exact ⟨pre', by rw [hn2, hr]⟩
    · right
      obtain ⟨pre, hpre⟩ := hsuf
      exact ⟨s :: pre, by rw [← hpre]; rfl⟩

/-- concatMapE succeeded: every element's result is part of the whole. -/
theorem concatMapE_sub {α β ε} (F : α → Except ε (List β)) : ∀ (l : List α) (r : List β), concatMapE F l = .ok r →
    ∀ a ∈ l, ∃ ra, F a = .ok ra ∧ ∀ x ∈ ra, x ∈ r := by
  intro l
  induction l with
  | nil => intro r _ a ha; cases ha
  | cons b bs ih =>
    intro r h a ha
    unfold concatMapE at h
    split at h
    · contradiction
    · rename_i rb hrb
      split at h
      · contradiction
      · rename_i rs hrs
        injection h with h
        subst h
        rcases List.mem_cons.1 ha with rfl | ha
        · exact ⟨rb, hrb, fun x hx => List.mem_append_left _ hx⟩
        · obtain ⟨ra, hra, hsub⟩ := ih rs hrs a ha
          exact ⟨ra, hra, fun x hx => List.mem_append_right _ (hsub x hx)⟩

/-- no repetition in a concatMapE result: no repetition in the arguments, in each piece, and
pieces of different arguments share nothing. -/
theorem concatMapE_nodup {α β ε} (F : α → Except ε (List β)) : ∀ (l : List α) (r : List β), concatMapE F l = .ok r →
    l.Nodup → (∀ a ∈ l, ∀ ra, F a = .ok ra → ra.Nodup) →
    (∀ a ∈ l, ∀ b ∈ l, a ≠ b → ∀ ra rb, F a = .ok ra → F b = .ok rb → ∀ x ∈ ra, x ∉ rb) → r.Nodup := by
  intro l
  induction l with
  | nil => intro r h _ _ _; simp [concatMapE] at h; subst h; exact List.nodup_nil
  | cons b bs ih =>
    intro r h hnd hpiece hdis
    unfold concatMapE at h
    split at h
    · contradiction
    · rename_i rb hrb
      split at h
      · contradiction
      · rename_i rs hrs
        injection h with h
        subst h
        have hnd' := List.nodup_cons.1 hnd
        refine List.nodup_append.2 ⟨hpiece b List.mem_cons_self rb hrb, ?_, ?_⟩
        · exact ih rs hrs hnd'.2 (fun a ha => hpiece a (List.mem_cons_of_mem _ ha))
            (fun a ha c hc => hdis a (List.mem_cons_of_mem _ ha) c (List.mem_cons_of_mem _ hc))
        · intro x hx y hy hxy
          subst hxy
          obtain ⟨a, ha, ra, hra, hxa⟩ := concatMapE_mem F bs rs hrs x hy
          have hne : b ≠ a := fun e => hnd'.1 (e ▸ ha)
          exact hdis b List.mem_cons_self a (List.mem_cons_of_mem _ ha) hne rb ra hrb hra x hx hxa

/-- **what the walk places lies on a chain** from the group down to the group the section is
sent to, and no group of the chain is among the parents. -/
theorem secsE_path : ∀ (f : Nat) (sec : Str) (parents : List Str) (l : List Str),
    secsE here sub f sec parents = .ok l → ∀ c ∈ l,
      ∃ ns t, Path here sub sec ns t ∧ c ∈ here t ∧ ∀ s ∈ ns, s ∉ parents := by
  intro f
  induction f with
  | zero => intro sec parents l h; simp [secsE] at h
  | succ f ih =>
    intro sec parents l h c hc
    unfold secsE at h
    by_cases hp : sec ∈ parents
    · simp [hp] at h
    · simp only [hp, if_false] at h
      obtain ⟨k, hk, rk, hrk, hck⟩ := concatMapE_mem _ _ _ h c hc
      split at hrk
      · contradiction
      · rename_i b hb
        injection hrk with hrk
        subst hrk
        rcases List.mem_cons.1 hck with rfl | hcb
        · exact ⟨[sec], sec, Path.one sec, hk, by simpa using hp⟩
        · obtain ⟨o, ho, ro, hro, hco⟩ := concatMapE_mem _ _ _ hb c hcb
          obtain ⟨ns, t, hpath, hct, hav⟩ := ih o (sec :: parents) ro hro c hco
          refine ⟨sec :: ns, t, Path.cons ⟨k, hk, ho⟩ hpath, hct, ?_⟩
          intro s hs
          rcases List.mem_cons.1 hs with rfl | hs
          · exact hp
          · exact fun hsp => hav s hs (List.mem_cons_of_mem _ hsp)

/-- conversely, when the walk succeeds, everything at the end of a chain is placed. -/
theorem secsE_complete : ∀ (f : Nat) (sec : Str) (parents : List Str) (l : List Str),
    secsE here sub f sec parents = .ok l → ∀ ns t c, Path here sub sec ns t → c ∈ here t → c ∈ l := by
  intro f
  induction f with
  | zero => intro sec parents l h; simp [secsE] at h
  | succ f ih =>
    intro sec parents l h ns t c hpath hct
    unfold secsE at h
    by_cases hp : sec ∈ parents
    · simp [hp] at h
    · simp only [hp, if_false] at h
      cases hpath with
      | one =>
        obtain ⟨ra, hra, hsub⟩ := concatMapE_sub _ _ _ h c hct
        split at hra
        · contradiction
        · injection hra with hra
          subst hra
          exact hsub c List.mem_cons_self
      | @cons _ o _ ns' hl hp' =>
        obtain ⟨k, hk, ho⟩ := hl
        obtain ⟨ra, hra, hsub⟩ := concatMapE_sub _ _ _ h k hk
        split at hra
        · contradiction
        · rename_i b hb
          injection hra with hra
          subst hra
          obtain ⟨ro, hro, hsubo⟩ := concatMapE_sub _ _ _ hb o ho
          exact hsub c (List.mem_cons_of_mem _ (hsubo c (ih o (sec :: parents) ro hro ns' t c hp' hct)))

/-- **a section is placed in a group iff a chain leads from the group to the section.** -/
theorem secsE_mem_iff (f : Nat) (sec : Str) (parents : List Str) (l : List Str)
    (h : secsE here sub f sec parents = .ok l) (c : Str) :
    c ∈ l ↔ ∃ ns t, Path here sub sec ns t ∧ c ∈ here t :=
  ⟨fun hc => by
      obtain ⟨ns, t, hp, hct, _⟩ := secsE_path here sub f sec parents l h c hc
      exact ⟨ns, t, hp, hct⟩,
   fun ⟨ns, t, hp, hct⟩ => secsE_complete here sub f sec parents l h ns t c hp hct⟩

include H2 in
/-- a section sent to a parent group is not placed below it (the walk would have stopped at the cycle). -/
theorem not_below {f : Nat} {o : Str} {avoid : List Str} {l : List Str} (h : secsE here sub f o avoid = .ok l)
    {c sec : Str} (hc : c ∈ l) (hcs : c ∈ here sec) (hs : sec ∈ avoid) : False := by
  obtain ⟨ns, t, hp, hct, hav⟩ := secsE_path here sub f o avoid l h c hc
  have : t = sec := H2 c t sec hct hcs
  subst this
  exact hav t hp.bot_mem hs

include H2 H4 in
/-- two walks started from groups right below `sec` (or from any two groups whose upper
neighbour, if any, is among the avoided ones) share a section only when they are the same group. -/
theorem same_start {f1 f2 : Nat} {o1 o2 : Str} {av1 av2 : List Str} {l1 l2 : List Str}
    (h1 : secsE here sub f1 o1 av1 = .ok l1) (h2 : secsE here sub f2 o2 av2 = .ok l2)
    (hup1 : ∀ p, Link here sub p o1 → p ∈ av2) (hup2 : ∀ p, Link here sub p o2 → p ∈ av1)
    {c : Str} (hc1 : c ∈ l1) (hc2 : c ∈ l2) : o1 = o2 := by
  obtain ⟨n1, t1, hp1, hct1, hav1⟩ := secsE_path here sub f1 o1 av1 l1 h1 c hc1
  obtain ⟨n2, t2, hp2, hct2, hav2⟩ := secsE_path here sub f2 o2 av2 l2 h2 c hc2
  have : t1 = t2 := H2 c t1 t2 hct1 hct2
  subst this
  obtain ⟨r1, hr1⟩ := hp1.head
  obtain ⟨r2, hr2⟩ := hp2.head
  rcases Path.suffix here sub H2 H4 hp1 hp2 with hsuf | hsuf
  · obtain ⟨pre, hpre⟩ := hsuf
    rcases List.eq_nil_or_concat pre with hnil | ⟨pre', p, hcat⟩
    · subst hnil
      rw [hr1, hr2] at hpre
      simp only [List.nil_append, List.cons.injEq] at hpre
      exact hpre.1
    · have hn2 : n2 = pre' ++ p :: o1 :: r1 := by rw [← hpre, hcat, hr1]; simp
      have hl := hp2.adjacent pre' p o1 r1 hn2
      exact absurd (hup1 p hl) (hav2 p (by rw [hn2]; simp))
  · obtain ⟨pre, hpre⟩ := hsuf
    rcases List.eq_nil_or_concat pre with hnil | ⟨pre', p, hcat⟩
    · subst hnil
      rw [hr1, hr2] at hpre
      simp only [List.nil_append, List.cons.injEq] at hpre
      exact hpre.1.symm
    · have hn1 : n1 = pre' ++ p :: o2 :: r2 := by rw [← hpre, hcat, hr2]; simp
      have hl := hp1.adjacent pre' p o2 r2 hn1
      exact absurd (hup2 p hl) (hav1 p (by rw [hn1]; simp))

variable (H1 : ∀ s, (here s).Nodup) (H3 : ∀ k, (sub k).Nodup)

include H1 H2 H3 H4 in
/-- **within one group no section is placed twice.** -/
theorem secsE_nodup : ∀ (f : Nat) (sec : Str) (parents : List Str) (l : List Str),
    secsE here sub f sec parents = .ok l → l.Nodup := by
  intro f
  induction f with
  | zero => intro sec parents l h; simp [secsE] at h
  | succ f ih =>
    intro sec parents l h
    unfold secsE at h
    by_cases hp : sec ∈ parents
    · simp [hp] at h
    · simp only [hp, if_false] at h
      -- the walks below `sec`: their upper neighbour is `sec`, which they avoid
      have hup : ∀ k ∈ here sec, ∀ o ∈ sub k, ∀ p, Link here sub p o → p ∈ sec :: parents := by
        intro k hk o ho p hl
        have : p = sec := Link.unique here sub H2 H4 hl ⟨k, hk, ho⟩
        subst this
        exact List.mem_cons_self
      refine concatMapE_nodup _ _ _ h (H1 sec) ?_ ?_
      · intro k hk rk hrk
        split at hrk
        · contradiction
        · rename_i b hb
          injection hrk with hrk
          subst hrk
          refine List.nodup_cons.2 ⟨?_, ?_⟩
          · intro hkb
            obtain ⟨o, ho, ro, hro, hko⟩ := concatMapE_mem _ _ _ hb k hkb
            exact not_below here sub H2 hro hko hk List.mem_cons_self
          · refine concatMapE_nodup _ _ _ hb (H3 k) (fun o _ ro hro => ih o _ ro hro) ?_
            intro o1 ho1 o2 ho2 hne r1 r2 hr1 hr2 x hx1 hx2
            exact hne (same_start here sub H2 H4 hr1 hr2 (hup k hk o1 ho1) (hup k hk o2 ho2) hx1 hx2)
      · intro k1 hk1 k2 hk2 hne r1 r2 hr1 hr2 x hx1 hx2
        split at hr1
        · contradiction
        · rename_i b1 hb1
          split at hr2
          · contradiction
          · rename_i b2 hb2
            injection hr1 with hr1
            injection hr2 with hr2
            subst hr1 hr2
            rcases List.mem_cons.1 hx1 with rfl | hx1
            · rcases List.mem_cons.1 hx2 with e | hx2
              · exact hne e
              · obtain ⟨o, ho, ro, hro, hxo⟩ := concatMapE_mem _ _ _ hb2 _ hx2
                exact not_below here sub H2 hro hxo hk1 List.mem_cons_self
            · obtain ⟨o1, ho1, ro1, hro1, hxo1⟩ := concatMapE_mem _ _ _ hb1 _ hx1
              rcases List.mem_cons.1 hx2 with rfl | hx2
              · exact not_below here sub H2 hro1 hxo1 hk2 List.mem_cons_self
              · obtain ⟨o2, ho2, ro2, hro2, hxo2⟩ := concatMapE_mem _ _ _ hb2 _ hx2
                have : o1 = o2 := same_start here sub H2 H4 hro1 hro2 (hup k1 hk1 o1 ho1) (hup k2 hk2 o2 ho2) hxo1 hxo2
                subst this
                exact hne (H4 o1 k1 k2 ho1 ho2)

include H2 H4 in
/-- **two groups that are nobody's sub-group share no section.** -/
theorem secsE_disjoint {f1 f2 : Nat} {g1 g2 : Str} {l1 l2 : List Str}
    (h1 : secsE here sub f1 g1 [] = .ok l1) (h2 : secsE here sub f2 g2 [] = .ok l2)
    (htop1 : ∀ p, ¬ Link here sub p g1) (htop2 : ∀ p, ¬ Link here sub p g2)
    {c : Str} (hc1 : c ∈ l1) (hc2 : c ∈ l2) : g1 = g2 :=
  same_start here sub H2 H4 h1 h2 (fun p hl => absurd hl (htop1 p)) (fun p hl => absurd hl (htop2 p)) hc1 hc2

end walk


/-! ### slinky's tables satisfy the four hypotheses -/

theorem here_nodup (order : List (Str × Str)) (hnd : (order.map (·.1)).Nodup) (secs : List Str) (g : Str) :
    (sectionsToEmitHere order g secs).Nodup := by
  rw [List.nodup_iff_count]
  intro k
  rw [section_once_in_destination_group order hnd secs k g]
  split <;> omega

theorem here_one_group (order : List (Str × Str)) (hnd : (order.map (·.1)).Nodup) (secs : List Str) (k s s' : Str)
    (h : k ∈ sectionsToEmitHere order s secs) (h' : k ∈ sectionsToEmitHere order s' secs) : s = s' := by
  rw [mem_sectionsToEmitHere order hnd] at h h'
  exact h.symm.trans h'

theorem lookup_mem_flatten (sg : List (Str × List Str)) (k : Str) (l : List Str) (o : Str)
    (h : lookup k sg = some l) (ho : o ∈ l) : o ∈ (sg.map (·.2)).flatten := by
  have := mem_of_lookup k l sg h
  exact List.mem_flatten.2 ⟨l, List.mem_map.2 ⟨(k, l), this, rfl⟩, ho⟩

theorem sub_table (sg : List (Str × List Str)) (hv : ((sg.map (·.2)).flatten).Nodup) :
    (∀ k l, lookup k sg = some l → l.Nodup) ∧
    (∀ o k k' l l', lookup k sg = some l → lookup k' sg = some l' → o ∈ l → o ∈ l' → k = k') := by
  induction sg with
  | nil => exact ⟨fun k l h => by simp [lookup] at h, fun o k k' l l' h => by simp [lookup] at h⟩
  | cons kv rest ih =>
    obtain ⟨k0, l0⟩ := kv
    simp only [List.map_cons, List.flatten_cons] at hv
    have hv' := List.nodup_append.1 hv
    have ihr := ih hv'.2.1
    constructor
    · intro k l h
      unfold lookup at h
      by_cases e : k0 = k
      · simp only [e, if_true] at h
        injection h with h
        subst h
        exact hv'.1
      · simp only [e, if_false] at h
        exact ihr.1 k l h
    · intro o k k' l l' h h' ho ho'
      unfold lookup at h h'
      by_cases e : k0 = k <;> by_cases e' : k0 = k'
      · exact e.symm.trans e'
      · simp only [e, if_true] at h
        simp only [e', if_false] at h'
        injection h with h
        subst h
        exact absurd rfl (hv'.2.2 o ho o (lookup_mem_flatten rest k' l' o h' ho'))
      · simp only [e, if_false] at h
        simp only [e', if_true] at h'
        injection h' with h'
        subst h'
        exact absurd rfl (hv'.2.2 o ho' o (lookup_mem_flatten rest k l o h ho))
      · simp only [e, if_false] at h
        simp only [e', if_false] at h'
        exact ihr.2 o k k' l l' h h' ho ho'

theorem sub_nodup (seg : Segment) (hv : (subgroupValues seg).Nodup) (k : Str) : (subgroupsOf seg k).Nodup := by
  unfold subgroupsOf
  cases h : lookup k seg.sectionsSubgroups with
  | none => exact List.nodup_nil
  | some l => exact (sub_table _ hv).1 k l h

theorem sub_one_parent (seg : Segment) (hv : (subgroupValues seg).Nodup) (o k k' : Str)
    (h : o ∈ subgroupsOf seg k) (h' : o ∈ subgroupsOf seg k') : k = k' := by
  unfold subgroupsOf at h h'
  cases e : lookup k seg.sectionsSubgroups with
  | none => simp [e] at h
  | some l =>
    cases e' : lookup k' seg.sectionsSubgroups with
    | none => simp [e'] at h'
    | some l' =>
      simp only [e] at h
      simp only [e'] at h'
      exact (sub_table _ hv).2 o k k' l l' e e' h h'

theorem sub_mem_values (seg : Segment) (o k : Str) (h : o ∈ subgroupsOf seg k) : o ∈ subgroupValues seg := by
  unfold subgroupsOf at h
  cases e : lookup k seg.sectionsSubgroups with
  | none => simp [e] at h
  | some l =>
    simp only [e] at h
    exact lookup_mem_flatten _ k l o e h

theorem leafLine_inj (seg : Segment) (file : FileInfo) (base q : Str) (k k' : Str)
    (h : leafLine seg file base q k = leafLine seg file base q k') : k = k' := by
  unfold leafLine at h
  injection h

/-! ### C01 for one object / archive entry, `section_order` and sub-groups together -/

/-- what the hypotheses of the three theorems below say about an entry and its segment: an
included object or archive entry whose path expands, in a script that carries the entry itself;
`section_order` has pairwise different keys (a YAML mapping) and no section is listed as a
sub-group twice. -/
structure LeafOk (cx : Ctx) (seg : Segment) (file : FileInfo) (q : Str) : Prop where
  kind : file.kind = .object ∨ file.kind = .archive
  inc : shouldEmit cx.o file.cond = true
  esc : cx.esc cx.o file.path = .ok q
  own : cx.refPartial = false
  keys : (file.sectionOrder.map (·.1)).Nodup
  subs : (subgroupValues seg).Nodup

/-- the walk behind an entry's statements for group `g`. -/
def walkOf (seg : Segment) (secs : List Str) (file : FileInfo) (n : Nat) (g : Str) : R (List Str) :=
  secsE (fun s => sectionsToEmitHere file.sectionOrder s secs) (subgroupsOf seg) n g []

theorem emitted_lines (cx : Ctx) (seg : Segment) (secs : List Str) (file : FileInfo) (base q : Str)
    (ok : LeafOk cx seg file q) (n : Nat) (g : Str) (ls : List Line)
    (h : emitEntry cx seg secs n file g base [] = .ok ls) :
    ∃ l, walkOf seg secs file n g = .ok l ∧ ls = l.map (leafLine seg file base q) := by
  rw [emitEntry_eq_secsE cx seg secs file base q ok.kind ok.inc ok.esc ok.own] at h
  unfold walkOf
  cases hw : secsE (fun s => sectionsToEmitHere file.sectionOrder s secs) (subgroupsOf seg) n g [] with
  | error e => rw [hw] at h; cases h
  | ok l =>
    rw [hw] at h
    injection h with h
    exact ⟨l, rfl, h.symm⟩

/-- **at most once within a group**: the statements an entry contributes to one group are
pairwise different — one per section, each naming the entry's own path and member. -/
theorem leaf_once_per_group (cx : Ctx) (seg : Segment) (secs : List Str) (file : FileInfo) (base q : Str)
    (ok : LeafOk cx seg file q) (n : Nat) (g : Str) (ls : List Line)
    (h : emitEntry cx seg secs n file g base [] = .ok ls) :
    ls.Nodup ∧ ∀ l ∈ ls, ∃ k, l = leafLine seg file base q k := by
  obtain ⟨l, hw, rfl⟩ := emitted_lines cx seg secs file base q ok n g ls h
  have hnd : l.Nodup := secsE_nodup _ _ (here_one_group _ ok.keys secs) (sub_one_parent seg ok.subs)
    (here_nodup _ ok.keys secs) (sub_nodup seg ok.subs) n g [] l hw
  refine ⟨?_, ?_⟩
  · exact List.Nodup.map_on (fun a _ b _ e => leafLine_inj seg file base q a b e) hnd
  · intro x hx
    obtain ⟨k, _, rfl⟩ := List.mem_map.1 hx
    exact ⟨k, rfl⟩

/-- **at most once over all groups**: two different groups that are themselves nobody's
sub-group (the segment's listed sections, when no listed section is also a sub-group) never
receive a statement for the same section of the entry. -/
theorem leaf_once_over_groups (cx : Ctx) (seg : Segment) (secs : List Str) (file : FileInfo) (base q : Str)
    (ok : LeafOk cx seg file q) (n1 n2 : Nat) (g1 g2 : Str) (ls1 ls2 : List Line)
    (h1 : emitEntry cx seg secs n1 file g1 base [] = .ok ls1) (h2 : emitEntry cx seg secs n2 file g2 base [] = .ok ls2)
    (ht1 : g1 ∉ subgroupValues seg) (ht2 : g2 ∉ subgroupValues seg)
    (c : Str) (hc1 : leafLine seg file base q c ∈ ls1) (hc2 : leafLine seg file base q c ∈ ls2) : g1 = g2 := by
  obtain ⟨l1, hw1, rfl⟩ := emitted_lines cx seg secs file base q ok n1 g1 ls1 h1
  obtain ⟨l2, hw2, rfl⟩ := emitted_lines cx seg secs file base q ok n2 g2 ls2 h2
  obtain ⟨c1, hm1, e1⟩ := List.mem_map.1 hc1
  obtain ⟨c2, hm2, e2⟩ := List.mem_map.1 hc2
  have := leafLine_inj _ _ _ _ _ _ e1
  subst this
  have := leafLine_inj _ _ _ _ _ _ e2
  subst this
  refine secsE_disjoint _ _ (here_one_group _ ok.keys secs) (sub_one_parent seg ok.subs) hw1 hw2 ?_ ?_ hm1 hm2
  · rintro p ⟨k, _, ho⟩
    exact ht1 (sub_mem_values seg g1 k ho)
  · rintro p ⟨k, _, ho⟩
    exact ht2 (sub_mem_values seg g2 k ho)

/-- **where a section is placed**: the entry's statement for section `c` is in group `g` iff a
chain leads from `g` to the destination of `c`: `g` itself is the destination `section_order`
names for `c` (or `c` itself when it is no key), or the destination is a sub-group of a section
that is in turn placed in `g`. -/
theorem leaf_placed_iff (cx : Ctx) (seg : Segment) (secs : List Str) (file : FileInfo) (base q : Str)
    (ok : LeafOk cx seg file q) (n : Nat) (g : Str) (ls : List Line)
    (h : emitEntry cx seg secs n file g base [] = .ok ls) (c : Str) :
    leafLine seg file base q c ∈ ls ↔
      ∃ ns, Path (fun s => sectionsToEmitHere file.sectionOrder s secs) (subgroupsOf seg) g ns (destOf file.sectionOrder c) := by
  obtain ⟨l, hw, rfl⟩ := emitted_lines cx seg secs file base q ok n g ls h
  constructor
  · intro hm
    obtain ⟨c', hm', e⟩ := List.mem_map.1 hm
    have := leafLine_inj _ _ _ _ _ _ e
    subst this
    obtain ⟨ns, t, hp, hct⟩ := (secsE_mem_iff _ _ n g [] l hw c').1 hm'
    rw [mem_sectionsToEmitHere _ ok.keys] at hct
    exact ⟨ns, hct ▸ hp⟩
  · rintro ⟨ns, hp⟩
    exact List.mem_map.2 ⟨c, (secsE_mem_iff _ _ n g [] l hw c).2
      ⟨ns, _, hp, (mem_sectionsToEmitHere _ ok.keys _ secs c).2 rfl⟩, rfl⟩


/-! ### the checked specification (`Slinkyv.P.C01.expected`) names a group only where the entry is placed -/

theorem Path.snoc {here sub : Str → List Str} {s t o : Str} {ns : List Str} (h : Path here sub s ns t) (hl : Link here sub t o) :
    Path here sub s (ns ++ [o]) o := by
  induction h with
  | one s => exact Path.cons hl (Path.one o)
  | cons hl' _ ih => exact Path.cons hl' (ih hl)

/-- `locOf` (the group the run-time monitor of C01 expects a section in) only ever answers with a
listed group from which a chain leads to the section's destination. -/
theorem locOf_path (seg : Segment) (order : List (Str × Str)) (secs : List Str)
    (hord : (order.map (·.1)).Nodup) (hkeys : (seg.sectionsSubgroups.map (·.1)).Nodup) :
    ∀ (f : Nat) (c g : Str), locOf seg order f c = some g →
      g ∈ seg.allocSections ++ seg.noloadSections ∧
      ∃ ns, Path (fun s => sectionsToEmitHere order s secs) (subgroupsOf seg) g ns (destOf order c) := by
  intro f
  induction f with
  | zero => intro c g h; simp [locOf] at h
  | succ f ih =>
    intro c g h
    unfold locOf at h
    simp only at h
    split at h
    · rename_i hin
      injection h with h
      subst h
      exact ⟨hin, [_], Path.one _⟩
    · split at h
      · rename_i k hk
        obtain ⟨hg, ns, hp⟩ := ih k g h
        refine ⟨hg, ns ++ [destOf order c], hp.snoc ?_⟩
        refine ⟨k, (mem_sectionsToEmitHere order hord _ secs k).2 rfl, ?_⟩
        unfold parentOf at hk
        cases hf : seg.sectionsSubgroups.find? (fun kv => decide ((lookup c order).getD c ∈ kv.2)) with
        | none => simp [hf] at hk
        | some kv =>
          simp only [hf, Option.map_some, Option.some.injEq] at hk
          have hmem := List.mem_of_find?_eq_some hf
          have hin := List.find?_some hf
          simp only [decide_eq_true_eq] at hin
          unfold subgroupsOf
          rw [← hk, lookup_of_mem_nodup kv.1 kv.2 _ hkeys (by cases kv; exact hmem)]
          exact hin
      · cases h

/-- **every expected placement is found**: where the specification expects section `c` of the
entry in group `g`, the statements the entry contributes to `g` contain the one for `c`. -/
theorem expected_is_placed (cx : Ctx) (seg : Segment) (secs : List Str) (file : FileInfo) (base q : Str)
    (ok : LeafOk cx seg file q) (hkeys : (seg.sectionsSubgroups.map (·.1)).Nodup)
    (n : Nat) (g : Str) (ls : List Line) (h : emitEntry cx seg secs n file g base [] = .ok ls)
    (f : Nat) (c : Str) (hloc : locOf seg file.sectionOrder f c = some g) :
    leafLine seg file base q c ∈ ls :=
  (leaf_placed_iff cx seg secs file base q ok n g ls h c).2
    (locOf_path seg file.sectionOrder secs ok.keys hkeys f c g hloc).2


/-! ### ... and names every group where the entry is placed -/

/-- as `secsE_path`, and the groups of the chain are pairwise different. -/
theorem secsE_path_nodup (here sub : Str → List Str) : ∀ (f : Nat) (sec : Str) (parents : List Str) (l : List Str),
    secsE here sub f sec parents = .ok l → ∀ c ∈ l,
      ∃ ns t, Path here sub sec ns t ∧ c ∈ here t ∧ (∀ s ∈ ns, s ∉ parents) ∧ ns.Nodup := by
  intro f
  induction f with
  | zero => intro sec parents l h; simp [secsE] at h
  | succ f ih =>
    intro sec parents l h c hc
    unfold secsE at h
    by_cases hp : sec ∈ parents
    · simp [hp] at h
    · simp only [hp, if_false] at h
      obtain ⟨k, hk, rk, hrk, hck⟩ := concatMapE_mem _ _ _ h c hc
      split at hrk
      · contradiction
      · rename_i b hb
        injection hrk with hrk
        subst hrk
        rcases List.mem_cons.1 hck with rfl | hcb
        · exact ⟨[sec], sec, Path.one sec, hk, by simpa using hp, by simp⟩
        · obtain ⟨o, ho, ro, hro, hco⟩ := concatMapE_mem _ _ _ hb c hcb
          obtain ⟨ns, t, hpath, hct, hav, hnd⟩ := ih o (sec :: parents) ro hro c hco
          refine ⟨sec :: ns, t, Path.cons ⟨k, hk, ho⟩ hpath, hct, ?_, ?_⟩
          · intro s hs
            rcases List.mem_cons.1 hs with rfl | hs
            · exact hp
            · exact fun hsp => hav s hs (List.mem_cons_of_mem _ hsp)
          · exact List.nodup_cons.2 ⟨fun hm => hav sec hm List.mem_cons_self, hnd⟩

/-- a chain without a repeated group is no longer than the sub-group table has keys, plus one. -/
theorem Path.length_le {here sub : Str → List Str} (H2 : ∀ k s s', k ∈ here s → k ∈ here s' → s = s')
    (keys : List Str) (hkeys : ∀ k o, o ∈ sub k → k ∈ keys) {s t : Str} {ns : List Str} (h : Path here sub s ns t) (hnd : ns.Nodup) :
    ns.length ≤ keys.length + 1 := by
  have key : ∃ ks : List Str, ks.length + 1 = ns.length ∧ ks.Nodup ∧ ∀ k ∈ ks, k ∈ keys ∧ ∃ x ∈ ns, k ∈ here x := by
    induction h with
    | one s => exact ⟨[], rfl, List.nodup_nil, fun k hk => nomatch hk⟩
    | @cons s o t ns' hl hp ih =>
      obtain ⟨ks, hlen, hksnd, hks⟩ := ih (List.nodup_cons.1 hnd).2
      obtain ⟨k, hk, ho⟩ := hl
      refine ⟨k :: ks, by simp [hlen], List.nodup_cons.2 ⟨?_, hksnd⟩, ?_⟩
      · intro hm
        obtain ⟨_, x, hx, hkx⟩ := hks k hm
        have : s = x := H2 k s x hk hkx
        subst this
        exact (List.nodup_cons.1 hnd).1 hx
      · intro k' hk'
        rcases List.mem_cons.1 hk' with rfl | hk'
        · exact ⟨hkeys _ o ho, s, List.mem_cons_self, hk⟩
        · obtain ⟨h1, x, hx, hkx⟩ := hks k' hk'
          exact ⟨h1, x, List.mem_cons_of_mem _ hx, hkx⟩
  obtain ⟨ks, hlen, hksnd, hks⟩ := key
  have := List.Nodup.length_le_of_subset hksnd (fun k hk => (hks k hk).1)
  omega

theorem parentOf_eq (seg : Segment) (hv : (subgroupValues seg).Nodup) (o k : Str) (h : o ∈ subgroupsOf seg k) :
    parentOf seg o = some k := by
  unfold subgroupsOf at h
  unfold parentOf
  unfold subgroupValues at hv
  cases e : lookup k seg.sectionsSubgroups with
  | none => simp [e] at h
  | some l =>
    simp only [e] at h
    generalize seg.sectionsSubgroups = sg at hv e
    induction sg with
    | nil => simp [lookup] at e
    | cons kv rest ih =>
      obtain ⟨k0, l0⟩ := kv
      simp only [List.map_cons, List.flatten_cons] at hv
      have hv' := List.nodup_append.1 hv
      unfold lookup at e
      by_cases e0 : k0 = k
      · simp only [e0, if_true] at e
        injection e with e
        subst e
        simp [List.find?, h, e0]
      · simp only [e0, if_false] at e
        have hno : o ∉ l0 := fun hm => hv'.2.2 o hm o (lookup_mem_flatten rest k l o e h) rfl
        simp only [List.find?, hno, decide_false]
        exact ih hv'.2.1 e

/-- the slot a group stands for: itself when listed, else the place of its sub-group parent. -/
def slotOf (seg : Segment) (order : List (Str × Str)) (f : Nat) (v : Str) : Option Str :=
  if v ∈ seg.allocSections ++ seg.noloadSections then some v
  else match parentOf seg v with
    | some k => locOf seg order f k
    | none => none

theorem locOf_succ (seg : Segment) (order : List (Str × Str)) (f : Nat) (c : Str) :
    locOf seg order (f + 1) c = slotOf seg order f (destOf order c) := by
  rw [locOf]
  rfl

theorem slot_along_path (seg : Segment) (order : List (Str × Str)) (secs : List Str)
    (hord : (order.map (·.1)).Nodup) (hv : (subgroupValues seg).Nodup)
    (hdis : ∀ x ∈ subgroupValues seg, x ∉ seg.allocSections ++ seg.noloadSections)
    {s t : Str} {ns : List Str} (h : Path (fun s => sectionsToEmitHere order s secs) (subgroupsOf seg) s ns t) :
    ∀ f, slotOf seg order (ns.length - 1 + f) t = slotOf seg order f s := by
  induction h with
  | one s => intro f; simp
  | @cons s o t ns' hl hp ih =>
    intro f
    obtain ⟨k, hk, ho⟩ := hl
    obtain ⟨r, hr⟩ := hp.head
    have hlen : (s :: ns').length - 1 + f = ns'.length - 1 + (f + 1) := by
      rw [hr]; simp; omega
    rw [hlen, ih (f + 1)]
    have hnl : o ∉ seg.allocSections ++ seg.noloadSections := hdis o (sub_mem_values seg o k ho)
    have hdest : destOf order k = s := (mem_sectionsToEmitHere order hord s secs k).1 hk
    unfold slotOf
    rw [if_neg hnl, parentOf_eq seg hv o k ho]
    simp only
    rw [locOf_succ, hdest]
    rfl

/-- **every found placement is expected**: when the entry's statement for section `c` is in the
listed group `g`, `locOf` with the fuel the specification uses answers `g` — for a segment in the
domain of the specification (`wellFormed`: no section is a sub-group twice, no listed section is
a sub-group). -/
theorem placed_is_expected (cx : Ctx) (seg : Segment) (secs : List Str) (file : FileInfo) (base q : Str)
    (ok : LeafOk cx seg file q)
    (hdis : ∀ x ∈ subgroupValues seg, x ∉ seg.allocSections ++ seg.noloadSections)
    (n : Nat) (g : Str) (hg : g ∈ seg.allocSections ++ seg.noloadSections) (ls : List Line)
    (h : emitEntry cx seg secs n file g base [] = .ok ls) (c : Str) (hc : leafLine seg file base q c ∈ ls) :
    locOf seg file.sectionOrder (seg.sectionsSubgroups.length + 2) c = some g := by
  obtain ⟨l, hw, rfl⟩ := emitted_lines cx seg secs file base q ok n g ls h
  obtain ⟨c', hm', e⟩ := List.mem_map.1 hc
  have := leafLine_inj _ _ _ _ _ _ e
  subst this
  obtain ⟨ns, t, hp, hct, _, hnd⟩ := secsE_path_nodup _ _ n g [] l hw c' hm'
  have hdest : destOf file.sectionOrder c' = t := (mem_sectionsToEmitHere _ ok.keys t secs c').1 hct
  have hlen : ns.length ≤ (seg.sectionsSubgroups.map (·.1)).length + 1 :=
    hp.length_le (here_one_group _ ok.keys secs) _ (fun k o ho => by
      unfold subgroupsOf at ho
      cases e : lookup k seg.sectionsSubgroups with
      | none => simp [e] at ho
      | some l' => exact List.mem_map.2 ⟨(k, l'), mem_of_lookup k l' _ e, rfl⟩) hnd
  simp only [List.length_map] at hlen
  obtain ⟨r, hr⟩ := hp.head
  have hpos : 1 ≤ ns.length := by rw [hr]; simp
  have hf : seg.sectionsSubgroups.length + 1 = ns.length - 1 + (seg.sectionsSubgroups.length + 2 - ns.length) := by omega
  rw [locOf_succ, hdest, hf, slot_along_path seg _ secs ok.keys ok.subs hdis hp]
  unfold slotOf
  rw [if_pos hg]


/-! ### the hypotheses are met by a concrete, non-trivial table -/

/-- `.rodata` has the sub-group `.rdata`, which in turn has `.lit`; `section_order` sends `.rdata`
to `.data`: the walk of `.data` places `.rdata` (unlisted sections sort first), `.lit`, `.data`; the walk of `.rodata` only `.rodata`. -/
def exOrder : List (Str × Str) := [(c!".rdata", c!".data")]
def exSub (k : Str) : List Str :=
  (lookup k [(c!".rodata", [c!".rdata"]), (c!".rdata", [c!".lit"])]).getD []
def exSecs : List Str := [c!".text", c!".data", c!".rodata"]

example : secsE (fun s => sectionsToEmitHere exOrder s exSecs) exSub 4 c!".data" []
    = .ok [c!".rdata", c!".lit", c!".data"] := by decide
example : secsE (fun s => sectionsToEmitHere exOrder s exSecs) exSub 4 c!".rodata" [] = .ok [c!".rodata"] := by decide
example : (exOrder.map (·.1)).Nodup := by decide


/-! ### pads and linker offsets follow the same walk -/

def flatMapR {α β} (g : α → List β) : R (List α) → R (List β)
  | .ok l => .ok (l.flatMap g)
  | .error e => .error e

theorem concatMapE_flatMapR {α β γ} (g : β → List γ) (F : α → R (List β)) (l : List α) :
    concatMapE (fun a => flatMapR g (F a)) l = flatMapR g (concatMapE F l) := by
  induction l with
  | nil => rfl
  | cons a as ih =>
    unfold concatMapE
    rw [ih]
    cases F a with
    | error e => rfl
    | ok x =>
      cases concatMapE F as with
      | error e => rfl
      | ok y => simp [flatMapR]

/-- the statement a pad or linker-offset entry writes when the walk reaches its own section. -/
def markLine (cx : Ctx) (file : FileInfo) : Line :=
  if file.kind = .pad then .addAssign c!"." (.hex file.padAmount)
  else linkerSym (cx.d.settings.style.linkerOffset file.linkerOffsetName) .dot

/-- **a pad or linker offset writes its statement once per occurrence of its own section in the
walk, and nothing else** (same walk as for an object: `section_order` of the entry and the
segment's sub-groups). -/
theorem mark_eq_secsE (cx : Ctx) (seg : Segment) (secs : List Str) (file : FileInfo) (base : Str)
    (hk : file.kind = .pad ∨ file.kind = .linkerOffset)
    (hinc : shouldEmit cx.o file.cond = true) (hrp : cx.refPartial = false) :
    ∀ (n : Nat) (sec : Str) (parents : List Str),
      emitEntry cx seg secs n file sec base parents
        = flatMapR (fun k => if file.sect = k then [markLine cx file] else [])
            (secsE (fun s => sectionsToEmitHere file.sectionOrder s secs) (subgroupsOf seg) n sec parents) := by
  intro n
  induction n with
  | zero => intro sec parents; simp [emitEntry, secsE, flatMapR]
  | succ n ih =>
    intro sec parents
    unfold emitEntry secsE
    simp only [hinc, Bool.not_true, Bool.false_eq_true, if_false]
    by_cases hp : sec ∈ parents
    · simp [hp, flatMapR]
    · simp only [hp, if_false]
      rw [← concatMapE_flatMapR]
      apply concatMapE_congr_on
      intro k _
      have hsub : concatMapE (fun other => emitEntry cx seg secs n file other base (sec :: parents)) (subgroupsOf seg k)
          = flatMapR (fun k => if file.sect = k then [markLine cx file] else []) (concatMapE (fun o => secsE (fun s => sectionsToEmitHere file.sectionOrder s secs)
              (subgroupsOf seg) n o (sec :: parents)) (subgroupsOf seg k)) := by
        rw [← concatMapE_flatMapR]
        apply concatMapE_congr_on
        intro o _
        exact ih o (sec :: parents)
      rcases hk with h | h
      · simp only [h, hrp, hsub, Bool.false_or, reduceCtorEq, decide_false, Bool.and_false, Bool.false_eq_true, if_false]
        cases concatMapE (fun o => secsE (fun s => sectionsToEmitHere file.sectionOrder s secs) (subgroupsOf seg) n o (sec :: parents)) (subgroupsOf seg k) with
        | error e => rfl
        | ok b => simp [flatMapR, markLine, h]
      · simp only [h, hrp, hsub, Bool.false_or, reduceCtorEq, decide_false, Bool.and_false, Bool.false_eq_true, if_false]
        cases concatMapE (fun o => secsE (fun s => sectionsToEmitHere file.sectionOrder s secs) (subgroupsOf seg) n o (sec :: parents)) (subgroupsOf seg k) with
        | error e => rfl
        | ok b => simp [flatMapR, markLine, h]

theorem flatMap_single {α} [DecidableEq α] (x : α) (y : Line) : ∀ (l : List α), l.Nodup →
    l.flatMap (fun k => if x = k then [y] else []) = if x ∈ l then [y] else [] := by
  intro l
  induction l with
  | nil => intro _; rfl
  | cons a as ih =>
    intro hnd
    have hnd' := List.nodup_cons.1 hnd
    simp only [List.flatMap_cons, ih hnd'.2, List.mem_cons]
    by_cases e : x = a
    · subst e
      simp [hnd'.1]
    · simp [e]

/-- **a pad or linker offset sits exactly where its section is placed**: in a group it
contributes its one statement when a chain leads from the group to (the destination of) its
section, and nothing otherwise — so it is written at most once per group, at most once over the
listed groups, and a pad on a sub-group section is written in the group that holds that sub-group. -/
theorem mark_placed (cx : Ctx) (seg : Segment) (secs : List Str) (file : FileInfo) (base : Str)
    (hk : file.kind = .pad ∨ file.kind = .linkerOffset)
    (hinc : shouldEmit cx.o file.cond = true) (hrp : cx.refPartial = false)
    (hkeys : (file.sectionOrder.map (·.1)).Nodup) (hsubs : (subgroupValues seg).Nodup)
    (n : Nat) (g : Str) (ls : List Line) (h : emitEntry cx seg secs n file g base [] = .ok ls) :
    (ls = [markLine cx file] ∨ ls = []) ∧
    (ls = [markLine cx file] ↔
      ∃ ns, Path (fun s => sectionsToEmitHere file.sectionOrder s secs) (subgroupsOf seg) g ns (destOf file.sectionOrder file.sect)) := by
  rw [mark_eq_secsE cx seg secs file base hk hinc hrp] at h
  cases hw : secsE (fun s => sectionsToEmitHere file.sectionOrder s secs) (subgroupsOf seg) n g [] with
  | error e => rw [hw] at h; cases h
  | ok l =>
    rw [hw] at h
    simp only [flatMapR] at h
    injection h with h
    have hnd : l.Nodup := secsE_nodup _ _ (here_one_group _ hkeys secs) (sub_one_parent seg hsubs)
      (here_nodup _ hkeys secs) (sub_nodup seg hsubs) n g [] l hw
    rw [flatMap_single _ _ l hnd] at h
    have hiff := secsE_mem_iff _ _ n g [] l hw file.sect
    by_cases hm : file.sect ∈ l
    · rw [if_pos hm] at h
      refine ⟨Or.inl h.symm, fun _ => ?_, fun _ => h.symm⟩
      obtain ⟨ns, t, hp, hct⟩ := hiff.1 hm
      rw [mem_sectionsToEmitHere _ hkeys] at hct
      exact ⟨ns, hct ▸ hp⟩
    · rw [if_neg hm] at h
      refine ⟨Or.inr h.symm, fun hl => ?_, fun ⟨ns, hp⟩ => ?_⟩
      · rw [← h] at hl; cases hl
      · exact absurd (hiff.2 ⟨ns, _, hp, (mem_sectionsToEmitHere _ hkeys _ secs file.sect).2 rfl⟩) hm

end Slinky.C01
