/-
  C03 in the image `Ld.link` returns: a segment with none of the four address fields is placed behind
  the segment emitted before it — its output section is recorded at the value of that segment's VRAM
  end symbol, rounded up to the segment's own start alignment and then to the alignment the linker gives
  the output section for what it holds; the first emitted segment of a document starts from address 0
  in the same way. For the whole ordinary script of a document.

  `segments_last_end` carries through the fold over the segments: the location counter behind the
  segments *is* the value of the VRAM end symbol of the last emitted one (excluded segments write
  nothing). `segment_image` then says where a segment without an address opens.
-/
import Props.C03Follows
namespace Slinky.C03
open Slinky W Ld

/-- the last emitted segment of a list, or `prev` when none of them is emitted. -/
def lastEmitted (o : Opts) (prev : Option Segment) (segs : List Segment) : Option Segment :=
  match (segs.filter (fun s => shouldEmit o s.cond)).getLast? with
  | some f => some f
  | none => prev

theorem lastEmitted_cons_excluded (o : Opts) (prev : Option Segment) (s : Segment) (rest : List Segment)
    (h : shouldEmit o s.cond = false) : lastEmitted o prev (s :: rest) = lastEmitted o prev rest := by
  simp [lastEmitted, List.filter_cons, h]

theorem lastEmitted_cons_emitted (o : Opts) (prev : Option Segment) (s : Segment) (rest : List Segment)
    (h : shouldEmit o s.cond = true) : lastEmitted o prev (s :: rest) = lastEmitted o (some s) rest := by
  simp only [lastEmitted, List.filter_cons, h, if_true]
  cases hr : rest.filter (fun s => shouldEmit o s.cond) with
  | nil => simp
  | cons a r =>
    rw [List.getLast?_cons_cons]
    cases hg : (a :: r).getLast? with
    | none => simp at hg
    | some f => rfl

/-- the location counter is where the last emitted segment ended. -/
def EndInv (sty : Style) (st : St) (d0 : Nat) : Option Segment → Prop
  | none => st.dot = d0
  | some f => lookupLast (sty.segVramEnd f.name) st.syms = some (.num st.dot)

/-- **behind any number of segments the location counter is the VRAM end of the last emitted one.** -/
theorem segments_last_end (objs : List InSec) (cx : Ctx) (hsy : cx.emitSecSyms = true) (d0 : Nat) :
    ∀ (segs : List Segment) (em : List Str) (ls : List Line) (em' : List Str)
      (_ : addSegments cx em segs = .ok (ls, em'))
      (_ : ∀ s ∈ segs, shouldEmit cx.o s.cond = true → s.allocSections ≠ [])
      (st : St) (_ : Outside st) (r : Nat) (_ : lookupLast Ld.romPos st.syms = some (.num r)) (k : List Line)
      (prev : Option Segment) (_ : EndInv cx.d.settings.style st d0 prev),
      ∃ (st' : St) (r' : Nat),
        st' = execK objs st ls k ∧ Outside st' ∧ lookupLast Ld.romPos st'.syms = some (.num r') ∧
        EndInv cx.d.settings.style st' d0 (lastEmitted cx.o prev segs) := by
  intro segs
  induction segs with
  | nil =>
    intro em ls em' h _ st ho r hr k prev hinv
    simp only [addSegments] at h
    injection h with h
    simp only [Prod.mk.injEq] at h
    obtain ⟨rfl, _⟩ := h
    exact ⟨st, r, rfl, ho, hr, by simpa [lastEmitted] using hinv⟩
  | cons seg rest ih =>
    intro em ls em' h hall st ho r hr k prev hinv
    simp only [addSegments] at h
    split at h
    · contradiction
    · rename_i a em1 hadd
      split at h
      · contradiction
      · rename_i b em2 hrest
        injection h with h
        simp only [Prod.mk.injEq] at h
        obtain ⟨rfl, _⟩ := h
        rw [execK_append]
        unfold addSegment at hadd
        split at hadd
        · rename_i hx
          injection hadd with hadd
          simp only [Prod.mk.injEq] at hadd
          obtain ⟨rfl, rfl⟩ := hadd
          have hex : shouldEmit cx.o seg.cond = false := by
            cases hh : shouldEmit cx.o seg.cond
            · rfl
            · simp [hh] at hx
          obtain ⟨st', r', e, o, hr', hi⟩ := ih _ _ _ hrest (fun s hs => hall s (List.mem_cons_of_mem _ hs)) st ho r hr k prev hinv
          exact ⟨st', r', by simpa [execK] using e, o, hr', by rw [lastEmitted_cons_excluded _ _ _ _ hex]; exact hi⟩
        · rename_i hinc
          have hem : shouldEmit cx.o seg.cond = true := by
            cases hh : shouldEmit cx.o seg.cond
            · simp [hh] at hinc
            · rfl
          split at hadd
          · contradiction
          · rename_i cls em3 hcp
            split at hadd
            · contradiction
            · rename_i alloc halloc
              split at hadd
              · contradiction
              · rename_i noload hnoload
                injection hadd with hadd
                simp only [Prod.mk.injEq] at hadd
                obtain ⟨rfl, rfl⟩ := hadd
                have hcls : ∀ l ∈ cls, OuterLine l ∧ symOf l ≠ some Ld.romPos := by
                  unfold classPart at hcp
                  split at hcp
                  · injection hcp with hcp; simp only [Prod.mk.injEq] at hcp; obtain ⟨rfl, _⟩ := hcp
                    intro l hl; cases hl
                  · split at hcp
                    · contradiction
                    · rename_i vc _
                      split at hcp
                      · injection hcp with hcp; simp only [Prod.mk.injEq] at hcp; obtain ⟨rfl, _⟩ := hcp
                        intro l hl; cases hl
                      · injection hcp with hcp; simp only [Prod.mk.injEq] at hcp; obtain ⟨rfl, _⟩ := hcp
                        exact classIntro_outer cx _ vc
                obtain ⟨aS, aE, al, dN, st1, lmaV, e1, o1, _, _, _, _, _, _, r1, _, hvend, _, _⟩ :=
                  segment_image objs cx seg cls alloc noload hcls halloc hnoload
                    (hall seg List.mem_cons_self hem) hsy st ho r hr (b ++ k)
                obtain ⟨st', r', e, o, hr', hi⟩ := ih _ _ _ hrest (fun s hs => hall s (List.mem_cons_of_mem _ hs))
                  st1 o1 _ r1 k (some seg) hvend
                exact ⟨st', r', by rw [e, e1], o, hr', by rw [lastEmitted_cons_emitted _ _ _ _ hem]; exact hi⟩

/-- **one segment without an address**: its allocatable output section opens at the location counter it
is reached with, rounded up to its start alignment and to the alignment of the output section. -/
theorem segment_default_addr (objs : List InSec) (cx : Ctx) (hsy : cx.emitSecSyms = true) (em : List Str) (seg : Segment)
    (lsSeg : List Line) (em' : List Str) (hadd : addSegment cx em seg = .ok (lsSeg, em'))
    (hinc : shouldEmit cx.o seg.cond = true) (hne : seg.allocSections ≠ [])
    (st : St) (ho : Outside st) (r : Nat) (hr : lookupLast romPos st.syms = some (.num r)) (k : List Line)
    (ha : segAddr cx seg = none) :
    ∃ os ∈ (execK objs st lsSeg k).secs, os.name = c!"." ++ seg.name ∧ os.noload = false ∧ 1 ≤ os.align ∧
      os.addr = Ld.alignUp (alignO seg.segmentStartAlign st.dot) os.align := by
  unfold addSegment at hadd
  simp only [hinc, Bool.not_true, Bool.false_eq_true, if_false] at hadd
  split at hadd
  · contradiction
  · rename_i cls em3 hcp
    split at hadd
    · contradiction
    · rename_i alloc halloc
      split at hadd
      · contradiction
      · rename_i noload hnoload
        injection hadd with hadd
        simp only [Prod.mk.injEq] at hadd
        obtain ⟨rfl, rfl⟩ := hadd
        have hcls : ∀ l ∈ cls, OuterLine l ∧ symOf l ≠ some romPos := by
          unfold classPart at hcp
          split at hcp
          · injection hcp with hcp; simp only [Prod.mk.injEq] at hcp; obtain ⟨rfl, _⟩ := hcp
            intro l hl; cases hl
          · split at hcp
            · contradiction
            · rename_i vc _
              split at hcp
              · injection hcp with hcp; simp only [Prod.mk.injEq] at hcp; obtain ⟨rfl, _⟩ := hcp
                intro l hl; cases hl
              · injection hcp with hcp; simp only [Prod.mk.injEq] at hcp; obtain ⟨rfl, _⟩ := hcp
                exact classIntro_outer cx _ vc
        obtain ⟨aS, aE, al, dN, st1, lmaV, e1, o1, hal, _, hnoaddr, _, _, _, r1, _, _, hsec1, _⟩ :=
          segment_image objs cx seg cls alloc noload hcls halloc hnoload hne hsy st ho r hr k
        rw [← e1]
        exact ⟨_, hsec1, rfl, rfl, hal, hnoaddr ha⟩

/-- **C03 in the linked image, for the whole ordinary script of a document: the default placement.**
For every document in multi-segment mode whose emitted segments have an allocatable section, every option
set, object table and `--defsym` table: an emitted segment with none of `fixed_vram`, `fixed_symbol`,
`follows_segment`, `vram_class` has, in the image `Ld.link` computes for the generated script, its output
section `.<segment>` recorded at `ALIGN(ALIGN(e, start alignment), alignment of the output section)`,
where `e` is the value in that image of the VRAM end symbol of the segment emitted last before it (when
the script assigns that symbol once), and `e = 0` when no segment is emitted before it. -/
theorem final_default_placement (objs : List InSec) (d : Document) (o : Opts) (vc : Bool) (script : List Line)
    (hmulti : d.settings.singleSegmentMode = false)
    (h : generateNormal d o vc = .ok script)
    (hall : ∀ s ∈ d.segments, shouldEmit o s.cond = true → s.allocSections ≠ [])
    (defsyms : List (Str × Nat))
    (pre post : List Segment) (seg : Segment) (hsplit : d.segments = pre ++ seg :: post)
    (hinc : shouldEmit o seg.cond = true)
    (hfv : seg.fixedVram = none) (hfs : seg.fixedSymbol = none) (hfol : seg.followsSegment = none) (hcl : seg.vramClass = none) :
    ∃ os ∈ (link objs defsyms script).secs, os.name = c!"." ++ seg.name ∧ os.noload = false ∧ 1 ≤ os.align ∧
      match lastEmitted o none pre with
      | none => os.addr = Ld.alignUp (alignO seg.segmentStartAlign 0) os.align
      | some f => assignCount (d.settings.style.segVramEnd f.name) script ≤ 1 →
          ∃ e, (link objs defsyms script).sym (d.settings.style.segVramEnd f.name) = some e ∧
            os.addr = Ld.alignUp (alignO seg.segmentStartAlign e) os.align := by
  unfold generateNormal at h
  split at h
  · contradiction
  · rename_i body hbody
    injection h with h
    subst h
    unfold addAllSegments at hbody
    simp only [hmulti, Bool.false_eq_true, if_false] at hbody
    split at hbody
    · contradiction
    · rename_i ls emitted hsegs
      injection hbody with hbody
      subst hbody
      generalize hcx : ({ d := d, o := o } : Ctx) = cx at *
      have hd : cx.d = d := by rw [← hcx]
      have ho' : cx.o = o := by rw [← hcx]
      have hsy : cx.emitSecSyms = true := by rw [← hcx]
      rw [hsplit] at hsegs
      obtain ⟨lsPre, em1, lsSeg, em2, lsPost, hpre, hseg, hpost, rfl⟩ := addSegments_split cx pre seg post [] ls emitted hsegs
      generalize hT : endSections cx emitted ++ topLevel d o = T
      have hform : versionComment vc ++ (beginSections cx ++ (lsPre ++ (lsSeg ++ lsPost)) ++ endSections cx emitted) ++ topLevel d o
          = versionComment vc ++ (beginSections cx ++ (lsPre ++ (lsSeg ++ (lsPost ++ T)))) := by
        rw [← hT]; simp [List.append_assoc]
      rw [hform, link_eq]
      generalize carry _ = S0
      rw [execK_append, Slinky.C04.execK_quiet objs _ (Slinky.C04.versionComment_quiet vc)]
      rw [execK_append, execK_append, execK_append]
      have hb : ∃ st1, st1 = execK objs { syms := S0 } (beginSections cx) (lsPre ++ (lsSeg ++ (lsPost ++ T)) ++ []) ∧ Outside st1 ∧
          lookupLast Ld.romPos st1.syms = some (.num 0) ∧ st1.dot = 0 := by
        refine ⟨_, rfl, ?_, ?_, ?_⟩
        · unfold beginSections
          cases cx.d.settings.hardcodedGpValue <;> simp [execK, step, setSym] <;> exact ⟨rfl, rfl⟩
        · unfold beginSections
          cases cx.d.settings.hardcodedGpValue <;> simp [execK, step, setSym, eval, lookupLast_snoc, lookupLast_snoc2, Ld.romPos]
        · unfold beginSections
          cases cx.d.settings.hardcodedGpValue <;> simp [execK, step, setSym]
      obtain ⟨st1, e1, o1, r1, hdot1⟩ := hb
      rw [← e1]
      have hallc : ∀ s ∈ pre ++ seg :: post, shouldEmit cx.o s.cond = true → s.allocSections ≠ [] := by
        rw [ho', ← hsplit]; exact hall
      obtain ⟨st2, r2, e2, o2, hr2, hinv⟩ := segments_last_end objs cx hsy 0 pre [] lsPre em1 hpre
        (fun s hs => hallc s (List.mem_append_left _ hs)) st1 o1 0 r1 (lsSeg ++ (lsPost ++ T) ++ []) none hdot1
      rw [← e2]
      have hsa : segAddr cx seg = none := by
        unfold segAddr; simp [hfv, hfs, hfol, hcl]
      obtain ⟨os, hos, g1, g2, g3, g4⟩ := segment_default_addr objs cx hsy em1 seg lsSeg em2 hseg (by rw [ho']; exact hinc)
        (hallc seg (List.mem_append_right _ List.mem_cons_self) (by rw [ho']; exact hinc))
        st2 o2 r2 hr2 (lsPost ++ T ++ []) hsa
      obtain ⟨extra, hxs⟩ := execK_secs objs (lsPost ++ T) (execK objs st2 lsSeg (lsPost ++ T ++ [])) []
      refine ⟨os, by simp only [imageOf]; rw [hxs]; exact List.mem_append_left _ hos, g1, g2, g3, ?_⟩
      rw [ho', hd] at hinv
      cases hl : lastEmitted o none pre with
      | none =>
        rw [hl] at hinv
        simp only [EndInv] at hinv
        rw [g4, hinv]
      | some f =>
        rw [hl] at hinv
        simp only [EndInv] at hinv
        intro hcnt
        generalize hname : d.settings.style.segVramEnd f.name = a at *
        have hfm : f ∈ pre.filter (fun s => shouldEmit o s.cond) := by
          unfold lastEmitted at hl
          cases hg : (pre.filter (fun s => shouldEmit o s.cond)).getLast? with
          | none => rw [hg] at hl; cases hl
          | some g =>
            rw [hg] at hl
            injection hl with hl
            subst hl
            exact List.mem_of_getLast? hg
        -- the name is assigned among the statements in front, hence nowhere else
        obtain ⟨zs, _, _, _, _, _, hz, hfacts⟩ := segments_vram_end objs cx hsy pre [] lsPre em1 hpre
          (fun s hs => hallc s (List.mem_append_left _ hs)) st1 o1 0 r1 (lsSeg ++ (lsPost ++ T) ++ [])
        have hfz : f ∈ zs.map (·.1) := by rw [hz, ho']; exact hfm
        obtain ⟨z, hzm, rfl⟩ := List.mem_map.1 hfz
        obtain ⟨_, _, _, _, f5⟩ := hfacts z hzm
        rw [hd, hname] at f5
        have hb0 : assignCount a (versionComment vc) = 0 := Slinky.C04.assignCount_quiet a _ (Slinky.C04.versionComment_quiet vc)
        simp only [assignCount_append, hb0] at hcnt
        refine ⟨st2.dot, ?_, g4⟩
        rw [imageOf_sym, execK_keeps_count objs a (lsPost ++ T) _ [] (by rw [assignCount_append]; omega),
          execK_keeps_count objs a lsSeg st2 _ (by omega), hinv]
        rfl

/-- the hypotheses are met and the numbers are real: in the example document of `C04Final` the segment `main`
has no address and a start alignment of 64; `boot` in front of it ends at 0x80000080 (124 bytes rounded up to
16), and `.main` is recorded there. -/
example : (match generateNormal C04.exDoc C04.exOpts false with
    | .ok script =>
      decide (assignCount c!"boot_VRAM_END" script = 1)
      && decide ((lastEmitted C04.exOpts none (C04.exDoc.segments.take 1)).map (·.name) = some c!"boot")
      && decide ((link C04.exObjs [] script).sym c!"boot_VRAM_END" = some 0x80000080)
      && (link C04.exObjs [] script).secs.any (fun os => os.name = c!".main" && os.addr = 0x80000080 && !os.noload)
    | .error _ => false) = true := by decide +kernel

end Slinky.C03
