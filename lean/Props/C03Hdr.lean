/-
  How many headers of one name a generated script has — from the *document*.

  `C03.final_vram_start` assumes that the header `.<segment>` occurs once in the script (`Ld.hdrCount ≤ 1`, a
  decidable fact about the text). This file computes that number for the ordinary script of every document:
  one per emitted segment called so, one per emitted segment whose noload part is called so, one per entry of
  the two allowlists spelled so (`hdrCount_script`) — hence exactly one when the emitted segments have pairwise
  different names, no noload part is spelled like the allocatable part of this segment and no allowlisted
  section is (`header_once`).
-/
import Props.C10Partial
namespace Slinky.C03
open Slinky W Ld

theorem hdrOf_inner {sty : Style} {wild : Bool} {l : Line} (h : InnerLine sty wild l) : hdrOf l = none := by
  cases h with
  | body hb => cases hb <;> rfl
  | blank => rfl
  | alignDot a => rfl
  | gp off p h => rfl
  | symDot s hs => rfl
  | symSize s a b hs => rfl

theorem hdrOf_outer {l : Line} (h : OuterLine l) : hdrOf l = none := by
  cases h <;> rfl

theorem hdrCount_none (n : Str) (ls : List Line) (h : ∀ l ∈ ls, hdrOf l = none) : hdrCount n ls = 0 := by
  unfold hdrCount
  rw [List.countP_eq_zero]
  intro l hl
  simp [h l hl]

/-- the headers of one output section of a segment: its own. -/
theorem hdrCount_writeSegment (cx : Ctx) (seg : Segment) (secs : List Str) (noload : Bool) (ls : List Line)
    (h : writeSegment cx seg secs noload = .ok ls) (n : Str) :
    hdrCount n ls = if (if noload then c!"." ++ seg.name ++ c!".noload" else c!"." ++ seg.name) = n then 1 else 0 := by
  obtain ⟨fill, body, hls, hfill, hbody⟩ := writeSegment_shape' cx seg secs noload ls h
  subst hls
  have hk1 := hdrCount_none n _ (fun l hl => hdrOf_outer (kindStart_outer cx seg noload l hl))
  have hk2 := hdrCount_none n _ (fun l hl => hdrOf_outer (kindEnd_outer cx seg noload l hl))
  have hb := hdrCount_none n body (fun l hl => hdrOf_inner (hbody l hl))
  have hf : hdrCount n fill = 0 := by
    rcases hfill with rfl | ⟨v, rfl⟩ <;> simp [hdrCount, hdrOf]
  simp only [hdrCount_append, hk2, hb, hf, segmentStart, hk1]
  cases noload <;> simp only [hdrCount, List.countP_cons, List.countP_nil, hdrOf, Bool.false_eq_true, if_false, if_true] <;>
    split <;> simp_all

theorem hdrCount_segTail (cx : Ctx) (seg : Segment) (n : Str) : hdrCount n (segTail cx seg) = 0 := by
  apply hdrCount_none
  intro l hl
  unfold segTail at hl
  simp only [List.mem_append, List.mem_cons, List.mem_nil_iff, or_false, symEndSize] at hl
  rcases hl with ((((rfl | hl) | hl) | hl) | hl) | rfl
  · rfl
  · split at hl
    · simp only [List.mem_cons, List.mem_nil_iff, or_false] at hl; rcases hl with rfl | rfl <;> rfl
    · cases hl
  · rcases hl with rfl | rfl <;> rfl
  · rcases hl with rfl | rfl <;> rfl
  · split at hl
    · simp only [List.mem_cons, List.mem_nil_iff, or_false] at hl; rcases hl with rfl | rfl <;> rfl
    · cases hl
  · rfl

/-- the headers `add_segment` writes for one segment. -/
def segHdrs (seg : Segment) (n : Str) : Nat :=
  (if c!"." ++ seg.name = n then 1 else 0) + (if c!"." ++ seg.name ++ c!".noload" = n then 1 else 0)

theorem hdrCount_addSegment (cx : Ctx) (em : List Str) (seg : Segment) (a : List Line) (em1 : List Str)
    (h : addSegment cx em seg = .ok (a, em1)) (n : Str) :
    hdrCount n a = if shouldEmit cx.o seg.cond then segHdrs seg n else 0 := by
  rcases Slinky.C10.addSegment_cases cx em seg a em1 h with ⟨hex, rfl, _⟩ | ⟨hem, cls, alloc, noload, rfl, ha, hn, hcl⟩
  · simp [hex, hdrCount]
  · have hc : hdrCount n cls = 0 := by
      rcases hcl with ⟨rfl, _⟩ | ⟨cname, vc', _, _, _, rfl, _⟩
      · rfl
      · exact hdrCount_none n _ (fun l hl => hdrOf_outer (classIntro_outer cx cname vc' l hl).1)
    rw [segmentLines_split, hem]
    have hs : hdrCount n (startAligns seg) = 0 := by
      apply hdrCount_none
      intro l hl
      rcases startAligns_assign seg l hl with rfl | ⟨s, e, p, h', lk, rfl⟩ <;> rfl
    simp only [hdrCount_append, hdrCount_cons, hc, hs, hdrCount_writeSegment cx seg _ false alloc ha,
      hdrCount_writeSegment cx seg _ true noload hn, hdrCount_segTail, segHdrs, if_true]
    simp [hdrCount, hdrOf, linkerSym]

theorem hdrCount_addSegments (cx : Ctx) : ∀ (segs : List Segment) (em : List Str) (ls : List Line) (em' : List Str)
    (_ : addSegments cx em segs = .ok (ls, em')) (n : Str),
    hdrCount n ls = ((segs.filter fun s => shouldEmit cx.o s.cond).map fun s => segHdrs s n).sum := by
  intro segs
  induction segs with
  | nil =>
    intro em ls em' h n
    simp only [addSegments] at h
    injection h with h
    simp only [Prod.mk.injEq] at h
    obtain ⟨rfl, _⟩ := h
    rfl
  | cons seg rest ih =>
    intro em ls em' h n
    simp only [addSegments] at h
    split at h
    · contradiction
    · rename_i a em1 hadd
      split at h
      · contradiction
      · rename_i b em2 hrest
        injection h with h
        simp only [Prod.mk.injEq] at h
        obtain ⟨rfl, _⟩ := h
        rw [hdrCount_append, hdrCount_addSegment cx em seg a em1 hadd n, ih em1 b em2 hrest n]
        cases hinc : shouldEmit cx.o seg.cond <;> simp [List.filter_cons, hinc]

theorem hdrCount_singleEntries (n : Str) (l : List Str) :
    hdrCount n (l.map fun x => Line.singleEntry x c!"0") = l.count n := by
  induction l with
  | nil => rfl
  | cons x xs ih =>
    rw [List.map_cons, hdrCount_cons, ih, List.count_cons]
    simp only [hdrOf, Option.some.injEq, beq_iff_eq]

theorem hdrCount_blank_if (n : Str) (b : Bool) : hdrCount n (if b then [Line.blank] else []) = 0 := by
  cases b <;> rfl

theorem hdrCount_eq_count (n : Str) (ls : List Line) : hdrCount n ls = (ls.filterMap hdrOf).count n := by
  induction ls with
  | nil => rfl
  | cons l r ih =>
    rw [hdrCount_cons, ih, List.filterMap_cons]
    cases h : hdrOf l with
    | none => simp
    | some m => simp [List.count_cons]

theorem filterMap_hdrOf_singleEntries (l : List Str) :
    (l.map fun x => Line.singleEntry x c!"0").filterMap hdrOf = l := by
  induction l with
  | nil => rfl
  | cons x xs ih => simp [List.filterMap_cons, hdrOf, ih]

theorem filterMap_hdrOf_none (ls : List Line) (h : ∀ l ∈ ls, hdrOf l = none) : ls.filterMap hdrOf = [] := by
  induction ls with
  | nil => rfl
  | cons l r ih =>
    rw [List.filterMap_cons, h l List.mem_cons_self]
    exact ih (fun x hx => h x (List.mem_cons_of_mem _ hx))

/-- the headers of `end_sections`: the single-entry sections of the two allowlists, in order. -/
theorem headers_endSections (cx : Ctx) (emitted : List Str) :
    (endSections cx emitted).filterMap hdrOf = cx.d.settings.sectionsAllowlist ++ cx.d.settings.sectionsAllowlistExtra := by
  unfold endSections
  have h1 : ∀ l : List Str, (l.map fun x => linkerSym (cx.d.settings.style.classSize x)
      (.sub (cx.d.settings.style.classEnd x) (cx.d.settings.style.classStart x))).filterMap hdrOf = [] := by
    intro l; apply filterMap_hdrOf_none; intro x hx; obtain ⟨_, _, rfl⟩ := List.mem_map.1 hx; rfl
  have h2 : ∀ l : List Str, (l.map Line.discardPat).filterMap hdrOf = [] := by
    intro l; apply filterMap_hdrOf_none; intro x hx; obtain ⟨_, _, rfl⟩ := List.mem_map.1 hx; rfl
  have hb : ∀ b : Bool, (if b then [Line.blank] else []).filterMap hdrOf = [] := by intro b; cases b <;> rfl
  simp only [List.filterMap_append, h1, h2, hb, filterMap_hdrOf_singleEntries, apply_ite (List.filterMap hdrOf),
    List.filterMap_nil, List.filterMap_cons, hdrOf, List.nil_append, List.append_nil]
  cases ha : cx.d.settings.sectionsAllowlist <;> cases he : cx.d.settings.sectionsAllowlistExtra <;>
    cases cx.d.settings.discardWildcardSection <;> cases cx.d.settings.sectionsDenylist <;> simp

theorem hdrCount_endSections (cx : Ctx) (emitted : List Str) (n : Str) :
    hdrCount n (endSections cx emitted) = cx.d.settings.sectionsAllowlist.count n + cx.d.settings.sectionsAllowlistExtra.count n := by
  rw [hdrCount_eq_count, headers_endSections, List.count_append]

theorem hdrCount_topLevel (d : Document) (o : Opts) (n : Str) : hdrCount n (topLevel d o) = 0 := by
  apply hdrCount_none
  intro l hl
  unfold topLevel at hl
  simp only [List.mem_append] at hl
  rcases hl with ((hl | hl) | hl) | hl
  · split at hl
    · simp only [List.mem_cons, List.mem_nil_iff, or_false] at hl; rcases hl with rfl | rfl <;> rfl
    · cases hl
  · split at hl
    · cases hl
    · rcases List.mem_cons.1 hl with rfl | hl
      · rfl
      · obtain ⟨a, _, rfl⟩ := List.mem_map.1 hl; rfl
  · split at hl
    · cases hl
    · rcases List.mem_cons.1 hl with rfl | hl
      · rfl
      · obtain ⟨x, hx, hlx⟩ := List.mem_flatten.1 hl
        obtain ⟨a, _, rfl⟩ := List.mem_map.1 hx
        simp only [List.mem_cons, List.mem_nil_iff, or_false] at hlx
        rcases hlx with rfl | rfl <;> rfl
  · split at hl
    · cases hl
    · rcases List.mem_cons.1 hl with rfl | hl
      · rfl
      · obtain ⟨a, _, rfl⟩ := List.mem_map.1 hl; rfl

/-- **the number of headers of one name in the ordinary script of a document**: one per emitted segment whose
allocatable or noload output section is called so, one per entry of the two allowlists spelled so. -/
theorem hdrCount_script (d : Document) (o : Opts) (vc : Bool) (script : List Line)
    (hmulti : d.settings.singleSegmentMode = false) (h : generateNormal d o vc = .ok script) (n : Str) :
    hdrCount n script = ((d.segments.filter fun s => shouldEmit o s.cond).map fun s => segHdrs s n).sum
      + d.settings.sectionsAllowlist.count n + d.settings.sectionsAllowlistExtra.count n := by
  unfold generateNormal at h
  split at h
  · contradiction
  · rename_i body hbody
    injection h with h
    subst h
    unfold addAllSegments at hbody
    simp only [hmulti, Bool.false_eq_true, if_false] at hbody
    split at hbody
    · contradiction
    · rename_i ls emitted hsegs
      injection hbody with hbody
      subst hbody
      have hv : hdrCount n (versionComment vc) = 0 := by cases vc <;> rfl
      have hb : hdrCount n (beginSections { d := d, o := o }) = 0 := by
        unfold beginSections
        cases d.settings.hardcodedGpValue <;> rfl
      simp only [hdrCount_append, hv, hb, hdrCount_topLevel, hdrCount_endSections,
        hdrCount_addSegments { d := d, o := o } d.segments [] ls emitted hsegs n]
      omega

/-- the same count for the main script of partial mode (the segments being those `C03.partialSegs` lists). -/
theorem hdrCount_main_partial (d : Document) (o : Opts) (vc : Bool) (out : PartialOut) (h : generatePartial d o vc = .ok out)
    (folder : Str) (hfolder : d.settings.partialBuildSegmentsFolder = some folder) (n : Str) :
    hdrCount n out.main = ((partialSegs d o folder).map fun s => segHdrs s n).sum
      + d.settings.sectionsAllowlist.count n + d.settings.sectionsAllowlistExtra.count n := by
  obtain ⟨folder', ls, emitted, hf', hsegs, hmain⟩ := partial_main_shape d o vc out h
  rw [hfolder] at hf'; injection hf' with hf'; subst hf'
  rw [hmain]
  have hv : hdrCount n (versionComment vc) = 0 := by cases vc <;> rfl
  have hb : hdrCount n (beginSections (partialCx d o)) = 0 := by
    unfold beginSections partialCx
    cases d.settings.hardcodedGpValue <;> rfl
  have hfil : (partialSegs d o folder).filter (fun s => shouldEmit (partialCx d o).o s.cond) = partialSegs d o folder := by
    apply List.filter_eq_self.2
    intro s hs
    exact partialSegs_emitted d o folder s hs
  simp only [hdrCount_append, hv, hb, hdrCount_topLevel, hdrCount_endSections,
    hdrCount_addSegments (partialCx d o) _ [] ls emitted hsegs n, hfil]
  simp only [partialCx]
  omega

/-- **the header `.<segment>` occurs once** when no other emitted segment has an output section of that name and no
allowlisted section is spelled so — the hypothesis of `final_vram_start`, from the document. -/
theorem header_once (d : Document) (o : Opts) (vc : Bool) (script : List Line)
    (hmulti : d.settings.singleSegmentMode = false) (h : generateNormal d o vc = .ok script)
    (pre post : List Segment) (seg : Segment) (hsplit : d.segments = pre ++ seg :: post) (hinc : shouldEmit o seg.cond = true)
    (hothers : ∀ s ∈ pre ++ post, shouldEmit o s.cond = true → segHdrs s (c!"." ++ seg.name) = 0)
    (ha : c!"." ++ seg.name ∉ d.settings.sectionsAllowlist) (he : c!"." ++ seg.name ∉ d.settings.sectionsAllowlistExtra) :
    hdrCount (c!"." ++ seg.name) script = 1 := by
  have hself : segHdrs seg (c!"." ++ seg.name) = 1 := by
    unfold segHdrs
    simp [noload_name_ne seg.name]
  rw [hdrCount_script d o vc script hmulti h, hsplit, List.count_eq_zero.2 ha, List.count_eq_zero.2 he]
  generalize c!"." ++ seg.name = n at *
  have hz : ∀ l : List Segment, (∀ s ∈ l, shouldEmit o s.cond = true → segHdrs s n = 0) →
      ((l.filter fun s => shouldEmit o s.cond).map fun s => segHdrs s n).sum = 0 := by
    intro l hl
    induction l with
    | nil => rfl
    | cons x xs ih =>
      have ihx := ih (fun s hs => hl s (List.mem_cons_of_mem _ hs))
      cases hx : shouldEmit o x.cond
      · simp only [List.filter_cons, hx, Bool.false_eq_true, if_false]; exact ihx
      · simp only [List.filter_cons, hx, if_true, List.map_cons, List.sum_cons, ihx, hl x List.mem_cons_self hx]
  simp only [List.filter_append, List.filter_cons, hinc, if_true, List.map_append, List.map_cons, List.sum_append, List.sum_cons,
    hz pre (fun s hs => hothers s (List.mem_append_left _ hs)), hz post (fun s hs => hothers s (List.mem_append_right _ hs)), hself]

/-- **the header `.<segment>` occurs once in the main script of partial mode** under the same conditions. -/
theorem header_once_partial (d : Document) (o : Opts) (vc : Bool) (out : PartialOut) (h : generatePartial d o vc = .ok out)
    (folder : Str) (hfolder : d.settings.partialBuildSegmentsFolder = some folder)
    (pre post : List Segment) (seg : Segment) (hsplit : partialSegs d o folder = pre ++ seg :: post)
    (hothers : ∀ s ∈ pre ++ post, segHdrs s (c!"." ++ seg.name) = 0)
    (ha : c!"." ++ seg.name ∉ d.settings.sectionsAllowlist) (he : c!"." ++ seg.name ∉ d.settings.sectionsAllowlistExtra) :
    hdrCount (c!"." ++ seg.name) out.main = 1 := by
  have hself : segHdrs seg (c!"." ++ seg.name) = 1 := by
    unfold segHdrs
    simp [noload_name_ne seg.name]
  rw [hdrCount_main_partial d o vc out h folder hfolder, hsplit, List.count_eq_zero.2 ha, List.count_eq_zero.2 he]
  generalize c!"." ++ seg.name = n at *
  have hz : ∀ l : List Segment, (∀ s ∈ l, segHdrs s n = 0) → (l.map fun s => segHdrs s n).sum = 0 := by
    intro l hl
    induction l with
    | nil => rfl
    | cons x xs ih =>
      simp only [List.map_cons, List.sum_cons, hl x List.mem_cons_self, ih (fun s hs => hl s (List.mem_cons_of_mem _ hs))]
  simp only [List.map_append, List.map_cons, List.sum_append, List.sum_cons,
    hz pre (fun s hs => hothers s (List.mem_append_left _ hs)), hz post (fun s hs => hothers s (List.mem_append_right _ hs)), hself]

/-- `final_vram_start` with the hypothesis on the header stated about the document: no other emitted segment has an
output section called `.<segment>` and neither allowlist names it. -/
theorem final_vram_start_doc (objs : List InSec) (d : Document) (o : Opts) (vc : Bool) (script : List Line)
    (hmulti : d.settings.singleSegmentMode = false)
    (h : generateNormal d o vc = .ok script)
    (hall : ∀ s ∈ d.segments, shouldEmit o s.cond = true → s.allocSections ≠ [])
    (defsyms : List (Str × Nat))
    (pre post : List Segment) (seg : Segment) (hsplit : d.segments = pre ++ seg :: post)
    (hinc : shouldEmit o seg.cond = true)
    (hcnt : assignCount (d.settings.style.segVramStart seg.name) script ≤ 1)
    (hothers : ∀ s ∈ pre ++ post, shouldEmit o s.cond = true → segHdrs s (c!"." ++ seg.name) = 0)
    (ha : c!"." ++ seg.name ∉ d.settings.sectionsAllowlist) (he : c!"." ++ seg.name ∉ d.settings.sectionsAllowlistExtra) :
    ∃ os ∈ (link objs defsyms script).secs, os.name = c!"." ++ seg.name ∧ os.noload = false ∧
      (link objs defsyms script).sym (d.settings.style.segVramStart seg.name) = some os.addr ∧
      (assignCount (d.settings.style.segVramEnd seg.name) script ≤ 1 →
        ∃ e, (link objs defsyms script).sym (d.settings.style.segVramEnd seg.name) = some e ∧ os.addr + os.size ≤ e) :=
  final_vram_start objs d o vc script hmulti h hall defsyms pre post seg hsplit hinc hcnt
    (by rw [header_once d o vc script hmulti h pre post seg hsplit hinc hothers ha he])

/-- the hypotheses are met: in the example document of `C04Final` the header `.main` is counted once by the formula. -/
example : (C04.exDoc.segments.take 1).all (fun s => segHdrs s c!".main" = 0) = true ∧ c!".main" ∉ C04.exDoc.settings.sectionsAllowlist
    ∧ c!".main" ∉ C04.exDoc.settings.sectionsAllowlistExtra := by decide

end Slinky.C03
