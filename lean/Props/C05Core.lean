/-
  GENERATED-BY-HAND-ONCE from the proofs of the whole-script theorems (the generator was a throw-away script): the same
  proofs with the writer context `cx`, the segment list and the statements `T` that follow the segments left open.
  ``final_group_symbols_partial`` instantiates them for the main script of partial mode (`generatePartial`), whose segment part is `add_segment` in
  the reference-to-partial-object context over the emitted segments with their file lists replaced by the partial object
  (`C04.partialSegments_main`).
-/
import Props.C05Final
import Props.C03Core
namespace Slinky.C05
open Slinky W Ld

/-- `final_group_symbols` for any writer context. -/
theorem group_symbols_core (objs : List InSec) (cx : Ctx) (hsy : cx.emitSecSyms = true) (vc : Bool)
    (segs : List Segment) (ls : List Line) (emitted : List Str) (T : List Line)
    (hsegs : addSegments cx [] segs = .ok (ls, emitted))
    (hall : ∀ s ∈ segs, shouldEmit cx.o s.cond = true → s.allocSections ≠ [])
    (defsyms : List (Str × Nat))
    (pre post : List Segment) (seg : Segment) (hsplit : segs = pre ++ seg :: post)
    (hinc : shouldEmit cx.o seg.cond = true)
    (nl : Bool) (s1 : List Str) (sec : Str) (s2 : List Str)
    (hs : (if nl then seg.noloadSections else seg.allocSections) = s1 ++ sec :: s2)
    (hc1 : assignCount (cx.d.settings.style.secStart seg.name sec) (versionComment vc ++ (beginSections cx ++ ls ++ T)) ≤ 1)
    (hc2 : assignCount (cx.d.settings.style.secEnd seg.name sec) (versionComment vc ++ (beginSections cx ++ ls ++ T)) ≤ 1)
    (hc3 : assignCount (cx.d.settings.style.secSize seg.name sec) (versionComment vc ++ (beginSections cx ++ ls ++ T)) ≤ 1) :
    ∃ s e : Nat, s ≤ e ∧
      (link objs defsyms (versionComment vc ++ (beginSections cx ++ ls ++ T))).sym (cx.d.settings.style.secStart seg.name sec) = some s ∧
      (link objs defsyms (versionComment vc ++ (beginSections cx ++ ls ++ T))).sym (cx.d.settings.style.secEnd seg.name sec) = some e ∧
      (link objs defsyms (versionComment vc ++ (beginSections cx ++ ls ++ T))).sym (cx.d.settings.style.secSize seg.name sec) = some ((e + M32 - s % M32) % M32) := by
  generalize hd : cx.d = d at *
  generalize ho' : cx.o = o at *
  rw [hsplit] at hsegs
  obtain ⟨lsPre, em1, lsSeg, em2, lsPost, hpre, hseg, hpost, rfl⟩ := C03.addSegments_split cx pre seg post [] ls emitted hsegs
  have hallc : ∀ s ∈ pre ++ seg :: post, shouldEmit cx.o s.cond = true → s.allocSections ≠ [] := by
    rw [ho', ← hsplit]; exact hall
  unfold addSegment at hseg
  simp only [ho', hinc, Bool.not_true, Bool.false_eq_true, if_false] at hseg
  split at hseg
  · contradiction
  · rename_i cls em3 hcp
    split at hseg
    · contradiction
    · rename_i alloc halloc
      split at hseg
      · contradiction
      · rename_i noload hnoload
        injection hseg with hseg
        simp only [Prod.mk.injEq] at hseg
        obtain ⟨rfl, rfl⟩ := hseg
        have hcls : ∀ l ∈ cls, OuterLine l ∧ symOf l ≠ some romPos := by
          unfold classPart at hcp
          split at hcp
          · injection hcp with hcp; simp only [Prod.mk.injEq] at hcp; obtain ⟨rfl, _⟩ := hcp
            intro l hl; cases hl
          · split at hcp
            · contradiction
            · rename_i vcl _
              split at hcp
              · injection hcp with hcp; simp only [Prod.mk.injEq] at hcp; obtain ⟨rfl, _⟩ := hcp
                intro l hl; cases hl
              · injection hcp with hcp; simp only [Prod.mk.injEq] at hcp; obtain ⟨rfl, _⟩ := hcp
                exact classIntro_outer cx _ vcl
        obtain ⟨A, emittedG, B, hlines, hem, hreach⟩ := group_in_segment objs cx seg cls alloc noload hcls halloc hnoload nl s1 sec s2 hs
        obtain ⟨a1, a2, a3⟩ := group_assigns cx seg sec emittedG hsy
        rw [hd] at a1 a2 a3
        generalize hG : groupOf cx seg sec emittedG = G at *
        have hform : versionComment vc ++ (beginSections cx ++ (lsPre ++ (segmentLines cx seg cls alloc noload ++ lsPost)) ++ T)
            = versionComment vc ++ (beginSections cx ++ (lsPre ++ (A ++ (G ++ (B ++ (lsPost ++ T)))))) := by
          rw [hlines]; simp [List.append_assoc]
        rw [hform] at hc1 hc2 hc3 ⊢
        have hb0 : ∀ n, assignCount n (versionComment vc) = 0 := fun n => Slinky.C04.assignCount_quiet n _ (Slinky.C04.versionComment_quiet vc)
        simp only [assignCount_append, hb0] at hc1 hc2 hc3
        rw [link_eq]
        generalize carry _ = S0
        rw [execK_append, Slinky.C04.execK_quiet objs _ (Slinky.C04.versionComment_quiet vc)]
        rw [execK_append, execK_append, execK_append, execK_append]
        have hb : ∃ st1, st1 = execK objs { syms := S0 } (beginSections cx) (lsPre ++ (A ++ (G ++ (B ++ (lsPost ++ T)))) ++ []) ∧ Outside st1 ∧
            lookupLast Ld.romPos st1.syms = some (.num 0) := by
          refine ⟨_, rfl, ?_, ?_⟩
          · unfold beginSections
            cases cx.d.settings.hardcodedGpValue <;> simp [execK, step, setSym] <;> exact ⟨rfl, rfl⟩
          · unfold beginSections
            cases cx.d.settings.hardcodedGpValue <;> simp [execK, step, setSym, eval, lookupLast_snoc, lookupLast_snoc2, Ld.romPos]
        obtain ⟨st1, e1, o1, r1⟩ := hb
        rw [← e1]
        obtain ⟨_, st2, r2, e2, o2, hr2, _, _⟩ := C03.segments_vram_end objs cx hsy pre [] lsPre em1 hpre
          (fun s hs => hallc s (List.mem_append_left _ hs)) st1 o1 0 r1 (A ++ (G ++ (B ++ (lsPost ++ T))) ++ [])
        rw [← e2]
        obtain ⟨c, hin⟩ := hreach st2 o2 r2 hr2 (G ++ (B ++ (lsPost ++ T)) ++ [])
        generalize execK objs st2 A _ = st3 at *
        rw [← hG] at *
        obtain ⟨sv, ev, new, st4, e4, f1, f2, f3, f4, _, _, g1, g2, g3, _⟩ :=
          group_image objs cx seg sec hsy emittedG hem c st3 hin (B ++ (lsPost ++ T) ++ [])
        unfold groupOf
        rw [← e4]
        rw [hd] at g1 g2 g3
        refine ⟨sv, ev, f3, ?_, ?_, ?_⟩
        · rw [imageOf_sym, execK_keeps_count objs _ (B ++ (lsPost ++ T)) st4 [] (by simp only [assignCount_append]; omega), g1]; rfl
        · rw [imageOf_sym, execK_keeps_count objs _ (B ++ (lsPost ++ T)) st4 [] (by simp only [assignCount_append]; omega), g2]; rfl
        · rw [imageOf_sym, execK_keeps_count objs _ (B ++ (lsPost ++ T)) st4 [] (by simp only [assignCount_append]; omega), g3]; rfl

end Slinky.C05
