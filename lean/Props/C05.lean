import Props.Lemmas
namespace Slinky.C05
theorem placeholder : True := trivial
end Slinky.C05
