/-
  C05 — linker symbols are complete, named as documented, and mutually consistent.
-/
import Props.Writer
import Props.C03
import Props.ImageGroup
namespace Slinky.C05
open Slinky W

theorem sectionLoop_sub (f : Str → R (List Line)) (l : List Str) (r : List Line)
    (h : sectionLoop f l = .ok r) : ∀ s ∈ l, ∃ rs, f s = .ok rs ∧ ∀ x ∈ rs, x ∈ r := by
  induction l generalizing r with
  | nil => intro s hs; simp at hs
  | cons a as ih =>
    cases as with
    | nil =>
      simp only [sectionLoop] at h
      intro s hs
      simp at hs; subst hs
      exact ⟨r, h, fun x hx => hx⟩
    | cons b bs =>
      simp only [sectionLoop] at h
      split at h
      · contradiction
      · rename_i ra hra
        split at h
        · contradiction
        · rename_i rb hrb
          injection h with h
          subst h
          intro s hs
          rcases List.mem_cons.1 hs with hs | hs
          · subst hs
            exact ⟨ra, hra, fun x hx => by simp [hx]⟩
          · obtain ⟨rs, hfs, hsub⟩ := ih rb hrb s hs
            exact ⟨rs, hfs, fun x hx => by simp [hsub x hx]⟩

/-- **every configured section gets its three symbols**, with `SIZE = ABSOLUTE(END - START)`:
for every section of the list an output section is written for, the script defines the
section's start symbol, end symbol and size symbol (named by the style table). -/
theorem section_symbols_defined (cx : Ctx) (seg : Segment) (secs : List Str) (noload : Bool) (ls : List Line)
    (hs : cx.emitSecSyms = true) (h : writeSegment cx seg secs noload = .ok ls) :
    ∀ sec ∈ secs,
      linkerSym (cx.d.settings.style.secStart seg.name sec) .dot ∈ ls ∧
      linkerSym (cx.d.settings.style.secEnd seg.name sec) .dot ∈ ls ∧
      linkerSym (cx.d.settings.style.secSize seg.name sec)
        (.absSub (cx.d.settings.style.secEnd seg.name sec) (cx.d.settings.style.secStart seg.name sec)) ∈ ls := by
  intro sec hsec
  unfold writeSegment at h
  split at h
  · contradiction
  · rename_i body hbody
    injection h with h
    subst h
    obtain ⟨rs, hrs, hsub⟩ := sectionLoop_sub _ _ _ hbody sec hsec
    split at hrs
    · contradiction
    · rename_i b hb
      injection hrs with hrs
      subst hrs
      have hstart : linkerSym (cx.d.settings.style.secStart seg.name sec) .dot ∈ sectionSymStart cx seg sec := by
        simp [sectionSymStart, hs]
      have hend : linkerSym (cx.d.settings.style.secEnd seg.name sec) .dot ∈ sectionSymEnd cx seg sec := by
        simp [sectionSymEnd, hs, symEndSize]
      have hsize : linkerSym (cx.d.settings.style.secSize seg.name sec)
          (.absSub (cx.d.settings.style.secEnd seg.name sec) (cx.d.settings.style.secStart seg.name sec))
            ∈ sectionSymEnd cx seg sec := by
        simp [sectionSymEnd, hs, symEndSize]
      have h1 := hsub _ (List.mem_append_left _ (List.mem_append_left _ hstart))
      have h2 := hsub _ (List.mem_append_right _ hend)
      have h3 := hsub _ (List.mem_append_right _ hsize)
      refine ⟨?_, ?_, ?_⟩ <;> simp [h1, h2, h3]

/-- **the kind symbols** (`<seg>_alloc_*`, `<seg>_noload_*`) around each of the two parts. -/
theorem kind_symbols_defined (cx : Ctx) (seg : Segment) (secs : List Str) (noload : Bool) (ls : List Line)
    (hk : cx.emitKindSyms = true) (h : writeSegment cx seg secs noload = .ok ls) :
    let st := cx.d.settings.style
    let n := kindName seg noload
    linkerSym (st.segVramStart n) .dot ∈ ls ∧ linkerSym (st.segVramEnd n) .dot ∈ ls ∧
    linkerSym (st.segVramSize n) (.absSub (st.segVramEnd n) (st.segVramStart n)) ∈ ls := by
  obtain ⟨body, hls, _⟩ := writeSegment_shape cx seg secs noload ls h
  subst hls
  simp [segmentStart, kindStart, kindEnd, hk, symEndSize]

/-- **the segment symbols**: ROM start/end/size and VRAM start/end/size of every emitted
segment, each size being `ABSOLUTE(end - start)` of its own family. -/
theorem segment_symbols_defined (cx : Ctx) (seg : Segment) (cls alloc noload : List Line) :
    let st := cx.d.settings.style
    let ls := segmentLines cx seg cls alloc noload
    linkerSym (st.segRomStart seg.name) (.sym c!"__romPos") ∈ ls ∧
    linkerSym (st.segRomEnd seg.name) (.sym c!"__romPos") ∈ ls ∧
    linkerSym (st.segRomSize seg.name) (.absSub (st.segRomEnd seg.name) (st.segRomStart seg.name)) ∈ ls ∧
    linkerSym (st.segVramStart seg.name) (.addr (c!"." ++ seg.name)) ∈ ls ∧
    linkerSym (st.segVramEnd seg.name) .dot ∈ ls ∧
    linkerSym (st.segVramSize seg.name) (.absSub (st.segVramEnd seg.name) (st.segVramStart seg.name)) ∈ ls := by
  simp [C03.segment_statements]

/-- **known finding (KF-C05-kind-start-before-header).** The kind start symbol is written
*before* the output-section header: it is assigned the location counter left by whatever
precedes the segment part, not the start of the part. (Every golden file of the test suite
has this order; see known_findings.json.) -/
theorem kind_start_precedes_header (cx : Ctx) (seg : Segment) (noload : Bool) (hk : cx.emitKindSyms = true) :
    ∃ hdr, segmentStart cx seg noload =
      [linkerSym (cx.d.settings.style.segVramStart (kindName seg noload)) .dot, .blank, hdr, .blockOpen] := by
  cases noload
  · exact ⟨.outHdr (c!"." ++ seg.name) false (segAddr cx seg) (some (cx.d.settings.style.segRomStart seg.name)) seg.subalign,
      by simp [segmentStart, kindStart, hk]⟩
  · exact ⟨.outHdr (c!"." ++ seg.name ++ c!".noload") true none none seg.subalign, by simp [segmentStart, kindStart, hk]⟩

/-! ### the naming table (docs/file_format/settings.md, `linker_symbols_style`) on concrete names -/

example : Style.splat.secStart c!"boot" c!".text" = c!"boot_TEXT_START" := by decide
example : Style.splat.secSize c!"boot" c!".rodata.cst8" = c!"boot_RODATA_CST8_SIZE" := by decide
example : Style.splat.secEnd c!"main" c!"COMMON" = c!"mainCOMMON_END" := by decide
example : Style.makerom.secStart c!"boot" c!".rodata" = c!"_bootSegmentRoDataStart" := by decide
example : Style.makerom.secEnd c!"boot" c!".text" = c!"_bootSegmentTextEnd" := by decide
example : Style.makerom.secSize c!"boot" c!"mysec" = c!"_bootSegmentMysecSize" := by decide
example : Style.splat.segVramStart c!"boot" = c!"boot_VRAM" := by decide
example : Style.makerom.segRomEnd c!"boot" = c!"_bootSegmentRomEnd" := by decide
example : Style.splat.linkerOffset c!"mark" = c!"mark_OFFSET" := by decide
example : Style.makerom.classSize c!"ovl" = c!"_ovlVramClassSize" := by decide
example : Style.splat.segVramStart (kindName { name := c!"boot", files := [], allocSections := [], noloadSections := [] } true)
    = c!"boot_noload_VRAM" := by decide

/-! ### in the linked image (the linker semantics `Slinkyv.Ld`, validated against GNU ld on every linked case) -/

open Ld in
/-- **C05, image clause for one section group**: for every object table and every state of
the link inside an output section, after the group's statements its start symbol `s` and end
symbol `e` satisfy `s ≤ e`, its size symbol is `e - s` (32-bit), and the input sections the
group's statements placed are exactly bracketed: each lies in `[s, e]`, inside the open
output section. -/
theorem image_group_symbols (objs : List InSec) (cx : Ctx) (seg : Segment) (sec : Str) (hsy : cx.emitSecSyms = true)
    (body : List Line) (hb : ∀ l ∈ body, BodyLine cx.d.settings.style seg.wildcardSections l)
    (c : Cur) (st : St) (hin : Inside c st) (k : List Line) :
    ∃ (s e : Nat) (new : List Placed) (st' : St),
      st' = execK objs st (sectionSymStart cx seg sec ++ body ++ sectionSymEnd cx seg sec) k ∧
      lookupLast (cx.d.settings.style.secStart seg.name sec) st'.syms = some (.num s) ∧
      lookupLast (cx.d.settings.style.secEnd seg.name sec) st'.syms = some (.num e) ∧
      lookupLast (cx.d.settings.style.secSize seg.name sec) st'.syms = some (.num ((e + M32 - s % M32) % M32)) ∧
      s ≤ e ∧ st'.placed = st.placed ++ new ∧
      ∀ p ∈ new, s ≤ p.addr ∧ p.addr + p.inp.size ≤ e ∧ p.out = c.name := by
  obtain ⟨s, e, new, st', h0, _, _, h3, _, _, _, h7, h8, h9, h10, h11, _⟩ := group_image objs cx seg sec hsy body hb c st hin k
  exact ⟨s, e, new, st', h0, h7, h8, h9, h3, h10, chainOk_mem _ _ _ _ h11⟩

/-- the size symbol is the plain difference whenever the group is smaller than 4 GiB. -/
theorem size_is_difference (s e : Nat) (h : s ≤ e) (he : e < Ld.M32) : (e + Ld.M32 - s % Ld.M32) % Ld.M32 = e - s := by
  unfold Ld.M32 at *
  omega

end Slinky.C05
