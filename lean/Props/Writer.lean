/-
  Structural lemmas about the writer model: which kinds of lines each layer can emit.
  (Helper lemmas; the headline theorems that use them live in the Cxx files.)
-/
import Props.Lemmas
namespace Slinky
namespace W

theorem concatMapE_mem {α β ε} (f : α → Except ε (List β)) (l : List α) (r : List β)
    (h : concatMapE f l = .ok r) : ∀ x ∈ r, ∃ a ∈ l, ∃ ra, f a = .ok ra ∧ x ∈ ra := by
  induction l generalizing r with
  | nil => simp [concatMapE] at h; subst h; simp
  | cons a as ih =>
    unfold concatMapE at h
    split at h
    · contradiction
    · rename_i ra hra
      split at h
      · contradiction
      · rename_i rb hrb
        injection h with h
        subst h
        intro x hx
        rcases List.mem_append.1 hx with hx | hx
        · exact ⟨a, List.mem_cons_self, ra, hra, hx⟩
        · obtain ⟨a', ha', ra', hra', hx'⟩ := ih rb hrb x hx
          exact ⟨a', List.mem_cons_of_mem _ ha', ra', hra', hx'⟩

/-- a generated symbol never ends in `s` (so it is none of the helper names `__romPos`, …). -/
def endsOk (s : Str) : Prop := s.getLast? ≠ some 's' ∧ s.getLast? ≠ some '.'

theorem endsOk_append (a suf : Str) (c : Char) (hs : suf.getLast? = some c) (hc : c ≠ 's') (hd : c ≠ '.') : endsOk (a ++ suf) := by
  unfold endsOk
  rw [List.getLast?_append, hs]
  simp [hc, hd]

theorem endsOk_ne (s t : Str) (h : endsOk s) (ht : t.getLast? = some 's') : s ≠ t := by
  intro he; subst he; exact h.1 ht

/-- in particular a generated symbol is never the location counter. -/
theorem endsOk_ne_dot (s : Str) (h : endsOk s) : s ≠ c!"." := by
  intro he; subst he; exact h.2 (by decide)

theorem linkerOffset_ok (st : Style) (n : Str) : endsOk (st.linkerOffset n) := by
  cases st
  · exact endsOk_append _ _ 'T' (by decide) (by decide) (by decide)
  · exact endsOk_append _ _ 't' (by decide) (by decide) (by decide)

theorem secStart_ok (st : Style) (n sec : Str) : endsOk (st.secStart n sec) := by
  cases st
  · exact endsOk_append _ _ 'T' (by decide) (by decide) (by decide)
  · exact endsOk_append _ _ 't' (by decide) (by decide) (by decide)

theorem secEnd_ok (st : Style) (n sec : Str) : endsOk (st.secEnd n sec) := by
  cases st
  · exact endsOk_append _ _ 'D' (by decide) (by decide) (by decide)
  · exact endsOk_append _ _ 'd' (by decide) (by decide) (by decide)

theorem secSize_ok (st : Style) (n sec : Str) : endsOk (st.secSize n sec) := by
  cases st
  · exact endsOk_append _ _ 'E' (by decide) (by decide) (by decide)
  · exact endsOk_append _ _ 'e' (by decide) (by decide) (by decide)

theorem segVramStart_ok (st : Style) (n : Str) : endsOk (st.segVramStart n) := by
  cases st
  · exact endsOk_append _ _ 'M' (by decide) (by decide) (by decide)
  · exact endsOk_append _ _ 't' (by decide) (by decide) (by decide)

theorem segVramEnd_ok (st : Style) (n : Str) : endsOk (st.segVramEnd n) := by
  cases st
  · exact endsOk_append _ _ 'D' (by decide) (by decide) (by decide)
  · exact endsOk_append _ _ 'd' (by decide) (by decide) (by decide)

theorem segVramSize_ok (st : Style) (n : Str) : endsOk (st.segVramSize n) := by
  cases st
  · exact endsOk_append _ _ 'E' (by decide) (by decide) (by decide)
  · exact endsOk_append _ _ 'e' (by decide) (by decide) (by decide)

theorem segRomStart_ok (st : Style) (n : Str) : endsOk (st.segRomStart n) := by
  cases st
  · exact endsOk_append _ _ 'T' (by decide) (by decide) (by decide)
  · exact endsOk_append _ _ 't' (by decide) (by decide) (by decide)

theorem segRomEnd_ok (st : Style) (n : Str) : endsOk (st.segRomEnd n) := by
  cases st
  · exact endsOk_append _ _ 'D' (by decide) (by decide) (by decide)
  · exact endsOk_append _ _ 'd' (by decide) (by decide) (by decide)

theorem segRomSize_ok (st : Style) (n : Str) : endsOk (st.segRomSize n) := by
  cases st
  · exact endsOk_append _ _ 'E' (by decide) (by decide) (by decide)
  · exact endsOk_append _ _ 'e' (by decide) (by decide) (by decide)

theorem classStart_ok (st : Style) (n : Str) : endsOk (st.classStart n) := by
  cases st
  · exact endsOk_append _ _ 'T' (by decide) (by decide) (by decide)
  · exact endsOk_append _ _ 't' (by decide) (by decide) (by decide)

theorem classEnd_ok (st : Style) (n : Str) : endsOk (st.classEnd n) := by
  cases st
  · exact endsOk_append _ _ 'D' (by decide) (by decide) (by decide)
  · exact endsOk_append _ _ 'd' (by decide) (by decide) (by decide)

theorem classSize_ok (st : Style) (n : Str) : endsOk (st.classSize n) := by
  cases st
  · exact endsOk_append _ _ 'E' (by decide) (by decide) (by decide)
  · exact endsOk_append _ _ 'e' (by decide) (by decide) (by decide)

/-- the only lines the per-file emitter can produce: an input statement (with the segment's
wildcard flag), a pad `. += 0x…`, or a linker-offset symbol `<name>_OFFSET = .`. -/
inductive BodyLine (st : Style) (wild : Bool) : Line → Prop
  | input (k : Bool) (p : Str) (m : Option Str) (s : Str) : BodyLine st wild (.input k p m s wild)
  | pad (n : Nat) : BodyLine st wild (.addAssign c!"." (.hex n))
  | offset (nm : Str) : BodyLine st wild (linkerSym (st.linkerOffset nm) .dot)

theorem emitEntry_body (cx : Ctx) (seg : Segment) (secs : List Str) :
    ∀ (fuel : Nat) (f : FileInfo) (sec base : Str) (parents : List Str) (ls : List Line),
      emitEntry cx seg secs fuel f sec base parents = .ok ls →
      ∀ l ∈ ls, BodyLine cx.d.settings.style seg.wildcardSections l := by
  intro fuel
  induction fuel with
  | zero => intro f sec base parents ls h; simp [emitEntry] at h
  | succ n ih =>
    intro f sec base parents ls h l hl
    unfold emitEntry at h
    split at h
    · injection h with h; subst h; simp at hl
    · split at h
      · contradiction
      · obtain ⟨k, _, rk, hk, hlk⟩ := concatMapE_mem _ _ _ h l hl
        -- body of one `k`
        simp only at hk
        split at hk
        · contradiction
        · rename_i a ha
          split at hk
          · contradiction
          · rename_i b hb
            injection hk with hk
            subst hk
            rcases List.mem_append.1 hlk with hla | hlb
            · -- from emit_file
              repeat' (first | contradiction | split at ha)
              all_goals first
                | (obtain ⟨child, _, rc, hc, hlc⟩ := concatMapE_mem _ _ _ ha l hla
                   exact ih _ _ _ _ _ hc l hlc)
                | (injection ha with ha; subst ha; simp at hla; done)
                | (injection ha with ha; subst ha; simp at hla; subst hla
                   first | exact .input _ _ _ _ | exact .pad _ | exact .offset _)
            · split at hb
              · injection hb with hb; subst hb; simp at hlb
              · obtain ⟨other, _, ro, ho, hlo⟩ := concatMapE_mem _ _ _ hb l hlb
                exact ih _ _ _ _ _ ho l hlo


theorem emitSection_body (cx : Ctx) (seg : Segment) (sec : Str) (secs : List Str) (ls : List Line)
    (h : emitSection cx seg sec secs = .ok ls) :
    ∀ l ∈ ls, BodyLine cx.d.settings.style seg.wildcardSections l := by
  unfold emitSection at h
  repeat' (first | contradiction | split at h)
  all_goals
    intro l hl
    obtain ⟨file, _, rf, hf, hlf⟩ := concatMapE_mem _ _ _ h l hl
    exact emitEntry_body cx seg secs _ _ _ _ _ _ hf l hlf

/-- lines that may appear between the braces of an output section of a segment (multi-segment
layout), or around them in the single-segment layout. -/
inductive InnerLine (st : Style) (wild : Bool) : Line → Prop
  | body {l : Line} (h : BodyLine st wild l) : InnerLine st wild l
  | blank : InnerLine st wild .blank
  | alignDot (a : Nat) : InnerLine st wild (alignSymbol c!"." a)
  | gp (off : Str) (p h : Bool) : InnerLine st wild (.assign c!"_gp" (.dotPlus off) p h false)
  | symDot (s : Str) (hs : endsOk s) : InnerLine st wild (linkerSym s .dot)
  | symSize (s a b : Str) (hs : endsOk s) : InnerLine st wild (linkerSym s (.absSub a b))

theorem sectionSymStart_inner (cx : Ctx) (seg : Segment) (sec : Str) :
    ∀ l ∈ sectionSymStart cx seg sec, InnerLine cx.d.settings.style seg.wildcardSections l := by
  intro l hl
  unfold sectionSymStart at hl
  split at hl
  · simp only [List.mem_append, List.mem_cons, List.mem_nil_iff, or_false] at hl
    rcases hl with ((hl | hl) | hl) | hl
    · split at hl <;> simp at hl
      subst hl; exact .alignDot _
    · split at hl <;> simp at hl
      subst hl; exact .alignDot _
    · unfold gpLine at hl
      split at hl
      · simp at hl
      · split at hl <;> simp at hl
        subst hl; exact .gp _ _ _
    · subst hl; exact .symDot _ (secStart_ok _ _ _)
  · simp at hl

theorem sectionSymEnd_inner (cx : Ctx) (seg : Segment) (sec : Str) :
    ∀ l ∈ sectionSymEnd cx seg sec, InnerLine cx.d.settings.style seg.wildcardSections l := by
  intro l hl
  unfold sectionSymEnd at hl
  split at hl
  · simp only [List.mem_append, List.mem_cons, List.mem_nil_iff, or_false, symEndSize] at hl
    rcases hl with (hl | hl) | hl
    · split at hl <;> simp at hl
      subst hl; exact .alignDot _
    · split at hl <;> simp at hl
      subst hl; exact .alignDot _
    · rcases hl with hl | hl
      · subst hl; exact .symDot _ (secEnd_ok _ _ _)
      · subst hl; exact .symSize _ _ _ (secSize_ok _ _ _)
  · simp at hl

theorem sectionLoop_mem (f : Str → R (List Line)) (l : List Str) (r : List Line)
    (h : sectionLoop f l = .ok r) : ∀ x ∈ r, x = .blank ∨ ∃ s ∈ l, ∃ rs, f s = .ok rs ∧ x ∈ rs := by
  induction l generalizing r with
  | nil => simp [sectionLoop] at h; subst h; simp
  | cons a as ih =>
    cases as with
    | nil =>
      simp only [sectionLoop] at h
      intro x hx
      exact Or.inr ⟨a, List.mem_cons_self, r, h, hx⟩
    | cons b bs =>
      simp only [sectionLoop] at h
      split at h
      · contradiction
      · rename_i ra hra
        split at h
        · contradiction
        · rename_i rb hrb
          injection h with h
          subst h
          intro x hx
          simp only [List.mem_append, List.mem_cons, List.mem_nil_iff, or_false] at hx
          rcases hx with (hx | hx) | hx
          · exact Or.inr ⟨a, List.mem_cons_self, ra, hra, hx⟩
          · exact Or.inl hx
          · rcases ih rb hrb x hx with h1 | ⟨s, hs, rs, hfs, hxs⟩
            · exact Or.inl h1
            · exact Or.inr ⟨s, List.mem_cons_of_mem _ hs, rs, hfs, hxs⟩

/-- **shape of one output section of a segment** (multi-segment and main partial scripts):
kind start symbol, header, `{`, optional `FILL`, inner lines, `}`, kind end symbols. -/
theorem writeSegment_shape (cx : Ctx) (seg : Segment) (secs : List Str) (noload : Bool) (ls : List Line)
    (h : writeSegment cx seg secs noload = .ok ls) :
    ∃ body, ls = segmentStart cx seg noload
        ++ (match seg.fillValue with | some v => [.fill v] | none => [])
        ++ body ++ [.blockClose] ++ kindEnd cx seg noload ∧
      ∀ l ∈ body, InnerLine cx.d.settings.style seg.wildcardSections l := by
  unfold writeSegment at h
  split at h
  · contradiction
  · rename_i body hbody
    injection h with h
    refine ⟨body, h.symm, ?_⟩
    intro l hl
    rcases sectionLoop_mem _ _ _ hbody l hl with h1 | ⟨s, _, rs, hrs, hls⟩
    · subst h1; exact .blank
    · split at hrs
      · contradiction
      · rename_i b hb
        injection hrs with hrs
        subst hrs
        simp only [List.mem_append] at hls
        rcases hls with (hls | hls) | hls
        · exact sectionSymStart_inner cx seg s l hls
        · exact .body (emitSection_body cx seg s secs b hb l hls)
        · exact sectionSymEnd_inner cx seg s l hls

end W
end Slinky
