/-
  Props.ImageGroup — the linker semantics applied to what the writer emits for one section
  group (`write_section_symbol_start`, the per-file statements, `write_section_symbol_end`):
  start/end/size symbols, alignment, and the placed input sections, for every object table and
  every state of the link in which the group's output section is open.
-/
import Props.Image
namespace Slinky
namespace Ld
open W

def alignOpt (o : Option Nat) : List Line :=
  match o with
  | some a => [alignSymbol c!"." a]
  | none => []

/-- the value of `ALIGN(x, a)` for an optional request. -/
def alignO (o : Option Nat) (x : Nat) : Nat :=
  match o with
  | some a => Ld.alignUp x a
  | none => x

theorem groupStart_eq (cx : Ctx) (seg : Segment) (sec : Str) (h : cx.emitSecSyms = true) :
    sectionSymStart cx seg sec =
      alignOpt seg.sectionStartAlign ++ alignOpt (lookup sec seg.sectionsStartAlignment) ++ gpLine cx seg sec
      ++ [linkerSym (cx.d.settings.style.secStart seg.name sec) .dot] := by
  cases h1 : seg.sectionStartAlign <;> cases h2 : lookup sec seg.sectionsStartAlignment <;>
    simp [sectionSymStart, h, h1, h2, alignOpt]

theorem groupEnd_eq (cx : Ctx) (seg : Segment) (sec : Str) (h : cx.emitSecSyms = true) :
    sectionSymEnd cx seg sec =
      alignOpt seg.sectionEndAlign ++ alignOpt (lookup sec seg.sectionsEndAlignment)
      ++ [linkerSym (cx.d.settings.style.secEnd seg.name sec) .dot,
          linkerSym (cx.d.settings.style.secSize seg.name sec)
            (.absSub (cx.d.settings.style.secEnd seg.name sec) (cx.d.settings.style.secStart seg.name sec))] := by
  cases h1 : seg.sectionEndAlign <;> cases h2 : lookup sec seg.sectionsEndAlignment <;>
    simp [sectionSymEnd, h, symEndSize, h1, h2, alignOpt]

theorem alignOpt_inner (sty : Style) (wild : Bool) (o : Option Nat) : ∀ l ∈ alignOpt o, InnerLine sty wild l := by
  intro l hl; cases o <;> simp [alignOpt] at hl; subst hl; exact .alignDot _

theorem alignOpt_noinput (o : Option Nat) : ∀ l ∈ alignOpt o, isInput l = false := by
  intro l hl; cases o <;> simp [alignOpt] at hl; subst hl; rfl

theorem alignOpt_symOf (o : Option Nat) (n : Str) : ∀ l ∈ alignOpt o, symOf l ≠ some n := by
  intro l hl; cases o <;> simp [alignOpt] at hl; subst hl; simp [symOf, alignSymbol]

theorem gpLine_inner (cx : Ctx) (seg : Segment) (sec : Str) :
    ∀ l ∈ gpLine cx seg sec, InnerLine cx.d.settings.style seg.wildcardSections l ∧ isInput l = false := by
  intro l hl
  unfold gpLine at hl
  split at hl
  · simp at hl
  · split at hl <;> simp at hl
    subst hl; exact ⟨.gp _ _ _, rfl⟩

/-- one `. = ALIGN(., a);` (or none) inside an output section. -/
theorem alignOpt_dot (objs : List InSec) (o : Option Nat) (c : Cur) (st : St) (hin : Inside c st) (k : List Line) :
    Inside c (execK objs st (alignOpt o) k) ∧
    (execK objs st (alignOpt o) k).dot = c.addr + alignO o (st.dot - c.addr) := by
  cases o with
  | none =>
    simp only [alignOpt, execK, alignO]
    exact ⟨hin, by have := hin.le; omega⟩
  | some a =>
    have hs : step objs st (alignSymbol c!"." a) ([] ++ k) = { st with dot := c.addr + Ld.alignUp (st.dot - c.addr) a } := by
      unfold alignSymbol; simp [step, hin.nd, eval, base, relDot, hin.cur]
    simp only [alignOpt, execK, alignO, hs]
    exact ⟨⟨hin.cur, by simp, hin.nd⟩, trivial⟩

/-- the `_gp` line (or none) does not move the location counter. -/
theorem gpLine_dot (objs : List InSec) (cx : Ctx) (seg : Segment) (sec : Str) (c : Cur) (st : St) (hin : Inside c st) (k : List Line) :
    (execK objs st (gpLine cx seg sec) k).dot = st.dot := by
  unfold gpLine
  split
  · rfl
  · split
    · simp only [execK]
      rw [step_assign_sym objs st _ _ _ _ _ _ gp_ne_dot hin.nd]
    · rfl

/-- the location counter, relative to the start of the output section, after both requested
alignments: the second one always holds, the first one too when one divides the other. -/
theorem two_aligns_dot (objs : List InSec) (o₁ o₂ : Option Nat) (c : Cur) (st : St) (hin : Inside c st) (k : List Line) :
    Inside c (execK objs st (alignOpt o₁ ++ alignOpt o₂) k) ∧
    (execK objs st (alignOpt o₁ ++ alignOpt o₂) k).dot = c.addr + alignO o₂ (alignO o₁ (st.dot - c.addr)) := by
  rw [execK_append]
  obtain ⟨i1, d1⟩ := alignOpt_dot objs o₁ c st hin (alignOpt o₂ ++ k)
  obtain ⟨i2, d2⟩ := alignOpt_dot objs o₂ c _ i1 k
  refine ⟨i2, ?_⟩
  rw [d2, d1]
  congr 2
  omega

/-- **one section group in the linked image.** For every object table, every state of the
link inside an output section `c`, and whatever follows: after the group's statements

* its start symbol holds the location counter after both start alignments (`s`), its end
  symbol the location counter after both end alignments (`e`), `s ≤ e`, and its size symbol
  `e - s` (as a 32-bit value);
* the input sections placed by the group's statements lie between `s` and `e`, in the order
  of the statements, without overlap, all in `c`;
* no output section was closed and `c` is still open. -/
theorem group_image (objs : List InSec) (cx : Ctx) (seg : Segment) (sec : Str) (hsy : cx.emitSecSyms = true)
    (body : List Line) (hb : ∀ l ∈ body, BodyLine cx.d.settings.style seg.wildcardSections l)
    (c : Cur) (st : St) (hin : Inside c st) (k : List Line) :
    ∃ (s e : Nat) (new : List Placed) (st' : St),
      st' = execK objs st (sectionSymStart cx seg sec ++ body ++ sectionSymEnd cx seg sec) k ∧
      s = c.addr + alignO (lookup sec seg.sectionsStartAlignment) (alignO seg.sectionStartAlign (st.dot - c.addr)) ∧
      st.dot ≤ s ∧ s ≤ e ∧ e = st'.dot ∧ Inside c st' ∧ st'.secs = st.secs ∧
      lookupLast (cx.d.settings.style.secStart seg.name sec) st'.syms = some (.num s) ∧
      lookupLast (cx.d.settings.style.secEnd seg.name sec) st'.syms = some (.num e) ∧
      lookupLast (cx.d.settings.style.secSize seg.name sec) st'.syms = some (.num ((e + M32 - s % M32) % M32)) ∧
      st'.placed = st.placed ++ new ∧ chainOk c.name s new e ∧ alignedAll c.subalign new ∧
      (∃ m, s ≤ m ∧ e = c.addr + alignO (lookup sec seg.sectionsEndAlignment) (alignO seg.sectionEndAlign (m - c.addr))) := by
  generalize hsty : cx.d.settings.style = sty at *
  have hshape : sectionSymStart cx seg sec ++ body ++ sectionSymEnd cx seg sec
      = (alignOpt seg.sectionStartAlign ++ alignOpt (lookup sec seg.sectionsStartAlignment) ++ gpLine cx seg sec)
        ++ [linkerSym (sty.secStart seg.name sec) .dot] ++ body
        ++ (alignOpt seg.sectionEndAlign ++ alignOpt (lookup sec seg.sectionsEndAlignment))
        ++ [linkerSym (sty.secEnd seg.name sec) .dot,
            linkerSym (sty.secSize seg.name sec) (.absSub (sty.secEnd seg.name sec) (sty.secStart seg.name sec))] := by
    rw [groupStart_eq cx seg sec hsy, groupEnd_eq cx seg sec hsy]
    simp only [List.append_assoc, hsty]
  have hP : ∀ l ∈ alignOpt seg.sectionStartAlign ++ alignOpt (lookup sec seg.sectionsStartAlignment) ++ gpLine cx seg sec,
      InnerLine sty seg.wildcardSections l ∧ isInput l = false := by
    intro l hl
    rcases List.mem_append.1 hl with hl | hl
    · rcases List.mem_append.1 hl with hl | hl
      · exact ⟨alignOpt_inner _ _ _ l hl, alignOpt_noinput _ l hl⟩
      · exact ⟨alignOpt_inner _ _ _ l hl, alignOpt_noinput _ l hl⟩
    · exact hsty ▸ gpLine_inner cx seg sec l hl
  have hQ : ∀ l ∈ alignOpt seg.sectionEndAlign ++ alignOpt (lookup sec seg.sectionsEndAlignment),
      InnerLine sty seg.wildcardSections l ∧ isInput l = false ∧ symOf l ≠ some (sty.secStart seg.name sec) := by
    intro l hl
    rcases List.mem_append.1 hl with hl | hl
    · exact ⟨alignOpt_inner _ _ _ l hl, alignOpt_noinput _ l hl, alignOpt_symOf _ _ l hl⟩
    · exact ⟨alignOpt_inner _ _ _ l hl, alignOpt_noinput _ l hl, alignOpt_symOf _ _ l hl⟩
  obtain ⟨s, e, new, st', hst', h1, h2, h3, h4, h5, hs, h6, h7, h8, h9, h10, h11, mid, hmid, hsm, hem⟩ :=
    bracket_run objs sty seg.wildcardSections c _ body _ (sty.secStart seg.name sec) (sty.secEnd seg.name sec) (sty.secSize seg.name sec)
      (fun l hl => (hP l hl).1) (fun l hl => (hP l hl).2)
      (fun l hl => .body (hb l hl)) (fun l hl => (body_symOf sty _ l (hb l hl) seg.name sec).1)
      (fun l hl => (hQ l hl).1) (fun l hl => (hQ l hl).2.1) (fun l hl => (hQ l hl).2.2)
      (endsOk_ne_dot _ (secStart_ok _ _ _)) (endsOk_ne_dot _ (secEnd_ok _ _ _)) (endsOk_ne_dot _ (secSize_ok _ _ _))
      (secStart_ne_secEnd _ _ _ _ _) (secStart_ne_secSize _ _ _ _ _) (secEnd_ne_secSize _ _ _ _ _)
      st hin k
  refine ⟨s, e, new, st', by rw [hst', hshape], ?_, h1, h2, h3, h4, h5, h6, h7, h8, h9, h10, h11, mid.dot, hsm, ?_⟩
  · rw [hs, execK_append]
    obtain ⟨i2, d2⟩ := two_aligns_dot objs seg.sectionStartAlign (lookup sec seg.sectionsStartAlignment) c st hin
      (gpLine cx seg sec ++ ([linkerSym (sty.secStart seg.name sec) .dot] ++ body
        ++ (alignOpt seg.sectionEndAlign ++ alignOpt (lookup sec seg.sectionsEndAlignment))
        ++ [linkerSym (sty.secEnd seg.name sec) .dot,
            linkerSym (sty.secSize seg.name sec) (.absSub (sty.secEnd seg.name sec) (sty.secStart seg.name sec))] ++ k))
    rw [gpLine_dot objs cx seg sec c _ i2, d2]
  · rw [hem]
    exact (two_aligns_dot objs _ _ c mid hmid _).2

/-! ### `_gp` -/

theorem last2_gp : last2 c!"_gp" = ['p', 'g'] := by decide

theorem inner_after_gp_symOf (cx : Ctx) (seg : Segment) (sec : Str) (hsy : cx.emitSecSyms = true) (body : List Line)
    (hb : ∀ l ∈ body, BodyLine cx.d.settings.style seg.wildcardSections l) :
    ∀ l ∈ [linkerSym (cx.d.settings.style.secStart seg.name sec) .dot] ++ body ++ sectionSymEnd cx seg sec,
      InnerLine cx.d.settings.style seg.wildcardSections l ∧ symOf l ≠ some c!"_gp" := by
  intro l hl
  have gpne : ∀ s : Str, last2 s ≠ ['p', 'g'] → s ≠ c!"_gp" := fun s h e => h (by rw [e]; decide)
  rcases List.mem_append.1 hl with hl | hl
  · rcases List.mem_append.1 hl with hl | hl
    · simp only [List.mem_cons, List.mem_nil_iff, or_false] at hl
      subst hl
      refine ⟨.symDot _ (secStart_ok _ _ _), ?_⟩
      have := gpne _ (by rw [last2_secStart]; cases cx.d.settings.style <;> decide : last2 (cx.d.settings.style.secStart seg.name sec) ≠ ['p', 'g'])
      simp [symOf, linkerSym, endsOk_ne_dot _ (secStart_ok cx.d.settings.style seg.name sec), this]
    · refine ⟨.body (hb l hl), ?_⟩
      cases hb l hl with
      | input k p m s => simp [symOf]
      | pad n => simp [symOf]
      | offset nm =>
        have := gpne _ (by rw [last2_linkerOffset]; cases cx.d.settings.style <;> decide : last2 (cx.d.settings.style.linkerOffset nm) ≠ ['p', 'g'])
        simp [symOf, linkerSym, endsOk_ne_dot _ (linkerOffset_ok cx.d.settings.style nm), this]
  · refine ⟨sectionSymEnd_inner cx seg sec l hl, ?_⟩
    rw [groupEnd_eq cx seg sec hsy] at hl
    rcases List.mem_append.1 hl with hl | hl
    · rcases List.mem_append.1 hl with hl | hl
      · exact alignOpt_symOf _ _ l hl
      · exact alignOpt_symOf _ _ l hl
    · simp only [List.mem_cons, List.mem_nil_iff, or_false] at hl
      rcases hl with rfl | rfl
      · have := gpne _ (by rw [last2_secEnd]; cases cx.d.settings.style <;> decide : last2 (cx.d.settings.style.secEnd seg.name sec) ≠ ['p', 'g'])
        simp [symOf, linkerSym, endsOk_ne_dot _ (secEnd_ok cx.d.settings.style seg.name sec), this]
      · have := gpne _ (by rw [last2_secSize]; cases cx.d.settings.style <;> decide : last2 (cx.d.settings.style.secSize seg.name sec) ≠ ['p', 'g'])
        simp [symOf, linkerSym, endsOk_ne_dot _ (secSize_ok cx.d.settings.style seg.name sec), this]

/-- **`_gp` in the linked image**: when the segment's `gp_info` is included and names this
section, `_gp` holds — behind the group's statements — the start of the group (the location
counter after both start alignments, which is also the value of the group's start symbol)
plus the offset, as a 32-bit value. -/
theorem group_gp_image (objs : List InSec) (cx : Ctx) (seg : Segment) (sec : Str) (hsy : cx.emitSecSyms = true)
    (body : List Line) (hb : ∀ l ∈ body, BodyLine cx.d.settings.style seg.wildcardSections l)
    (gp : GpInfo) (hgp : seg.gpInfo = some gp) (hem : shouldEmit cx.o gp.cond = true) (hsec : gp.sect = sec)
    (off : Nat) (hoff : parseHex (toHexI32 gp.offset) = some off)
    (c : Cur) (st : St) (hin : Inside c st) (k : List Line) :
    let s := c.addr + alignO (lookup sec seg.sectionsStartAlignment) (alignO seg.sectionStartAlign (st.dot - c.addr))
    lookupLast c!"_gp" (execK objs st (sectionSymStart cx seg sec ++ body ++ sectionSymEnd cx seg sec) k).syms
      = some (.num ((s + off) % M32)) := by
  intro s
  rw [groupStart_eq cx seg sec hsy]
  have hgl : gpLine cx seg sec = [.assign c!"_gp" (.dotPlus (toHexI32 gp.offset)) gp.provide gp.hidden false] := by
    unfold gpLine; rw [hgp]; simp [hem, hsec]
  rw [hgl]
  have hre : alignOpt seg.sectionStartAlign ++ alignOpt (lookup sec seg.sectionsStartAlignment)
      ++ [Line.assign c!"_gp" (.dotPlus (toHexI32 gp.offset)) gp.provide gp.hidden false]
      ++ [linkerSym (cx.d.settings.style.secStart seg.name sec) .dot] ++ body ++ sectionSymEnd cx seg sec
      = (alignOpt seg.sectionStartAlign ++ alignOpt (lookup sec seg.sectionsStartAlignment))
        ++ ([Line.assign c!"_gp" (.dotPlus (toHexI32 gp.offset)) gp.provide gp.hidden false]
        ++ ([linkerSym (cx.d.settings.style.secStart seg.name sec) .dot] ++ body ++ sectionSymEnd cx seg sec)) := by
    simp only [List.append_assoc]
  rw [hre, execK_append, execK_append]
  obtain ⟨i2, d2⟩ := two_aligns_dot objs seg.sectionStartAlign (lookup sec seg.sectionsStartAlignment) c st hin
    ([Line.assign c!"_gp" (.dotPlus (toHexI32 gp.offset)) gp.provide gp.hidden false]
        ++ ([linkerSym (cx.d.settings.style.secStart seg.name sec) .dot] ++ body ++ sectionSymEnd cx seg sec) ++ k)
  generalize execK objs st (alignOpt seg.sectionStartAlign ++ alignOpt (lookup sec seg.sectionsStartAlignment)) _ = st1 at *
  have e1 : execK objs st1 [Line.assign c!"_gp" (.dotPlus (toHexI32 gp.offset)) gp.provide gp.hidden false]
      (([linkerSym (cx.d.settings.style.secStart seg.name sec) .dot] ++ body ++ sectionSymEnd cx seg sec) ++ k)
      = { st1 with syms := st1.syms ++ [(c!"_gp", Val.num ((st1.dot + off) % M32))] } := by
    simp only [execK, List.nil_append]
    rw [step_assign_sym objs st1 _ _ _ _ _ _ gp_ne_dot i2.nd]
    simp [eval, hoff]
  rw [e1]
  have hall := inner_after_gp_symOf cx seg sec hsy body hb
  rw [run_inner_keeps objs cx.d.settings.style seg.wildcardSections c c!"_gp" _ (fun l hl => (hall l hl).1)
    (fun l hl => (hall l hl).2) { st1 with syms := st1.syms ++ [(c!"_gp", Val.num ((st1.dot + off) % M32))] }
    ⟨i2.cur, i2.le, i2.nd⟩ k]
  simp [lookupLast_snoc, d2, s]

end Ld
end Slinky
