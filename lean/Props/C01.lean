/-
  C01 — every listed input section is placed exactly once; nothing unlisted is placed.
  C02 (order) and C11 (partial linking) reuse the lemmas of this file.
-/
import Props.Writer
import Props.ImageSegment
namespace Slinky.C01
open Slinky W

theorem shouldEmit_empty (o : Opts) : shouldEmit o {} = true := by
  simp [shouldEmit]

theorem concatMapE_singleton {α β ε} (f : α → Except ε (List β)) (a : α) :
    concatMapE f [a] = (match f a with | .ok x => .ok x | .error e => .error e) := by
  unfold concatMapE
  cases f a with
  | error e => rfl
  | ok x => simp [concatMapE]

/-- **a plain object entry, one section, one statement.** An included object entry without
`section_order`, asked for a section that has no sub-groups (or in the main script of partial
mode, which never expands sub-groups), contributes exactly one input statement: its own path
under the current base directory, that section, `KEEP` per its effective `keep_sections`. -/
theorem object_placed_once (cx : Ctx) (seg : Segment) (secs : List Str) (n : Nat)
    (p : Str) (c : Cond) (keep : Keep) (sec base : Str) (parents : List Str) (q : Str)
    (hinc : shouldEmit cx.o c = true) (hnp : sec ∉ parents) (hesc : cx.esc cx.o p = .ok q)
    (hsub : cx.refPartial = true ∨ subgroupsOf seg sec = []) :
    emitEntry cx seg secs (n + 1) (.mk p .object [] 0 [] [] [] [] [] c keep) sec base parents
      = .ok [.input (keepFor keep sec) (display (pathPush base q)) none sec seg.wildcardSections] := by
  unfold emitEntry
  simp only [FileInfo.cond, FileInfo.sectionOrder, FileInfo.kind, FileInfo.path, FileInfo.keep, hinc,
    Bool.not_true, Bool.false_eq_true, if_false, hnp, sectionsToEmitHere, List.isEmpty_nil, if_true]
  rw [concatMapE_singleton]
  simp only [hesc, liftPath]
  rcases hsub with h | h
  · simp [h]
  · simp [h, concatMapE]

/-- the same for an archive entry: `path:subfile(section)`. -/
theorem archive_placed_once (cx : Ctx) (seg : Segment) (secs : List Str) (n : Nat)
    (p sf : Str) (c : Cond) (keep : Keep) (sec base : Str) (parents : List Str) (q : Str)
    (hinc : shouldEmit cx.o c = true) (hnp : sec ∉ parents) (hesc : cx.esc cx.o p = .ok q)
    (hsub : cx.refPartial = true ∨ subgroupsOf seg sec = []) :
    emitEntry cx seg secs (n + 1) (.mk p .archive sf 0 [] [] [] [] [] c keep) sec base parents
      = .ok [.input (keepFor keep sec) (display (pathPush base q)) (some sf) sec seg.wildcardSections] := by
  unfold emitEntry
  simp only [FileInfo.cond, FileInfo.sectionOrder, FileInfo.kind, FileInfo.path, FileInfo.keep, FileInfo.subfile, hinc,
    Bool.not_true, Bool.false_eq_true, if_false, hnp, sectionsToEmitHere, List.isEmpty_nil, if_true]
  rw [concatMapE_singleton]
  simp only [hesc, liftPath]
  rcases hsub with h | h
  · simp [h]
  · simp [h, concatMapE]

/-- **pads and linker offsets sit only in their own section**: one statement when asked for
their section, nothing for any other section (sub-groups aside). -/
theorem pad_only_in_its_section (cx : Ctx) (seg : Segment) (secs : List Str) (n : Nat)
    (amount : Nat) (own : Str) (c : Cond) (keep : Keep) (sec base : Str) (parents : List Str)
    (hinc : shouldEmit cx.o c = true) (hnp : sec ∉ parents)
    (hsub : cx.refPartial = true ∨ subgroupsOf seg sec = []) :
    emitEntry cx seg secs (n + 1) (.mk [] .pad [] amount own [] [] [] [] c keep) sec base parents
      = .ok (if own = sec then [.addAssign c!"." (.hex amount)] else []) := by
  rw [emitEntry]
  simp only [FileInfo.cond, FileInfo.sectionOrder, FileInfo.kind, FileInfo.sect, FileInfo.padAmount, hinc,
    Bool.not_true, Bool.false_eq_true, if_false, hnp, sectionsToEmitHere, List.isEmpty_nil, if_true]
  rw [concatMapE_singleton]
  by_cases hh : own = sec
  · rcases hsub with h | h
    · simp [h, hh]
    · simp [h, hh, concatMapE]
  · rcases hsub with h | h
    · simp [h, hh]
    · simp [h, hh, concatMapE]

/-- **groups: depth-first, in list order, under the group's directory.** An included group
contributes, for a section, the concatenation of what its files contribute for that section,
in the order of its file list, with the group's (expanded) `dir` appended to the base
directory; it adds nothing of its own. -/
theorem group_is_concatenation (cx : Ctx) (seg : Segment) (secs : List Str) (n : Nat)
    (files : List FileInfo) (dir : Str) (c : Cond) (keep : Keep) (sec base : Str) (parents : List Str) (d : Str)
    (hinc : shouldEmit cx.o c = true) (hnp : sec ∉ parents) (hesc : cx.esc cx.o dir = .ok d) :
    emitEntry cx seg secs (n + 1) (.mk [] .group [] 0 [] [] [] files dir c keep) sec base parents
      = concatMapE (fun child => emitEntry cx seg secs n child sec (pathPush base d) []) files := by
  rw [emitEntry]
  simp only [FileInfo.cond, FileInfo.sectionOrder, FileInfo.kind, FileInfo.dir, FileInfo.files, hinc,
    Bool.not_true, Bool.false_eq_true, if_false, hnp, sectionsToEmitHere, List.isEmpty_nil, if_true]
  rw [concatMapE_singleton]
  simp only [hesc, liftPath, decide_true, Bool.and_self, Bool.or_true, if_true]
  cases concatMapE (fun child => emitEntry cx seg secs n child sec (pathPush base d) []) files with
  | error e => rfl
  | ok a => simp

/-- **nothing unlisted**: whatever an object entry emits, for whatever section and however its
`section_order` and the sub-group table send it around, is an input statement naming that
entry's own path and no archive member. -/
theorem object_names_only_itself (cx : Ctx) (seg : Segment) (secs : List Str) :
    ∀ (n : Nat) (p : Str) (so : List (Str × Str)) (c : Cond) (keep : Keep) (sec base : Str) (parents : List Str)
      (ls : List Line),
      emitEntry cx seg secs n (.mk p .object [] 0 [] [] so [] [] c keep) sec base parents = .ok ls →
      ∀ l ∈ ls, ∃ q k, cx.esc cx.o p = .ok q ∧
        l = .input (keepFor keep k) (display (pathPush base q)) none k seg.wildcardSections := by
  intro n
  induction n with
  | zero => intro p so c keep sec base parents ls h; simp [emitEntry] at h
  | succ n ih =>
    intro p so c keep sec base parents ls h l hl
    rw [emitEntry] at h
    simp only [FileInfo.cond, FileInfo.sectionOrder, FileInfo.kind, FileInfo.path, FileInfo.keep] at h
    by_cases hinc : shouldEmit cx.o c = true
    · simp only [hinc, Bool.not_true, Bool.false_eq_true, if_false] at h
      by_cases hp : sec ∈ parents
      · simp [hp] at h
      · simp only [hp, if_false] at h
        obtain ⟨k, _, rk, hk, hlk⟩ := concatMapE_mem _ _ _ h l hl
        cases hq : cx.esc cx.o p with
        | error e => simp [hq, liftPath] at hk
        | ok q =>
          simp only [hq, liftPath] at hk
          split at hk
          · contradiction
          · rename_i b hb
            injection hk with hk
            subst hk
            simp only [List.cons_append, List.nil_append, List.mem_cons] at hlk
            rcases hlk with hla | hlb
            · exact ⟨q, k, rfl, hla⟩
            · by_cases hc : cx.refPartial = true
              · simp [hc] at hb
                subst hb; simp at hlb
              · simp [hc] at hb
                obtain ⟨other, _, ro, ho, hlo⟩ := concatMapE_mem _ _ _ hb l hlb
                obtain ⟨q', k', hq', hl'⟩ := ih p so c keep other base (sec :: parents) ro ho l hlo
                rw [hq] at hq'
                exact ⟨q', k', hq', hl'⟩
    · have hf : shouldEmit cx.o c = false := by
        cases hh : shouldEmit cx.o c
        · rfl
        · exact absurd hh hinc
      simp [hf] at h
      subst h
      simp at hl


/-! ### in the linked image (the linker semantics `Slinkyv.Ld`) -/

open Ld in
/-- **C01, image clause**: every input section that the statements of an output section of a
segment place ends up inside that output section's address range `[start, end]`, and in no
other output section — for every object table and every state of the link. -/
theorem image_placed_inside_segment (objs : List InSec) (cx : Ctx) (seg : Segment) (secs : List Str) (noload : Bool)
    (ls : List Line) (h : writeSegment cx seg secs noload = .ok ls) (st : St) (ho : Outside st) (k : List Line) :
    ∃ (start end_ : Nat) (new : List Placed), (execK objs st ls k).placed = st.placed ++ new ∧ start ≤ end_ ∧
      ∀ p ∈ new, start ≤ p.addr ∧ p.addr + p.inp.size ≤ end_ ∧
        p.out = (if noload then c!"." ++ seg.name ++ c!".noload" else c!"." ++ seg.name) := by
  obtain ⟨start, end_, al, new, st', name, addr, h0, hn, _, _, _, _, h6, _, h8, h9, _⟩ := section_image objs cx seg secs noload ls h st ho k
  exact ⟨start, end_, new, h0 ▸ h8, h6, hn ▸ chainOk_mem _ _ _ _ h9⟩

end Slinky.C01
