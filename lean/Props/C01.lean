import Props.Lemmas
namespace Slinky.C01
theorem placeholder : True := trivial
end Slinky.C01
