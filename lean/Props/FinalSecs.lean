/-
  Props.FinalSecs — how many output sections of one name a link records, and what a symbol
  assigned `ADDR(<section>)` holds in the image.

  `secCount n st` counts the recorded output sections called `n` plus the open one. Every statement
  raises it by at most one, and only a header (or a single-entry section) of that name does
  (`step_secCount`, `execK_secCount`): a script with one header `n` records at most one section `n`,
  for every object table and state. A symbol assigned `ADDR(n)` once, in front of that header, holds
  the address of *the* section `n` in the image (`addr_symbol_image`).
-/
import Props.Final
namespace Slinky
namespace Ld
open W

/-- the name of the output section a statement opens. -/
def hdrOf : Line → Option Str
  | .outHdr n _ _ _ _ => some n
  | .singleEntry s _ => some s
  | _ => none

/-- how many statements of a list open an output section called `n`. -/
def hdrCount (n : Str) (ls : List Line) : Nat := ls.countP fun l => decide (hdrOf l = some n)

theorem hdrCount_append (n : Str) (a b : List Line) : hdrCount n (a ++ b) = hdrCount n a + hdrCount n b := by
  simp [hdrCount, List.countP_append]

theorem hdrCount_cons (n : Str) (l : Line) (r : List Line) :
    hdrCount n (l :: r) = hdrCount n r + (if hdrOf l = some n then 1 else 0) := by
  simp [hdrCount, List.countP_cons]

def curCount (n : Str) : Option Cur → Nat
  | some c => if c.name = n then 1 else 0
  | none => 0

/-- recorded output sections called `n`, plus the open one. -/
def secCount (n : Str) (st : St) : Nat := (st.secs.countP fun o => decide (o.name = n)) + curCount n st.cur

theorem placeAll_cur (out : Str) (sub : Option Nat) : ∀ (l : List InSec) (st : St), (placeAll out sub st l).cur = st.cur := by
  intro l
  induction l with
  | nil => intro st; rfl
  | cons i r ih => intro st; simp only [placeAll]; rw [ih]

theorem step_secCount (objs : List InSec) (n : Str) (st : St) (l : Line) (r : List Line) :
    secCount n (step objs st l r) ≤ secCount n st + (if hdrOf l = some n then 1 else 0) := by
  cases l with
  | assign s e p hd lk =>
    simp only [step, hdrOf]
    split
    · simp
    · split
      · split <;> simp [secCount]
      · simp [secCount, setSym]
  | addAssign s e =>
    simp only [step, hdrOf]
    split
    · simp
    · split
      · split <;> simp [secCount]
      · split <;> simp [secCount, setSym]
  | outHdr name noload addr lma sub =>
    simp only [step, hdrOf, secCount, curCount, Option.some.injEq]
    split <;> omega
  | input k p m s w =>
    simp only [step, hdrOf]
    split
    · simp [secCount, placeAll_secs, placeAll_cur]
    · simp
  | singleEntry sec addr =>
    simp only [step, hdrOf, secCount, Option.some.injEq]
    rw [placeAll_secs, placeAll_cur, List.countP_append]
    simp only [List.countP_cons, List.countP_nil, decide_eq_true_eq]
    split <;> omega
  | blockClose =>
    simp only [step, hdrOf]
    split
    · rename_i c hc
      split
      · simp only [secCount, hc, curCount]; split <;> simp
      · simp only [secCount, hc, curCount, List.countP_append, List.countP_cons, List.countP_nil, closedSec, decide_eq_true_eq]
        split <;> simp
    · simp [secCount]
  | discardHdr => simp [step, hdrOf, secCount]
  | discardPat pat =>
    simp only [step, hdrOf]
    split <;> simp [secCount]
  | blank => simp [step, hdrOf]
  | comment _ => simp [step, hdrOf]
  | sectionsKw => simp [step, hdrOf]
  | blockOpen => simp [step, hdrOf]
  | fill _ => simp [step, hdrOf]
  | entry _ => simp [step, hdrOf]
  | extern _ => simp [step, hdrOf]
  | assertL _ _ => simp [step, hdrOf]
  | unknown _ => simp [step, hdrOf]

/-- **a script records at most as many output sections of a name as it has headers of that name.** -/
theorem execK_secCount (objs : List InSec) (n : Str) : ∀ (ls : List Line) (st : St) (k : List Line),
    secCount n (execK objs st ls k) ≤ secCount n st + hdrCount n ls := by
  intro ls
  induction ls with
  | nil => intro st k; simp [execK, hdrCount]
  | cons l r ih =>
    intro st k
    simp only [execK]
    have h1 := ih (step objs st l (r ++ k)) k
    have h2 := step_secCount objs n st l (r ++ k)
    rw [hdrCount_cons]
    omega

theorem unique_of_countP_le_one {α} (p : α → Bool) : ∀ (l : List α) (a b : α), l.countP p ≤ 1 → a ∈ l → b ∈ l →
    p a = true → p b = true → a = b := by
  intro l
  induction l with
  | nil => intro a b _ ha; cases ha
  | cons x xs ih =>
    intro a b hc ha hb pa pb
    rw [List.countP_cons] at hc
    have hpos : ∀ y ∈ xs, p y = true → 1 ≤ xs.countP p := fun y hy py => List.countP_pos_iff.2 ⟨y, hy, py⟩
    rcases List.mem_cons.1 ha with rfl | ha' <;> rcases List.mem_cons.1 hb with rfl | hb'
    · rfl
    · have := hpos b hb' pb; simp only [pa, if_true] at hc; omega
    · have := hpos a ha' pa; simp only [pb, if_true] at hc; omega
    · exact ih a b (by omega) ha' hb' pa pb

/-- with at most one recorded section of a name, looking the name up finds that section. -/
theorem findSec_unique (st : St) (n : Str) (os : OutSec) (hc : secCount n st ≤ 1) (hm : os ∈ st.secs) (hn : os.name = n) :
    findSec st n = some os := by
  unfold findSec
  have hex : ∃ o, st.secs.reverse.find? (fun s => decide (s.name = n)) = some o := by
    cases hf : st.secs.reverse.find? (fun s => decide (s.name = n)) with
    | some o => exact ⟨o, rfl⟩
    | none =>
      rw [List.find?_eq_none] at hf
      have := hf os (List.mem_reverse.2 hm)
      simp [hn] at this
  obtain ⟨o, ho⟩ := hex
  rw [ho]
  have hom : o ∈ st.secs := List.mem_reverse.1 (List.mem_of_find?_eq_some ho)
  have hop : decide (o.name = n) = true := by have := List.find?_some ho; simpa using this
  have hcc : st.secs.countP (fun o => decide (o.name = n)) ≤ 1 := by unfold secCount at hc; omega
  rw [unique_of_countP_le_one _ st.secs o os hcc hom hm hop (by simp [hn])]

/-- no section of that name is recorded or open: `ADDR(n)` is a forward reference. -/
theorem eval_addr_forward (st : St) (n : Str) (h : secCount n st = 0) : eval st (.addr n) = .addrOf n := by
  unfold secCount at h
  have h1 : st.secs.countP (fun o => decide (o.name = n)) = 0 := by omega
  have h2 : curCount n st.cur = 0 := by omega
  have hf : findSec st n = none := by
    unfold findSec
    rw [List.find?_eq_none]
    intro o ho
    rw [List.countP_eq_zero] at h1
    exact h1 o (List.mem_reverse.1 ho)
  simp only [eval, hf]
  cases hc : st.cur with
  | none => rfl
  | some c =>
    rw [hc] at h2
    simp only [curCount] at h2
    have : c.name ≠ n := by intro e; simp [e] at h2
    simp [this]

/-- **a symbol assigned `ADDR(n)` once, in front of the only header `n`, is the address of the section `n`
of the image.** `A` is what precedes the assignment, `B` what follows; the link starts without output
sections; the assignment is reached outside `/DISCARD/`. -/
theorem addr_symbol_image (objs : List InSec) (S0 : List (Str × Val)) (A B : List Line) (s n : Str) (p h lk : Bool)
    (hs : s ≠ c!".") (hB : assignCount s B = 0)
    (hA : hdrCount n A = 0) (hn : hdrCount n B ≤ 1)
    (hd : (execK objs { syms := S0 } A (.assign s (.addr n) p h lk :: B ++ [])).inDiscard = false)
    (os : OutSec) (hos : os ∈ (execK objs { syms := S0 } (A ++ .assign s (.addr n) p h lk :: B) []).secs) (hname : os.name = n) :
    (imageOf (execK objs { syms := S0 } (A ++ .assign s (.addr n) p h lk :: B) [])).sym s = some os.addr := by
  have hfin : secCount n (execK objs { syms := S0 } (A ++ .assign s (.addr n) p h lk :: B) []) ≤ 1 := by
    have := execK_secCount objs n (A ++ .assign s (.addr n) p h lk :: B) { syms := S0 } []
    rw [hdrCount_append, hdrCount_cons] at this
    simp only [hdrOf] at this
    have h0 : secCount n ({ syms := S0 } : St) = 0 := rfl
    simp at this
    omega
  rw [imageOf_sym]
  have hfs := findSec_unique _ n os hfin hos hname
  rw [execK_append] at hfs ⊢
  generalize hst : execK objs { syms := S0 } A (.assign s (.addr n) p h lk :: B ++ []) = st at *
  have hst0 : secCount n st = 0 := by
    have := execK_secCount objs n A { syms := S0 } (.assign s (.addr n) p h lk :: B ++ [])
    rw [hst, hA] at this
    have h0 : secCount n ({ syms := S0 } : St) = 0 := rfl
    omega
  simp only [execK] at hfs ⊢
  rw [step_assign_sym objs st s _ p h lk (B ++ []) hs hd, eval_addr_forward st n hst0] at hfs ⊢
  rw [execK_keeps_count objs s B _ [] hB]
  simp [lookupLast_snoc, resolve, hfs]

end Ld
end Slinky
