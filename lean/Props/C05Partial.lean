/-
  C05 in the image of the **main script of partial mode**: the symbols of a section group. In the main script each
  group of a segment places the segment's partial object (`<folder>/<segment>.o(<section>*)`) between the group's
  start and end symbols; the theorem is `final_group_symbols` through `C03.partial_main_shape`.
-/
import Props.C05Core
import Props.C03Partial
namespace Slinky.C05
open Slinky W Ld

/-- `final_group_symbols` for the main script of partial mode. -/
theorem final_group_symbols_partial (objs : List InSec) (d : Document) (o : Opts) (vc : Bool) (out : PartialOut)
    (h : generatePartial d o vc = .ok out)
    (hall : ∀ s ∈ d.segments, shouldEmit o s.cond = true → s.allocSections ≠ [])
    (defsyms : List (Str × Nat)) (folder : Str) (hfolder : d.settings.partialBuildSegmentsFolder = some folder)
    (pre post : List Segment) (seg : Segment) (hsplit : C03.partialSegs d o folder = pre ++ seg :: post)
    (nl : Bool) (s1 : List Str) (sec : Str) (s2 : List Str)
    (hs : (if nl then seg.noloadSections else seg.allocSections) = s1 ++ sec :: s2)
    (hc1 : assignCount (d.settings.style.secStart seg.name sec) out.main ≤ 1)
    (hc2 : assignCount (d.settings.style.secEnd seg.name sec) out.main ≤ 1)
    (hc3 : assignCount (d.settings.style.secSize seg.name sec) out.main ≤ 1) :
    ∃ s e : Nat, s ≤ e ∧
      (link objs defsyms out.main).sym (d.settings.style.secStart seg.name sec) = some s ∧
      (link objs defsyms out.main).sym (d.settings.style.secEnd seg.name sec) = some e ∧
      (link objs defsyms out.main).sym (d.settings.style.secSize seg.name sec) = some ((e + M32 - s % M32) % M32) := by
  obtain ⟨folder', ls, emitted, hf', hsegs, hmain⟩ := C03.partial_main_shape d o vc out h
  rw [hfolder] at hf'; injection hf' with hf'; subst hf'
  rw [hmain] at hc1 hc2 hc3 ⊢
  have hinc : shouldEmit o seg.cond = true :=
    C03.partialSegs_emitted d o folder seg (hsplit ▸ List.mem_append_right _ List.mem_cons_self)
  exact group_symbols_core objs (C03.partialCx d o) rfl vc _ ls emitted _ hsegs (C03.partialSegs_alloc d o folder hall) defsyms
    pre post seg hsplit hinc nl s1 sec s2 hs hc1 hc2 hc3

end Slinky.C05
