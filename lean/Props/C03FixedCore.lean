/-
  GENERATED-BY-HAND-ONCE from the proofs of the whole-script theorems (the generator was a throw-away script): the same
  proofs with the writer context `cx`, the segment list and the statements `T` that follow the segments left open.
  ``final_fixed_vram_partial`` instantiates them for the main script of partial mode (`generatePartial`), whose segment part is `add_segment` in
  the reference-to-partial-object context over the emitted segments with their file lists replaced by the partial object
  (`C04.partialSegments_main`).
-/
import Props.C03Partial
namespace Slinky.C03
open Slinky W Ld

/-- `final_fixed_vram` for any writer context. -/
theorem fixed_vram_core (objs : List InSec) (cx : Ctx) (hsy : cx.emitSecSyms = true) (vc : Bool)
    (segs : List Segment) (ls : List Line) (emitted : List Str) (T : List Line)
    (hsegs : addSegments cx [] segs = .ok (ls, emitted))
    (hall : ∀ s ∈ segs, shouldEmit cx.o s.cond = true → s.allocSections ≠ [])
    (defsyms : List (Str × Nat))
    (seg : Segment) (v : Nat) (hm : seg ∈ segs) (hinc : shouldEmit cx.o seg.cond = true) (hfv : seg.fixedVram = some v)
    (hds : (c!"0x" ++ toHex8 v) ∉ defsyms.map (·.1))
    (hcnt : assignCount (c!"0x" ++ toHex8 v) (versionComment vc ++ (beginSections cx ++ ls ++ T)) = 0) :
    ∃ os ∈ (link objs defsyms (versionComment vc ++ (beginSections cx ++ ls ++ T))).secs, os.name = c!"." ++ seg.name ∧ os.addr = v ∧ os.noload = false := by
  have hstart : lookupLast (c!"0x" ++ toHex8 v)
      (carry (passes objs (versionComment vc ++ (beginSections cx ++ ls ++ T)) (defsyms.map fun kv => (kv.1, Val.num kv.2)) 1)) = none := by
    apply carry_none
    apply passes_none objs (versionComment vc ++ (beginSections cx ++ ls ++ T)) _ _ _ hcnt
    rw [lookupLast_none_iff]
    simpa [List.map_map, Function.comp_def] using hds
  rw [link_eq]
  generalize carry _ = S0 at hstart ⊢
  generalize hd : cx.d = d at *
  generalize ho' : cx.o = o at *
  have hform : versionComment vc ++ (beginSections cx ++ ls ++ T)
      = versionComment vc ++ (beginSections cx ++ (ls ++ T)) := by simp [List.append_assoc]
  rw [hform] at hcnt ⊢
  simp only [assignCount_append] at hcnt
  rw [execK_append, Slinky.C04.execK_quiet objs _ (Slinky.C04.versionComment_quiet vc)]
  rw [execK_append, execK_append]
  have hb : ∃ st1, st1 = execK objs { syms := S0 } (beginSections cx) (ls ++ T ++ []) ∧ Outside st1 ∧
      lookupLast Ld.romPos st1.syms = some (.num 0) := by
    refine ⟨_, rfl, ?_, ?_⟩
    · unfold beginSections
      cases cx.d.settings.hardcodedGpValue <;> simp [execK, step, setSym] <;> exact ⟨rfl, rfl⟩
    · unfold beginSections
      cases cx.d.settings.hardcodedGpValue <;> simp [execK, step, setSym, eval, lookupLast_snoc, lookupLast_snoc2, Ld.romPos]
  obtain ⟨st1, e1, o1, r1⟩ := hb
  have hno1 : lookupLast (c!"0x" ++ toHex8 v) st1.syms = none := by
    rw [e1]; exact execK_none objs _ _ _ _ hstart (by omega)
  rw [← e1]
  obtain ⟨os, hos, h1, h2, h3⟩ := segments_fixed_vram objs cx hsy segs [] ls emitted hsegs (by rw [ho']; exact hall)
    st1 o1 0 r1 (T ++ []) seg v hm (by rw [ho']; exact hinc) hfv hno1 (by omega)
  obtain ⟨extra, hx⟩ := execK_secs objs T (execK objs st1 ls (T ++ [])) []
  exact ⟨os, by simp only [imageOf]; rw [hx]; exact List.mem_append_left _ hos, h1, h2, h3⟩

/-- `final_fixed_vram` for the main script of partial mode. -/
theorem final_fixed_vram_partial (objs : List InSec) (d : Document) (o : Opts) (vc : Bool) (out : PartialOut)
    (h : generatePartial d o vc = .ok out)
    (hall : ∀ s ∈ d.segments, shouldEmit o s.cond = true → s.allocSections ≠ [])
    (defsyms : List (Str × Nat)) (folder : Str) (hfolder : d.settings.partialBuildSegmentsFolder = some folder)
    (seg : Segment) (v : Nat) (hm : seg ∈ partialSegs d o folder) (hfv : seg.fixedVram = some v)
    (hds : (c!"0x" ++ toHex8 v) ∉ defsyms.map (·.1))
    (hcnt : assignCount (c!"0x" ++ toHex8 v) out.main = 0) :
    ∃ os ∈ (link objs defsyms out.main).secs, os.name = c!"." ++ seg.name ∧ os.addr = v ∧ os.noload = false := by
  obtain ⟨folder', ls, emitted, hf', hsegs, hmain⟩ := partial_main_shape d o vc out h
  rw [hfolder] at hf'; injection hf' with hf'; subst hf'
  rw [hmain] at hcnt ⊢
  exact fixed_vram_core objs (partialCx d o) rfl vc _ ls emitted _ hsegs (partialSegs_alloc d o folder hall) defsyms
    seg v hm (partialSegs_emitted d o folder seg hm) hfv hds hcnt

/-- `final_vram_end` for the main script of partial mode. -/
theorem final_vram_end_partial (objs : List InSec) (d : Document) (o : Opts) (vc : Bool) (out : PartialOut)
    (h : generatePartial d o vc = .ok out)
    (hall : ∀ s ∈ d.segments, shouldEmit o s.cond = true → s.allocSections ≠ [])
    (defsyms : List (Str × Nat)) (folder : Str) (hfolder : d.settings.partialBuildSegmentsFolder = some folder) :
    ∃ zs : List (Segment × Nat × Nat × Nat),
      zs.map (·.1) = partialSegs d o folder ∧
      ∀ z ∈ zs, z.2.1 ≤ z.2.2.1 ∧ z.2.2.1 ≤ z.2.2.2 ∧
        (∃ os ∈ (link objs defsyms out.main).secs, os.name = c!"." ++ z.1.name ∧ os.addr = z.2.1 ∧ os.size = z.2.2.1 - z.2.1 ∧ os.noload = false) ∧
        (assignCount (d.settings.style.segVramEnd z.1.name) out.main ≤ 1 →
          (link objs defsyms out.main).sym (d.settings.style.segVramEnd z.1.name)
            = some (alignO z.1.segmentEndAlign z.2.2.2)) := by
  obtain ⟨folder', ls, emitted, hf', hsegs, hmain⟩ := partial_main_shape d o vc out h
  rw [hfolder] at hf'; injection hf' with hf'; subst hf'
  rw [hmain]
  obtain ⟨zs, hz, hfacts⟩ := vram_end_core objs (partialCx d o) rfl vc _ ls emitted _ hsegs (partialSegs_alloc d o folder hall) defsyms
  refine ⟨zs, ?_, hfacts⟩
  rw [hz]
  apply List.filter_eq_self.2
  intro s hs
  exact partialSegs_emitted d o folder s hs

end Slinky.C03
