/-
  C18, the tail of `SECTIONS` — tied to the source text (lean/Src/Formats.lean, regenerated from
  script_buffer.rs / linker_writer.rs on every run).
-/
import Src.Formats
import Props.C18
namespace Slinky.C18

/-- `write_single_entry_section(sect, "0")`. -/
theorem single_entry_src (sec : Str) :
    (Line.singleEntry sec c!"0").renderBody
      = fmt Src.sb__write_single_entry_section_0 [.s sec, .s (fmt Src.lw__end_sections_1 []), .s sec]
    ∧ Src.lw__end_sections_1 = Src.lw__end_sections_2 := by
  constructor
  · simp [Line.renderBody, fmt, Src.sb__write_single_entry_section_0, Src.lw__end_sections_1]
  · decide

theorem discard_header_src : Line.discardHdr.renderBody = fmt Src.lw__end_sections_3 [] := by decide

theorem discard_pattern_src (p : Str) : (Line.discardPat p).renderBody = fmt Src.lw__end_sections_4 [.s p] := by
  simp [Line.renderBody, fmt, Src.lw__end_sections_4]

/-- the final `*(*);` is the pattern statement for `*`. -/
theorem discard_wildcard_src : (Line.discardPat c!"*").renderBody = fmt Src.lw__end_sections_5 [] := by decide

theorem counts_src : Src.lw__end_sections_count = 6 ∧ Src.sb__write_single_entry_section_count = 1 := by decide

end Slinky.C18
