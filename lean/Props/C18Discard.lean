/-
  C18 / C01 in the image `Ld.link` returns: with `discard_wildcard_section` no input section is left over — every
  input section of the object table is either placed in an output section or discarded, for the whole ordinary
  script of a document and for the main script of partial mode (nothing becomes an orphan section).

  `execK_placed_mono` / `execK_discarded_mono`: for every statement and state, what is placed or discarded stays so.
  The `/DISCARD/` block is reached outside every output section (`allowlisted_core`'s path), its `*(*)` takes every
  input section that is still free, and nothing behind it un-places anything.
-/
import Props.C18Final
namespace Slinky.C18
open Slinky W Ld

theorem placeAll_placed_mono (out : Str) (sub : Option Nat) : ∀ (l : List InSec) (st : St),
    ∃ extra, (placeAll out sub st l).placed = st.placed ++ extra := by
  intro l
  induction l with
  | nil => intro st; exact ⟨[], by simp [placeAll]⟩
  | cons i r ih =>
    intro st
    simp only [placeAll]
    obtain ⟨x, hx⟩ := ih { st with dot := alignUp st.dot (effAlign sub i) + i.size, placed := st.placed ++ [⟨i, alignUp st.dot (effAlign sub i), out⟩] }
    exact ⟨⟨i, alignUp st.dot (effAlign sub i), out⟩ :: x, by rw [hx]; simp⟩

theorem placeAll_discarded (out : Str) (sub : Option Nat) : ∀ (l : List InSec) (st : St), (placeAll out sub st l).discarded = st.discarded := by
  intro l
  induction l with
  | nil => intro st; rfl
  | cons i r ih => intro st; simp only [placeAll]; rw [ih]

/-- what is placed stays placed, what is discarded stays discarded — every statement, every state. -/
theorem step_mono (objs : List InSec) (st : St) (l : Line) (r : List Line) :
    (∃ x, (step objs st l r).placed = st.placed ++ x) ∧ (∃ y, (step objs st l r).discarded = st.discarded ++ y) := by
  cases l with
  | assign s e p hd lk =>
    simp only [step]
    split
    · exact ⟨⟨[], by simp⟩, ⟨[], by simp⟩⟩
    · split
      · split <;> exact ⟨⟨[], by simp⟩, ⟨[], by simp⟩⟩
      · exact ⟨⟨[], by simp [setSym]⟩, ⟨[], by simp [setSym]⟩⟩
  | addAssign s e =>
    simp only [step]
    split
    · exact ⟨⟨[], by simp⟩, ⟨[], by simp⟩⟩
    · split
      · split <;> exact ⟨⟨[], by simp⟩, ⟨[], by simp⟩⟩
      · split <;> exact ⟨⟨[], by simp [setSym]⟩, ⟨[], by simp [setSym]⟩⟩
  | outHdr name noload addr lma sub => exact ⟨⟨[], by simp [step]⟩, ⟨[], by simp [step]⟩⟩
  | input k p m s w =>
    simp only [step]
    split
    · exact ⟨placeAll_placed_mono _ _ _ _, ⟨[], by rw [placeAll_discarded]; simp⟩⟩
    · exact ⟨⟨[], by simp⟩, ⟨[], by simp⟩⟩
  | singleEntry sec addr =>
    simp only [step]
    obtain ⟨x, hx⟩ := placeAll_placed_mono sec none (objs.filter fun i => i.sec = sec && isFree st i) { st with dot := (operand st addr).getD st.dot }
    exact ⟨⟨x, hx⟩, ⟨[], by rw [placeAll_discarded]; simp⟩⟩
  | discardHdr => exact ⟨⟨[], by simp [step]⟩, ⟨[], by simp [step]⟩⟩
  | discardPat pat =>
    simp only [step]
    split
    · exact ⟨⟨[], by simp⟩, ⟨_, rfl⟩⟩
    · exact ⟨⟨[], by simp⟩, ⟨[], by simp⟩⟩
  | blockClose =>
    simp only [step]
    split
    · split <;> exact ⟨⟨[], by simp⟩, ⟨[], by simp⟩⟩
    · exact ⟨⟨[], by simp⟩, ⟨[], by simp⟩⟩
  | blank => exact ⟨⟨[], by simp [step]⟩, ⟨[], by simp [step]⟩⟩
  | comment _ => exact ⟨⟨[], by simp [step]⟩, ⟨[], by simp [step]⟩⟩
  | sectionsKw => exact ⟨⟨[], by simp [step]⟩, ⟨[], by simp [step]⟩⟩
  | blockOpen => exact ⟨⟨[], by simp [step]⟩, ⟨[], by simp [step]⟩⟩
  | fill _ => exact ⟨⟨[], by simp [step]⟩, ⟨[], by simp [step]⟩⟩
  | entry _ => exact ⟨⟨[], by simp [step]⟩, ⟨[], by simp [step]⟩⟩
  | extern _ => exact ⟨⟨[], by simp [step]⟩, ⟨[], by simp [step]⟩⟩
  | assertL _ _ => exact ⟨⟨[], by simp [step]⟩, ⟨[], by simp [step]⟩⟩
  | unknown _ => exact ⟨⟨[], by simp [step]⟩, ⟨[], by simp [step]⟩⟩

theorem execK_mono (objs : List InSec) : ∀ (ls : List Line) (st : St) (k : List Line),
    (∃ x, (execK objs st ls k).placed = st.placed ++ x) ∧ (∃ y, (execK objs st ls k).discarded = st.discarded ++ y) := by
  intro ls
  induction ls with
  | nil => intro st k; exact ⟨⟨[], by simp [execK]⟩, ⟨[], by simp [execK]⟩⟩
  | cons l r ih =>
    intro st k
    obtain ⟨⟨x1, h1⟩, ⟨y1, g1⟩⟩ := step_mono objs st l (r ++ k)
    obtain ⟨⟨x2, h2⟩, ⟨y2, g2⟩⟩ := ih (step objs st l (r ++ k)) k
    exact ⟨⟨x1 ++ x2, by simp only [execK]; rw [h2, h1, List.append_assoc]⟩, ⟨y1 ++ y2, by simp only [execK]; rw [g2, g1, List.append_assoc]⟩⟩

/-- an input section is accounted for: placed somewhere or discarded. -/
def Accounted (st : St) (i : InSec) : Prop := (∃ p ∈ st.placed, p.inp = i) ∨ i ∈ st.discarded

theorem accounted_of_not_free (st : St) (i : InSec) (h : isFree st i = false) : Accounted st i := by
  unfold isFree at h
  simp only [Bool.and_eq_false_iff, Bool.not_eq_false', List.any_eq_true, decide_eq_true_eq] at h
  rcases h with ⟨p, hp, e⟩ | ⟨d, hd, e⟩
  · exact Or.inl ⟨p, hp, e⟩
  · exact Or.inr (e ▸ hd)

theorem accounted_mono (objs : List InSec) (ls : List Line) (st : St) (k : List Line) (i : InSec) (h : Accounted st i) :
    Accounted (execK objs st ls k) i := by
  obtain ⟨⟨x, hx⟩, ⟨y, hy⟩⟩ := execK_mono objs ls st k
  rcases h with ⟨p, hp, e⟩ | hd
  · exact Or.inl ⟨p, by rw [hx]; exact List.mem_append_left _ hp, e⟩
  · exact Or.inr (by rw [hy]; exact List.mem_append_left _ hd)

/-- the wildcard pattern of `/DISCARD/` accounts for every input section. -/
theorem discard_all (objs : List InSec) (st : St) (hd : st.inDiscard = true) (r : List Line) (i : InSec) (hi : i ∈ objs) :
    Accounted (step objs st (.discardPat c!"*") r) i := by
  cases hf : isFree st i
  · have := accounted_of_not_free st i hf
    have hm := accounted_mono objs [Line.discardPat c!"*"] st r i this
    simpa [execK] using hm
  · exact Or.inr ((discard_pat_image objs st hd c!"*" r).2.2 i hi hf (Or.inl rfl))

theorem blank_or1 (c : Bool) : (if c then [Line.blank] else ([] : List Line)) = [] ∨ (if c then [Line.blank] else ([] : List Line)) = [Line.blank] := by
  cases c <;> simp

/-- `end_sections` with `discard_wildcard_section`: … the `/DISCARD/` block ends with `*(*)`. -/
theorem endSections_shape_discard (cx : Ctx) (emitted : List Str) (hw : cx.d.settings.discardWildcardSection = true) :
    ∃ (B1 B2 B3 : List Line), (B1 = [] ∨ B1 = [.blank]) ∧ (B2 = [] ∨ B2 = [.blank]) ∧ (B3 = [] ∨ B3 = [.blank]) ∧
      endSections cx emitted = sizeLines cx emitted ++ (B1 ++ (cx.d.settings.sectionsAllowlist.map (fun x => Line.singleEntry x c!"0")
        ++ (B2 ++ (cx.d.settings.sectionsAllowlistExtra.map (fun x => Line.singleEntry x c!"0")
        ++ (B3 ++ ([Line.discardHdr, Line.blockOpen] ++ (cx.d.settings.sectionsDenylist.map Line.discardPat
        ++ ([Line.discardPat c!"*"] ++ [Line.blockClose, Line.blockClose])))))))) := by
  unfold endSections
  simp only [allow_eq, hw, Bool.true_or, if_true]
  refine ⟨_, _, _, blank_or _ _, blank_or _ _, blank_or1 _, by simp only [sizeLines, List.append_assoc]; rfl⟩

/-- every input section is accounted for in the image — for any writer context. -/
theorem accounted_core (objs : List InSec) (cx : Ctx) (hsy : cx.emitSecSyms = true) (vc : Bool)
    (segs : List Segment) (ls : List Line) (emitted : List Str) (T : List Line)
    (hsegs : addSegments cx [] segs = .ok (ls, emitted))
    (hall : ∀ s ∈ segs, shouldEmit cx.o s.cond = true → s.allocSections ≠ [])
    (hw : cx.d.settings.discardWildcardSection = true)
    (defsyms : List (Str × Nat)) (i : InSec) (hi : i ∈ objs) :
    (∃ p ∈ (link objs defsyms (versionComment vc ++ (beginSections cx ++ ls ++ (endSections cx emitted ++ T)))).placed, p.inp = i) ∨
      i ∈ (link objs defsyms (versionComment vc ++ (beginSections cx ++ ls ++ (endSections cx emitted ++ T)))).discarded := by
  obtain ⟨B1, B2, B3, hB1, hB2, hB3, hshape⟩ := endSections_shape_discard cx emitted hw
  rw [hshape, link_eq]
  generalize carry _ = S0
  generalize hA : cx.d.settings.sectionsAllowlist.map (fun x => Line.singleEntry x c!"0") = A at *
  generalize hE : cx.d.settings.sectionsAllowlistExtra.map (fun x => Line.singleEntry x c!"0") = E at *
  generalize hN : cx.d.settings.sectionsDenylist.map Line.discardPat = N at *
  have hform : versionComment vc ++ (beginSections cx ++ ls ++ (sizeLines cx emitted ++ (B1 ++ (A ++ (B2 ++ (E ++ (B3 ++ ([Line.discardHdr, Line.blockOpen] ++ (N ++ ([Line.discardPat c!"*"] ++ [Line.blockClose, Line.blockClose])))))))) ++ T))
      = versionComment vc ++ (beginSections cx ++ (ls ++ (sizeLines cx emitted ++ (B1 ++ (A ++ (B2 ++ (E ++ (B3 ++ ([Line.discardHdr, Line.blockOpen] ++ (N ++ ([Line.discardPat c!"*"] ++ ([Line.blockClose, Line.blockClose] ++ T)))))))))))) := by
    simp [List.append_assoc]
  rw [hform]
  rw [execK_append, Slinky.C04.execK_quiet objs _ (Slinky.C04.versionComment_quiet vc)]
  rw [execK_append, execK_append, execK_append, execK_append, execK_append, execK_append, execK_append, execK_append, execK_append,
    execK_append, execK_append]
  have hb : ∃ st1, st1 = execK objs { syms := S0 } (beginSections cx) (ls ++ (sizeLines cx emitted ++ (B1 ++ (A ++ (B2 ++ (E ++ (B3 ++ ([Line.discardHdr, Line.blockOpen] ++ (N ++ ([Line.discardPat c!"*"] ++ ([Line.blockClose, Line.blockClose] ++ T)))))))))) ++ []) ∧ Outside st1 ∧
      lookupLast Ld.romPos st1.syms = some (.num 0) := by
    refine ⟨_, rfl, ?_, ?_⟩
    · unfold beginSections
      cases cx.d.settings.hardcodedGpValue <;> simp [execK, step, setSym] <;> exact ⟨rfl, rfl⟩
    · unfold beginSections
      cases cx.d.settings.hardcodedGpValue <;> simp [execK, step, setSym, eval, lookupLast_snoc, lookupLast_snoc2, Ld.romPos]
  obtain ⟨st1, e1, o1, r1⟩ := hb
  rw [← e1]
  obtain ⟨_, st2, r2, e2, o2, _, _, _⟩ := C03.segments_vram_end objs cx hsy segs [] ls emitted hsegs hall st1 o1 0 r1
    (sizeLines cx emitted ++ (B1 ++ (A ++ (B2 ++ (E ++ (B3 ++ ([Line.discardHdr, Line.blockOpen] ++ (N ++ ([Line.discardPat c!"*"] ++ ([Line.blockClose, Line.blockClose] ++ T))))))))) ++ [])
  rw [← e2]
  obtain ⟨o3, _, _, _⟩ := run_outer objs (sizeLines cx emitted) (sizeLines_outer cx emitted) st2 o2
    (B1 ++ (A ++ (B2 ++ (E ++ (B3 ++ ([Line.discardHdr, Line.blockOpen] ++ (N ++ ([Line.discardPat c!"*"] ++ ([Line.blockClose, Line.blockClose] ++ T)))))))) ++ [])
  generalize execK objs st2 (sizeLines cx emitted) _ = st3 at *
  rw [execK_blank_opt objs B1 hB1]
  rw [← hA] at *
  obtain ⟨o4, _, _⟩ := run_singleEntries objs cx.d.settings.sectionsAllowlist st3 o3
    (B2 ++ (E ++ (B3 ++ ([Line.discardHdr, Line.blockOpen] ++ (N ++ ([Line.discardPat c!"*"] ++ ([Line.blockClose, Line.blockClose] ++ T)))))) ++ [])
  generalize execK objs st3 (cx.d.settings.sectionsAllowlist.map fun x => Line.singleEntry x c!"0") _ = st4 at *
  rw [execK_blank_opt objs B2 hB2]
  rw [← hE] at *
  obtain ⟨o5, _, _⟩ := run_singleEntries objs cx.d.settings.sectionsAllowlistExtra st4 o4
    (B3 ++ ([Line.discardHdr, Line.blockOpen] ++ (N ++ ([Line.discardPat c!"*"] ++ ([Line.blockClose, Line.blockClose] ++ T)))) ++ [])
  generalize execK objs st4 (cx.d.settings.sectionsAllowlistExtra.map fun x => Line.singleEntry x c!"0") _ = st5 at *
  rw [execK_blank_opt objs B3 hB3]
  -- the `/DISCARD/` block
  have h6 : (execK objs st5 [Line.discardHdr, Line.blockOpen] (N ++ ([Line.discardPat c!"*"] ++ ([Line.blockClose, Line.blockClose] ++ T)) ++ [])).inDiscard = true := by
    simp [execK, step]
  generalize execK objs st5 [Line.discardHdr, Line.blockOpen] _ = st6 at *
  have h7 : (execK objs st6 N ([Line.discardPat c!"*"] ++ ([Line.blockClose, Line.blockClose] ++ T) ++ [])).inDiscard = true := by
    rw [← hN]
    generalize cx.d.settings.sectionsDenylist = dl
    generalize ([Line.discardPat c!"*"] ++ ([Line.blockClose, Line.blockClose] ++ T) ++ []) = kk
    clear hN
    induction dl generalizing st6 with
    | nil => exact h6
    | cons a r ih =>
      simp only [List.map_cons, execK]
      apply ih
      simp only [step, h6, if_true]
  generalize execK objs st6 N _ = st7 at *
  have h8 : Accounted (execK objs st7 [Line.discardPat c!"*"] ([Line.blockClose, Line.blockClose] ++ T ++ [])) i := by
    simp only [execK]
    exact discard_all objs st7 h7 _ i hi
  generalize execK objs st7 [Line.discardPat c!"*"] _ = st8 at *
  have h9 := accounted_mono objs ([Line.blockClose, Line.blockClose] ++ T) st8 [] i h8
  simp only [imageOf]
  exact h9

/-- **C18 / C01 in the linked image, for the whole ordinary script of a document: nothing is left over.** With
`discard_wildcard_section` every input section of the object table is placed in an output section or discarded. -/
theorem final_placed_or_discarded (objs : List InSec) (d : Document) (o : Opts) (vc : Bool) (script : List Line)
    (hmulti : d.settings.singleSegmentMode = false)
    (h : generateNormal d o vc = .ok script)
    (hall : ∀ s ∈ d.segments, shouldEmit o s.cond = true → s.allocSections ≠ [])
    (hw : d.settings.discardWildcardSection = true)
    (defsyms : List (Str × Nat)) (i : InSec) (hi : i ∈ objs) :
    (∃ p ∈ (link objs defsyms script).placed, p.inp = i) ∨ i ∈ (link objs defsyms script).discarded := by
  unfold generateNormal at h
  split at h
  · contradiction
  · rename_i body hbody
    injection h with h
    subst h
    unfold addAllSegments at hbody
    simp only [hmulti, Bool.false_eq_true, if_false] at hbody
    split at hbody
    · contradiction
    · rename_i ls emitted hsegs
      injection hbody with hbody
      subst hbody
      have hform : versionComment vc ++ (beginSections { d := d, o := o } ++ ls ++ endSections { d := d, o := o } emitted) ++ topLevel d o
          = versionComment vc ++ (beginSections { d := d, o := o } ++ ls ++ (endSections { d := d, o := o } emitted ++ topLevel d o)) := by
        simp [List.append_assoc]
      rw [hform]
      exact accounted_core objs { d := d, o := o } rfl vc d.segments ls emitted _ hsegs hall hw defsyms i hi

/-- the same for the main script of partial mode (the object table being the partial objects). -/
theorem final_placed_or_discarded_partial (objs : List InSec) (d : Document) (o : Opts) (vc : Bool) (out : PartialOut)
    (h : generatePartial d o vc = .ok out)
    (hall : ∀ s ∈ d.segments, shouldEmit o s.cond = true → s.allocSections ≠ [])
    (hw : d.settings.discardWildcardSection = true)
    (defsyms : List (Str × Nat)) (i : InSec) (hi : i ∈ objs) :
    (∃ p ∈ (link objs defsyms out.main).placed, p.inp = i) ∨ i ∈ (link objs defsyms out.main).discarded := by
  obtain ⟨folder, ls, emitted, _, hsegs, hmain⟩ := C03.partial_main_shape d o vc out h
  rw [hmain]
  exact accounted_core objs (C03.partialCx d o) rfl vc _ ls emitted _ hsegs (C03.partialSegs_alloc d o folder hall) hw defsyms i hi

/-- the hypotheses are met: with an input section nobody lists (`a.o(.junk)`) and one the denylist names
(`b.o(.reginfo)`), the image of the example document of `C04Final` has four placed and two discarded input sections. -/
example : (match generateNormal C04.exDoc C04.exOpts false with
    | .ok script =>
      let objs := C04.exObjs ++ [⟨c!"a.o", none, c!".junk", 4, 4⟩, ⟨c!"b.o", none, c!".reginfo", 24, 4⟩]
      decide (C04.exDoc.settings.discardWildcardSection = true)
      && decide ((link objs [] script).placed.length = 4) && decide ((link objs [] script).discarded.length = 2)
    | .error _ => false) = true := by decide +kernel

end Slinky.C18
