/-
  C03 / C05 in the image `Ld.link` returns: the VRAM start symbol of every emitted segment is the
  address of the segment's allocatable output section — `<segment>_VRAM = ADDR(.<segment>)` is written in
  front of the header, so when it is evaluated the section does not exist yet; the linker semantics
  records a forward reference and resolves it against the sections of the finished evaluation
  (`Ld.addr_symbol_image`). With `final_fixed_vram`, `final_fixed_symbol`, `final_follows_segment` and
  `final_default_placement` this gives the value of the symbol for each kind of address; with
  `final_vram_end` it gives `start ≤ end` for the VRAM symbols of a segment.

  Hypotheses on the text of the script: it assigns the symbol once and has one header `.<segment>`
  (distinct segment names, no allowlisted section called like a segment's output section).
-/
import Props.FinalSecs
import Props.C03Default
namespace Slinky.C03
open Slinky W Ld

/-- symbol assignments and empty lines do not open or close `/DISCARD/`. -/
theorem execK_nd (objs : List InSec) : ∀ (ls : List Line)
    (_ : ∀ l ∈ ls, l = .blank ∨ ∃ s e p h lk, l = .assign s e p h lk) (st : St) (k : List Line),
    (execK objs st ls k).inDiscard = st.inDiscard := by
  intro ls
  induction ls with
  | nil => intro _ st k; rfl
  | cons l r ih =>
    intro hall st k
    simp only [execK]
    rw [ih (fun x hx => hall x (List.mem_cons_of_mem _ hx))]
    rcases hall l List.mem_cons_self with rfl | ⟨s, e, p, h, lk, rfl⟩
    · rfl
    · simp only [step]
      split
      · rfl
      · split
        · split <;> rfl
        · rfl

theorem outer_assign_or_blank {l : Line} (h : OuterLine l) : l = .blank ∨ ∃ s e p h lk, l = .assign s e p h lk := by
  cases h with
  | blank => exact Or.inl rfl
  | sym s e p h lk _ => exact Or.inr ⟨s, e, p, h, lk, rfl⟩

/-- the start alignments of `add_segment`. -/
def startAligns (seg : Segment) : List Line :=
  match seg.segmentStartAlign with
  | some a => [alignSymbol c!"__romPos" a, alignSymbol c!"." a]
  | none => []

theorem startAligns_assign (seg : Segment) : ∀ l ∈ startAligns seg, l = .blank ∨ ∃ s e p h lk, l = .assign s e p h lk := by
  intro l hl
  unfold startAligns at hl
  split at hl
  · simp only [List.mem_cons, List.mem_nil_iff, or_false] at hl
    rcases hl with rfl | rfl <;> exact Or.inr ⟨_, _, _, _, _, rfl⟩
  · cases hl

theorem segmentLines_split (cx : Ctx) (seg : Segment) (cls alloc noload : List Line) :
    segmentLines cx seg cls alloc noload =
      (cls ++ (startAligns seg ++ [linkerSym (cx.d.settings.style.segRomStart seg.name) (.sym c!"__romPos")]))
      ++ linkerSym (cx.d.settings.style.segVramStart seg.name) (.addr (c!"." ++ seg.name))
        :: (alloc ++ ([.blank] ++ (noload ++ ([.blank] ++ segTail cx seg)))) := by
  unfold segmentLines segTail startAligns
  cases seg.segmentStartAlign <;> cases seg.segmentEndAlign <;> cases seg.vramClass <;> simp

/-- the statements of the allocatable part contain the header `.<segment>`. -/
theorem writeSegment_header (cx : Ctx) (seg : Segment) (ls : List Line)
    (h : writeSegment cx seg seg.allocSections false = .ok ls) : 1 ≤ hdrCount (c!"." ++ seg.name) ls := by
  unfold writeSegment at h
  split at h
  · contradiction
  · injection h with h
    subst h
    apply List.countP_pos_iff.2
    refine ⟨.outHdr (c!"." ++ seg.name) false (segAddr cx seg) (some (cx.d.settings.style.segRomStart seg.name)) seg.subalign, ?_, by simp [hdrOf]⟩
    simp [segmentStart]

/-- **C03 / C05 in the linked image, for the whole ordinary script of a document: the VRAM start symbol.**
For every document in multi-segment mode whose emitted segments have an allocatable section, every option
set, object table and `--defsym` table: for an emitted segment whose VRAM start symbol the script assigns
once and whose header `.<segment>` occurs once, the image `Ld.link` computes holds an output section
`.<segment>` and the VRAM start symbol is its address. -/
theorem final_vram_start (objs : List InSec) (d : Document) (o : Opts) (vc : Bool) (script : List Line)
    (hmulti : d.settings.singleSegmentMode = false)
    (h : generateNormal d o vc = .ok script)
    (hall : ∀ s ∈ d.segments, shouldEmit o s.cond = true → s.allocSections ≠ [])
    (defsyms : List (Str × Nat))
    (pre post : List Segment) (seg : Segment) (hsplit : d.segments = pre ++ seg :: post)
    (hinc : shouldEmit o seg.cond = true)
    (hcnt : assignCount (d.settings.style.segVramStart seg.name) script ≤ 1)
    (hhdr : hdrCount (c!"." ++ seg.name) script ≤ 1) :
    ∃ os ∈ (link objs defsyms script).secs, os.name = c!"." ++ seg.name ∧ os.noload = false ∧
      (link objs defsyms script).sym (d.settings.style.segVramStart seg.name) = some os.addr ∧
      (assignCount (d.settings.style.segVramEnd seg.name) script ≤ 1 →
        ∃ e, (link objs defsyms script).sym (d.settings.style.segVramEnd seg.name) = some e ∧ os.addr + os.size ≤ e) := by
  -- the output section is in the image
  obtain ⟨zs, hz, hfacts⟩ := final_vram_end objs d o vc script hmulti h hall defsyms
  have hsm : seg ∈ zs.map (·.1) := by
    rw [hz, hsplit]; exact List.mem_filter.2 ⟨List.mem_append_right _ List.mem_cons_self, by simpa using hinc⟩
  obtain ⟨z, hzm, rfl⟩ := List.mem_map.1 hsm
  obtain ⟨f1, f2, ⟨os, hos, g1, g2, g3, g4⟩, f4⟩ := hfacts z hzm
  refine ⟨os, hos, g1, g4, ?_, ?_⟩
  rotate_left
  · intro hc
    refine ⟨_, f4 hc, ?_⟩
    rw [g2, g3]
    have : z.2.2.2 ≤ alignO z.1.segmentEndAlign z.2.2.2 := by
      unfold alignO; split
      · exact le_alignUp _ _
      · exact Nat.le_refl _
    omega
  rw [link_eq] at hos ⊢
  generalize carry _ = S0 at hos ⊢
  -- the shape of the script
  unfold generateNormal at h
  split at h
  · contradiction
  · rename_i body hbody
    injection h with h
    subst h
    unfold addAllSegments at hbody
    simp only [hmulti, Bool.false_eq_true, if_false] at hbody
    split at hbody
    · contradiction
    · rename_i ls emitted hsegs
      injection hbody with hbody
      subst hbody
      generalize hcx : ({ d := d, o := o } : Ctx) = cx at *
      have hd : cx.d = d := by rw [← hcx]
      have ho' : cx.o = o := by rw [← hcx]
      have hsy : cx.emitSecSyms = true := by rw [← hcx]
      rw [hsplit] at hsegs
      obtain ⟨lsPre, em1, lsSeg, em2, lsPost, hpre, hseg, hpost, rfl⟩ := addSegments_split cx pre z.1 post [] ls emitted hsegs
      have hallc : ∀ s ∈ pre ++ z.1 :: post, shouldEmit cx.o s.cond = true → s.allocSections ≠ [] := by
        rw [ho', ← hsplit]; exact hall
      unfold addSegment at hseg
      simp only [ho', hinc, Bool.not_true, Bool.false_eq_true, if_false] at hseg
      split at hseg
      · contradiction
      · rename_i cls em3 hcp
        split at hseg
        · contradiction
        · rename_i alloc halloc
          split at hseg
          · contradiction
          · rename_i noload hnoload
            injection hseg with hseg
            simp only [Prod.mk.injEq] at hseg
            obtain ⟨rfl, rfl⟩ := hseg
            have hcls : ∀ l ∈ cls, OuterLine l ∧ symOf l ≠ some romPos := by
              unfold classPart at hcp
              split at hcp
              · injection hcp with hcp; simp only [Prod.mk.injEq] at hcp; obtain ⟨rfl, _⟩ := hcp
                intro l hl; cases hl
              · split at hcp
                · contradiction
                · rename_i vcl _
                  split at hcp
                  · injection hcp with hcp; simp only [Prod.mk.injEq] at hcp; obtain ⟨rfl, _⟩ := hcp
                    intro l hl; cases hl
                  · injection hcp with hcp; simp only [Prod.mk.injEq] at hcp; obtain ⟨rfl, _⟩ := hcp
                    exact classIntro_outer cx _ vcl
            rw [hd] at *
            generalize hs : d.settings.style.segVramStart z.1.name = s at *
            generalize hn : c!"." ++ z.1.name = n at *
            generalize hR : linkerSym (d.settings.style.segRomStart z.1.name) (.sym c!"__romPos") = romStart
            generalize hA : versionComment vc ++ (beginSections cx ++ (lsPre ++ (cls ++ (startAligns z.1 ++ [romStart])))) = A
            generalize hB : alloc ++ ([.blank] ++ (noload ++ ([.blank] ++ segTail cx z.1))) ++ (lsPost ++ (endSections cx emitted ++ topLevel d o)) = B
            have hshape : versionComment vc ++ (beginSections cx ++ (lsPre ++ (segmentLines cx z.1 cls alloc noload ++ lsPost)) ++ endSections cx emitted) ++ topLevel d o
                = A ++ Line.assign s (.addr n) false false true :: B := by
              have hd' : cx.d = d := by rw [← hcx]
              rw [segmentLines_split, hd', hR, hs, hn, ← hA, ← hB]
              simp [List.append_assoc, linkerSym]
            rw [hshape] at hos hcnt hhdr ⊢
            have hsdot : s ≠ c!"." := by rw [← hs]; exact endsOk_ne_dot _ (segVramStart_ok _ _)
            have hsym : symOf (Line.assign s (.addr n) false false true) = some s := by simp [symOf, hsdot]
            rw [assignCount_append, assignCount_cons] at hcnt
            simp only [hsym, if_true] at hcnt
            rw [hdrCount_append, hdrCount_cons] at hhdr
            have hBh : 1 ≤ hdrCount n B := by
              rw [← hB, hdrCount_append, hdrCount_append, ← hn]
              have := writeSegment_header cx z.1 alloc halloc
              omega
            -- the assignment is reached outside `/DISCARD/`
            have hdisc : (execK objs { syms := S0 } A (Line.assign s (.addr n) false false true :: B ++ [])).inDiscard = false := by
              rw [← hA, execK_append, Slinky.C04.execK_quiet objs _ (Slinky.C04.versionComment_quiet vc), execK_append, execK_append]
              have hb : ∃ st1, st1 = execK objs { syms := S0 } (beginSections cx)
                    (lsPre ++ (cls ++ (startAligns z.1 ++ [romStart])) ++ (Line.assign s (.addr n) false false true :: B ++ [])) ∧ Outside st1 ∧
                  lookupLast Ld.romPos st1.syms = some (.num 0) := by
                refine ⟨_, rfl, ?_, ?_⟩
                · unfold beginSections
                  cases cx.d.settings.hardcodedGpValue <;> simp [execK, step, setSym] <;> exact ⟨rfl, rfl⟩
                · unfold beginSections
                  cases cx.d.settings.hardcodedGpValue <;> simp [execK, step, setSym, eval, lookupLast_snoc, lookupLast_snoc2, Ld.romPos]
              obtain ⟨st1, e1, o1, r1⟩ := hb
              rw [← e1]
              obtain ⟨_, st2, r2, e2, o2, _, _, _⟩ := segments_vram_end objs cx hsy pre [] lsPre em1 hpre
                (fun s hs => hallc s (List.mem_append_left _ hs)) st1 o1 0 r1
                (cls ++ (startAligns z.1 ++ [romStart]) ++ (Line.assign s (.addr n) false false true :: B ++ []))
              rw [← e2, execK_nd objs _ ?_ st2 _]
              · exact o2.nd
              · intro l hl
                simp only [List.mem_append, List.mem_cons, List.mem_nil_iff, or_false] at hl
                rcases hl with hl | hl | hl
                · exact outer_assign_or_blank (hcls l hl).1
                · exact startAligns_assign z.1 l hl
                · rw [hl, ← hR]; exact Or.inr ⟨_, _, _, _, _, rfl⟩
            exact addr_symbol_image objs S0 A B s n false false true hsdot (by omega) (by omega) (by omega) hdisc os hos
              g1

/-- the hypotheses are met and the numbers are real: in the example document of `C04Final`, `main_VRAM` is the
address of `.main`, 0x80000080, and `main_VRAM_END` lies 13 bytes of `.text` and `.data` behind it. -/
example : (match generateNormal C04.exDoc C04.exOpts false with
    | .ok script =>
      decide (assignCount c!"main_VRAM" script = 1) && decide (hdrCount c!".main" script = 1)
      && decide ((link C04.exObjs [] script).sym c!"main_VRAM" = some 0x80000080)
      && decide ((link C04.exObjs [] script).sym c!"main_VRAM_END" = some 0x8000008D)
      && (link C04.exObjs [] script).secs.any (fun os => os.name = c!".main" && os.addr = 0x80000080 && os.size = 13)
    | .error _ => false) = true := by decide +kernel

end Slinky.C03
