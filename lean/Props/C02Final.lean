/-
  C02 in the image `Ld.link` returns: a segment without an address of its own does not start before the end of the
  segment emitted before it — addresses do not decrease along the document order for segments placed by default
  (a corollary of `C03.final_default_placement`; segments with an address of their own are where the document puts
  them, `C03.final_fixed_vram` / `final_fixed_symbol` / `final_follows_segment` / `C10.final_class_fixed_vram`).
-/
import Props.C03Default
import Props.C02
namespace Slinky.C02
open Slinky W Ld

theorem le_alignO (o : Option Nat) (x : Nat) : x ≤ alignO o x := by
  unfold alignO
  split
  · exact le_alignUp _ _
  · exact Nat.le_refl _

/-- **C02 in the linked image, for the whole ordinary script: default placement never goes back.** -/
theorem final_default_not_before_previous (objs : List InSec) (d : Document) (o : Opts) (vc : Bool) (script : List Line)
    (hmulti : d.settings.singleSegmentMode = false)
    (h : generateNormal d o vc = .ok script)
    (hall : ∀ s ∈ d.segments, shouldEmit o s.cond = true → s.allocSections ≠ [])
    (defsyms : List (Str × Nat))
    (pre post : List Segment) (seg f : Segment) (hsplit : d.segments = pre ++ seg :: post)
    (hinc : shouldEmit o seg.cond = true)
    (hfv : seg.fixedVram = none) (hfs : seg.fixedSymbol = none) (hfol : seg.followsSegment = none) (hcl : seg.vramClass = none)
    (hlast : C03.lastEmitted o none pre = some f)
    (hcnt : assignCount (d.settings.style.segVramEnd f.name) script ≤ 1) :
    ∃ os ∈ (link objs defsyms script).secs, os.name = c!"." ++ seg.name ∧ os.noload = false ∧
      ∃ e, (link objs defsyms script).sym (d.settings.style.segVramEnd f.name) = some e ∧ e ≤ os.addr := by
  obtain ⟨os, hos, g1, g2, _, g4⟩ := C03.final_default_placement objs d o vc script hmulti h hall defsyms pre post seg hsplit hinc hfv hfs hfol hcl
  rw [hlast] at g4
  obtain ⟨e, he, ha⟩ := g4 hcnt
  refine ⟨os, hos, g1, g2, e, he, ?_⟩
  rw [ha]
  exact Nat.le_trans (le_alignO _ _) (le_alignUp _ _)

end Slinky.C02
