/-
  C15 — generation is deterministic.
-/
import Mathlib.Data.List.Sort
import Props.Lemmas
namespace Slinky.C15
open Slinky List

/-! ### the sort key of `sections_to_emit_here` is a total order -/

theorem strLt_irrefl (a : Str) : strLt a a = false := by
  induction a with
  | nil => rfl
  | cons c cs ih => simp [strLt, ih]

theorem strLt_trichotomy (a b : Str) : a = b ∨ strLt a b = true ∨ strLt b a = true := by
  induction a generalizing b with
  | nil => cases b <;> simp [strLt]
  | cons c cs ih =>
    cases b with
    | nil => simp [strLt]
    | cons d ds =>
      unfold strLt
      by_cases h1 : c.toNat < d.toNat
      · simp [h1]
      · by_cases h2 : d.toNat < c.toNat
        · simp [h1, h2]
        · have hcd : c = d := Char.toNat_inj.mp (by omega)
          subst hcd
          simp only [Nat.lt_irrefl, if_false]
          rcases ih ds with h | h | h
          · subst h; simp
          · simp [h]
          · simp [h]

theorem strLt_asymm (a b : Str) (h : strLt a b = true) : strLt b a = false := by
  induction a generalizing b with
  | nil => cases b <;> simp [strLt] at h ⊢
  | cons c cs ih =>
    cases b with
    | nil => simp [strLt] at h
    | cons d ds =>
      unfold strLt at h ⊢
      by_cases h1 : c.toNat < d.toNat
      · have : ¬ d.toNat < c.toNat := by omega
        simp [this, h1]
      · simp only [h1, if_false] at h
        by_cases h2 : d.toNat < c.toNat
        · simp [h2] at h
        · simp only [h2, if_false] at h
          simp only [h2, if_false, h1]
          exact ih ds h

theorem strLt_trans (a b c : Str) (h1 : strLt a b = true) (h2 : strLt b c = true) : strLt a c = true := by
  induction a generalizing b c with
  | nil =>
    cases b with
    | nil => simp [strLt] at h1
    | cons _ _ => cases c <;> simp [strLt] at h2 ⊢
  | cons x xs ih =>
    cases b with
    | nil => simp [strLt] at h1
    | cons y ys =>
      cases c with
      | nil => simp [strLt] at h2
      | cons z zs =>
        unfold strLt at h1 h2 ⊢
        by_cases hxy : x.toNat < y.toNat
        · by_cases hyz : y.toNat < z.toNat
          · have : x.toNat < z.toNat := by omega
            simp [this]
          · simp only [hyz, if_false] at h2
            by_cases hzy : z.toNat < y.toNat
            · simp [hzy] at h2
            · have : x.toNat < z.toNat := by omega
              simp [this]
        · simp only [hxy, if_false] at h1
          by_cases hyx : y.toNat < x.toNat
          · simp [hyx] at h1
          · simp only [hyx, if_false] at h1
            by_cases hyz : y.toNat < z.toNat
            · have : x.toNat < z.toNat := by omega
              simp [this]
            · simp only [hyz, if_false] at h2
              by_cases hzy : z.toNat < y.toNat
              · simp [hzy] at h2
              · simp only [hzy, if_false] at h2
                have h3 : ¬ x.toNat < z.toNat := by omega
                have h4 : ¬ z.toNat < x.toNat := by omega
                simp only [h3, h4, if_false]
                exact ih ys zs h1 h2

/-- `a ≤ b` on names. -/
def leS (a b : Str) : Bool := !strLt b a

theorem leS_total (a b : Str) : leS a b = true ∨ leS b a = true := by
  unfold leS
  rcases strLt_trichotomy a b with h | h | h
  · subst h; simp [strLt_irrefl]
  · left; simp [strLt_asymm a b h]
  · right; simp [strLt_asymm b a h]

theorem leS_antisymm (a b : Str) (h1 : leS a b = true) (h2 : leS b a = true) : a = b := by
  unfold leS at h1 h2
  rcases strLt_trichotomy a b with h | h | h
  · exact h
  · simp [h] at h2
  · simp [h] at h1

theorem leS_trans (a b c : Str) (h1 : leS a b = true) (h2 : leS b c = true) : leS a c = true := by
  unfold leS at *
  simp only [Bool.not_eq_true'] at *
  rcases strLt_trichotomy c a with h | h | h
  · subst h; exact strLt_irrefl _
  · -- c < a, a ≤ b so c < b?  contradiction with b ≤ c
    rcases strLt_trichotomy a b with hab | hab | hab
    · subst hab; rw [h] at h2; exact absurd h2 (by simp)
    · have := strLt_trans c a b h hab; rw [this] at h2; exact absurd h2 (by simp)
    · rw [hab] at h1; exact absurd h1 (by simp)
  · exact strLt_asymm _ _ h

/-- the relation the implementation sorts by. -/
def keyRel (sections : List Str) (a b : Str) : Prop := keyLe sections a b = true

instance (sections : List Str) : DecidableRel (keyRel sections) := fun a b => by unfold keyRel; infer_instance

theorem keyLe_eq (sections : List Str) (a b : Str) :
    keyLe sections a b =
      match position a sections, position b sections with
      | none, none => leS a b
      | none, some _ => true
      | some _, none => false
      | some i, some j => decide (i < j) || (decide (i = j) && leS a b) := by
  unfold keyLe leS; rfl

instance keyRel_total (sections : List Str) : Std.Total (keyRel sections) where
  total a b := by
    unfold keyRel
    rw [keyLe_eq, keyLe_eq]
    cases position a sections <;> cases position b sections <;> simp
    · exact leS_total a b
    · rename_i i j
      rcases Nat.lt_trichotomy i j with h | h | h
      · left; left; exact h
      · subst h
        rcases leS_total a b with h | h
        · left; right; exact ⟨rfl, h⟩
        · right; right; exact ⟨rfl, h⟩
      · right; left; exact h

instance keyRel_trans (sections : List Str) : IsTrans Str (keyRel sections) where
  trans a b c := by
    unfold keyRel
    rw [keyLe_eq, keyLe_eq, keyLe_eq]
    cases position a sections <;> cases position b sections <;> cases position c sections <;> simp
    · exact leS_trans a b c
    · rename_i i j k
      rintro (h1 | ⟨h1, h1'⟩) (h2 | ⟨h2, h2'⟩)
      · left; omega
      · left; omega
      · left; omega
      · right; exact ⟨by omega, leS_trans a b c h1' h2'⟩

instance keyRel_antisymm (sections : List Str) : Std.Antisymm (keyRel sections) where
  antisymm a b := by
    unfold keyRel
    rw [keyLe_eq, keyLe_eq]
    cases position a sections <;> cases position b sections <;> simp
    · exact leS_antisymm a b
    · rename_i i j
      rintro (h1 | ⟨_, h1'⟩) (h2 | ⟨_, h2'⟩)
      · omega
      · omega
      · omega
      · exact leS_antisymm a b h1' h2'

theorem insertSorted_eq (sections : List Str) (x : Str) (l : List Str) :
    insertSorted (keyLe sections) x l = l.orderedInsert (keyRel sections) x := by
  induction l with
  | nil => rfl
  | cons y ys ih =>
    unfold insertSorted
    by_cases h : keyLe sections x y = true
    · rw [orderedInsert_cons_of_le (r := keyRel sections) ys h]; simp [h]
    · rw [orderedInsert_of_not_le (r := keyRel sections) ys h]; simp [h, ih]

theorem sortBy_eq (sections : List Str) (l : List Str) :
    sortBy (keyLe sections) l = l.insertionSort (keyRel sections) := by
  induction l with
  | nil => rfl
  | cons x xs ih => simp [sortBy, insertSorted_eq, ih]

/-- sorting by `(position, name)` gives the same list for every arrangement of the input. -/
theorem sortBy_perm (sections : List Str) {l₁ l₂ : List Str} (h : l₁ ~ l₂) :
    sortBy (keyLe sections) l₁ = sortBy (keyLe sections) l₂ := by
  rw [sortBy_eq, sortBy_eq]
  apply Perm.eq_of_pairwise' (r := keyRel sections)
  · exact pairwise_insertionSort _ _
  · exact pairwise_insertionSort _ _
  · exact (perm_insertionSort _ l₁).trans (h.trans (perm_insertionSort _ l₂).symm)


theorem lookup_isSome_perm {β} (k : Str) {l₁ l₂ : List (Str × β)} (h : l₁ ~ l₂) :
    (lookup k l₁).isSome = (lookup k l₂).isSome := by
  have key : ∀ l : List (Str × β), (lookup k l).isSome = l.any (fun kv => kv.1 = k) := by
    intro l
    induction l with
    | nil => rfl
    | cons a as ih =>
      obtain ⟨k', v⟩ := a
      unfold lookup
      by_cases hk : k' = k <;> simp [hk, ih]
  rw [key, key]
  exact h.any_eq

/-- **the one place a hash map is iterated.** The sections a file contributes to a group do
not depend on the order in which its `section_order` map is visited. -/
theorem sectionsToEmitHere_perm {o₁ o₂ : List (Str × Str)} (h : o₁ ~ o₂) (sec : Str) (secs : List Str) :
    sectionsToEmitHere o₁ sec secs = sectionsToEmitHere o₂ sec secs := by
  unfold sectionsToEmitHere
  have he : o₁.isEmpty = o₂.isEmpty := by
    cases o₁ <;> cases o₂ <;> simp_all
  rw [he, lookup_isSome_perm sec h]
  split
  · rfl
  · apply sortBy_perm
    apply Perm.append_left
    exact h.filterMap _


mutual
  /-- two file entries that are the same up to the visiting order of every `section_order`. -/
  def FEq : FileInfo → FileInfo → Prop
    | .mk p k sf pa se lo so fs dir c keep, .mk p' k' sf' pa' se' lo' so' fs' dir' c' keep' =>
      p = p' ∧ k = k' ∧ sf = sf' ∧ pa = pa' ∧ se = se' ∧ lo = lo' ∧ so ~ so' ∧ FEqL fs fs'
        ∧ dir = dir' ∧ c = c' ∧ keep = keep'
  def FEqL : List FileInfo → List FileInfo → Prop
    | [], [] => True
    | a :: as, b :: bs => FEq a b ∧ FEqL as bs
    | _, _ => False
end

theorem concatMapE_congr {α β ε} (g : α → Except ε (List β)) (R : α → α → Prop)
    (hg : ∀ a b, R a b → g a = g b) :
    ∀ (l₁ l₂ : List α), List.Forall₂ R l₁ l₂ → concatMapE g l₁ = concatMapE g l₂ := by
  intro l₁ l₂ h
  induction h with
  | nil => rfl
  | cons hab _ ih => unfold concatMapE; rw [hg _ _ hab, ih]

theorem FEqL_forall₂ : ∀ (l₁ l₂ : List FileInfo), FEqL l₁ l₂ → List.Forall₂ FEq l₁ l₂
  | [], [], _ => .nil
  | _ :: as, _ :: bs, h => by
    unfold FEqL at h
    exact .cons h.1 (FEqL_forall₂ as bs h.2)
  | [], _ :: _, h => by simp [FEqL] at h
  | _ :: _, [], h => by simp [FEqL] at h

/-- **lifting to the emitter.** What a file entry emits for a section does not depend on the
visiting order of its own or of any nested entry's `section_order`. -/
theorem emitEntry_perm (cx : Ctx) (seg : Segment) (secs : List Str) :
    ∀ (fuel : Nat) (f₁ f₂ : FileInfo), FEq f₁ f₂ → ∀ (sec base : Str) (parents : List Str),
      emitEntry cx seg secs fuel f₁ sec base parents = emitEntry cx seg secs fuel f₂ sec base parents := by
  intro fuel
  induction fuel with
  | zero => intro f₁ f₂ _ sec base parents; rfl
  | succ n ih =>
    intro f₁ f₂ h sec base parents
    obtain ⟨p, k, sf, pa, se, lo, so, fs, dir, c, keep⟩ := f₁
    obtain ⟨p', k', sf', pa', se', lo', so', fs', dir', c', keep'⟩ := f₂
    unfold FEq at h
    obtain ⟨rfl, rfl, rfl, rfl, rfl, rfl, hso, hfs, rfl, rfl, rfl⟩ := h
    unfold emitEntry
    simp only [FileInfo.cond, FileInfo.sectionOrder, FileInfo.keep, FileInfo.kind, FileInfo.path,
      FileInfo.subfile, FileInfo.sect, FileInfo.padAmount, FileInfo.linkerOffsetName, FileInfo.dir, FileInfo.files]
    have he : so.isEmpty = so'.isEmpty := by
      cases so <;> cases so' <;> simp_all
    rw [sectionsToEmitHere_perm hso sec secs]
    simp only [he]
    have hch : ∀ kk base', concatMapE (fun child => emitEntry cx seg secs n child kk base' []) fs
        = concatMapE (fun child => emitEntry cx seg secs n child kk base' []) fs' := by
      intro kk base'
      exact concatMapE_congr _ FEq (fun a b hab => ih a b hab kk base' []) fs fs' (FEqL_forall₂ fs fs' hfs)
    have hsub : ∀ kk, concatMapE (fun other => emitEntry cx seg secs n (.mk p k sf pa se lo so fs dir c keep) other base (sec :: parents)) (subgroupsOf seg kk)
        = concatMapE (fun other => emitEntry cx seg secs n (.mk p k sf pa se lo so' fs' dir c keep) other base (sec :: parents)) (subgroupsOf seg kk) := by
      intro kk
      congr 1
      funext other
      exact ih _ _ (by unfold FEq; exact ⟨rfl, rfl, rfl, rfl, rfl, rfl, hso, hfs, rfl, rfl, rfl⟩) other base (sec :: parents)
    simp only [hch, hsub]
    rfl


theorem lookup_eq_some_iff {β} (k : Str) (l : List (Str × β)) (hnd : (l.map (·.1)).Nodup) (v : β) :
    lookup k l = some v ↔ (k, v) ∈ l := by
  induction l with
  | nil => simp [lookup]
  | cons a as ih =>
    obtain ⟨k', v'⟩ := a
    simp only [List.map_cons, List.nodup_cons] at hnd
    unfold lookup
    by_cases hk : k' = k
    · subst hk
      simp only [if_true, Option.some.injEq, List.mem_cons, Prod.mk.injEq, true_and]
      constructor
      · intro h; exact Or.inl h.symm
      · rintro (h | h)
        · exact h.symm
        · exact absurd (List.mem_map_of_mem (f := (·.1)) h) hnd.1
    · simp only [hk, if_false, List.mem_cons, Prod.mk.injEq]
      rw [ih hnd.2]
      constructor
      · intro h; exact Or.inr h
      · rintro (⟨h, _⟩ | h)
        · exact absurd h.symm hk
        · exact h

theorem lookup_perm {β} (k : Str) {l₁ l₂ : List (Str × β)} (h : l₁ ~ l₂) (hnd : (l₁.map (·.1)).Nodup) :
    lookup k l₁ = lookup k l₂ := by
  have hnd₂ : (l₂.map (·.1)).Nodup := (h.map _).nodup_iff.mp hnd
  cases h₁ : lookup k l₁ with
  | some v =>
    have := (lookup_eq_some_iff k l₁ hnd v).1 h₁
    exact ((lookup_eq_some_iff k l₂ hnd₂ v).2 (h.mem_iff.1 this)).symm
  | none =>
    cases h₂ : lookup k l₂ with
    | none => rfl
    | some v =>
      have := (lookup_eq_some_iff k l₂ hnd₂ v).1 h₂
      have := (lookup_eq_some_iff k l₁ hnd v).2 (h.mem_iff.2 this)
      rw [h₁] at this; cases this

/-- **option order.** Distinct custom options supplied in any order build the same map. -/
theorem optsOfList_perm {l₁ l₂ : List (Str × Str)} (h : l₁ ~ l₂) (hnd : (l₁.map (·.1)).Nodup) :
    optsOfList l₁ = optsOfList l₂ := by
  funext k
  unfold optsOfList lookupLast
  apply lookup_perm k
  · exact (List.reverse_perm l₁).trans (h.trans (List.reverse_perm l₂).symm)
  · rw [List.map_reverse]; exact List.nodup_reverse.mpr hnd

/-! ### lifting to whole documents -/

/-- the emitter does not look at the segment's file list nor at the document's segment list
(it is handed the entry to emit): replacing them changes nothing. -/
theorem emitEntry_irrelevant (cx : Ctx) (seg : Segment) (secs : List Str) (segs' : List Segment) (fs' : List FileInfo) :
    ∀ (fuel : Nat) (f : FileInfo) (sec base : Str) (parents : List Str),
      emitEntry { cx with d := { cx.d with segments := segs' } } { seg with files := fs' } secs fuel f sec base parents
        = emitEntry cx seg secs fuel f sec base parents := by
  intro fuel
  induction fuel with
  | zero => intro f sec base parents; rfl
  | succ n ih =>
    intro f sec base parents
    unfold emitEntry
    simp only [ih, subgroupsOf]

theorem depth_FEq : ∀ (f₁ f₂ : FileInfo), FEq f₁ f₂ → FileInfo.depth f₁ = FileInfo.depth f₂
  | .mk p k sf pa se lo so fs dir c keep, .mk p' k' sf' pa' se' lo' so' fs' dir' c' keep', h => by
    unfold FEq at h
    unfold FileInfo.depth
    rw [depthList_FEqL fs fs' h.2.2.2.2.2.2.2.1]
where
  depthList_FEqL : ∀ (l₁ l₂ : List FileInfo), FEqL l₁ l₂ → FileInfo.depthList l₁ = FileInfo.depthList l₂
  | [], [], _ => rfl
  | a :: as, b :: bs, h => by
    unfold FEqL at h
    unfold FileInfo.depthList
    rw [depth_FEq a b h.1, depthList_FEqL as bs h.2]
  | [], _ :: _, h => by simp [FEqL] at h
  | _ :: _, [], h => by simp [FEqL] at h

/-- the same segment up to the visiting order of every `section_order` of its entries. -/
def SegEq (s s' : Segment) : Prop := ∃ fs', FEqL s.files fs' ∧ s' = { s with files := fs' }

/-- the same document up to the visiting order of every `section_order`. -/
def DocEq (d d' : Document) : Prop := ∃ segs', List.Forall₂ SegEq d.segments segs' ∧ d' = { d with segments := segs' }

theorem emitSection_eq (cx : Ctx) (seg : Segment) (segs' : List Segment) (fs' : List FileInfo) (hf : FEqL seg.files fs')
    (sec : Str) (sections : List Str) :
    emitSection { cx with d := { cx.d with segments := segs' } } { seg with files := fs' } sec sections
      = emitSection cx seg sec sections := by
  unfold emitSection
  have hfuel : fuelFor { seg with files := fs' } = fuelFor seg := by
    unfold fuelFor subgroupValues
    rw [← depth_FEq.depthList_FEqL seg.files fs' hf]
  simp only [hfuel]
  have hc : ∀ base, concatMapE (fun file => emitEntry { cx with d := { cx.d with segments := segs' } } { seg with files := fs' }
        sections (fuelFor seg) file sec base []) fs'
      = concatMapE (fun file => emitEntry cx seg sections (fuelFor seg) file sec base []) seg.files := by
    intro base
    simp only [emitEntry_irrelevant]
    exact (concatMapE_congr _ FEq (fun a b hab => emitEntry_perm cx seg sections (fuelFor seg) a b hab sec base [])
      seg.files fs' (FEqL_forall₂ _ _ hf)).symm
  simp only [hc]

theorem writeSegment_eq (cx : Ctx) (seg : Segment) (segs' : List Segment) (fs' : List FileInfo) (hf : FEqL seg.files fs')
    (sections : List Str) (noload : Bool) :
    writeSegment { cx with d := { cx.d with segments := segs' } } { seg with files := fs' } sections noload
      = writeSegment cx seg sections noload := by
  unfold writeSegment
  simp only [emitSection_eq cx seg segs' fs' hf]
  rfl

theorem writeSingleSegment_eq (cx : Ctx) (seg : Segment) (segs' : List Segment) (fs' : List FileInfo) (hf : FEqL seg.files fs')
    (sections : List Str) (noload : Bool) :
    writeSingleSegment { cx with d := { cx.d with segments := segs' } } { seg with files := fs' } sections noload
      = writeSingleSegment cx seg sections noload := by
  unfold writeSingleSegment
  simp only [emitSection_eq cx seg segs' fs' hf]
  rfl

theorem any_forall₂ {α} (R : α → α → Prop) (p : α → Bool) (hp : ∀ a b, R a b → p a = p b) :
    ∀ (l l' : List α), List.Forall₂ R l l' → l.any p = l'.any p := by
  intro l l' h
  induction h with
  | nil => rfl
  | cons hab _ ih => simp only [List.any_cons, hp _ _ hab, ih]

/-- which followed classes are in use only reads the class and the conditions of the segments. -/
theorem followedUsed_eq (cx : Ctx) (segs' : List Segment) (hs : List.Forall₂ SegEq cx.d.segments segs') (vc : VramClass) :
    followedUsed { cx with d := { cx.d with segments := segs' } } vc = followedUsed cx vc := by
  unfold followedUsed
  apply List.filter_congr
  intro other _
  symm
  apply any_forall₂ SegEq _ _ _ _ hs
  rintro a b ⟨fs', _, rfl⟩
  rfl

theorem classPart_eq (cx : Ctx) (segs' : List Segment) (hs : List.Forall₂ SegEq cx.d.segments segs') (em : List Str) (seg : Segment) :
    classPart { cx with d := { cx.d with segments := segs' } } em seg = classPart cx em seg := by
  unfold classPart classIntro
  simp only [followedUsed_eq cx segs' hs]
  rfl

theorem addSegment_eq (cx : Ctx) (seg seg' : Segment) (segs' : List Segment) (hs : List.Forall₂ SegEq cx.d.segments segs')
    (h : SegEq seg seg') (em : List Str) :
    addSegment { cx with d := { cx.d with segments := segs' } } em seg' = addSegment cx em seg := by
  obtain ⟨fs', hf, rfl⟩ := h
  unfold addSegment
  simp only [writeSegment_eq cx seg segs' fs' hf]
  have hc : classPart { cx with d := { cx.d with segments := segs' } } em { seg with files := fs' } = classPart cx em seg := by
    rw [classPart_eq cx segs' hs]
    rfl
  simp only [hc]
  rfl

theorem addSegments_eq (cx : Ctx) (segs' : List Segment) (hs : List.Forall₂ SegEq cx.d.segments segs') :
    ∀ (l l' : List Segment), List.Forall₂ SegEq l l' → ∀ em,
      addSegments { cx with d := { cx.d with segments := segs' } } em l' = addSegments cx em l := by
  intro l l' h
  induction h with
  | nil => intro em; rfl
  | cons hab _ ih =>
    intro em
    unfold addSegments
    rw [addSegment_eq cx _ _ segs' hs hab em]
    simp only [ih]

theorem addSingleSegment_eq (cx : Ctx) (seg seg' : Segment) (segs' : List Segment) (h : SegEq seg seg') :
    addSingleSegment { cx with d := { cx.d with segments := segs' } } seg' = addSingleSegment cx seg := by
  obtain ⟨fs', hf, rfl⟩ := h
  unfold addSingleSegment
  simp only [writeSingleSegment_eq cx seg segs' fs' hf]
  rfl

theorem addAllSegments_eq (cx : Ctx) (segs segs' : List Segment) (hs : cx.d.segments = segs) (h : List.Forall₂ SegEq segs segs') :
    addAllSegments { cx with d := { cx.d with segments := segs' } } = addAllSegments cx := by
  unfold addAllSegments
  simp only [hs, addSegments_eq cx segs' (hs ▸ h) _ _ h]
  cases h with
  | nil => rfl
  | cons hab hrest =>
    cases hrest with
    | nil => simp only [addSingleSegment_eq cx _ _ _ hab]; rfl
    | cons _ _ => rfl

theorem generateNormal_eq (d d' : Document) (h : DocEq d d') (o : Opts) (vc : Bool) :
    generateNormal d' o vc = generateNormal d o vc := by
  obtain ⟨segs', hf, rfl⟩ := h
  unfold generateNormal
  have := addAllSegments_eq { d := d, o := o, esc := escapePath } d.segments segs' rfl hf
  simp only at this
  rw [this]
  rfl

theorem partialSegments_eq (d : Document) (segs' : List Segment) (hd : List.Forall₂ SegEq d.segments segs') (o : Opts) (vc : Bool) (folder : Str) :
    ∀ (l l' : List Segment), List.Forall₂ SegEq l l' → ∀ em,
      partialSegments { d with segments := segs' } o vc folder escapePath em l'
        = partialSegments d o vc folder escapePath em l := by
  intro l l' h
  induction h with
  | nil => intro em; rfl
  | @cons a b as bs hab _ ih =>
    intro em
    obtain ⟨fs', hf, rfl⟩ := hab
    unfold partialSegments
    have h1 := addSingleSegment_eq { d := d, o := o, emitKindSyms := false, emitSecSyms := false, esc := escapePath } a _ segs' ⟨fs', hf, rfl⟩
    simp only at h1
    have h2 : ∀ em, addSegment { d := { d with segments := segs' }, o := o, refPartial := true, esc := escapePath } em
        (partialSegment folder { a with files := fs' })
        = addSegment { d := d, o := o, refPartial := true, esc := escapePath } em (partialSegment folder a) := by
      intro em
      exact addSegment_eq { d := d, o := o, refPartial := true, esc := escapePath } (partialSegment folder a) _ segs' hd ⟨_, by
        unfold partialSegment; simp only []; exact ⟨by unfold FileInfo.newObject FEq; exact ⟨rfl, rfl, rfl, rfl, rfl, rfl, List.Perm.refl _, trivial, rfl, rfl, rfl⟩, trivial⟩, rfl⟩ em
    simp only [h1, h2, ih]

theorem generatePartial_eq (d d' : Document) (h : DocEq d d') (o : Opts) (vc : Bool) :
    generatePartial d' o vc = generatePartial d o vc := by
  obtain ⟨segs', hf, rfl⟩ := h
  unfold generatePartial
  simp only [partialSegments_eq d segs' hf o vc _ _ _ hf]
  rfl

/-- **C15 for whole documents**: two parsed documents that differ only in the order in which
the `section_order` map of any file entry (at any nesting depth, in any segment) is visited
generate the same outputs — scripts, partial scripts, dependency texts, header, symbol list —
in both modes. The model iterates no other hash-based field: all others are only looked up. -/
theorem generate_section_order_independent (d d' : Document) (h : DocEq d d') (o : Opts) (m : Mode) (vc : Bool) :
    generate d' o m vc = generate d o m vc := by
  unfold generate
  rw [generateNormal_eq d d' h o vc, generatePartial_eq d d' h o vc]
  obtain ⟨segs', _, rfl⟩ := h
  rfl

/-- a file whose two `section_order` entries are visited in one order, and in the other. -/
def exFile (so : List (Str × Str)) : FileInfo := .mk c!"x.o" .object [] 0 [] [] so [] [] ({} : Cond) .absent
def exDoc (so : List (Str × Str)) : Document :=
  { settings := {}, segments := [{ name := c!"a", allocSections := [c!".text"], noloadSections := [], files := [exFile so] }] }

/-- the hypothesis is met by documents that really differ. -/
example : DocEq (exDoc [(c!".data", c!".text"), (c!".rodata", c!".text")]) (exDoc [(c!".rodata", c!".text"), (c!".data", c!".text")]) :=
  ⟨_, .cons ⟨[exFile [(c!".rodata", c!".text"), (c!".data", c!".text")]], by
      show FEqL [exFile _] [exFile _]
      unfold FEqL exFile FEq
      exact ⟨⟨rfl, rfl, rfl, rfl, rfl, rfl, List.Perm.swap _ _ _, by unfold FEqL; trivial, rfl, rfl, rfl⟩, by unfold FEqL; trivial⟩, rfl⟩ .nil, rfl⟩

/-- hence every output of every mode is the same: generation is a function of the option
*map* (the model looks options up and never iterates them). -/
theorem generate_option_order (d : Document) (m : Mode) (vc : Bool) {l₁ l₂ : List (Str × Str)}
    (h : l₁ ~ l₂) (hnd : (l₁.map (·.1)).Nodup) :
    generate d (optsOfList l₁) m vc = generate d (optsOfList l₂) m vc := by
  rw [optsOfList_perm h hnd]

end Slinky.C15
