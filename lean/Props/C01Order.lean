/-
  C01, entries with `section_order` (segments without sub-groups): an object entry contributes
  to a group exactly one statement for each section whose destination is that group, so over
  all groups every section whose destination is listed is placed exactly once, in the group of
  its destination.
-/
import Props.C01
import Props.C15
namespace Slinky.C01
open Slinky W List

/-- where `section_order` sends a section: its destination when it is a key, itself otherwise. -/
def destOf (order : List (Str × Str)) (k : Str) : Str := (lookup k order).getD k

theorem mem_sortBy (secs : List Str) (l : List Str) (x : Str) : x ∈ sortBy (keyLe secs) l ↔ x ∈ l := by
  rw [C15.sortBy_eq]
  exact (perm_insertionSort _ l).mem_iff

theorem count_sortBy (secs : List Str) (l : List Str) (x : Str) : (sortBy (keyLe secs) l).count x = l.count x := by
  rw [C15.sortBy_eq]
  exact (perm_insertionSort _ l).count_eq x

theorem lookup_of_mem_nodup {β} (k : Str) (v : β) : ∀ (l : List (Str × β)), (l.map (·.1)).Nodup → (k, v) ∈ l → lookup k l = some v
  | [], _, h => nomatch h
  | (k', v') :: rest, hnd, h => by
    simp only [List.map_cons, List.nodup_cons] at hnd
    unfold lookup
    rcases List.mem_cons.1 h with heq | h
    · injection heq with h1 h2
      subst h1 h2
      simp
    · have : k' ≠ k := by
        intro e
        subst e
        exact hnd.1 (List.mem_map.2 ⟨(k', v), h, rfl⟩)
      simp only [this, if_false]
      exact lookup_of_mem_nodup k v rest hnd.2 h

theorem mem_of_lookup {β} (k : Str) (v : β) : ∀ (l : List (Str × β)), lookup k l = some v → (k, v) ∈ l
  | [], h => nomatch h
  | (k', v') :: rest, h => by
    unfold lookup at h
    by_cases e : k' = k
    · simp only [e, if_true] at h
      injection h with h
      subst e h
      exact List.mem_cons_self
    · simp only [e, if_false] at h
      exact List.mem_cons_of_mem _ (mem_of_lookup k v rest h)

/-- **which sections an entry contributes to a group**: exactly those whose destination is
that group (keys of `section_order` pairwise different, as a YAML mapping guarantees). -/
theorem mem_sectionsToEmitHere (order : List (Str × Str)) (hnd : (order.map (·.1)).Nodup) (sec : Str) (secs : List Str) (k : Str) :
    k ∈ sectionsToEmitHere order sec secs ↔ destOf order k = sec := by
  unfold sectionsToEmitHere destOf
  by_cases he : order.isEmpty = true
  · simp only [he, if_true, List.mem_singleton]
    have : order = [] := List.isEmpty_iff.1 he
    subst this
    simp [lookup]
  · simp only [he, Bool.false_eq_true, if_false, mem_sortBy, List.mem_append, List.mem_filterMap]
    constructor
    · rintro (h | ⟨kv, hkv, hk⟩)
      · cases hl : lookup sec order with
        | none => simp only [hl, Option.isSome_none, Bool.false_eq_true, if_false, List.mem_singleton] at h; subst h; simp [hl]
        | some v => simp [hl] at h
      · split at hk
        · rename_i hv
          injection hk with hk
          subst hk
          rw [lookup_of_mem_nodup kv.1 kv.2 order hnd (by cases kv; exact hkv)]
          exact hv
        · cases hk
    · intro h
      cases hl : lookup k order with
      | none =>
        simp only [hl, Option.getD_none] at h
        subst h
        left
        simp [hl]
      | some v =>
        simp only [hl, Option.getD_some] at h
        subst h
        right
        exact ⟨(k, v), mem_of_lookup k v order hl, by simp⟩

theorem concatMapE_congr_on {α β ε} (f g : α → Except ε (List β)) : ∀ (l : List α), (∀ a ∈ l, f a = g a) →
    concatMapE f l = concatMapE g l := by
  intro l
  induction l with
  | nil => intro _; rfl
  | cons a as ih =>
    intro h
    unfold concatMapE
    rw [h a List.mem_cons_self, ih (fun x hx => h x (List.mem_cons_of_mem _ hx))]

theorem concatMapE_pure {α β ε} (g : α → β) (l : List α) :
    concatMapE (fun k => (Except.ok [g k] : Except ε (List β))) l = .ok (l.map g) := by
  induction l with
  | nil => rfl
  | cons a as ih => unfold concatMapE; simp [ih]

/-- **an object entry with `section_order`, in a segment without sub-groups**: asked for a
group, it contributes one input statement per section whose destination is that group — its
own path, that section, `KEEP` per its effective value — in `(list position, name)` order. -/
theorem object_with_section_order (cx : Ctx) (seg : Segment) (secs : List Str) (n : Nat)
    (p : Str) (order : List (Str × Str)) (c : Cond) (keep : Keep) (sec base : Str) (q : Str)
    (hinc : shouldEmit cx.o c = true) (hesc : cx.esc cx.o p = .ok q)
    (hsub : seg.sectionsSubgroups = []) :
    emitEntry cx seg secs (n + 1) (.mk p .object [] 0 [] [] order [] [] c keep) sec base []
      = .ok ((sectionsToEmitHere order sec secs).map fun k =>
          Line.input (keepFor keep k) (display (pathPush base q)) none k seg.wildcardSections) := by
  unfold emitEntry
  simp only [FileInfo.cond, FileInfo.sectionOrder, FileInfo.kind, FileInfo.path, FileInfo.keep, hinc,
    Bool.not_true, Bool.false_eq_true, if_false, List.not_mem_nil, hesc, liftPath]
  have hs : ∀ k, subgroupsOf seg k = [] := by intro k; unfold subgroupsOf; rw [hsub]; rfl
  refine Eq.trans (concatMapE_congr_on _ (fun k => Except.ok
    [Line.input (keepFor keep k) (display (pathPush base q)) none k seg.wildcardSections]) _ ?_) (concatMapE_pure _ _)
  intro k _
  simp only [hs, concatMapE, ite_self, List.append_nil]

/-- **exactly once, in the group of its destination**: with pairwise different keys, a section
appears exactly once among what the entry contributes to the group of its destination and not
at all in what it contributes to any other group. -/
theorem section_once_in_destination_group (order : List (Str × Str)) (hnd : (order.map (·.1)).Nodup)
    (secs : List Str) (k g : Str) :
    (sectionsToEmitHere order g secs).count k = if destOf order k = g then 1 else 0 := by
  split
  · rename_i h
    have hm := (mem_sectionsToEmitHere order hnd g secs k).2 h
    -- no repetition: the unsorted list has none
    have hnodup : (sectionsToEmitHere order g secs).Nodup := by
      unfold sectionsToEmitHere
      by_cases he : order.isEmpty = true
      · simp [he]
      · simp only [he, Bool.false_eq_true, if_false]
        rw [C15.sortBy_eq]
        refine (perm_insertionSort _ _).nodup_iff.2 ?_
        have hmoved : (order.filterMap fun kv => if kv.2 = g then some kv.1 else none).Nodup := by
          have : (order.filterMap fun kv => if kv.2 = g then some kv.1 else none).Sublist (order.map (·.1)) := by
            clear hnd hm h he
            induction order with
            | nil => exact List.Sublist.slnil
            | cons a as ih =>
              simp only [List.filterMap_cons, List.map_cons]
              split
              · exact List.Sublist.cons _ ih
              · rename_i x hx
                split at hx
                · injection hx with hx; subst hx; exact List.Sublist.cons₂ _ ih
                · cases hx
          exact List.Nodup.sublist this hnd
        cases hl : lookup g order with
        | none =>
          simp only [hl, Option.isSome_none, Bool.false_eq_true, if_false, List.singleton_append, List.nodup_cons]
          refine ⟨?_, hmoved⟩
          intro hmem
          obtain ⟨kv, hkv, hk⟩ := List.mem_filterMap.1 hmem
          split at hk
          · injection hk with hk
            have := lookup_of_mem_nodup kv.1 kv.2 order hnd (by cases kv; exact hkv)
            rw [hk, hl] at this
            cases this
          · cases hk
        | some v => simpa [hl] using hmoved
    exact List.count_eq_one_of_mem hnodup hm
  · rename_i h
    exact List.count_eq_zero_of_not_mem (fun hm => h ((mem_sectionsToEmitHere order hnd g secs k).1 hm))

end Slinky.C01
