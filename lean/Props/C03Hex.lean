/-
  C03: the `fixed_vram` literal slinky prints (`0x%08X`) is read back by the linker semantics as
  the number it was printed from — for every value (this was "validated, not proved" before).
-/
import Props.C03
namespace Slinky.C03
open Slinky Ld

theorem hexVal_digit : ∀ d, d < 16 → hexVal (Nat.digitChar d).toUpper = some d := by decide

def hexStep (acc : Option Nat) (c : Char) : Option Nat :=
  match acc, hexVal c with
  | some a, some v => some (a * 16 + v)
  | _, _ => none

theorem parseHex_eq (s : Str) (h : s ≠ []) : parseHex s = s.foldl hexStep (some 0) := by
  unfold parseHex
  simp only [h, if_false]
  rfl

/-- reading the upper-case hexadecimal digits of `n` gives `n`. -/
theorem fold_toHex (n : Nat) : (toHex n).foldl hexStep (some 0) = some n := by
  unfold toHex
  induction n using Nat.base_induction 16 (by decide) with
  | single m hm =>
    rw [Nat.toDigits_of_lt_base hm]
    simp [hexStep, hexVal_digit m hm]
  | digit m k hk hm ih =>
    rw [← Nat.toDigits_append_toDigits (by decide) hm hk, List.map_append, List.foldl_append, ih,
      Nat.toDigits_of_lt_base hk]
    simp only [List.map_cons, List.map_nil, List.foldl_cons, List.foldl_nil, hexStep, hexVal_digit k hk]
    congr 1
    omega

theorem fold_zeros (k : Nat) : (List.replicate k '0').foldl hexStep (some 0) = some 0 := by
  induction k with
  | zero => rfl
  | succ k ih =>
    rw [List.replicate_succ, List.foldl_cons]
    have : hexStep (some 0) '0' = some 0 := by decide
    rw [this, ih]

theorem toHex_ne_nil (n : Nat) : toHex n ≠ [] := by
  unfold toHex
  intro h
  exact Nat.toDigits_ne_nil (List.map_eq_nil_iff.1 h)

/-- `{:X}` round trip. -/
theorem parseHex_toHex (n : Nat) : parseHex (toHex n) = some n := by
  rw [parseHex_eq _ (toHex_ne_nil n), fold_toHex]

/-- `{:08X}` round trip. -/
theorem parseHex_toHex8 (n : Nat) : parseHex (toHex8 n) = some n := by
  have hne : toHex8 n ≠ [] := by
    unfold toHex8
    intro h
    exact toHex_ne_nil n (List.append_eq_nil_iff.1 h).2
  rw [parseHex_eq _ hne]
  unfold toHex8
  rw [List.foldl_append, fold_zeros, fold_toHex]

/-- **the literal is read back**: `0x%08X` of `v`, as an operand of the linker semantics, is `v`
(in a state where no symbol of that spelling has been assigned — GNU ld would not lex one). -/
theorem operand_fixed_vram (st : St) (v : Nat) (hno : lookupLast (c!"0x" ++ toHex8 v) st.syms = none) :
    operand st (c!"0x" ++ toHex8 v) = some v := by
  unfold operand
  have hdot : (c!"0x" ++ toHex8 v) ≠ c!"." := by
    intro h
    have := congrArg List.head? h
    simp at this
  simp only [hdot, if_false, hno]
  unfold literal stripPrefix?
  simp [parseHex_toHex8]

/-- a segment with `fixed_vram: v` asks for `0x%08X` of `v` (`C03.header_address`), and that
request evaluates to `v`. -/
theorem fixed_vram_request (cx : Ctx) (seg : Segment) (v : Nat) (h : seg.fixedVram = some v) (st : St)
    (hno : lookupLast (c!"0x" ++ toHex8 v) st.syms = none) :
    ∃ a, segAddr cx seg = some a ∧ operand st a = some v := by
  refine ⟨c!"0x" ++ toHex8 v, ?_, operand_fixed_vram st v hno⟩
  unfold segAddr
  simp [h]

end Slinky.C03
