import Props.Lemmas
namespace Slinky.C10
theorem placeholder : True := trivial
end Slinky.C10
