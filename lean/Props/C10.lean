/-
  C10 — vram classes: members overlay at the class start; end is the largest member end.
-/
import Props.Writer
import Props.C18
import Props.ImageClass
namespace Slinky.C10
open Slinky W

/-- **an emitted segment naming an undeclared class makes generation fail** … -/
theorem missing_class_is_an_error (cx : Ctx) (em : List Str) (seg : Segment) (c : Str)
    (hinc : shouldEmit cx.o seg.cond = true) (hc : seg.vramClass = some c)
    (hnone : findClass cx.d c = none) :
    addSegment cx em seg = .error (.err .missingVramClassForSegment) := by
  unfold addSegment classPart
  simp [hinc, hc, hnone]

/-- … and an excluded one does not. -/
theorem excluded_segment_is_silent (cx : Ctx) (em : List Str) (seg : Segment)
    (hexc : shouldEmit cx.o seg.cond = false) : addSegment cx em seg = .ok ([], em) := by
  unfold addSegment
  simp [hexc]

/-- **the class symbols are written once, before the first emitted member.** The first emitted
member of a class opens it: its start symbol — the `fixed_vram` literal, the `fixed_symbol`
text, or `0` followed by one `MAX` with the end symbol of every followed class — and its end
symbol `= 0`; the class is then recorded as emitted … -/
theorem first_member_opens (cx : Ctx) (em : List Str) (seg : Segment) (c : Str) (vc : VramClass)
    (hc : seg.vramClass = some c) (hf : findClass cx.d c = some vc) (hfirst : c ∉ em) :
    classPart cx em seg = .ok (classIntro cx c vc, em ++ [c]) ∧
    classIntro cx c vc =
      (match vc.fixedVram, vc.fixedSymbol with
       | some v, _ => [linkerSym (cx.d.settings.style.classStart c) (.hex8 v)]
       | none, some fs => [linkerSym (cx.d.settings.style.classStart c) (.sym fs)]
       | none, none => linkerSym (cx.d.settings.style.classStart c) (.hex8 0) ::
           (followedUsed cx vc).map (fun o => maxSelf (cx.d.settings.style.classStart c) (cx.d.settings.style.classEnd o)))
      ++ [linkerSym (cx.d.settings.style.classEnd c) (.hex8 0), .blank] := by
  constructor
  · unfold classPart
    simp [hc, hf, hfirst]
  · unfold classIntro
    cases vc.fixedVram <;> cases vc.fixedSymbol <;> rfl

/-- … and every later member finds it emitted and writes nothing for the class again. -/
theorem later_member_is_silent (cx : Ctx) (em : List Str) (seg : Segment) (c : Str) (vc : VramClass)
    (hc : seg.vramClass = some c) (hf : findClass cx.d c = some vc) (hseen : c ∈ em) :
    classPart cx em seg = .ok ([], em) := by
  unfold classPart
  simp [hc, hf, hseen]

/-- the list of opened classes only grows, and a class is in it afterwards iff it was before
or the segment is an emitted member of it. -/
theorem emitted_grows (cx : Ctx) (em em' : List Str) (seg : Segment) (ls : List Line)
    (h : addSegment cx em seg = .ok (ls, em')) :
    ∀ c, c ∈ em' ↔ c ∈ em ∨ (shouldEmit cx.o seg.cond = true ∧ seg.vramClass = some c) := by
  intro c
  unfold addSegment at h
  split at h
  · rename_i hx
    injection h with h
    simp only [Prod.mk.injEq] at h
    rw [← h.2]
    have : shouldEmit cx.o seg.cond = false := by
      cases hh : shouldEmit cx.o seg.cond
      · rfl
      · simp [hh] at hx
    simp [this]
  · rename_i hinc
    have hs : shouldEmit cx.o seg.cond = true := by
      cases hh : shouldEmit cx.o seg.cond
      · simp [hh] at hinc
      · rfl
    split at h
    · contradiction
    · rename_i cls em1 hcp
      split at h
      · contradiction
      · split at h
        · contradiction
        · injection h with h
          simp only [Prod.mk.injEq] at h
          rw [← h.2]
          unfold classPart at hcp
          split at hcp
          · rename_i hnone
            injection hcp with hcp
            simp only [Prod.mk.injEq] at hcp
            rw [← hcp.2]
            simp [hnone]
          · rename_i cn hsome
            split at hcp
            · contradiction
            · split at hcp
              · rename_i hin
                injection hcp with hcp
                simp only [Prod.mk.injEq] at hcp
                rw [← hcp.2]
                simp only [hs, hsome, true_and, Option.some.injEq]
                constructor
                · intro h1; exact Or.inl h1
                · rintro (h1 | h1)
                  · exact h1
                  · subst h1; exact hin
              · injection hcp with hcp
                simp only [Prod.mk.injEq] at hcp
                rw [← hcp.2]
                simp only [hs, hsome, true_and, Option.some.injEq, List.mem_append, List.mem_cons, List.mem_nil_iff, or_false]
                constructor
                · rintro (h1 | h1)
                  · exact Or.inl h1
                  · exact Or.inr h1.symm
                · rintro (h1 | h1)
                  · exact Or.inl h1
                  · exact Or.inr h1.symm

/-- **every member segment starts at the class start and pushes the class end**: its header
address is the class start symbol, and after it `END = MAX(END, <seg>_VRAM_END)` is written. -/
theorem member_statements (cx : Ctx) (seg : Segment) (c : Str) (hc : seg.vramClass = some c)
    (h1 : seg.fixedVram = none) (h2 : seg.fixedSymbol = none) (h3 : seg.followsSegment = none)
    (cls alloc noload : List Line) :
    segAddr cx seg = some (cx.d.settings.style.classStart c) ∧
    maxSelf (cx.d.settings.style.classEnd c) (cx.d.settings.style.segVramEnd seg.name)
      ∈ segmentLines cx seg cls alloc noload := by
  constructor
  · simp [segAddr, h1, h2, h3, hc]
  · simp [segmentLines, hc]

/-- **one size symbol per opened class, and none for the others.** The size lines that
`end_sections` writes first (see `C18.tail`) are exactly `SIZE = END - START` for every
declared class that was opened, once each, in declaration order. -/
theorem class_sizes (cx : Ctx) (em : List Str) :
    C18.classSizes cx em =
      ((dedup (cx.d.vramClasses.map (·.name))).filter (· ∈ em)).map (fun n =>
        linkerSym (cx.d.settings.style.classSize n)
          (.sub (cx.d.settings.style.classEnd n) (cx.d.settings.style.classStart n))) ∧
    (∀ n, n ∈ (dedup (cx.d.vramClasses.map (·.name))).filter (· ∈ em) ↔
        (∃ vc ∈ cx.d.vramClasses, vc.name = n) ∧ n ∈ em) ∧
    ((dedup (cx.d.vramClasses.map (·.name))).filter (· ∈ em)).Nodup := by
  refine ⟨rfl, ?_, ?_⟩
  · intro n
    simp only [List.mem_filter, mem_dedup, List.mem_map, decide_eq_true_eq]
  · exact List.Nodup.sublist List.filter_sublist (nodup_dedup _)


/-! ### in the linked image (the linker semantics `Slinkyv.Ld`) -/

open Ld in
/-- **C10, image clause for the class start**: linking the class prologue (written in front of
the first emitted member) leaves in the class start symbol the `fixed_vram` value, the value of
the `fixed_symbol`, or the largest value among the end symbols of the classes it follows, and
0 in the class end symbol. -/
theorem image_class_prologue (objs : List InSec) (cx : Ctx) (cname : Str) (vc : VramClass)
    (st : St) (ho : Outside st) (ev : Str → Nat) (k : List Line)
    (hfs : ∀ fs, vc.fixedVram = none → vc.fixedSymbol = some fs → lookupLast fs st.syms = some (.num (ev fs)))
    (hfo : vc.fixedVram = none → vc.fixedSymbol = none → ∀ o ∈ followedUsed cx vc,
      lookupLast (cx.d.settings.style.classEnd o) st.syms = some (.num (ev (cx.d.settings.style.classEnd o)))) :
    lookupLast (cx.d.settings.style.classEnd cname) (execK objs st (classIntro cx cname vc) k).syms = some (.num 0) ∧
    lookupLast (cx.d.settings.style.classStart cname) (execK objs st (classIntro cx cname vc) k).syms = some (.num
      (match vc.fixedVram with
       | some v => v
       | none => match vc.fixedSymbol with
         | some fs => ev fs
         | none => ((followedUsed cx vc).map cx.d.settings.style.classEnd).foldl (fun m o => max m (ev o)) 0)) := by
  have h := class_intro_image objs cx cname vc st ho ev k hfs hfo
  exact ⟨h.2.2.2.1, h.2.2.2.2⟩

open Ld in
/-- **C10, image clause "every member segment starts at the class start"**. -/
theorem image_member_starts_at_class_start (objs : List InSec) (cx : Ctx) (seg : Segment) (alloc noload : List Line) (c : Str)
    (hc : segAddr cx seg = some (cx.d.settings.style.classStart c))
    (ha : writeSegment cx seg seg.allocSections false = .ok alloc)
    (hn : writeSegment cx seg seg.noloadSections true = .ok noload)
    (hne : seg.allocSections ≠ []) (hsy : cx.emitSecSyms = true)
    (st : St) (ho : Outside st) (r : Nat) (hr : lookupLast Ld.romPos st.syms = some (.num r))
    (v : Nat) (hv : lookupLast (cx.d.settings.style.classStart c) st.syms = some (.num v)) (k : List Line) :
    ∃ (aE al : Nat) (lmaV : Option Nat),
      (⟨c!"." ++ seg.name, v, aE - v, lmaV, false, al⟩ : OutSec) ∈ (execK objs st (segmentLines cx seg [] alloc noload) k).secs :=
  member_starts_at_class objs cx seg alloc noload c hc ha hn hne hsy st ho r hr v hv k

open Ld in
/-- **C10, image clause for the class end**: behind each emitted member the class end symbol
is the maximum of its previous value and the member's VRAM end — over all members, the largest
VRAM end. -/
theorem image_class_end_accumulates (objs : List InSec) (cx : Ctx) (seg : Segment) (c : Str) (hc : seg.vramClass = some c)
    (st : St) (ho : Outside st) (r0 : Nat) (hr : lookupLast Ld.romPos st.syms = some (.num r0))
    (e0 : Nat) (he : lookupLast (cx.d.settings.style.classEnd c) st.syms = some (.num e0)) (k : List Line) :
    lookupLast (cx.d.settings.style.classEnd c) (execK objs st (segTail cx seg) k).syms
      = some (.num (max e0 (alignO seg.segmentEndAlign st.dot))) :=
  tail_class_end objs cx seg c hc st ho r0 hr e0 he k

/-- **only classes in use are followed in the script**: the `MAX` statements of a follower name
the end symbol of exactly those followed classes that some emitted segment of the document
uses — a class without emitted members has no symbols, and none is referred to (`760ecab`). -/
theorem mem_followedUsed (cx : Ctx) (vc : VramClass) (other : Str) :
    other ∈ followedUsed cx vc ↔
      other ∈ vc.followsClasses ∧ ∃ s ∈ cx.d.segments, s.vramClass = some other ∧ shouldEmit cx.o s.cond = true := by
  unfold followedUsed
  simp only [List.mem_filter, List.any_eq_true, Bool.and_eq_true, decide_eq_true_eq]


end Slinky.C10
