/-
  C03, the output-section header and the address it carries — tied to the source text
  (lean/Src/Formats.lean, regenerated from linker_writer.rs on every run): the header line is put
  together from the literals of `write_segment_start` in the order and under the conditions of the
  code (`fixed_vram`, else `fixed_symbol`, else `follows_segment`, else `vram_class`).
-/
import Src.Formats
import Props.C03
namespace Slinky.C03

/-- `write_segment_start`'s `line`, assembled from the source's templates. -/
def srcHeader (st : Style) (seg : Segment) (noload : Bool) : Str :=
  fmt Src.lw__write_segment_start_2
      [.s seg.name, .s (if noload then fmt Src.lw__write_segment_start_0 [] else fmt Src.lw__write_segment_start_1 [])]
  ++ (if noload then fmt Src.lw__write_segment_start_3 []
      else
        (match seg.fixedVram with
         | some v => fmt Src.lw__write_segment_start_4 [.n v]
         | none =>
           match seg.fixedSymbol with
           | some s => fmt Src.lw__write_segment_start_5 [.s s]
           | none =>
             match seg.followsSegment with
             | some f => fmt Src.lw__write_segment_start_6 [.s (st.segVramEnd f)]
             | none =>
               match seg.vramClass with
               | some c => fmt Src.lw__write_segment_start_7 [.s (st.classStart c)]
               | none => [])
        ++ fmt Src.lw__write_segment_start_8 [.s (st.segRomStart seg.name)])
  ++ (match seg.subalign with | some k => fmt Src.lw__write_segment_start_9 [.n k] | none => [])

/-- the header line of the model. -/
def modelHeader (cx : Ctx) (seg : Segment) (noload : Bool) : Line :=
  if noload then .outHdr (c!"." ++ seg.name ++ c!".noload") true none none seg.subalign
  else .outHdr (c!"." ++ seg.name) false (segAddr cx seg) (some (cx.d.settings.style.segRomStart seg.name)) seg.subalign

theorem segmentStart_header (cx : Ctx) (seg : Segment) (noload : Bool) :
    segmentStart cx seg noload = kindStart cx seg noload ++ [modelHeader cx seg noload, .blockOpen] := rfl

theorem header_src (cx : Ctx) (seg : Segment) (noload : Bool) :
    (modelHeader cx seg noload).renderBody = srcHeader cx.d.settings.style seg noload := by
  unfold modelHeader srcHeader segAddr
  cases noload <;> cases seg.subalign <;> cases seg.fixedVram <;> cases seg.fixedSymbol <;> cases seg.followsSegment
    <;> cases seg.vramClass <;>
    simp [Line.renderBody, fmt, Src.lw__write_segment_start_0, Src.lw__write_segment_start_1, Src.lw__write_segment_start_2,
      Src.lw__write_segment_start_3, Src.lw__write_segment_start_4, Src.lw__write_segment_start_5,
      Src.lw__write_segment_start_6, Src.lw__write_segment_start_7, Src.lw__write_segment_start_8,
      Src.lw__write_segment_start_9]

/-- `<seg>_VRAM = ADDR(.<seg>)`. -/
theorem vram_start_src (sym name : Str) :
    (linkerSym sym (.addr (c!"." ++ name))).renderBody
      = fmt Src.sb__write_symbol_assignment_3 [.s sym, .s (fmt Src.lw__add_segment_6 [.s name])] := by
  simp [linkerSym, Line.renderBody, Expr.render, fmt, Src.sb__write_symbol_assignment_3, Src.lw__add_segment_6]

/-- `. = 0x%08X;` of single-segment mode. -/
theorem single_segment_start_src (v : Nat) :
    (Line.assign c!"." (.hex8 v) false false false).renderBody = fmt Src.lw__add_single_segment_2 [.n v] := by
  simp [Line.renderBody, Expr.render, fmt, Src.lw__add_single_segment_2]

/-- the header of an output section in single-segment mode. -/
theorem single_segment_header_src (sec : Str) (noload : Bool) (sub : Option Nat) :
    (Line.outHdr sec noload none none sub).renderBody
      = fmt Src.lw__write_single_segment_0
          [.s sec, .s (if noload then fmt Src.lw__write_single_segment_1 [] else fmt Src.lw__write_single_segment_2 [])]
        ++ (match sub with | some k => fmt Src.lw__write_single_segment_3 [.n k] | none => []) := by
  cases noload <;> cases sub <;>
    simp [Line.renderBody, fmt, Src.lw__write_single_segment_0, Src.lw__write_single_segment_1,
      Src.lw__write_single_segment_2, Src.lw__write_single_segment_3]

theorem counts_src : Src.lw__write_segment_start_count = 10 ∧ Src.lw__write_single_segment_count = 5
    ∧ Src.lw__add_segment_count = 12 := by decide

end Slinky.C03
