/-
  C10 in the image `Ld.link` returns: every emitted member of a vram class with `fixed_vram: v` is recorded
  at `v`, and the class start symbol is `v` — for the whole ordinary script of a document.

  The class start symbol of such a class is assigned once (`<class start> = 0x%08X;` in front of the first
  emitted member). `class_start_kept` carries "the class has been introduced, and its start symbol holds `v`"
  through the fold over the segments; the member itself is `segment_sym_addr` (a later member: its own
  statements do not assign the symbol) or `member_starts_at_class` behind the prologue (the first member).
-/
import Props.C05Final
import Props.C10
namespace Slinky.C10
open Slinky W Ld

/-- the prologue of a class assigns its start symbol. -/
theorem classIntro_assigns (cx : Ctx) (c : Str) (vc : VramClass) :
    1 ≤ assignCount (cx.d.settings.style.classStart c) (classIntro cx c vc) := by
  have hne : cx.d.settings.style.classStart c ≠ c!"." := endsOk_ne_dot _ (classStart_ok _ _)
  unfold classIntro
  cases vc.fixedVram with
  | some v =>
    exact assignCount_pos (l := linkerSym (cx.d.settings.style.classStart c) (.hex8 v)) (by simp)
      (Slinky.C04.symOf_linkerSym _ _ hne)
  | none =>
    cases vc.fixedSymbol with
    | some fs =>
      exact assignCount_pos (l := linkerSym (cx.d.settings.style.classStart c) (.sym fs)) (by simp)
        (Slinky.C04.symOf_linkerSym _ _ hne)
    | none =>
      exact assignCount_pos (l := linkerSym (cx.d.settings.style.classStart c) (.hex8 0)) (by simp)
        (Slinky.C04.symOf_linkerSym _ _ hne)

theorem segmentLines_cls (cx : Ctx) (seg : Segment) (cls alloc noload : List Line) :
    segmentLines cx seg cls alloc noload = cls ++ segmentLines cx seg [] alloc noload := by
  unfold segmentLines
  simp [List.append_assoc]

/-- what `add_segment` does, by cases: nothing (excluded), or the statements of the segment behind a class
prologue that is empty (no class, or a class introduced before) or the prologue of a class introduced here. -/
def AddSegCases (cx : Ctx) (em : List Str) (seg : Segment) (a : List Line) (em1 : List Str) : Prop :=
  (shouldEmit cx.o seg.cond = false ∧ a = [] ∧ em1 = em) ∨
  (shouldEmit cx.o seg.cond = true ∧ ∃ cls alloc noload, a = segmentLines cx seg cls alloc noload ∧
    writeSegment cx seg seg.allocSections false = .ok alloc ∧ writeSegment cx seg seg.noloadSections true = .ok noload ∧
    ((cls = [] ∧ em1 = em) ∨
     (∃ cname vc', seg.vramClass = some cname ∧ findClass cx.d cname = some vc' ∧ cname ∉ em ∧
        cls = classIntro cx cname vc' ∧ em1 = em ++ [cname])))

theorem classPart_cases (cx : Ctx) (em : List Str) (seg : Segment) (cls : List Line) (em3 : List Str)
    (hcp : classPart cx em seg = .ok (cls, em3)) :
    (cls = [] ∧ em3 = em) ∨
     (∃ cname vc', seg.vramClass = some cname ∧ findClass cx.d cname = some vc' ∧ cname ∉ em ∧
        cls = classIntro cx cname vc' ∧ em3 = em ++ [cname]) := by
  unfold classPart at hcp
  split at hcp
  · injection hcp with hcp; simp only [Prod.mk.injEq] at hcp; obtain ⟨rfl, rfl⟩ := hcp
    exact Or.inl ⟨rfl, rfl⟩
  · rename_i cname hcn
    split at hcp
    · contradiction
    · rename_i vc' hfind'
      split at hcp
      · injection hcp with hcp; simp only [Prod.mk.injEq] at hcp; obtain ⟨rfl, rfl⟩ := hcp
        exact Or.inl ⟨rfl, rfl⟩
      · rename_i hnew
        injection hcp with hcp; simp only [Prod.mk.injEq] at hcp; obtain ⟨rfl, rfl⟩ := hcp
        exact Or.inr ⟨cname, vc', hcn, hfind', hnew, rfl, rfl⟩

theorem addSegment_cases (cx : Ctx) (em : List Str) (seg : Segment) (a : List Line) (em1 : List Str)
    (h : addSegment cx em seg = .ok (a, em1)) : AddSegCases cx em seg a em1 := by
  unfold addSegment at h
  split at h
  · rename_i hx
    injection h with h
    simp only [Prod.mk.injEq] at h
    obtain ⟨rfl, rfl⟩ := h
    have hex : shouldEmit cx.o seg.cond = false := by
      cases hh : shouldEmit cx.o seg.cond
      · rfl
      · simp [hh] at hx
    exact Or.inl ⟨hex, rfl, rfl⟩
  · rename_i hinc
    have hem : shouldEmit cx.o seg.cond = true := by
      cases hh : shouldEmit cx.o seg.cond
      · simp [hh] at hinc
      · rfl
    split at h
    · contradiction
    · rename_i cls em3 hcp
      split at h
      · contradiction
      · rename_i alloc halloc
        split at h
        · contradiction
        · rename_i noload hnoload
          injection h with h
          simp only [Prod.mk.injEq] at h
          obtain ⟨rfl, rfl⟩ := h
          exact Or.inr ⟨hem, cls, alloc, noload, rfl, halloc, hnoload, classPart_cases cx em seg cls em3 hcp⟩

/-- one segment: the class start symbol of a class with `fixed_vram: v` that has been introduced holds `v`. -/
theorem class_start_step (objs : List InSec) (cx : Ctx) (c : Str) (vc : VramClass) (v : Nat)
    (hfind : findClass cx.d c = some vc) (hfv : vc.fixedVram = some v)
    (em : List Str) (seg : Segment) (a : List Line) (em1 : List Str) (hadd : addSegment cx em seg = .ok (a, em1))
    (st : St) (ho : Outside st) (k : List Line)
    (hinv : c ∈ em → lookupLast (cx.d.settings.style.classStart c) st.syms = some (.num v))
    (hc1 : assignCount (cx.d.settings.style.classStart c) a ≤ 1)
    (hc0 : c ∈ em → assignCount (cx.d.settings.style.classStart c) a = 0) :
    (c ∈ em1 → lookupLast (cx.d.settings.style.classStart c) (execK objs st a k).syms = some (.num v)) ∧
    (c ∈ em1 → c ∉ em → 1 ≤ assignCount (cx.d.settings.style.classStart c) a) := by
  rcases addSegment_cases cx em seg a em1 hadd with ⟨_, rfl, rfl⟩ | ⟨_, cls, alloc, noload, rfl, _, _, hcl⟩
  · exact ⟨fun hm => by simpa [execK] using hinv hm, fun hm hn => absurd hm hn⟩
  · rcases hcl with ⟨rfl, rfl⟩ | ⟨cname, vc', hcn, hfind', hnew, rfl, rfl⟩
    · refine ⟨fun hm => ?_, fun hm hn => absurd hm hn⟩
      rw [execK_keeps_count objs _ _ st k (hc0 hm)]
      exact hinv hm
    · by_cases hold : c ∈ em
      · refine ⟨fun _ => ?_, fun _ hn => absurd hold hn⟩
        rw [execK_keeps_count objs _ _ st k (hc0 hold)]
        exact hinv hold
      · by_cases hce : cname = c
        · rw [hce] at hfind' hc1 ⊢
          rw [hfind] at hfind'
          have hvc : vc = vc' := Option.some.inj hfind'
          rw [← hvc] at hc1 ⊢
          have hA := classIntro_assigns cx c vc
          rw [segmentLines_cls, assignCount_append] at hc1
          refine ⟨fun _ => ?_, fun _ _ => ?_⟩
          · rw [segmentLines_cls, execK_append]
            obtain ⟨_, _, _, _, hval⟩ := class_intro_image objs cx c vc st ho (fun _ => 0)
              (segmentLines cx seg [] alloc noload ++ k)
              (by intro fs h1; rw [hfv] at h1; cases h1) (by intro h1; rw [hfv] at h1; cases h1)
            rw [hfv] at hval
            rw [execK_keeps_count objs _ _ _ k (by omega)]
            exact hval
          · rw [segmentLines_cls, assignCount_append]; omega
        · have hnot : c ∉ em ++ [cname] := by
            intro hm
            rcases List.mem_append.1 hm with h1 | h1
            · exact hold h1
            · exact hce (List.mem_singleton.1 h1).symm
          exact ⟨fun hm => absurd hm hnot, fun hm _ => absurd hm hnot⟩

/-- **behind any number of segments a class with `fixed_vram: v` that has been introduced holds `v` in its
start symbol** — when the statements of these segments assign that symbol at most once, and not at all if the
class was introduced before them. -/
theorem class_start_kept (objs : List InSec) (cx : Ctx) (hsy : cx.emitSecSyms = true) (c : Str) (vc : VramClass) (v : Nat)
    (hfind : findClass cx.d c = some vc) (hfv : vc.fixedVram = some v) :
    ∀ (segs : List Segment) (em : List Str) (ls : List Line) (em' : List Str)
      (_ : addSegments cx em segs = .ok (ls, em'))
      (_ : ∀ s ∈ segs, shouldEmit cx.o s.cond = true → s.allocSections ≠ [])
      (st : St) (_ : Outside st) (r : Nat) (_ : lookupLast Ld.romPos st.syms = some (.num r)) (k : List Line)
      (_ : c ∈ em → lookupLast (cx.d.settings.style.classStart c) st.syms = some (.num v))
      (_ : assignCount (cx.d.settings.style.classStart c) ls ≤ 1)
      (_ : c ∈ em → assignCount (cx.d.settings.style.classStart c) ls = 0),
      ∃ (st' : St) (r' : Nat), st' = execK objs st ls k ∧ Outside st' ∧ lookupLast Ld.romPos st'.syms = some (.num r') ∧
        (c ∈ em' → lookupLast (cx.d.settings.style.classStart c) st'.syms = some (.num v)) ∧
        (c ∈ em' → c ∉ em → 1 ≤ assignCount (cx.d.settings.style.classStart c) ls) := by
  intro segs
  induction segs with
  | nil =>
    intro em ls em' h _ st ho r hr k hinv _ _
    simp only [addSegments] at h
    injection h with h
    simp only [Prod.mk.injEq] at h
    obtain ⟨rfl, rfl⟩ := h
    exact ⟨st, r, rfl, ho, hr, hinv, fun hm hn => absurd hm hn⟩
  | cons seg rest ih =>
    intro em ls em' h hall st ho r hr k hinv hc1 hc0
    simp only [addSegments] at h
    split at h
    · contradiction
    · rename_i a em1 hadd
      split at h
      · contradiction
      · rename_i b em2 hrest
        injection h with h
        simp only [Prod.mk.injEq] at h
        obtain ⟨rfl, rfl⟩ := h
        rw [assignCount_append] at hc1 hc0
        rw [execK_append]
        obtain ⟨_, st1, r1, e1, o1, hr1, _, _⟩ := C03.segments_vram_end objs cx hsy [seg] em a em1
          (by simp only [addSegments, hadd, List.append_nil])
          (fun s hs => hall s (by rw [List.mem_singleton.1 hs]; exact List.mem_cons_self)) st ho r hr (b ++ k)
        obtain ⟨hinv1, hfirst⟩ := class_start_step objs cx c vc v hfind hfv em seg a em1 hadd st ho (b ++ k) hinv (by omega)
          (fun hm => by have := hc0 hm; omega)
        rw [← e1] at hinv1 ⊢
        by_cases hin1 : c ∈ em1
        · have hb0 : assignCount (cx.d.settings.style.classStart c) b = 0 := by
            by_cases hold : c ∈ em
            · have := hc0 hold; omega
            · have := hfirst hin1 hold; omega
          obtain ⟨st', r', e', o', hr', hi', _⟩ := ih em1 b em2 hrest (fun s hs => hall s (List.mem_cons_of_mem _ hs)) st1 o1 r1 hr1 k hinv1
            (by omega) (fun _ => hb0)
          refine ⟨st', r', e', o', hr', hi', fun _ hn => ?_⟩
          have := hfirst hin1 hn
          rw [assignCount_append]; omega
        · obtain ⟨st', r', e', o', hr', hi', hcnt'⟩ := ih em1 b em2 hrest (fun s hs => hall s (List.mem_cons_of_mem _ hs)) st1 o1 r1 hr1 k hinv1
            (by omega) (fun hm => absurd hm hin1)
          refine ⟨st', r', e', o', hr', hi', fun hm _ => ?_⟩
          have := hcnt' hm hin1
          rw [assignCount_append]; omega

theorem classPart_of_class (cx : Ctx) (em : List Str) (seg : Segment) (c : Str) (vcl : VramClass)
    (hcl : seg.vramClass = some c) (hfind : findClass cx.d c = some vcl) :
    classPart cx em seg = .ok (if c ∈ em then ([], em) else (classIntro cx c vcl, em ++ [c])) := by
  unfold classPart
  simp only [hcl, hfind]
  split <;> rfl

/-- **C10 in the linked image, for the whole ordinary script of a document: the members of a class with
`fixed_vram`.** For every document in multi-segment mode whose emitted segments have an allocatable section, every
option set, object table and `--defsym` table: an emitted segment placed by its `vram_class` alone, the class having
`fixed_vram: v` and its start symbol being assigned once in the script, has its output section `.<segment>` recorded
at `v` in the image `Ld.link` computes, and the class start symbol is `v` there — whether the segment is the first
emitted member of the class (the prologue stands in front of it) or a later one. -/
theorem final_class_fixed_vram (objs : List InSec) (d : Document) (o : Opts) (vc : Bool) (script : List Line)
    (hmulti : d.settings.singleSegmentMode = false)
    (h : generateNormal d o vc = .ok script)
    (hall : ∀ s ∈ d.segments, shouldEmit o s.cond = true → s.allocSections ≠ [])
    (defsyms : List (Str × Nat))
    (pre post : List Segment) (seg : Segment) (hsplit : d.segments = pre ++ seg :: post)
    (hinc : shouldEmit o seg.cond = true)
    (c : Str) (vcl : VramClass) (v : Nat)
    (hfv : seg.fixedVram = none) (hfs : seg.fixedSymbol = none) (hfol : seg.followsSegment = none) (hcl : seg.vramClass = some c)
    (hfind : findClass d c = some vcl) (hcv : vcl.fixedVram = some v)
    (hcnt : assignCount (d.settings.style.classStart c) script ≤ 1) :
    ∃ os ∈ (link objs defsyms script).secs, os.name = c!"." ++ seg.name ∧ os.noload = false ∧ os.addr = v ∧
      (link objs defsyms script).sym (d.settings.style.classStart c) = some v := by
  unfold generateNormal at h
  split at h
  · contradiction
  · rename_i body hbody
    injection h with h
    subst h
    unfold addAllSegments at hbody
    simp only [hmulti, Bool.false_eq_true, if_false] at hbody
    split at hbody
    · contradiction
    · rename_i ls emitted hsegs
      injection hbody with hbody
      subst hbody
      generalize hcx : ({ d := d, o := o } : Ctx) = cx at *
      have hd : cx.d = d := by rw [← hcx]
      have ho' : cx.o = o := by rw [← hcx]
      have hsy : cx.emitSecSyms = true := by rw [← hcx]
      rw [hsplit] at hsegs
      obtain ⟨lsPre, em1, lsSeg, em2, lsPost, hpre, hseg, hpost, rfl⟩ := C03.addSegments_split cx pre seg post [] ls emitted hsegs
      have hallc : ∀ s ∈ pre ++ seg :: post, shouldEmit cx.o s.cond = true → s.allocSections ≠ [] := by
        rw [ho', ← hsplit]; exact hall
      generalize hT : endSections cx emitted ++ topLevel d o = T
      have hform : versionComment vc ++ (beginSections cx ++ (lsPre ++ (lsSeg ++ lsPost)) ++ endSections cx emitted) ++ topLevel d o
          = versionComment vc ++ (beginSections cx ++ (lsPre ++ (lsSeg ++ (lsPost ++ T)))) := by
        rw [← hT]; simp [List.append_assoc]
      rw [hform] at hcnt ⊢
      have hb0 : ∀ n, assignCount n (versionComment vc) = 0 := fun n => Slinky.C04.assignCount_quiet n _ (Slinky.C04.versionComment_quiet vc)
      simp only [assignCount_append, hb0] at hcnt
      rw [← hd] at hcnt hfind ⊢
      generalize hcs : cx.d.settings.style.classStart c = cs at *
      have hcsdot : cs ≠ c!"." := by rw [← hcs]; exact endsOk_ne_dot _ (classStart_ok _ _)
      have hcsrom : cs ≠ romPos := by rw [← hcs]; exact ne_romPos (classStart_ok _ _)
      rw [link_eq]
      generalize carry _ = S0
      rw [execK_append, Slinky.C04.execK_quiet objs _ (Slinky.C04.versionComment_quiet vc)]
      rw [execK_append, execK_append, execK_append]
      have hb : ∃ st1, st1 = execK objs { syms := S0 } (beginSections cx) (lsPre ++ (lsSeg ++ (lsPost ++ T)) ++ []) ∧ Outside st1 ∧
          lookupLast Ld.romPos st1.syms = some (.num 0) := by
        refine ⟨_, rfl, ?_, ?_⟩
        · unfold beginSections
          cases cx.d.settings.hardcodedGpValue <;> simp [execK, step, setSym] <;> exact ⟨rfl, rfl⟩
        · unfold beginSections
          cases cx.d.settings.hardcodedGpValue <;> simp [execK, step, setSym, eval, lookupLast_snoc, lookupLast_snoc2, Ld.romPos]
      obtain ⟨st1, e1, o1, r1⟩ := hb
      rw [← e1]
      -- the segments in front
      obtain ⟨st2, r2, e2, o2, hr2, hinv2, hcnt2⟩ := class_start_kept objs cx hsy c vcl v hfind hcv pre [] lsPre em1 hpre
        (fun s hs => hallc s (List.mem_append_left _ hs)) st1 o1 0 r1 (lsSeg ++ (lsPost ++ T) ++ [])
        (fun hm => nomatch hm) (by rw [hcs]; omega) (fun hm => nomatch hm)
      rw [hcs] at hinv2 hcnt2
      rw [← e2]
      -- the segment itself: the class start symbol holds `v` behind it
      obtain ⟨hval3, hfirst3⟩ := class_start_step objs cx c vcl v hfind hcv em1 seg lsSeg em2 hseg st2 o2 (lsPost ++ T ++ [])
        (by rw [hcs]; exact hinv2) (by rw [hcs]; omega)
        (fun hm => by rw [hcs]; have := hcnt2 hm (fun h => nomatch h); omega)
      rw [hcs] at hval3 hfirst3
      have hsa : segAddr cx seg = some cs := by
        unfold segAddr; simp [hfv, hfs, hfol, hcl, hcs]
      have hincx : shouldEmit cx.o seg.cond = true := by rw [ho']; exact hinc
      have hne := hallc seg (List.mem_append_right _ List.mem_cons_self) hincx
      have hem2 : c ∈ em2 ∧ ∃ os ∈ (execK objs st2 lsSeg (lsPost ++ T ++ [])).secs, os.name = c!"." ++ seg.name ∧ os.addr = v ∧ os.noload = false := by
        by_cases hin1 : c ∈ em1
        · -- a later member: its own statements do not assign the class start symbol
          have h0 : assignCount cs lsSeg = 0 := by have := hcnt2 hin1 (fun h => nomatch h); omega
          have hmem : c ∈ em2 := by
            unfold addSegment at hseg
            simp only [hincx, Bool.not_true, Bool.false_eq_true, if_false, classPart_of_class cx em1 seg c vcl hcl hfind, hin1, if_true] at hseg
            split at hseg
            · contradiction
            · split at hseg
              · contradiction
              · injection hseg with hseg
                simp only [Prod.mk.injEq] at hseg
                rw [← hseg.2]; exact hin1
          exact ⟨hmem, C03.segment_sym_addr objs cx hsy em1 seg lsSeg em2 hseg hincx hne st2 o2 r2 hr2 (lsPost ++ T ++ []) cs hsa hcsdot hcsrom
            v (hinv2 hin1) h0⟩
        · -- the first emitted member: the prologue stands in front of it
          unfold addSegment at hseg
          simp only [hincx, Bool.not_true, Bool.false_eq_true, if_false, classPart_of_class cx em1 seg c vcl hcl hfind, hin1, if_false] at hseg
          split at hseg
          · contradiction
          · rename_i alloc halloc
            split at hseg
            · contradiction
            · rename_i noload hnoload
              injection hseg with hseg
              simp only [Prod.mk.injEq] at hseg
              obtain ⟨rfl, rfl⟩ := hseg
              refine ⟨by simp, ?_⟩
              rw [segmentLines_cls, execK_append]
              obtain ⟨o3, _, _, _, hval⟩ := class_intro_image objs cx c vcl st2 o2 (fun _ => 0)
                (segmentLines cx seg [] alloc noload ++ (lsPost ++ T ++ []))
                (by intro fs h1; rw [hcv] at h1; cases h1) (by intro h1; rw [hcv] at h1; cases h1)
              rw [hcv, hcs] at hval
              have hr3 := run_outer_keeps objs romPos (classIntro cx c vcl) (fun l hl => (classIntro_outer cx c vcl l hl).1)
                (fun l hl => (classIntro_outer cx c vcl l hl).2) st2 o2 (segmentLines cx seg [] alloc noload ++ (lsPost ++ T ++ []))
              obtain ⟨aE, al, lmaV, hsec⟩ := member_starts_at_class objs cx seg alloc noload c (by rw [hcs]; exact hsa) halloc hnoload hne hsy
                _ o3 r2 (hr3.trans hr2) v (by rw [hcs]; exact hval) (lsPost ++ T ++ [])
              exact ⟨_, hsec, rfl, rfl, rfl⟩
      obtain ⟨hmem2, os, hos, g1, g2, g3⟩ := hem2
      obtain ⟨extra, hxs⟩ := execK_secs objs (lsPost ++ T) (execK objs st2 lsSeg (lsPost ++ T ++ [])) []
      refine ⟨os, by simp only [imageOf]; rw [hxs]; exact List.mem_append_left _ hos, g1, g3, g2, ?_⟩
      have hrest0 : assignCount cs (lsPost ++ T) = 0 := by
        rw [assignCount_append]
        by_cases hin1 : c ∈ em1
        · have := hcnt2 hin1 (fun h => nomatch h); omega
        · have := hfirst3 hmem2 hin1; omega
      rw [imageOf_sym, execK_keeps_count objs cs (lsPost ++ T) _ [] hrest0, hval3 hmem2]
      rfl

/-! ### the hypotheses are met, and the conclusion is about real numbers -/

def exDocC : Document :=
  { vramClasses := [{ name := c!"ovl", fixedVram := some 0x80100000 }],
    segments := [
      { name := c!"boot", fixedVram := some 0x80000000, allocSections := [c!".text", c!".data"], noloadSections := [c!".bss"],
        files := [C04.exF c!"a.o"] },
      { name := c!"ovl_a", vramClass := some c!"ovl", allocSections := [c!".text", c!".data"], noloadSections := [c!".bss"],
        files := [C04.exF c!"b.o"] },
      { name := c!"ovl_b", vramClass := some c!"ovl", allocSections := [c!".text", c!".data"], noloadSections := [c!".bss"],
        files := [C04.exF c!"a.o"] }] }

/-- both members of the class `ovl` (`fixed_vram: 0x80100000`) are recorded at that address, the first behind the class
prologue and the second without one; the script assigns the class start symbol once. -/
example : (match generateNormal exDocC C04.exOpts false with
    | .ok script =>
      decide (assignCount c!"ovl_VRAM_CLASS_START" script = 1)
      && decide ((link C04.exObjs [] script).sym c!"ovl_VRAM_CLASS_START" = some 0x80100000)
      && (link C04.exObjs [] script).secs.any (fun os => os.name = c!".ovl_a" && os.addr = 0x80100000 && !os.noload)
      && (link C04.exObjs [] script).secs.any (fun os => os.name = c!".ovl_b" && os.addr = 0x80100000 && !os.noload)
    | .error _ => false) = true := by decide +kernel

end Slinky.C10
