/-
  C03 / C09 in the image `Ld.link` returns: the VRAM end symbol of every emitted segment.

  `segment_image` says that behind a segment its VRAM end symbol holds the location counter
  behind the noload part, rounded up to the segment end alignment.  `segments_vram_end` carries
  that through the later segments (`Ld.execK_keeps`), `final_vram_end` through the rest of the
  script and into the image: for every emitted segment there are `aS ≤ aE ≤ dN` with the output
  section `.<segment>` recorded at `[aS, aE)` and `<segment>_VRAM_END = ALIGN(dN, end alignment)`
  — so the VRAM end lies behind the allocatable part and is a multiple of the requested end
  alignment (`final_vram_end_aligned`), for every name the script assigns once.
-/
import Props.C04Partial
namespace Slinky.C03
open Slinky W Ld

/-- the VRAM end symbol is assigned among the statements of its segment. -/
theorem vramEnd_assigned (cx : Ctx) (seg : Segment) (cls alloc noload : List Line) :
    1 ≤ assignCount (cx.d.settings.style.segVramEnd seg.name) (segmentLines cx seg cls alloc noload) := by
  have hne : cx.d.settings.style.segVramEnd seg.name ≠ c!"." := endsOk_ne_dot _ (segVramEnd_ok _ _)
  apply assignCount_pos (l := linkerSym (cx.d.settings.style.segVramEnd seg.name) .dot)
  · rw [segmentLines_eq]; simp [segTail, symEndSize]
  · exact Slinky.C04.symOf_linkerSym _ _ hne

/-- what is known about one emitted segment behind all segments. -/
def VramFact (sty : Style) (ls : List Line) (st' : St) (z : Segment × Nat × Nat × Nat) : Prop :=
  z.2.1 ≤ z.2.2.1 ∧ z.2.2.1 ≤ z.2.2.2 ∧
  (∃ o ∈ st'.secs, o.name = c!"." ++ z.1.name ∧ o.addr = z.2.1 ∧ o.size = z.2.2.1 - z.2.1 ∧ o.noload = false) ∧
  (assignCount (sty.segVramEnd z.1.name) ls ≤ 1 →
    lookupLast (sty.segVramEnd z.1.name) st'.syms = some (.num (alignO z.1.segmentEndAlign z.2.2.2))) ∧
  1 ≤ assignCount (sty.segVramEnd z.1.name) ls

/-- **the VRAM end symbols behind all segments.** -/
theorem segments_vram_end (objs : List InSec) (cx : Ctx) (hsy : cx.emitSecSyms = true) :
    ∀ (segs : List Segment) (em : List Str) (ls : List Line) (em' : List Str)
      (_ : addSegments cx em segs = .ok (ls, em'))
      (_ : ∀ s ∈ segs, shouldEmit cx.o s.cond = true → s.allocSections ≠ [])
      (st : St) (_ : Outside st) (r : Nat) (_ : lookupLast Ld.romPos st.syms = some (.num r)) (k : List Line),
      ∃ (zs : List (Segment × Nat × Nat × Nat)) (st' : St) (r' : Nat),
        st' = execK objs st ls k ∧ Outside st' ∧ lookupLast Ld.romPos st'.syms = some (.num r') ∧
        zs.map (·.1) = segs.filter (fun s => shouldEmit cx.o s.cond) ∧
        ∀ z ∈ zs, VramFact cx.d.settings.style ls st' z := by
  intro segs
  induction segs with
  | nil =>
    intro em ls em' h _ st ho r hr k
    simp only [addSegments] at h
    injection h with h
    simp only [Prod.mk.injEq] at h
    obtain ⟨rfl, _⟩ := h
    exact ⟨[], st, r, rfl, ho, hr, rfl, fun _ h => nomatch h⟩
  | cons seg rest ih =>
    intro em ls em' h hall st ho r hr k
    simp only [addSegments] at h
    split at h
    · contradiction
    · rename_i a em1 hadd
      split at h
      · contradiction
      · rename_i b em2 hrest
        injection h with h
        simp only [Prod.mk.injEq] at h
        obtain ⟨rfl, _⟩ := h
        rw [execK_append]
        unfold addSegment at hadd
        split at hadd
        · rename_i hx
          injection hadd with hadd
          simp only [Prod.mk.injEq] at hadd
          obtain ⟨rfl, rfl⟩ := hadd
          have hex : shouldEmit cx.o seg.cond = false := by
            cases hh : shouldEmit cx.o seg.cond
            · rfl
            · simp [hh] at hx
          obtain ⟨zs, st', r', e, o, hr', hz, hf⟩ := ih _ _ _ hrest (fun s hs => hall s (List.mem_cons_of_mem _ hs)) st ho r hr k
          exact ⟨zs, st', r', by simpa [execK] using e, o, hr', by simp [List.filter_cons, hex, hz], by simpa using hf⟩
        · rename_i hinc
          have hem : shouldEmit cx.o seg.cond = true := by
            cases hh : shouldEmit cx.o seg.cond
            · simp [hh] at hinc
            · rfl
          split at hadd
          · contradiction
          · rename_i cls em3 hcp
            split at hadd
            · contradiction
            · rename_i alloc halloc
              split at hadd
              · contradiction
              · rename_i noload hnoload
                injection hadd with hadd
                simp only [Prod.mk.injEq] at hadd
                obtain ⟨rfl, rfl⟩ := hadd
                have hcls : ∀ l ∈ cls, OuterLine l ∧ symOf l ≠ some Ld.romPos := by
                  unfold classPart at hcp
                  split at hcp
                  · injection hcp with hcp; simp only [Prod.mk.injEq] at hcp; obtain ⟨rfl, _⟩ := hcp
                    intro l hl; cases hl
                  · split at hcp
                    · contradiction
                    · rename_i vc _
                      split at hcp
                      · injection hcp with hcp; simp only [Prod.mk.injEq] at hcp; obtain ⟨rfl, _⟩ := hcp
                        intro l hl; cases hl
                      · injection hcp with hcp; simp only [Prod.mk.injEq] at hcp; obtain ⟨rfl, _⟩ := hcp
                        exact classIntro_outer cx _ vc
                obtain ⟨aS, aE, al, dN, st1, lmaV, e1, o1, _, _, _, hle1, hle2, hdot, r1, _, hvend, hsec1, _⟩ :=
                  segment_image objs cx seg cls alloc noload hcls halloc hnoload
                    (hall seg List.mem_cons_self hem) hsy st ho r hr (b ++ k)
                obtain ⟨zs, st', r', e, o, hr', hz, hf⟩ := ih _ _ _ hrest (fun s hs => hall s (List.mem_cons_of_mem _ hs))
                  st1 o1 _ r1 k
                have hA := vramEnd_assigned cx seg cls alloc noload
                refine ⟨(seg, aS, aE, dN) :: zs, st', r', by rw [e, e1], o, hr', by simp [List.filter_cons, hem, hz], ?_⟩
                intro z hzm
                rcases List.mem_cons.1 hzm with rfl | hzm
                · unfold VramFact
                  dsimp only
                  refine ⟨hle1, hle2, ?_, ?_, ?_⟩
                  · obtain ⟨extra, hx⟩ := execK_secs objs b st1 k
                    exact ⟨_, by rw [e, hx]; exact List.mem_append_left _ hsec1, rfl, rfl, rfl, rfl⟩
                  · intro hc
                    rw [assignCount_append] at hc
                    rw [e, execK_keeps_count objs _ b st1 k (by omega), hvend, hdot]
                  · rw [assignCount_append]; omega
                · obtain ⟨f1, f2, f3, f4, f5⟩ := hf z hzm
                  refine ⟨f1, f2, f3, ?_, ?_⟩
                  · intro hc
                    rw [assignCount_append] at hc
                    exact f4 (by omega)
                  · rw [assignCount_append]; omega

/-- **C03 / C09 in the linked image, for the whole ordinary script: the VRAM end symbols.**
For every document in multi-segment mode whose emitted segments have an allocatable section,
every option set, object table and `--defsym` table: in the image `Ld.link` computes for the
generated script there are, for every emitted segment, numbers `aS ≤ aE ≤ dN` such that the
output section `.<segment>` is recorded at `aS` with size `aE - aS`, and — when the script
assigns the name once — the VRAM end symbol is `dN` rounded up to the segment end alignment. -/
theorem final_vram_end (objs : List InSec) (d : Document) (o : Opts) (vc : Bool) (script : List Line)
    (hmulti : d.settings.singleSegmentMode = false)
    (h : generateNormal d o vc = .ok script)
    (hall : ∀ s ∈ d.segments, shouldEmit o s.cond = true → s.allocSections ≠ [])
    (defsyms : List (Str × Nat)) :
    ∃ zs : List (Segment × Nat × Nat × Nat),
      zs.map (·.1) = d.segments.filter (fun s => shouldEmit o s.cond) ∧
      ∀ z ∈ zs, z.2.1 ≤ z.2.2.1 ∧ z.2.2.1 ≤ z.2.2.2 ∧
        (∃ os ∈ (link objs defsyms script).secs, os.name = c!"." ++ z.1.name ∧ os.addr = z.2.1 ∧ os.size = z.2.2.1 - z.2.1 ∧ os.noload = false) ∧
        (assignCount (d.settings.style.segVramEnd z.1.name) script ≤ 1 →
          (link objs defsyms script).sym (d.settings.style.segVramEnd z.1.name)
            = some (alignO z.1.segmentEndAlign z.2.2.2)) := by
  unfold generateNormal at h
  split at h
  · contradiction
  · rename_i body hbody
    injection h with h
    subst h
    unfold addAllSegments at hbody
    simp only [hmulti, Bool.false_eq_true, if_false] at hbody
    split at hbody
    · contradiction
    · rename_i ls emitted hsegs
      injection hbody with hbody
      subst hbody
      generalize hcx : ({ d := d, o := o } : Ctx) = cx at *
      have hd : cx.d = d := by rw [← hcx]
      have ho' : cx.o = o := by rw [← hcx]
      have hsy : cx.emitSecSyms = true := by rw [← hcx]
      generalize hT : endSections cx emitted ++ topLevel d o = T
      have hform : versionComment vc ++ (beginSections cx ++ ls ++ endSections cx emitted) ++ topLevel d o
          = versionComment vc ++ (beginSections cx ++ (ls ++ T)) := by rw [← hT]; simp [List.append_assoc]
      rw [hform, link_eq]
      generalize carry _ = S0
      rw [execK_append, Slinky.C04.execK_quiet objs _ (Slinky.C04.versionComment_quiet vc)]
      rw [execK_append, execK_append]
      have hb : ∃ st1, st1 = execK objs { syms := S0 } (beginSections cx) (ls ++ T ++ []) ∧ Outside st1 ∧
          lookupLast Ld.romPos st1.syms = some (.num 0) := by
        refine ⟨_, rfl, ?_, ?_⟩
        · unfold beginSections
          cases cx.d.settings.hardcodedGpValue <;> simp [execK, step, setSym] <;> exact ⟨rfl, rfl⟩
        · unfold beginSections
          cases cx.d.settings.hardcodedGpValue <;> simp [execK, step, setSym, eval, lookupLast_snoc, lookupLast_snoc2, Ld.romPos]
      obtain ⟨st1, e1, o1, r1⟩ := hb
      rw [← e1]
      obtain ⟨zs, st', r', e, _, _, hz, hf⟩ := segments_vram_end objs cx hsy d.segments [] ls emitted
        hsegs (by rw [ho']; exact hall) st1 o1 0 r1 (T ++ [])
      rw [← e]
      obtain ⟨extra, hx⟩ := execK_secs objs T st' []
      refine ⟨zs, by rw [hz, ho'], ?_⟩
      intro z hzm
      obtain ⟨f1, f2, ⟨os, hos, g1, g2, g3, g4⟩, f4, f5⟩ := hf z hzm
      rw [hd] at f4 f5
      refine ⟨f1, f2, ⟨os, by simp only [imageOf]; rw [hx]; exact List.mem_append_left _ hos, g1, g2, g3, g4⟩, ?_⟩
      intro hc
      have hb0 : ∀ n, assignCount n (versionComment vc) = 0 := fun n => Slinky.C04.assignCount_quiet n _ (Slinky.C04.versionComment_quiet vc)
      simp only [assignCount_append, hb0] at hc
      rw [imageOf_sym, execK_keeps_count objs _ T st' [] (by omega), f4 (by omega)]
      rfl

/-- hence the VRAM end is a multiple of the requested end alignment (the C09 clause), and lies
behind the end of the allocatable output section. -/
theorem final_vram_end_aligned (objs : List InSec) (d : Document) (o : Opts) (vc : Bool) (script : List Line)
    (hmulti : d.settings.singleSegmentMode = false)
    (h : generateNormal d o vc = .ok script)
    (hall : ∀ s ∈ d.segments, shouldEmit o s.cond = true → s.allocSections ≠ [])
    (defsyms : List (Str × Nat)) (seg : Segment) (hm : seg ∈ d.segments) (hinc : shouldEmit o seg.cond = true)
    (hc : assignCount (d.settings.style.segVramEnd seg.name) script ≤ 1) :
    ∃ (v : Nat) (os : OutSec), (link objs defsyms script).sym (d.settings.style.segVramEnd seg.name) = some v ∧
      os ∈ (link objs defsyms script).secs ∧ os.name = c!"." ++ seg.name ∧ os.noload = false ∧ os.addr + os.size ≤ v ∧
      ∀ a, seg.segmentEndAlign = some a → 1 ≤ a → a ∣ v := by
  obtain ⟨zs, hz, hf⟩ := final_vram_end objs d o vc script hmulti h hall defsyms
  have hmem : seg ∈ zs.map (·.1) := by rw [hz]; exact List.mem_filter.2 ⟨hm, by simpa using hinc⟩
  obtain ⟨z, hzm, rfl⟩ := List.mem_map.1 hmem
  obtain ⟨f1, f2, ⟨os, hos, g1, g2, g3, g4⟩, f4⟩ := hf z hzm
  refine ⟨_, os, f4 hc, hos, g1, g4, ?_, ?_⟩
  · rw [g2, g3]
    have : z.2.2.2 ≤ alignO z.1.segmentEndAlign z.2.2.2 := by
      unfold alignO; split
      · exact le_alignUp _ _
      · exact Nat.le_refl _
    omega
  · intro a ha h1
    unfold alignO
    rw [ha]
    exact alignUp_dvd' _ _ h1

end Slinky.C03
